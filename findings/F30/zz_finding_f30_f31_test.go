package checkpoint

import (
	"bytes"
	"context"
	"errors"
	"io"
	"math/rand"
	"os"
	"path/filepath"
	"testing"

	"github.com/oasisprotocol/oasis-core/go/common"
	"github.com/oasisprotocol/oasis-core/go/storage/mkvs"
	dbApi "github.com/oasisprotocol/oasis-core/go/storage/mkvs/db/api"
	"github.com/oasisprotocol/oasis-core/go/storage/mkvs/db/badger"
	"github.com/oasisprotocol/oasis-core/go/storage/mkvs/db/pathbadger"
	"github.com/oasisprotocol/oasis-core/go/storage/mkvs/node"
)

var soNs = common.NewTestNamespaceFromSeed([]byte("side obs C12r2"), 0)

func soSetup(t *testing.T, factory func(*dbApi.Config) (dbApi.NodeDB, error), n int, version uint64, typ node.RootType) (string, dbApi.NodeDB, node.Root, map[string][]byte) {
	ctx := context.Background()
	dir, err := os.MkdirTemp("", "sideobs")
	if err != nil {
		t.Fatal(err)
	}
	t.Cleanup(func() { os.RemoveAll(dir) })
	ndb, err := factory(&dbApi.Config{DB: filepath.Join(dir, "db1"), Namespace: soNs, MaxCacheSize: 16 << 20})
	if err != nil {
		t.Fatal(err)
	}
	t.Cleanup(ndb.Close)
	rnd := rand.New(rand.NewSource(99))
	entries := map[string][]byte{}
	tree := mkvs.New(nil, ndb, typ)
	for i := 0; i < n; i++ {
		k := make([]byte, 4+rnd.Intn(20))
		v := make([]byte, 1+rnd.Intn(40))
		rnd.Read(k)
		rnd.Read(v)
		if err = tree.Insert(ctx, k, v); err != nil {
			t.Fatal(err)
		}
		entries[string(k)] = v
	}
	_, h, err := tree.Commit(ctx, soNs, version)
	if err != nil {
		t.Fatal(err)
	}
	tree.Close()
	root := node.Root{Namespace: soNs, Version: version, Type: typ, Hash: h}
	if err = ndb.Finalize([]node.Root{root}); err != nil {
		t.Fatal(err)
	}
	return dir, ndb, root, entries
}

func soChunk(t *testing.T, fc Creator, cp *Metadata, idx int) []byte {
	cm, err := cp.GetChunkMetadata(uint64(idx))
	if err != nil {
		t.Fatal(err)
	}
	var buf bytes.Buffer
	if err = fc.GetCheckpointChunk(context.Background(), cm, &buf); err != nil {
		t.Fatal(err)
	}
	return buf.Bytes()
}

func soCountReadable(ndb dbApi.NodeDB, root node.Root, entries map[string][]byte) (int, error) {
	ctx := context.Background()
	tr := mkvs.NewWithRoot(nil, ndb, root)
	defer tr.Close()
	var ok int
	var first error
	for k, v := range entries {
		got, err := tr.Get(ctx, []byte(k))
		if err == nil && bytes.Equal(got, v) {
			ok++
		} else if first == nil {
			first = err
		}
	}
	return ok, first
}

// S1: pathbadger: abort (or restart) then restore again at the same version -> data lost at Finalize.
func TestSideObsS1PathbadgerAbortThenRetry(t *testing.T) {
	ctx := context.Background()
	dir, ndb1, root, entries := soSetup(t, pathbadger.New, 300, 1, node.RootTypeState)
	fc, _ := NewFileCreator(filepath.Join(dir, "cp"), ndb1)
	cp, err := fc.CreateCheckpoint(ctx, root, 4096, 2)
	if err != nil {
		t.Fatal(err)
	}
	ndb2, err := pathbadger.New(&dbApi.Config{DB: filepath.Join(dir, "db2"), Namespace: soNs, MaxCacheSize: 16 << 20})
	if err != nil {
		t.Fatal(err)
	}
	defer ndb2.Close()
	rs, _ := NewRestorer(ndb2)
	// First attempt: nothing but start + abort (no chunk at all is needed).
	if err = ndb2.StartMultipartInsert(root.Version); err != nil {
		t.Fatal(err)
	}
	if err = rs.StartRestore(ctx, cp); err != nil {
		t.Fatal(err)
	}
	_ = rs.AbortRestore(ctx)
	if err = ndb2.AbortMultipartInsert(); err != nil {
		t.Fatal(err)
	}
	// Second attempt: complete.
	if err = ndb2.StartMultipartInsert(root.Version); err != nil {
		t.Fatal(err)
	}
	if err = rs.StartRestore(ctx, cp); err != nil {
		t.Fatal(err)
	}
	for i := range cp.Chunks {
		if _, err = rs.RestoreChunk(ctx, uint64(i), bytes.NewReader(soChunk(t, fc, cp, i))); err != nil {
			t.Fatalf("chunk %d: %v", i, err)
		}
	}
	if err = ndb2.Finalize([]node.Root{root}); err != nil {
		t.Fatal(err)
	}
	ok, first := soCountReadable(ndb2, root, entries)
	t.Logf("S1 pathbadger abort-then-retry: %d chunks accepted, Finalize ok, readable entries %d/%d, first error: %v", len(cp.Chunks), ok, len(entries), first)
	if ok != len(entries) {
		t.Errorf("S1 REPRODUCED")
	}
}

type soGateReader struct {
	r       io.Reader
	started chan struct{}
	release chan struct{}
	once    bool
}

func (g *soGateReader) Read(p []byte) (int, error) {
	if !g.once {
		g.once = true
		close(g.started)
		<-g.release
	}
	return g.r.Read(p)
}

// S2: a RestoreChunk that is in flight while the restore gets aborted reports done=true.
func TestFindingF30(t *testing.T) {
	ctx := context.Background()
	dir, ndb1, root, _ := soSetup(t, badger.New, 300, 1, node.RootTypeState)
	fc, _ := NewFileCreator(filepath.Join(dir, "cp"), ndb1)
	cp, err := fc.CreateCheckpoint(ctx, root, 4096, 2)
	if err != nil {
		t.Fatal(err)
	}
	ndb2, err := badger.New(&dbApi.Config{DB: filepath.Join(dir, "db2"), Namespace: soNs, MaxCacheSize: 16 << 20})
	if err != nil {
		t.Fatal(err)
	}
	defer ndb2.Close()
	rs, _ := NewRestorer(ndb2)
	if err = ndb2.StartMultipartInsert(root.Version); err != nil {
		t.Fatal(err)
	}
	if err = rs.StartRestore(ctx, cp); err != nil {
		t.Fatal(err)
	}
	gr := &soGateReader{r: bytes.NewReader(soChunk(t, fc, cp, 0)), started: make(chan struct{}), release: make(chan struct{})}
	type res struct {
		done bool
		err  error
	}
	ch := make(chan res)
	go func() {
		d, e := rs.RestoreChunk(ctx, 0, gr)
		ch <- res{d, e}
	}()
	<-gr.started
	// Meanwhile the restore is aborted (this is also what RestoreChunk itself does when another
	// concurrent chunk fails proof verification).
	_ = rs.AbortRestore(ctx)
	close(gr.release)
	r := <-ch
	t.Logf("S2 in-flight chunk 0 of %d after AbortRestore: done=%v err=%v", len(cp.Chunks), r.done, r.err)
	if r.done {
		t.Errorf("S2 REPRODUCED: RestoreChunk reported the checkpoint as fully restored although only 1 of %d chunks was restored and the restore had been aborted", len(cp.Chunks))
	}
}

type soCancelAtEOFReader struct {
	r      io.Reader
	cancel func()
}

func (c *soCancelAtEOFReader) Read(p []byte) (int, error) {
	n, err := c.r.Read(p)
	if err == io.EOF {
		c.cancel()
	}
	return n, err
}

// S3: context cancellation between reading and verifying an honest chunk is reported as a proof
// verification failure, which aborts the whole restore (and makes the worker punish the peers).
func TestSideObsS3CancelledHonestChunkAbortsRestore(t *testing.T) {
	ctx := context.Background()
	dir, ndb1, root, _ := soSetup(t, badger.New, 300, 1, node.RootTypeState)
	fc, _ := NewFileCreator(filepath.Join(dir, "cp"), ndb1)
	cp, err := fc.CreateCheckpoint(ctx, root, 4096, 2)
	if err != nil {
		t.Fatal(err)
	}
	ndb2, err := badger.New(&dbApi.Config{DB: filepath.Join(dir, "db2"), Namespace: soNs, MaxCacheSize: 16 << 20})
	if err != nil {
		t.Fatal(err)
	}
	defer ndb2.Close()
	rs, _ := NewRestorer(ndb2)
	if err = ndb2.StartMultipartInsert(root.Version); err != nil {
		t.Fatal(err)
	}
	if err = rs.StartRestore(ctx, cp); err != nil {
		t.Fatal(err)
	}
	cctx, cancel := context.WithCancel(ctx)
	_, err = rs.RestoreChunk(cctx, 0, &soCancelAtEOFReader{r: bytes.NewReader(soChunk(t, fc, cp, 0)), cancel: cancel})
	t.Logf("S3 honest chunk with context cancelled at EOF: err=%v; is ErrChunkProofVerificationFailed=%v; restore still in progress=%v",
		err, errors.Is(err, ErrChunkProofVerificationFailed), rs.GetCurrentCheckpoint() != nil)
	_, err2 := rs.RestoreChunk(ctx, 0, bytes.NewReader(soChunk(t, fc, cp, 0)))
	t.Logf("S3 retry of the same honest chunk with a live context: err=%v", err2)
	if errors.Is(err, ErrChunkProofVerificationFailed) && err2 != nil {
		t.Errorf("S3 REPRODUCED")
	}
}

// S4: badger: after AbortMultipartInsert HasRoot still reports the (removed) root.
func TestFindingF31(t *testing.T) {
	ctx := context.Background()
	dir, ndb1, root, entries := soSetup(t, badger.New, 300, 1, node.RootTypeState)
	fc, _ := NewFileCreator(filepath.Join(dir, "cp"), ndb1)
	cp, err := fc.CreateCheckpoint(ctx, root, 4096, 2)
	if err != nil {
		t.Fatal(err)
	}
	ndb2, err := badger.New(&dbApi.Config{DB: filepath.Join(dir, "db2"), Namespace: soNs, MaxCacheSize: 16 << 20})
	if err != nil {
		t.Fatal(err)
	}
	defer ndb2.Close()
	rs, _ := NewRestorer(ndb2)
	if err = ndb2.StartMultipartInsert(root.Version); err != nil {
		t.Fatal(err)
	}
	if err = rs.StartRestore(ctx, cp); err != nil {
		t.Fatal(err)
	}
	if _, err = rs.RestoreChunk(ctx, 0, bytes.NewReader(soChunk(t, fc, cp, 0))); err != nil {
		t.Fatal(err)
	}
	_ = rs.AbortRestore(ctx)
	if err = ndb2.AbortMultipartInsert(); err != nil {
		t.Fatal(err)
	}
	roots, _ := ndb2.GetRootsForVersion(root.Version)
	ok, first := soCountReadable(ndb2, root, entries)
	t.Logf("S4 badger after abort: HasRoot=%v GetRootsForVersion=%d roots, readable entries %d/%d (first error: %v)", ndb2.HasRoot(root), len(roots), ok, len(entries), first)
	if ndb2.HasRoot(root) {
		t.Errorf("S4 REPRODUCED")
	}
}

// S5: checkpoint directories are keyed by (version, hash) only, not by root type.
func TestSideObsS5SameHashDifferentType(t *testing.T) {
	ctx := context.Background()
	dir, ndb1, root, _ := soSetup(t, badger.New, 0, 1, node.RootTypeState)
	ioRoot := root
	ioRoot.Type = node.RootTypeIO
	fc, _ := NewFileCreator(filepath.Join(dir, "cp"), ndb1)
	cp1, err := fc.CreateCheckpoint(ctx, root, 4096, 2)
	if err != nil {
		t.Fatal(err)
	}
	cp2, err := fc.CreateCheckpoint(ctx, ioRoot, 4096, 2)
	if err != nil {
		t.Fatal(err)
	}
	cps, _ := fc.GetCheckpoints(ctx, &GetCheckpointsRequest{Version: 1})
	t.Logf("S5 empty state root + empty io root at the same version: cp1.Root.Type=%v cp2.Root.Type=%v (requested %v), GetCheckpoints returns %d", cp1.Root.Type, cp2.Root.Type, ioRoot.Type, len(cps))
	if cp2.Root.Type != ioRoot.Type {
		t.Errorf("S5 REPRODUCED")
	}
}

// S6: a root at version 0 can be checkpointed but not restored.
func TestSideObsS6VersionZero(t *testing.T) {
	ctx := context.Background()
	for _, f := range []func(*dbApi.Config) (dbApi.NodeDB, error){badger.New, pathbadger.New} {
		dir, ndb1, root, _ := soSetup(t, f, 50, 0, node.RootTypeState)
		fc, _ := NewFileCreator(filepath.Join(dir, "cp"), ndb1)
		cp, err := fc.CreateCheckpoint(ctx, root, 4096, 2)
		if err != nil {
			t.Fatal(err)
		}
		ndb2, err := f(&dbApi.Config{DB: filepath.Join(dir, "db2"), Namespace: soNs, MaxCacheSize: 16 << 20})
		if err != nil {
			t.Fatal(err)
		}
		defer ndb2.Close()
		err = ndb2.StartMultipartInsert(root.Version)
		rs, _ := NewRestorer(ndb2)
		_ = rs.StartRestore(ctx, cp)
		_, err2 := rs.RestoreChunk(ctx, 0, bytes.NewReader(soChunk(t, fc, cp, 0)))
		t.Logf("S6 version 0: checkpoint created with %d chunks; StartMultipartInsert(0) err=%v; RestoreChunk(0) err=%v", len(cp.Chunks), err, err2)
		if err != nil {
			t.Errorf("S6 REPRODUCED")
		}
	}
}

// S1b: pathbadger: process restart in the middle of a restore, then restore again -> data lost at Finalize.
func TestSideObsS1bPathbadgerRestartThenRetry(t *testing.T) {
	ctx := context.Background()
	dir, ndb1, root, entries := soSetup(t, pathbadger.New, 300, 1, node.RootTypeState)
	fc, _ := NewFileCreator(filepath.Join(dir, "cp"), ndb1)
	cp, err := fc.CreateCheckpoint(ctx, root, 4096, 2)
	if err != nil {
		t.Fatal(err)
	}
	cfg2 := &dbApi.Config{DB: filepath.Join(dir, "db2"), Namespace: soNs, MaxCacheSize: 16 << 20}
	ndb2, err := pathbadger.New(cfg2)
	if err != nil {
		t.Fatal(err)
	}
	rs, _ := NewRestorer(ndb2)
	if err = ndb2.StartMultipartInsert(root.Version); err != nil {
		t.Fatal(err)
	}
	if err = rs.StartRestore(ctx, cp); err != nil {
		t.Fatal(err)
	}
	if _, err = rs.RestoreChunk(ctx, 0, bytes.NewReader(soChunk(t, fc, cp, 0))); err != nil {
		t.Fatal(err)
	}
	ndb2.Close()
	if ndb2, err = pathbadger.New(cfg2); err != nil {
		t.Fatal(err)
	}
	defer ndb2.Close()
	rs, _ = NewRestorer(ndb2)
	if err = ndb2.StartMultipartInsert(root.Version); err != nil {
		t.Fatal(err)
	}
	if err = rs.StartRestore(ctx, cp); err != nil {
		t.Fatal(err)
	}
	for i := range cp.Chunks {
		if _, err = rs.RestoreChunk(ctx, uint64(i), bytes.NewReader(soChunk(t, fc, cp, i))); err != nil {
			t.Fatalf("chunk %d: %v", i, err)
		}
	}
	if err = ndb2.Finalize([]node.Root{root}); err != nil {
		t.Fatal(err)
	}
	ok, first := soCountReadable(ndb2, root, entries)
	t.Logf("S1b pathbadger restart-then-retry: %d chunks accepted, Finalize ok, readable entries %d/%d, first error: %v", len(cp.Chunks), ok, len(entries), first)
	if ok != len(entries) {
		t.Errorf("S1b REPRODUCED")
	}
}

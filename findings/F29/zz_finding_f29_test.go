package mkvs

import (
	"context"
	"os"
	"testing"

	"github.com/stretchr/testify/require"

	db "github.com/oasisprotocol/oasis-core/go/storage/mkvs/db/api"
	pathBadgerDb "github.com/oasisprotocol/oasis-core/go/storage/mkvs/db/pathbadger"
	"github.com/oasisprotocol/oasis-core/go/storage/mkvs/node"
)

// Side observation (clean tree, pathbadger backend): a no-op re-insert of the only key of a tree
// (the leaf is the root node) leaves a write log that cannot be served.
func TestFindingF29(t *testing.T) {
	ctx := context.Background()
	dir, err := os.MkdirTemp("", "mkvs.sideobs2")
	require.NoError(t, err)
	defer os.RemoveAll(dir)
	ndb, err := pathBadgerDb.New(&db.Config{DB: dir, NoFsync: true, Namespace: testNs, MaxCacheSize: 16 * 1024 * 1024})
	require.NoError(t, err)
	defer ndb.Close()

	tree := New(nil, ndb, node.RootTypeState)
	require.NoError(t, tree.Insert(ctx, []byte("A"), []byte("1")))
	_, h1, err := tree.Commit(ctx, testNs, 1)
	require.NoError(t, err)
	r1 := node.Root{Namespace: testNs, Version: 1, Type: node.RootTypeState, Hash: h1}
	require.NoError(t, ndb.Finalize([]node.Root{r1}))

	require.NoError(t, tree.Insert(ctx, []byte("A"), []byte("1")))
	wl, h2, err := tree.Commit(ctx, testNs, 2)
	require.NoError(t, err)
	t.Logf("commit 2: write log %v root %s (unchanged: %v)", writeLogToMap(wl), h2, h2.Equal(&h1))
	r2 := node.Root{Namespace: testNs, Version: 2, Type: node.RootTypeState, Hash: h2}
	require.NoError(t, ndb.Finalize([]node.Root{r2}))

	_, err = ndb.GetWriteLog(ctx, r1, r2)
	require.NoError(t, err, "GetWriteLog for two finalized consecutive roots")
}

package checkpoint

import (
	"bytes"
	"context"
	"os"
	"path/filepath"
	"strconv"
	"testing"

	"github.com/stretchr/testify/require"

	"github.com/oasisprotocol/oasis-core/go/storage/mkvs"
	"github.com/oasisprotocol/oasis-core/go/storage/mkvs/db"
	dbApi "github.com/oasisprotocol/oasis-core/go/storage/mkvs/db/api"
	dbTesting "github.com/oasisprotocol/oasis-core/go/storage/mkvs/db/testing"
	"github.com/oasisprotocol/oasis-core/go/storage/mkvs/node"
)

// Probe: an aborted checkpoint restore must leave nothing behind that changes a
// later restore of a different checkpoint for the same version.
func TestF8AbortedRestoreLeavesNodes(t *testing.T) {
	dbTesting.TestMultipleBackends(t, db.Backends, testF8)
}

func mkCheckpoint(t *testing.T, factory dbApi.Factory, dir, name string, n int, suffix string) (*Metadata, node.Root, Creator) {
	require := require.New(t)
	ndb, err := factory.New(&dbApi.Config{DB: filepath.Join(dir, name), Namespace: testNs, MaxCacheSize: 16 * 1024 * 1024})
	require.NoError(err)
	ctx := context.Background()
	tree := mkvs.New(nil, ndb, node.RootTypeState)
	for i := 0; i < n; i++ {
		require.NoError(tree.Insert(ctx, []byte(strconv.Itoa(i)), []byte(strconv.Itoa(i)+suffix)))
	}
	_, rootHash, err := tree.Commit(ctx, testNs, 1)
	require.NoError(err)
	root := node.Root{Namespace: testNs, Version: 1, Type: node.RootTypeState, Hash: rootHash}
	fc, err := NewFileCreator(filepath.Join(dir, name+"-cp"), ndb)
	require.NoError(err)
	cp, err := fc.CreateCheckpoint(ctx, root, 16*1024, 0)
	require.NoError(err)
	return cp, root, fc
}

func testF8(t *testing.T, factory dbApi.Factory) {
	require := require.New(t)
	ctx := context.Background()
	dir, err := os.MkdirTemp("", "mkvs.f8")
	require.NoError(err)
	defer os.RemoveAll(dir)

	cpA, rootA, fcA := mkCheckpoint(t, factory, dir, "a", 1000, "-A")
	cpB, rootB, fcB := mkCheckpoint(t, factory, dir, "b", 1000, "-B")
	require.True(len(cpA.Chunks) >= 2)

	ndb, err := factory.New(&dbApi.Config{DB: filepath.Join(dir, "dst"), Namespace: testNs, MaxCacheSize: 16 * 1024 * 1024})
	require.NoError(err)
	rs, err := NewRestorer(ndb)
	require.NoError(err)

	// Restore only the first chunk of checkpoint A, then give up.
	require.NoError(ndb.StartMultipartInsert(1))
	require.NoError(rs.StartRestore(ctx, cpA))
	var buf bytes.Buffer
	cm, err := cpA.GetChunkMetadata(0)
	require.NoError(err)
	require.NoError(fcA.GetCheckpointChunk(ctx, cm, &buf))
	done, err := rs.RestoreChunk(ctx, 0, &buf)
	require.NoError(err)
	require.False(done)
	require.NoError(rs.AbortRestore(ctx))
	require.NoError(ndb.AbortMultipartInsert())

	t.Logf("HasRoot(A) after abort: %v", ndb.HasRoot(rootA))

	// Now restore checkpoint B (same version, different contents) completely.
	require.NoError(ndb.StartMultipartInsert(1))
	require.NoError(rs.StartRestore(ctx, cpB))
	for i := 0; i < len(cpB.Chunks); i++ {
		cm, err = cpB.GetChunkMetadata(uint64(i))
		require.NoError(err)
		buf.Reset()
		require.NoError(fcB.GetCheckpointChunk(ctx, cm, &buf))
		_, err = rs.RestoreChunk(ctx, uint64(i), &buf)
		require.NoError(err, "RestoreChunk B/%d", i)
	}
	require.NoError(ndb.Finalize([]node.Root{rootB}))

	tree := mkvs.NewWithRoot(nil, ndb, rootB)
	for i := 0; i < 1000; i++ {
		v, err := tree.Get(ctx, []byte(strconv.Itoa(i)))
		require.NoError(err, "Get(%d)", i)
		require.Equal([]byte(strconv.Itoa(i)+"-B"), v, "key %d", i)
	}
}

package roothash

import (
	"crypto/rand"
	"testing"

	"github.com/stretchr/testify/require"

	"github.com/oasisprotocol/oasis-core/go/common"
	"github.com/oasisprotocol/oasis-core/go/common/cbor"
	"github.com/oasisprotocol/oasis-core/go/common/crypto/hash"
	"github.com/oasisprotocol/oasis-core/go/common/crypto/signature"
	memorySigner "github.com/oasisprotocol/oasis-core/go/common/crypto/signature/signers/memory"
	"github.com/oasisprotocol/oasis-core/go/common/node"
	"github.com/oasisprotocol/oasis-core/go/common/quantity"
	abciAPI "github.com/oasisprotocol/oasis-core/go/consensus/cometbft/api"
	registryState "github.com/oasisprotocol/oasis-core/go/consensus/cometbft/apps/registry/state"
	roothashState "github.com/oasisprotocol/oasis-core/go/consensus/cometbft/apps/roothash/state"
	schedulerState "github.com/oasisprotocol/oasis-core/go/consensus/cometbft/apps/scheduler/state"
	stakingState "github.com/oasisprotocol/oasis-core/go/consensus/cometbft/apps/staking/state"
	genesisTestHelpers "github.com/oasisprotocol/oasis-core/go/genesis/tests"
	registry "github.com/oasisprotocol/oasis-core/go/registry/api"
	roothash "github.com/oasisprotocol/oasis-core/go/roothash/api"
	"github.com/oasisprotocol/oasis-core/go/roothash/api/block"
	"github.com/oasisprotocol/oasis-core/go/roothash/api/commitment"
	scheduler "github.com/oasisprotocol/oasis-core/go/scheduler/api"
	staking "github.com/oasisprotocol/oasis-core/go/staking/api"
)

func TestZZFindingF1FailedEvidenceLeavesState(t *testing.T) {
	require := require.New(t)
	var err error

	genesisTestHelpers.SetTestChainContext()

	appState := abciAPI.NewMockApplicationState(&abciAPI.MockApplicationStateConfig{})
	ctx := appState.NewContext(abciAPI.ContextEndBlock)
	defer ctx.Close()

	// Generate a private key for the node in this test.
	sk, err := memorySigner.NewSigner(rand.Reader)
	require.NoError(err, "NewSigner")

	// Signer for a non-existing node.
	nonExistingSigner, err := memorySigner.NewSigner(rand.Reader)
	require.NoError(err, "NewSigner")
	entitySigner := memorySigner.NewTestSigner("consensus/cometbft/apps/roothash: entity signer")

	// Initialize staking state.
	stakingState := stakingState.NewMutableState(ctx.State())
	err = stakingState.SetConsensusParameters(ctx, &staking.ConsensusParameters{})
	require.NoError(err, "staking.SetConsensusParameters")
	entityEscrow := quantity.NewFromUint64(100)
	entityAccount := staking.Account{
		General: staking.GeneralAccount{
			Balance: quantity.Quantity{},
		},
		Escrow: staking.EscrowAccount{
			Active: staking.SharePool{
				Balance:     *entityEscrow,
				TotalShares: *quantity.NewFromUint64(100),
			},
		},
	}
	err = stakingState.SetAccount(ctx, staking.NewAddress(entitySigner.Public()), &entityAccount)
	require.NoError(err, "SetAccount")

	// Initialize registry state.
	registryState := registryState.NewMutableState(ctx.State())

	nod := &node.Node{
		Versioned: cbor.NewVersioned(node.LatestNodeDescriptorVersion),
		ID:        sk.Public(),
		Consensus: node.ConsensusInfo{ID: sk.Public()},
		EntityID:  entitySigner.Public(),
	}
	sigNode, nErr := node.MultiSignNode([]signature.Signer{sk}, registry.RegisterNodeSignatureContext, nod)
	require.NoError(nErr, "MultiSignNode")
	err = registryState.SetNode(ctx, nil, nod, sigNode)
	require.NoError(err, "SetNode")

	// Initialize runtimes.
	uninitializedRtID := common.NewTestNamespaceFromSeed([]byte("cometbft/apps/roothash/transaction_test: non existing runtime"), 0)
	slashAmount := quantity.NewFromUint64(40)
	runtime := registry.Runtime{
		Executor: registry.ExecutorParameters{
			MaxMessages: 32,
		},

		Staking: registry.RuntimeStakingParameters{
			Slashing: map[staking.SlashReason]staking.Slash{
				staking.SlashRuntimeEquivocation: {Amount: *slashAmount},
			},
		},
	}
	runtimeNoSlashing := registry.Runtime{
		ID: common.NewTestNamespaceFromSeed([]byte("cometbft/apps/roothash/transaction_test: runtime no slashing"), 0),
	}
	runtimeZeroSlashing := registry.Runtime{
		ID: common.NewTestNamespaceFromSeed([]byte("cometbft/apps/roothash/transaction_test: runtime zero slashing"), 0),
		Staking: registry.RuntimeStakingParameters{
			Slashing: map[staking.SlashReason]staking.Slash{
				staking.SlashRuntimeEquivocation: {},
			},
		},
	}

	// Initialize scheduler state.
	schedulerState := schedulerState.NewMutableState(ctx.State())
	executorCommittee := scheduler.Committee{
		RuntimeID: runtime.ID,
		Kind:      scheduler.KindComputeExecutor,
		Members: []*scheduler.CommitteeNode{
			{
				Role:      scheduler.RoleWorker,
				PublicKey: sk.Public(),
			},
		},
	}
	err = schedulerState.PutCommittee(ctx, &executorCommittee)
	require.NoError(err, "PutCommittee")

	// Initialize roothash state.
	roothashState := roothashState.NewMutableState(ctx.State())
	err = roothashState.SetConsensusParameters(ctx, &roothash.ConsensusParameters{
		MaxRuntimeMessages: 32,
		MaxEvidenceAge:     50,
	})
	require.NoError(err, "SetConsensusParameters")
	blk := block.NewGenesisBlock(runtime.ID, 0)
	blk.Header.Round = 99
	err = roothashState.SetRuntimeState(ctx, &roothash.RuntimeState{
		Runtime:          &runtime,
		GenesisBlock:     blk,
		LastBlock:        blk,
		LastBlockHeight:  1000,
		LastNormalRound:  99,
		LastNormalHeight: 1000,
		Committee:        &executorCommittee,
		CommitmentPool:   commitment.NewPool(),
	})
	require.NoError(err, "SetRuntimeState")
	err = roothashState.SetRuntimeState(ctx, &roothash.RuntimeState{
		Runtime:          &runtimeNoSlashing,
		GenesisBlock:     blk,
		LastBlock:        blk,
		LastBlockHeight:  1000,
		LastNormalRound:  99,
		LastNormalHeight: 1000,
		Committee:        &executorCommittee,
		CommitmentPool:   commitment.NewPool(),
	})
	require.NoError(err, "SetRuntimeState")
	err = roothashState.SetRuntimeState(ctx, &roothash.RuntimeState{
		Runtime:          &runtimeZeroSlashing,
		GenesisBlock:     blk,
		LastBlock:        blk,
		LastBlockHeight:  1000,
		LastNormalRound:  99,
		LastNormalHeight: 1000,
		Committee:        &executorCommittee,
		CommitmentPool:   commitment.NewPool(),
	})
	require.NoError(err, "SetRuntimeState")

	// Initialize evidence.
	blk2 := block.NewEmptyBlock(blk, 0, block.Normal)

	// Proposed batch.
	signedBatch1 := commitment.Proposal{
		NodeID: sk.Public(),
		Header: commitment.ProposalHeader{
			Round:        blk2.Header.Round,
			PreviousHash: blk2.Header.PreviousHash,
			BatchHash:    blk2.Header.IORoot,
		},
	}
	err = signedBatch1.Sign(sk, runtime.ID)
	require.NoError(err, "ProposalHeader.Sign")
	noSlashingRtB1 := signedBatch1
	err = noSlashingRtB1.Sign(sk, runtimeNoSlashing.ID)
	require.NoError(err, "ProposalHeader.Sign")
	zeroSlashingRtB1 := signedBatch1
	err = zeroSlashingRtB1.Sign(sk, runtimeZeroSlashing.ID)
	require.NoError(err, "ProposalHeader.Sign")
	nonExistingSignerBatch1 := signedBatch1
	nonExistingSignerBatch1.NodeID = nonExistingSigner.Public()
	err = nonExistingSignerBatch1.Sign(nonExistingSigner, runtime.ID)
	require.NoError(err, "ProposalHeader.Sign")
	uninitializedRtB1 := signedBatch1
	err = uninitializedRtB1.Sign(sk, uninitializedRtID)
	require.NoError(err, "ProposalHeader.Sign")

	signedBatch2 := commitment.Proposal{
		NodeID: sk.Public(),
		Header: commitment.ProposalHeader{
			Round:        blk2.Header.Round,
			PreviousHash: blk2.Header.PreviousHash,
			BatchHash:    hash.NewFromBytes([]byte("invalid root")),
		},
	}
	err = signedBatch2.Sign(sk, runtime.ID)
	require.NoError(err, "ProposalHeader.Sign")
	noSlashingRtB2 := signedBatch2
	err = noSlashingRtB2.Sign(sk, runtimeNoSlashing.ID)
	require.NoError(err, "ProposalHeader.Sign")
	zeroSlashingRtB2 := signedBatch2
	err = zeroSlashingRtB2.Sign(sk, runtimeZeroSlashing.ID)
	require.NoError(err, "ProposalHeader.Sign")
	nonExistingSignerBatch2 := signedBatch2
	nonExistingSignerBatch2.NodeID = nonExistingSigner.Public()
	err = nonExistingSignerBatch2.Sign(nonExistingSigner, runtime.ID)
	require.NoError(err, "ProposalHeader.Sign")
	uninitializedRtB2 := signedBatch2
	err = uninitializedRtB2.Sign(sk, uninitializedRtID)
	require.NoError(err, "ProposalHeader.Sign")

	var emptyHash hash.Hash
	emptyHash.Empty()

	// Executor commit.
	signedCommitment1 := commitment.ExecutorCommitment{
		NodeID: sk.Public(),
		Header: commitment.ExecutorCommitmentHeader{
			Header: commitment.ComputeResultsHeader{
				Round:          blk.Header.Round,
				PreviousHash:   blk.Header.PreviousHash,
				IORoot:         &blk.Header.IORoot,
				StateRoot:      &blk.Header.StateRoot,
				MessagesHash:   &emptyHash,
				InMessagesHash: &emptyHash,
			},
		},
	}
	err = signedCommitment1.Sign(sk, runtime.ID)
	require.NoError(err, "signedCommitment1.Sign")
	signedCommitment2 := signedCommitment1
	signedCommitment2.Header.Header.PreviousHash = hash.NewFromBytes([]byte("invalid ioroot"))
	err = signedCommitment2.Sign(sk, runtime.ID)
	require.NoError(err, "signedCommitment2.Sign")

	// Expired evidence.
	blk2.Header.Round = 25
	expiredB1 := commitment.Proposal{
		NodeID: sk.Public(),
		Header: commitment.ProposalHeader{
			Round:        blk2.Header.Round,
			PreviousHash: blk2.Header.PreviousHash,
			BatchHash:    blk2.Header.IORoot,
		},
	}
	err = expiredB1.Sign(sk, runtime.ID)
	require.NoError(err, "ProposalHeader.Sign")
	expiredB2 := commitment.Proposal{
		NodeID: sk.Public(),
		Header: commitment.ProposalHeader{
			Round:        blk2.Header.Round,
			PreviousHash: blk2.Header.PreviousHash,
			BatchHash:    hash.NewFromBytes([]byte("invalid root")),
		},
	}
	err = expiredB2.Sign(sk, runtime.ID)
	require.NoError(err, "ProposalHeader.Sign")

	expiredCommitment1 := commitment.ExecutorCommitment{
		NodeID: sk.Public(),
		Header: commitment.ExecutorCommitmentHeader{
			Header: commitment.ComputeResultsHeader{
				Round:          blk2.Header.Round,
				PreviousHash:   blk2.Header.PreviousHash,
				IORoot:         &blk2.Header.IORoot,
				StateRoot:      &blk2.Header.StateRoot,
				MessagesHash:   &emptyHash,
				InMessagesHash: &emptyHash,
			},
		},
	}
	err = expiredCommitment1.Sign(sk, runtime.ID)
	require.NoError(err, "expiredCommitment1.Sign")
	expiredCommitment2 := expiredCommitment1
	expiredCommitment2.Header.Header.PreviousHash = hash.NewFromBytes([]byte("invalid ioroot"))
	err = expiredCommitment2.Sign(sk, runtime.ID)
	require.NoError(err, "expiredCommitment2.Sign")
	var md testMsgDispatcher
	app := Application{appState, &md, nil}

	ctx = appState.NewContext(abciAPI.ContextDeliverTx)
	defer ctx.Close()

	for _, ev := range []struct {
		ev  *roothash.Evidence
		err error
		msg string
	}{
		{
			&roothash.Evidence{},
			roothash.ErrInvalidEvidence,
			"invalid evidence",
		},
		{
			&roothash.Evidence{
				ID: runtimeNoSlashing.ID,
				EquivocationProposal: &roothash.EquivocationProposalEvidence{
					ProposalA: signedBatch1,
					ProposalB: signedBatch2,
				},
			},
			roothash.ErrInvalidEvidence,
			"invalid evidence (signed batch runtime does not match evidence runtime)",
		},
		{
			&roothash.Evidence{
				ID: runtimeNoSlashing.ID,
				EquivocationProposal: &roothash.EquivocationProposalEvidence{
					ProposalA: noSlashingRtB1,
					ProposalB: noSlashingRtB2,
				},
			},
			roothash.ErrRuntimeDoesNotSlash,
			"evidence for runtime without slashing",
		},
		{
			&roothash.Evidence{
				ID: runtimeZeroSlashing.ID,
				EquivocationProposal: &roothash.EquivocationProposalEvidence{
					ProposalA: zeroSlashingRtB1,
					ProposalB: zeroSlashingRtB2,
				},
			},
			roothash.ErrRuntimeDoesNotSlash,
			"evidence for runtime with zero slashing",
		},
		{
			&roothash.Evidence{
				ID: runtime.ID,
				EquivocationExecutor: &roothash.EquivocationExecutorEvidence{
					CommitA: expiredCommitment1,
					CommitB: expiredCommitment2,
				},
			},
			roothash.ErrInvalidEvidence,
			"expired executor evidence",
		},
		{
			&roothash.Evidence{
				ID: runtime.ID,
				EquivocationProposal: &roothash.EquivocationProposalEvidence{
					ProposalA: expiredB1,
					ProposalB: expiredB2,
				},
			},
			roothash.ErrInvalidEvidence,
			"expired batch evidence",
		},
		{
			&roothash.Evidence{
				ID: uninitializedRtID,
				EquivocationProposal: &roothash.EquivocationProposalEvidence{
					ProposalA: uninitializedRtB1,
					ProposalB: uninitializedRtB2,
				},
			},
			roothash.ErrInvalidRuntime,
			"evidence for nonexisting runtime",
		},
		{
			&roothash.Evidence{
				ID: runtime.ID,
				EquivocationExecutor: &roothash.EquivocationExecutorEvidence{
					CommitA: signedCommitment1,
					CommitB: signedCommitment2,
				},
			},
			nil,
			"valid executor evidence",
		},
		{
			&roothash.Evidence{
				ID: runtime.ID,
				EquivocationProposal: &roothash.EquivocationProposalEvidence{
					ProposalA: signedBatch1,
					ProposalB: signedBatch2,
				},
			},
			nil,
			"valid batch evidence",
		},
		{
			&roothash.Evidence{
				ID: runtime.ID,
				EquivocationProposal: &roothash.EquivocationProposalEvidence{
					ProposalA: signedBatch1,
					ProposalB: signedBatch2,
				},
			},
			roothash.ErrDuplicateEvidence,
			"duplicate evidence",
		},
		{
			&roothash.Evidence{
				ID: runtime.ID,
				EquivocationProposal: &roothash.EquivocationProposalEvidence{
					ProposalA: nonExistingSignerBatch1,
					ProposalB: nonExistingSignerBatch2,
				},
			},
			roothash.ErrInvalidEvidence,
			"evidence for non-existing node",
		},
	} {
		err = app.submitEvidence(ctx, roothashState, ev.ev)
		require.ErrorIs(err, ev.err, ev.msg)
	}

	// Check that expected amount was slashed.
	// Entity should be slashed two times.
	require.NoError(entityEscrow.Sub(slashAmount))
	require.NoError(entityEscrow.Sub(slashAmount))

	entAcc, err := stakingState.Account(ctx, staking.NewAddress(nod.EntityID))
	require.NoError(err, "Account()")
	require.EqualValues(entityEscrow, &entAcc.Escrow.Active.Balance, "entity was slashed expected amount")

	// F1: the last submission above failed with ErrInvalidEvidence (signer is not a registered node).
	// A failed transaction must leave no trace: submitting the same evidence again must fail the
	// same way, not be reported as a duplicate, and the evidence hash must not be recorded.
	failing := &roothash.Evidence{
		ID: runtime.ID,
		EquivocationProposal: &roothash.EquivocationProposalEvidence{
			ProposalA: nonExistingSignerBatch1,
			ProposalB: nonExistingSignerBatch2,
		},
	}
	err = app.submitEvidence(ctx, roothashState, failing)
	require.ErrorIs(err, roothash.ErrInvalidEvidence, "resubmitting failed evidence")
	require.NotErrorIs(err, roothash.ErrDuplicateEvidence, "failed evidence submission must not leave the evidence hash behind")
	evHash, herr := failing.Hash()
	require.NoError(herr)
	exists, herr := roothashState.ImmutableState.EvidenceHashExists(ctx, runtime.ID, nonExistingSignerBatch1.Header.Round, evHash)
	require.NoError(herr)
	require.False(exists, "evidence hash recorded by a failed transaction")
}


package mkvs

import (
	"context"
	"os"
	"testing"

	"github.com/stretchr/testify/require"

	db "github.com/oasisprotocol/oasis-core/go/storage/mkvs/db/api"
	badgerDb "github.com/oasisprotocol/oasis-core/go/storage/mkvs/db/badger"
	"github.com/oasisprotocol/oasis-core/go/storage/mkvs/node"
	"github.com/oasisprotocol/oasis-core/go/storage/mkvs/writelog"
)

// Side observation (clean tree, hashed badger backend): a discarded fork that re-creates a node
// which the finalized fork merely inherits from an earlier version makes Finalize delete that node.
func TestFindingF28(t *testing.T) {
	ctx := context.Background()
	dir, err := os.MkdirTemp("", "mkvs.sideobs")
	require.NoError(t, err)
	defer os.RemoveAll(dir)
	ndb, err := badgerDb.New(&db.Config{DB: dir, NoFsync: true, Namespace: testNs, MaxCacheSize: 16 * 1024 * 1024})
	require.NoError(t, err)
	defer ndb.Close()

	tree := New(nil, ndb, node.RootTypeState)
	require.NoError(t, tree.Insert(ctx, []byte("k"), []byte("v")))
	require.NoError(t, tree.Insert(ctx, []byte("j"), []byte("w")))
	_, h1, err := tree.Commit(ctx, testNs, 1)
	require.NoError(t, err)
	r1 := node.Root{Namespace: testNs, Version: 1, Type: node.RootTypeState, Hash: h1}
	require.NoError(t, ndb.Finalize([]node.Root{r1}))

	// Fork A (will be discarded): remove and re-insert k with the same value.
	a := NewWithRoot(nil, ndb, r1)
	require.NoError(t, a.Remove(ctx, []byte("k")))
	require.NoError(t, a.Insert(ctx, []byte("k"), []byte("v")))
	require.NoError(t, a.Insert(ctx, []byte("a"), []byte("a")))
	_, _, err = a.Commit(ctx, testNs, 2)
	require.NoError(t, err)

	// Fork F (finalized): re-inserts k with an unchanged value (write log entry referring to the
	// inherited leaf) and adds another key.
	f := NewWithRoot(nil, ndb, r1)
	require.NoError(t, f.Insert(ctx, []byte("k"), []byte("v")))
	require.NoError(t, f.Insert(ctx, []byte("f"), []byte("f")))
	_, hf, err := f.Commit(ctx, testNs, 2)
	require.NoError(t, err)
	rf := node.Root{Namespace: testNs, Version: 2, Type: node.RootTypeState, Hash: hf}
	require.NoError(t, ndb.Finalize([]node.Root{rf}))

	// The finalized root can no longer be read ...
	chk := NewWithRoot(nil, ndb, rf)
	v, err := chk.Get(ctx, []byte("k"))
	t.Logf("Get(k) from finalized root: value=%q err=%v", v, err)

	// ... and its write log can no longer be served.
	it, err := ndb.GetWriteLog(ctx, r1, rf)
	require.NoError(t, err, "GetWriteLog")
	var served writelog.WriteLog
	var itErr error
	for {
		var more bool
		more, itErr = it.Next()
		if itErr != nil || !more {
			break
		}
		e, _ := it.Value()
		served = append(served, e)
	}
	t.Logf("GetWriteLog(r1, rf): served=%v iterator err=%v", writeLogToMap(served), itErr)

	require.NoError(t, err, "Get k from finalized root")
	require.NoError(t, itErr, "write log iterator for finalized roots r1 -> rf")
}

package mkvs

import (
	"context"
	"testing"

	"github.com/stretchr/testify/require"

	"github.com/oasisprotocol/oasis-core/go/storage/mkvs/node"
)

func TestFindingF19(t *testing.T) {
	ctx := context.Background()
	src := New(nil, nil, node.RootTypeState)
	keys := [][]byte{{0x00, 0x01}, {0x00, 0x02}, {0x10, 0x01}, {0xF0, 0x01}, {0xF0, 0x02}, {0xFF, 0xFF}}
	for _, k := range keys {
		require.NoError(t, src.Insert(ctx, k, append([]byte("v"), k...)))
	}
	_, rootHash, err := src.Commit(ctx, testNs, 0)
	require.NoError(t, err)
	root := node.Root{Namespace: testNs, Version: 0, Type: node.RootTypeState, Hash: rootHash}

	flaky := &f18FlakySyncer{backing: src}
	remote := NewWithRoot(flaky, nil, root)
	_, err = remote.Get(ctx, keys[5])
	require.NoError(t, err)
	_, err = remote.Get(ctx, keys[4])
	require.NoError(t, err)
	_, err = remote.Get(ctx, keys[3])
	require.NoError(t, err)

	flaky.fail = true
	err = remote.Remove(ctx, keys[5])
	t.Logf("remove err=%v", err)
	flaky.fail = false
	if err == nil {
		t.Skip("remove did not need the remote")
	}
	for _, k := range keys {
		v, err := remote.Get(ctx, k)
		require.NoError(t, err)
		require.Equal(t, append([]byte("v"), k...), v, "key %x must survive a failed Remove of %x", k, keys[5])
	}
}

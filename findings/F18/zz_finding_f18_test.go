package mkvs

import (
	"context"
	"errors"
	"testing"

	"github.com/stretchr/testify/require"

	"github.com/oasisprotocol/oasis-core/go/storage/mkvs/node"
	"github.com/oasisprotocol/oasis-core/go/storage/mkvs/syncer"
)

// f18FlakySyncer forwards to the backing syncer unless told to fail.
type f18FlakySyncer struct {
	backing syncer.ReadSyncer
	fail    bool
}

var errF18Unavailable = errors.New("f18: remote unavailable")

func (s *f18FlakySyncer) SyncGet(ctx context.Context, rq *syncer.GetRequest) (*syncer.ProofResponse, error) {
	if s.fail {
		return nil, errF18Unavailable
	}
	return s.backing.SyncGet(ctx, rq)
}

func (s *f18FlakySyncer) SyncGetPrefixes(ctx context.Context, rq *syncer.GetPrefixesRequest) (*syncer.ProofResponse, error) {
	if s.fail {
		return nil, errF18Unavailable
	}
	return s.backing.SyncGetPrefixes(ctx, rq)
}

func (s *f18FlakySyncer) SyncIterate(ctx context.Context, rq *syncer.IterateRequest) (*syncer.ProofResponse, error) {
	if s.fail {
		return nil, errF18Unavailable
	}
	return s.backing.SyncIterate(ctx, rq)
}

// TestFindingF18 (C03): a Remove that fails (here: the remote read below the root fails once) must leave the
// map as it was: every key is still readable afterwards, and the same Remove repeated succeeds.
func TestFindingF18(t *testing.T) {
	ctx := context.Background()

	// Source tree: keys spread over both sides of the root.
	src := New(nil, nil, node.RootTypeState)
	keys := [][]byte{{0x00, 0x01}, {0x00, 0x02}, {0x10, 0x01}, {0xF0, 0x01}, {0xF0, 0x02}, {0xFF, 0xFF}}
	for _, k := range keys {
		require.NoError(t, src.Insert(ctx, k, append([]byte("v"), k...)))
	}
	_, rootHash, err := src.Commit(ctx, testNs, 0)
	require.NoError(t, err)
	root := node.Root{Namespace: testNs, Version: 0, Type: node.RootTypeState, Hash: rootHash}

	flaky := &f18FlakySyncer{backing: src}
	remote := NewWithRoot(flaky, nil, root)

	// Fetch only the path to one key on the right side: the left subtree stays a hash-only pointer.
	_, err = remote.Get(ctx, keys[5])
	require.NoError(t, err)

	// The remote goes away while a key on the not-yet-fetched side is removed.
	flaky.fail = true
	err = remote.Remove(ctx, keys[0])
	require.Error(t, err, "Remove must report the failed read")
	flaky.fail = false

	// Nothing may have changed: all keys are still there ...
	for _, k := range keys {
		v, err := remote.Get(ctx, k)
		require.NoError(t, err)
		require.Equal(t, append([]byte("v"), k...), v, "key %x must survive a failed Remove of %x", k, keys[0])
	}
	// ... and the same Remove now succeeds and returns the value.
	prev, err := remote.RemoveExisting(ctx, keys[0])
	require.NoError(t, err)
	require.Equal(t, append([]byte("v"), keys[0]...), prev)

	// The committed root equals the one of a tree that never saw the failure.
	ref := New(nil, nil, node.RootTypeState)
	for _, k := range keys[1:] {
		require.NoError(t, ref.Insert(ctx, k, append([]byte("v"), k...)))
	}
	_, refHash, err := ref.Commit(ctx, testNs, 1)
	require.NoError(t, err)
	_, gotHash, err := remote.Commit(ctx, testNs, 1)
	require.NoError(t, err)
	require.Equal(t, refHash, gotHash)
}

package registry

import (
	"testing"
	"time"

	requirePkg "github.com/stretchr/testify/require"

	beacon "github.com/oasisprotocol/oasis-core/go/beacon/api"
	"github.com/oasisprotocol/oasis-core/go/common"
	"github.com/oasisprotocol/oasis-core/go/common/cbor"
	memorySigner "github.com/oasisprotocol/oasis-core/go/common/crypto/signature/signers/memory"
	"github.com/oasisprotocol/oasis-core/go/common/entity"
	"github.com/oasisprotocol/oasis-core/go/common/quantity"
	"github.com/oasisprotocol/oasis-core/go/common/version"
	abciAPI "github.com/oasisprotocol/oasis-core/go/consensus/cometbft/api"
	beaconState "github.com/oasisprotocol/oasis-core/go/consensus/cometbft/apps/beacon/state"
	consensusState "github.com/oasisprotocol/oasis-core/go/consensus/cometbft/apps/consensus/state"
	registryState "github.com/oasisprotocol/oasis-core/go/consensus/cometbft/apps/registry/state"
	stakingState "github.com/oasisprotocol/oasis-core/go/consensus/cometbft/apps/staking/state"
	"github.com/oasisprotocol/oasis-core/go/consensus/genesis"
	governance "github.com/oasisprotocol/oasis-core/go/governance/api"
	registry "github.com/oasisprotocol/oasis-core/go/registry/api"
	staking "github.com/oasisprotocol/oasis-core/go/staking/api"
)

// Probe: a runtime accumulates three deployments (by two ordinary updates) while
// MaxRuntimeDeployments is 5. A
// change-parameters proposal that lowers MaxRuntimeDeployments to 2 is accepted by the registry
// application (no check against the registered runtimes). From then on an ordinary RegisterRuntime
// update transaction of the runtime's owner makes VerifyRuntimeUpdate panic ("malformed deployments
// present in state") during DeliverTx instead of failing for itself only. CheckTx returns before
// that point, so the transaction is admitted to the mempool.
func TestProbeRuntimeUpdateAfterDeploymentLimitLowered(t *testing.T) {
	require := requirePkg.New(t)

	appState := abciAPI.NewMockApplicationState(&abciAPI.MockApplicationStateConfig{CurrentEpoch: 0})
	ctx := appState.NewContext(abciAPI.ContextEndBlock)
	defer ctx.Close()

	var md abciAPI.NoopMessageDispatcher
	app := Application{appState, &md}

	state := registryState.NewMutableState(ctx.State())
	stakeState := stakingState.NewMutableState(ctx.State())
	require.NoError(stakeState.SetConsensusParameters(ctx, &staking.ConsensusParameters{
		Thresholds: map[staking.ThresholdKind]quantity.Quantity{
			staking.KindEntity:            *quantity.NewFromUint64(0),
			staking.KindRuntimeCompute:    *quantity.NewFromUint64(0),
			staking.KindRuntimeKeyManager: *quantity.NewFromUint64(0),
		},
	}))
	require.NoError(state.SetConsensusParameters(ctx, &registry.ConsensusParameters{
		DebugAllowTestRuntimes: true,
		MaxNodeExpiration:      5,
		MaxRuntimeDeployments:  5,
		EnableRuntimeGovernanceModels: map[registry.RuntimeGovernanceModel]bool{
			registry.GovernanceEntity: true,
		},
	}))
	require.NoError(beaconState.NewMutableState(ctx.State()).SetConsensusParameters(ctx, &beacon.ConsensusParameters{
		Backend: beacon.BackendInsecure,
	}))
	require.NoError(consensusState.NewMutableState(ctx.State()).SetConsensusParameters(ctx, &genesis.Parameters{
		FeatureVersion: &version.Version{Major: 100},
	}))

	entitySigner := memorySigner.NewTestSigner("probe: runtime entity signer")
	ent := entity.Entity{
		Versioned: cbor.NewVersioned(entity.LatestDescriptorVersion),
		ID:        entitySigner.Public(),
	}
	sigEnt, err := entity.SignEntity(entitySigner, registry.RegisterEntitySignatureContext, &ent)
	require.NoError(err)
	require.NoError(state.SetEntity(ctx, &ent, sigEnt))

	rt := &registry.Runtime{
		Versioned:       cbor.NewVersioned(registry.LatestRuntimeDescriptorVersion),
		ID:              common.NewTestNamespaceFromSeed([]byte("probe: runtime"), 0),
		EntityID:        entitySigner.Public(),
		Kind:            registry.KindCompute,
		GovernanceModel: registry.GovernanceEntity,
		Executor:        registry.ExecutorParameters{GroupSize: 1, RoundTimeout: 5},
		TxnScheduler: registry.TxnSchedulerParameters{
			BatchFlushTimeout: time.Second,
			MaxBatchSize:      100,
			MaxBatchSizeBytes: 100_000_000,
			ProposerTimeout:   2 * time.Second,
		},
		Deployments: []*registry.VersionInfo{
			{Version: version.Version{Major: 1}, ValidFrom: 1},
		},
		AdmissionPolicy: registry.RuntimeAdmissionPolicy{AnyNode: &registry.AnyNodeRuntimeAdmissionPolicy{}},
	}

	deliver := func(epoch beacon.EpochTime, r *registry.Runtime, msg string) {
		appState.UpdateMockApplicationStateConfig(&abciAPI.MockApplicationStateConfig{CurrentEpoch: epoch})
		txCtx := appState.NewContext(abciAPI.ContextDeliverTx)
		defer txCtx.Close()
		txCtx.SetTxSigner(entitySigner.Public())
		_, err = app.registerRuntime(txCtx, state, r)
		require.NoError(err, msg)
	}
	deliver(0, rt, "registration (epoch 0)")
	rt.Deployments = append(rt.Deployments, &registry.VersionInfo{Version: version.Version{Major: 2}, ValidFrom: 5})
	deliver(2, rt, "second deployment (epoch 2)")
	rt.Deployments = append(rt.Deployments, &registry.VersionInfo{Version: version.Version{Major: 3}, ValidFrom: 100})
	deliver(6, rt, "third deployment (epoch 6)")

	// A change-parameters proposal lowers the limit; it is validated and applied by the application.
	// (MaxRuntimeDeployments alone is rejected as "empty" by ConsensusParameterChanges.SanityCheck,
	// so the proposal also restates MaxNodeExpiration.)
	two := uint8(2)
	maxNodeExpiration := beacon.EpochTime(5)
	proposal := governance.ChangeParametersProposal{
		Module:  registry.ModuleName,
		Changes: cbor.Marshal(registry.ConsensusParameterChanges{MaxRuntimeDeployments: &two, MaxNodeExpiration: &maxNodeExpiration}),
	}
	_, err = app.changeParameters(ctx, &proposal, false)
	require.NoError(err, "validation of the parameter change")
	_, err = app.changeParameters(ctx, &proposal, true)
	require.NoError(err, "application of the parameter change")

	// The owner updates the runtime (here: drops the oldest deployment, which would make it valid).
	appState.UpdateMockApplicationStateConfig(&abciAPI.MockApplicationStateConfig{CurrentEpoch: 7})
	upd := *rt
	upd.Deployments = rt.Deployments[1:]

	// CheckTx admits the transaction.
	checkCtx := appState.NewContext(abciAPI.ContextCheckTx)
	defer checkCtx.Close()
	checkCtx.SetTxSigner(entitySigner.Public())
	_, err = app.registerRuntime(checkCtx, state, &upd)
	require.NoError(err, "CheckTx")

	txCtx2 := appState.NewContext(abciAPI.ContextDeliverTx)
	defer txCtx2.Close()
	txCtx2.SetTxSigner(entitySigner.Public())
	require.NotPanics(func() {
		_, err = app.registerRuntime(txCtx2, state, &upd)
	}, "a RegisterRuntime transaction must not panic during DeliverTx; it may only fail for itself")
}

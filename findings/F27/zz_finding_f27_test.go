package roothash

import (
	"fmt"
	"testing"

	"github.com/stretchr/testify/require"

	"github.com/oasisprotocol/oasis-core/go/common/cbor"
	"github.com/oasisprotocol/oasis-core/go/common/crypto/signature"
	memorySigner "github.com/oasisprotocol/oasis-core/go/common/crypto/signature/signers/memory"
	"github.com/oasisprotocol/oasis-core/go/common/entity"
	"github.com/oasisprotocol/oasis-core/go/common/node"
	"github.com/oasisprotocol/oasis-core/go/common/quantity"
	abciAPI "github.com/oasisprotocol/oasis-core/go/consensus/cometbft/api"
	registryState "github.com/oasisprotocol/oasis-core/go/consensus/cometbft/apps/registry/state"
	stakingState "github.com/oasisprotocol/oasis-core/go/consensus/cometbft/apps/staking/state"
	registry "github.com/oasisprotocol/oasis-core/go/registry/api"
	staking "github.com/oasisprotocol/oasis-core/go/staking/api"
)

// S2: a discrepancy resolver entity that has been slashed to zero before (balance 0, shares > 0)
// and charges 100% commission makes the reward distribution fail.
func TestFindingF27(t *testing.T) {
	require := require.New(t)

	appState := abciAPI.NewMockApplicationState(&abciAPI.MockApplicationStateConfig{CurrentEpoch: 10})
	ctx := appState.NewContext(abciAPI.ContextEndBlock)
	defer ctx.Close()

	regState := registryState.NewMutableState(ctx.State())
	stakeState := stakingState.NewMutableState(ctx.State())
	require.NoError(stakeState.SetConsensusParameters(ctx, &staking.ConsensusParameters{}), "SetConsensusParameters")

	runtime := &registry.Runtime{
		Staking: registry.RuntimeStakingParameters{RewardSlashBadResultsRuntimePercent: 50},
	}

	var ents []signature.PublicKey
	for i := 0; i < 2; i++ {
		entitySigner := memorySigner.NewTestSigner(fmt.Sprintf("scratch S2 entity signer: %d", i))
		ent := &entity.Entity{ID: entitySigner.Public()}
		sigEntity, err := entity.SignEntity(entitySigner, registry.RegisterEntitySignatureContext, ent)
		require.NoError(err)
		require.NoError(regState.SetEntity(ctx, ent, sigEntity))
		nodeSigner := memorySigner.NewTestSigner(fmt.Sprintf("scratch S2 node signer: %d", i))
		nod := &node.Node{Versioned: cbor.NewVersioned(node.LatestNodeDescriptorVersion), ID: nodeSigner.Public(), EntityID: ent.ID}
		sigNode, err := node.MultiSignNode([]signature.Signer{nodeSigner}, registry.RegisterNodeSignatureContext, nod)
		require.NoError(err)
		require.NoError(regState.SetNode(ctx, nil, nod, sigNode))
		ents = append(ents, ent.ID)
	}
	bad, good := staking.NewAddress(ents[0]), staking.NewAddress(ents[1])

	// Bad entity has stake to be slashed.
	require.NoError(stakeState.SetAccount(ctx, bad, &staking.Account{
		Escrow: staking.EscrowAccount{Active: staking.SharePool{Balance: *quantity.NewFromUint64(200), TotalShares: *quantity.NewFromUint64(200)}},
	}))
	// Good entity was slashed to zero earlier in the epoch and has a 100% commission rate.
	require.NoError(stakeState.SetAccount(ctx, good, &staking.Account{
		Escrow: staking.EscrowAccount{
			Active: staking.SharePool{Balance: *quantity.NewFromUint64(0), TotalShares: *quantity.NewFromUint64(200)},
			CommissionSchedule: staking.CommissionSchedule{
				Rates: []staking.CommissionRateStep{{Start: 0, Rate: *staking.CommissionRateDenominator.Clone()}},
			},
		},
	}))
	require.NoError(stakeState.SetDelegation(ctx, good, good, &staking.Delegation{Shares: *quantity.NewFromUint64(200)}))

	err := onRuntimeIncorrectResults(ctx, []signature.PublicKey{ents[0]}, []signature.PublicKey{ents[1]}, runtime, quantity.NewFromUint64(100))
	t.Logf("S2 result: %v", err)
	require.NoError(err, "S2")
}

// S1: voting power conversion for extreme stake.

package staking

import (
	"testing"

	"github.com/stretchr/testify/require"

	"github.com/oasisprotocol/oasis-core/go/common/crypto/signature"
	"github.com/oasisprotocol/oasis-core/go/common/quantity"
	abciAPI "github.com/oasisprotocol/oasis-core/go/consensus/cometbft/api"
	stakingState "github.com/oasisprotocol/oasis-core/go/consensus/cometbft/apps/staking/state"
	staking "github.com/oasisprotocol/oasis-core/go/staking/api"
)

// Finding F5 (property C10): consensus parameters whose commission
// RateChangeInterval is zero pass ConsensusParameters.SanityCheck (it is the
// value a genesis document gets when the field is omitted), and with them an
// ordinary AmendCommissionSchedule transaction makes transaction execution
// panic with an integer division by zero instead of failing for itself only.
func TestF5AmendCommissionScheduleZeroInterval(t *testing.T) {
	require := require.New(t)

	params := &staking.ConsensusParameters{
		CommissionScheduleRules: staking.CommissionScheduleRules{
			MaxRateSteps:  5,
			MaxBoundSteps: 5,
			// RateChangeInterval omitted: zero.
		},
		FeeSplitWeightVote: *quantity.NewFromUint64(1),
		Thresholds:         map[staking.ThresholdKind]quantity.Quantity{},
	}
	for _, kind := range staking.ThresholdKinds {
		params.Thresholds[kind] = *quantity.NewFromUint64(0)
	}
	require.NoError(params.SanityCheck(), "the parameters are accepted by the genesis sanity check")

	appState := abciAPI.NewMockApplicationState(&abciAPI.MockApplicationStateConfig{})
	ctx := appState.NewContext(abciAPI.ContextEndBlock)
	defer ctx.Close()
	stakeState := stakingState.NewMutableState(ctx.State())
	require.NoError(stakeState.SetConsensusParameters(ctx, params))

	app := &Application{state: appState}
	txCtx := appState.NewContext(abciAPI.ContextDeliverTx)
	defer txCtx.Close()
	pk1 := signature.NewPublicKey("aaafffffffffffffffffffffffffffffffffffffffffffffffffffffffffffff")
	txCtx.SetTxSigner(pk1)

	amendment := &staking.AmendCommissionSchedule{Amendment: staking.CommissionSchedule{
		Rates: []staking.CommissionRateStep{{Start: 100, Rate: *quantity.NewFromUint64(50_000)}},
	}}
	require.NotPanics(func() {
		err := app.amendCommissionSchedule(txCtx, stakeState, amendment)
		t.Logf("result: %v", err)
	}, "a transaction must fail for itself only, not panic")
}

package pcs

import (
	"encoding/json"
	"os"
	"testing"
	"time"
)

func probeLoad(t *testing.T, q, tcb, qe string) *QuoteBundle {
	rq, err := os.ReadFile(q)
	if err != nil {
		t.Fatal(err)
	}
	rt, _ := os.ReadFile(tcb)
	rqe, _ := os.ReadFile(qe)
	rc, _ := os.ReadFile("testdata/tcb_info_v3_fmspc_00606A000000_certs.pem")
	var ti SignedTCBInfo
	if err := json.Unmarshal(rt, &ti); err != nil {
		t.Fatal(err)
	}
	var qi SignedQEIdentity
	if err := json.Unmarshal(rqe, &qi); err != nil {
		t.Fatal(err)
	}
	return &QuoteBundle{Quote: rq, TCB: TCBBundle{TCBInfo: ti, QEIdentity: qi, Certificates: rc}}
}

// A: FMSPC blacklist is compared as a raw string against the (signed) TCB info spelling.
func TestProbeFMSPCBlacklistCase(t *testing.T) {
	qb := probeLoad(t, "testdata/quote_v4_tdx_ecdsa_p256.bin", "testdata/tcb_info_v3_tdx_fmspc_C0806F000000.json", "testdata/qe_identity_v2_tdx2.json")
	now := time.Unix(1725263032, 0)
	for _, bl := range []string{"c0806f000000", "C0806F000000"} {
		pol := &QuotePolicy{TCBValidityPeriod: 30, MinTCBEvaluationDataNumber: 12, TDX: &TdxQuotePolicy{}, FMSPCBlacklist: []string{bl}}
		_, err := qb.Verify(pol, now)
		t.Logf("TDX quote of platform FMSPC C0806F000000, blacklist=[%s] -> err=%v", bl, err)
	}
	qb = probeLoad(t, "testdata/quote_v3_ecdsa_p256_pck_chain.bin", "testdata/tcb_info_v3_fmspc_00606A000000.json", "testdata/qe_identity_v2.json")
	now = time.Unix(1671497404, 0)
	for _, bl := range []string{"00606a000000", "00606A000000"} {
		pol := &QuotePolicy{TCBValidityPeriod: 30, MinTCBEvaluationDataNumber: 12, FMSPCBlacklist: []string{bl}}
		_, err := qb.Verify(pol, now)
		t.Logf("SGX quote of platform FMSPC 00606A000000, blacklist=[%s] -> err=%v", bl, err)
	}
}

// B: nextUpdate of the collateral is parsed but never compared with the verification time.
func TestProbeNextUpdate(t *testing.T) {
	qb := probeLoad(t, "testdata/quote_v3_ecdsa_p256_pck_chain.bin", "testdata/tcb_info_v3_fmspc_00606A000000.json", "testdata/qe_identity_v2.json")
	// QE identity nextUpdate 2023-01-15T12:45:36Z, TCB info nextUpdate 2023-01-18T09:40:10Z.
	ts, _ := time.Parse(time.RFC3339, "2023-03-01T00:00:00Z")
	pol := &QuotePolicy{TCBValidityPeriod: 90, MinTCBEvaluationDataNumber: 12}
	_, err := qb.Verify(pol, ts)
	t.Logf("verify at %s (6 weeks after nextUpdate of both TCB info and QE identity) with TCBValidityPeriod=90 -> err=%v", ts, err)
	pol.TCBValidityPeriod = 65535
	ts, _ = time.Parse(time.RFC3339, "2040-01-01T00:00:00Z")
	_, err = qb.Verify(pol, ts)
	t.Logf("verify at %s with TCBValidityPeriod=65535 -> err=%v", ts, err)
}

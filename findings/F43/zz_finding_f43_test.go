package checkpoint

import (
	"bytes"
	"context"
	"runtime"
	"testing"

	"github.com/golang/snappy"

	"github.com/oasisprotocol/oasis-core/go/common/crypto/hash"
	"github.com/oasisprotocol/oasis-core/go/storage/mkvs/node"
)

// A chunk is a snappy stream of CBOR byte strings. Each 1-byte empty byte string (0x40) becomes a
// 24-byte slice header in Proof.Entries, and runs of identical bytes compress ~20x under snappy.
func TestProbeChunkBomb(t *testing.T) {
	for _, entries := range []int{1_000_000, 8_000_000, 32_000_000} {
		var chunk bytes.Buffer
		sw := snappy.NewBufferedWriter(&chunk)
		blk := bytes.Repeat([]byte{0x40}, 1<<16)
		for n := 0; n < entries; n += len(blk) {
			_, _ = sw.Write(blk)
		}
		_ = sw.Close()

		var root node.Root
		root.Type = node.RootTypeState
		root.Version = 1
		root.Hash = hash.NewFromBytes([]byte("some trusted root"))
		cm := &ChunkMetadata{Version: 1, Root: root, Index: 0}
		cm.Digest = hash.NewFromBytes([]byte("whatever the attacker advertised"))

		var before, after runtime.MemStats
		runtime.GC()
		runtime.ReadMemStats(&before)
		// ndb is never touched: the chunk is rejected, but only after everything was read.
		err := restoreChunk(context.Background(), nil, cm, bytes.NewReader(chunk.Bytes()))
		runtime.ReadMemStats(&after)
		t.Logf("chunk bytes on the wire=%d entries=%d -> allocated while rejecting=%d MiB (x%d), process memory grew by %d MiB, err=%v",
			chunk.Len(), entries, (after.TotalAlloc-before.TotalAlloc)>>20, (after.TotalAlloc-before.TotalAlloc)/uint64(chunk.Len()), (after.Sys-before.Sys)>>20, err)
	}
}

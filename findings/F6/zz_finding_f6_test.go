package staking

import (
	"testing"

	"github.com/stretchr/testify/require"

	"github.com/oasisprotocol/oasis-core/go/common/cbor"
	"github.com/oasisprotocol/oasis-core/go/common/crypto/signature"
	"github.com/oasisprotocol/oasis-core/go/common/quantity"
	abciAPI "github.com/oasisprotocol/oasis-core/go/consensus/cometbft/api"
	stakingState "github.com/oasisprotocol/oasis-core/go/consensus/cometbft/apps/staking/state"
	governance "github.com/oasisprotocol/oasis-core/go/governance/api"
	staking "github.com/oasisprotocol/oasis-core/go/staking/api"
)

// Finding F6 (property C10): the voters' and next proposer's share of a
// block's fees is persisted in EndBlock (100_staking) using the fee split
// weights of that moment and paid out in the next BeginBlock using the weights
// of that later moment. A parameter change executed by 300_governance in the
// same EndBlock (after staking ran) that sets FeeSplitWeightVote and
// FeeSplitWeightNextPropose to zero (valid: FeeSplitWeightPropose stays
// non-zero) makes the next BeginBlock divide the persisted fees by a zero
// weight sum and return an error, which the multiplexer turns into a panic.
func TestF6FeeSplitChangedBetweenPersistAndDisburse(t *testing.T) {
	require := require.New(t)

	appState := abciAPI.NewMockApplicationState(&abciAPI.MockApplicationStateConfig{})
	ctx := appState.NewContext(abciAPI.ContextEndBlock)
	defer ctx.Close()
	st := stakingState.NewMutableState(ctx.State())

	params := &staking.ConsensusParameters{
		Thresholds:                map[staking.ThresholdKind]quantity.Quantity{},
		FeeSplitWeightPropose:     *quantity.NewFromUint64(1),
		FeeSplitWeightVote:        *quantity.NewFromUint64(1),
		FeeSplitWeightNextPropose: *quantity.NewFromUint64(1),
	}
	for _, kind := range staking.ThresholdKinds {
		params.Thresholds[kind] = *quantity.NewFromUint64(0)
	}
	require.NoError(params.SanityCheck())
	require.NoError(st.SetConsensusParameters(ctx, params))

	app := &Application{state: appState}
	proposer := signature.NewPublicKey("aaafffffffffffffffffffffffffffffffffffffffffffffffffffffffffffff")

	// EndBlock of block N, 100_staking: a block with fees; 2/3 are persisted for voters/next proposer.
	require.NoError(app.disburseFeesP(ctx, st, &proposer, quantity.NewFromUint64(300)))
	lbf, err := st.LastBlockFees(ctx)
	require.NoError(err)
	require.False(lbf.IsZero(), "fees are persisted for the next block")

	// EndBlock of block N, 300_governance: an accepted proposal gives all fees to the proposer.
	zero := quantity.NewFromUint64(0)
	changes := staking.ConsensusParameterChanges{FeeSplitWeightVote: zero, FeeSplitWeightNextPropose: zero}
	proposal := governance.ChangeParametersProposal{Module: staking.ModuleName, Changes: cbor.Marshal(changes)}
	res, err := app.changeParameters(ctx, &proposal, true)
	require.NoError(err, "the parameter change is valid and applied")
	require.NotNil(res)

	// BeginBlock of block N+1.
	bctx := appState.NewContext(abciAPI.ContextBeginBlock)
	defer bctx.Close()
	err = app.disburseFeesVQ(bctx, stakingState.NewMutableState(bctx.State()), &proposer, 1, []signature.PublicKey{proposer})
	require.NoError(err, "BeginBlock must not fail (the multiplexer panics on a BeginBlock error)")
}

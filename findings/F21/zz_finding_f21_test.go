package mkvs

import (
	"bytes"
	"context"
	"testing"

	"github.com/oasisprotocol/oasis-core/go/storage/mkvs/node"
	"github.com/oasisprotocol/oasis-core/go/storage/mkvs/syncer"
)

// Clean tree: proofs produced by an honest tree for keys deeper than 128 levels do not verify.
func TestFindingF21(t *testing.T) {
	ctx := context.Background()
	full := New(nil, nil, node.RootTypeState)
	var keys [][]byte
	for i := 1; i <= 130; i++ {
		keys = append(keys, bytes.Repeat([]byte{'a'}, i))
	}
	for _, k := range keys {
		if err := full.Insert(ctx, k, []byte("v")); err != nil {
			t.Fatal(err)
		}
	}
	_, rootHash, err := full.Commit(ctx, testNs, 0)
	if err != nil {
		t.Fatal(err)
	}
	root := node.Root{Namespace: testNs, Version: 0, Type: node.RootTypeState, Hash: rootHash}
	for _, v := range []uint16{0, 1} {
		rsp, err := full.(*tree).SyncGet(ctx, &syncer.GetRequest{Tree: syncer.TreeID{Root: root, Position: rootHash}, Key: keys[129], ProofVersion: v})
		if err != nil {
			t.Fatal(err)
		}
		var pv syncer.ProofVerifier
		if _, err = pv.VerifyProof(ctx, rootHash, &rsp.Proof); err != nil {
			t.Errorf("v=%d: honest proof for a 130-byte key (130 nested prefixes) does not verify: %v", v, err)
		}
	}
	remote := NewWithRoot(full, nil, root)
	val, err := remote.Get(ctx, keys[129])
	t.Logf("remote Get(deep key) = %q, %v", val, err)
}

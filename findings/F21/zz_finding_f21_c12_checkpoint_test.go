package checkpoint

// Reproductions of genuine violations of property C12 on the UNMODIFIED tree.
// Each test asserts the property; each FAILS on the clean tree.

import (
	"bytes"
	"context"
	"os"
	"path/filepath"
	"strconv"
	"testing"

	"github.com/oasisprotocol/oasis-core/go/storage/mkvs"
	"github.com/oasisprotocol/oasis-core/go/storage/mkvs/db/api"
	"github.com/oasisprotocol/oasis-core/go/storage/mkvs/db/badger"
	"github.com/oasisprotocol/oasis-core/go/storage/mkvs/db/pathbadger"
	"github.com/oasisprotocol/oasis-core/go/storage/mkvs/node"
)

func sideDB(t *testing.T, f api.Factory, dir string) api.NodeDB {
	ndb, err := f.New(&api.Config{DB: dir, Namespace: testNs, MaxCacheSize: 16 << 20})
	if err != nil {
		t.Fatal(err)
	}
	return ndb
}

func sideCommit(t *testing.T, ndb api.NodeDB, typ node.RootType, version uint64, keys, vals [][]byte) node.Root {
	ctx := context.Background()
	tree := mkvs.New(nil, ndb, typ)
	defer tree.Close()
	for i := range keys {
		if err := tree.Insert(ctx, keys[i], vals[i]); err != nil {
			t.Fatal(err)
		}
	}
	_, h, err := tree.Commit(ctx, testNs, version)
	if err != nil {
		t.Fatal(err)
	}
	return node.Root{Namespace: testNs, Version: version, Type: typ, Hash: h}
}

func sideChunk(t *testing.T, fc Creator, cp *Metadata, i int) *bytes.Reader {
	cm, err := cp.GetChunkMetadata(uint64(i))
	if err != nil {
		t.Fatal(err)
	}
	var buf bytes.Buffer
	if err = fc.GetCheckpointChunk(context.Background(), cm, &buf); err != nil {
		t.Fatal(err)
	}
	return bytes.NewReader(buf.Bytes())
}

func sideNumbered(n int) (keys, vals [][]byte) {
	for i := 0; i < n; i++ {
		keys = append(keys, []byte("key "+strconv.Itoa(i)))
		vals = append(vals, []byte("value "+strconv.Itoa(i)))
	}
	return
}

// A + B: pathbadger, restore aborted half-way and restarted.
func TestSideC12r3_PathbadgerAbortRestart(t *testing.T) {
	ctx := context.Background()
	dir := t.TempDir()
	src := sideDB(t, pathbadger.Factory, filepath.Join(dir, "src"))
	defer src.Close()
	keys, vals := sideNumbered(300)
	root := sideCommit(t, src, node.RootTypeState, 1, keys, vals)
	if err := src.Finalize([]node.Root{root}); err != nil {
		t.Fatal(err)
	}
	fc, _ := NewFileCreator(filepath.Join(dir, "cp"), src)
	cp, err := fc.CreateCheckpoint(ctx, root, 1024, 2)
	if err != nil {
		t.Fatal(err)
	}
	if len(cp.Chunks) < 4 {
		t.Fatalf("want several chunks, got %d", len(cp.Chunks))
	}

	dst := sideDB(t, pathbadger.Factory, filepath.Join(dir, "dst"))
	defer dst.Close()
	rs, _ := NewRestorer(dst)
	if err = dst.StartMultipartInsert(1); err != nil {
		t.Fatal(err)
	}
	if err = rs.StartRestore(ctx, cp); err != nil {
		t.Fatal(err)
	}
	for i := 0; i < len(cp.Chunks)/2; i++ {
		if _, err = rs.RestoreChunk(ctx, uint64(i), sideChunk(t, fc, cp, i)); err != nil {
			t.Fatal(err)
		}
	}
	// The restore is given up (e.g. the peer went away).
	_ = rs.AbortRestore(ctx)
	if err = dst.AbortMultipartInsert(); err != nil {
		t.Fatal(err)
	}
	if dst.HasRoot(root) {
		t.Errorf("A: after AbortMultipartInsert the root of the aborted, half-imported restore is reported as present (HasRoot=true)")
		tree := mkvs.NewWithRoot(nil, dst, root)
		var okN, failN int
		for _, k := range keys {
			if _, gerr := tree.Get(ctx, k); gerr != nil {
				failN++
			} else {
				okN++
			}
		}
		tree.Close()
		t.Logf("A: reading the aborted root: %d keys readable, %d keys fail", okN, failN)
	}

	// Restart the very same restore from scratch and run it to completion.
	if err = dst.StartMultipartInsert(1); err != nil {
		t.Fatal(err)
	}
	if err = rs.StartRestore(ctx, cp); err != nil {
		t.Fatal(err)
	}
	var done bool
	for i := 0; i < len(cp.Chunks); i++ {
		if done, err = rs.RestoreChunk(ctx, uint64(i), sideChunk(t, fc, cp, i)); err != nil {
			t.Fatalf("restore chunk %d: %v", i, err)
		}
	}
	if !done {
		t.Fatalf("restore not done")
	}
	if err = dst.Finalize([]node.Root{root}); err != nil {
		t.Fatalf("finalize: %v", err)
	}
	tree := mkvs.NewWithRoot(nil, dst, root)
	defer tree.Close()
	var bad int
	var firstErr error
	for i, k := range keys {
		v, gerr := tree.Get(ctx, k)
		if gerr != nil || !bytes.Equal(v, vals[i]) {
			bad++
			if firstErr == nil {
				firstErr = gerr
			}
		}
	}
	if bad > 0 {
		t.Errorf("B: restarted restore completed and finalized without error, but %d of %d keys are not readable (first error: %v)", bad, len(keys), firstErr)
	}
}

// B': the same loss without any abort: a non-finalized root was committed at the version before the
// node is state-synced to that version.
func TestSideC12r3_PathbadgerRestoreAfterPendingBatch(t *testing.T) {
	ctx := context.Background()
	dir := t.TempDir()
	src := sideDB(t, pathbadger.Factory, filepath.Join(dir, "src"))
	defer src.Close()
	keys, vals := sideNumbered(300)
	root := sideCommit(t, src, node.RootTypeState, 1, keys, vals)
	if err := src.Finalize([]node.Root{root}); err != nil {
		t.Fatal(err)
	}
	fc, _ := NewFileCreator(filepath.Join(dir, "cp"), src)
	cp, err := fc.CreateCheckpoint(ctx, root, 1024, 2)
	if err != nil {
		t.Fatal(err)
	}

	dst := sideDB(t, pathbadger.Factory, filepath.Join(dir, "dst"))
	defer dst.Close()
	// Some other (never finalized) root of the same type was committed in version 1 before.
	_ = sideCommit(t, dst, node.RootTypeState, 1, [][]byte{[]byte("other")}, [][]byte{[]byte("other")})

	rs, _ := NewRestorer(dst)
	if err = dst.StartMultipartInsert(1); err != nil {
		t.Fatal(err)
	}
	if err = rs.StartRestore(ctx, cp); err != nil {
		t.Fatal(err)
	}
	for i := 0; i < len(cp.Chunks); i++ {
		if _, err = rs.RestoreChunk(ctx, uint64(i), sideChunk(t, fc, cp, i)); err != nil {
			t.Fatalf("restore chunk %d: %v", i, err)
		}
	}
	if err = dst.Finalize([]node.Root{root}); err != nil {
		t.Fatalf("finalize: %v", err)
	}
	tree := mkvs.NewWithRoot(nil, dst, root)
	defer tree.Close()
	var bad int
	var firstErr error
	for i, k := range keys {
		v, gerr := tree.Get(ctx, k)
		if gerr != nil || !bytes.Equal(v, vals[i]) {
			bad++
			if firstErr == nil {
				firstErr = gerr
			}
		}
	}
	if bad > 0 {
		t.Errorf("B': restore completed and finalized without error, but %d of %d keys are not readable (first error: %v)", bad, len(keys), firstErr)
	}
}

// C: deep prefix chain (both backends, both chunkers).
func TestSideC12r3_DeepPrefixChain(t *testing.T) {
	ctx := context.Background()
	for _, f := range []api.Factory{badger.Factory, pathbadger.Factory} {
		for _, threads := range []uint16{0, 4} {
			dir, _ := os.MkdirTemp("", "side")
			defer os.RemoveAll(dir)
			src := sideDB(t, f, filepath.Join(dir, "src"))
			defer src.Close()
			var keys, vals [][]byte
			k := []byte{}
			for i := 0; i < 140; i++ { // 140 keys, each a prefix of the next; 140-byte keys are ordinary
				k = append(k, 'a')
				keys = append(keys, append([]byte{}, k...))
				vals = append(vals, []byte("v"))
			}
			root := sideCommit(t, src, node.RootTypeState, 1, keys, vals)
			if err := src.Finalize([]node.Root{root}); err != nil {
				t.Fatal(err)
			}
			fc, _ := NewFileCreator(filepath.Join(dir, "cp"), src)
			cp, err := fc.CreateCheckpoint(ctx, root, 1<<20, threads)
			if err != nil {
				t.Fatalf("create: %v", err)
			}
			dst := sideDB(t, f, filepath.Join(dir, "dst"))
			defer dst.Close()
			rs, _ := NewRestorer(dst)
			_ = dst.StartMultipartInsert(1)
			_ = rs.StartRestore(ctx, cp)
			for i := 0; i < len(cp.Chunks); i++ {
				if _, err = rs.RestoreChunk(ctx, uint64(i), sideChunk(t, fc, cp, i)); err != nil {
					t.Errorf("C: %s threads=%d: genuine chunk %d/%d of a checkpoint created without error is rejected: %v", f.Name(), threads, i, len(cp.Chunks), err)
					break
				}
			}
		}
	}
}

// D: checkpoints are stored by (version, hash) only; roots of different type with the same hash collide.
func TestSideC12r3_RootTypeCollision(t *testing.T) {
	ctx := context.Background()
	dir := t.TempDir()
	src := sideDB(t, badger.Factory, filepath.Join(dir, "src"))
	defer src.Close()
	keys, vals := sideNumbered(50)
	rS := sideCommit(t, src, node.RootTypeState, 1, keys, vals)
	rI := sideCommit(t, src, node.RootTypeIO, 1, keys, vals)
	if err := src.Finalize([]node.Root{rS, rI}); err != nil {
		t.Fatal(err)
	}
	fc, _ := NewFileCreator(filepath.Join(dir, "cp"), src)
	if _, err := fc.CreateCheckpoint(ctx, rS, 1024, 0); err != nil {
		t.Fatal(err)
	}
	cpI, err := fc.CreateCheckpoint(ctx, rI, 1024, 0)
	if err != nil {
		t.Fatal(err)
	}
	if cpI.Root != rI {
		t.Errorf("D: CreateCheckpoint(%s) returned metadata for a different root: %s", rI, cpI.Root)
	}
}

package mkvs

import (
	"context"
	"os"
	"path/filepath"
	"testing"

	"github.com/stretchr/testify/require"

	"github.com/oasisprotocol/oasis-core/go/common"
	"github.com/oasisprotocol/oasis-core/go/storage/mkvs/db"
	dbApi "github.com/oasisprotocol/oasis-core/go/storage/mkvs/db/api"
	"github.com/oasisprotocol/oasis-core/go/storage/mkvs/node"
	"github.com/oasisprotocol/oasis-core/go/storage/mkvs/writelog"
)

// Probe: a write log served across two hops inside one version (a -> b -> c),
// applied to a tree at a, must produce c.
func TestF10TwoHopWriteLogOrder(t *testing.T) {
	for _, factory := range db.Backends[:1] {
		t.Run(factory.Name(), func(t *testing.T) {
			require := require.New(t)
			ctx := context.Background()
			ns := common.NewTestNamespaceFromSeed([]byte("oasis f10 test ns"), 0)
			dir, err := os.MkdirTemp("", "mkvs.f10")
			require.NoError(err)
			defer os.RemoveAll(dir)
			ndb, err := factory.New(&dbApi.Config{DB: filepath.Join(dir, "db"), Namespace: ns, MaxCacheSize: 16 * 1024 * 1024})
			require.NoError(err)
			defer ndb.Close()

			// a (empty) -> b: K = v1
			tree := New(nil, ndb, node.RootTypeState)
			require.NoError(tree.Insert(ctx, []byte("K"), []byte("v1")))
			require.NoError(tree.Insert(ctx, []byte("L"), []byte("l1")))
			_, hb, err := tree.Commit(ctx, ns, 1)
			require.NoError(err)
			rootB := node.Root{Namespace: ns, Version: 1, Type: node.RootTypeState, Hash: hb}
			// b -> c (same version): K = v2
			tree2 := NewWithRoot(nil, ndb, rootB)
			require.NoError(tree2.Insert(ctx, []byte("K"), []byte("v2")))
			_, hc, err := tree2.Commit(ctx, ns, 1)
			require.NoError(err)
			rootC := node.Root{Namespace: ns, Version: 1, Type: node.RootTypeState, Hash: hc}

			rootA := node.Root{Namespace: ns, Version: 1, Type: node.RootTypeState}
			rootA.Hash.Empty()
			it, err := ndb.GetWriteLog(ctx, rootA, rootC)
			require.NoError(err, "GetWriteLog(a, c)")
			var wl writelog.WriteLog
			for {
				more, err := it.Next()
				require.NoError(err)
				if !more {
					break
				}
				e, err := it.Value()
				require.NoError(err)
				wl = append(wl, e)
			}
			t.Logf("served write log: %v", wl)

			// Apply to a fresh in-memory tree at a.
			mem := New(nil, nil, node.RootTypeState)
			require.NoError(mem.ApplyWriteLog(ctx, writelog.NewStaticIterator(wl)))
			_, got, err := mem.Commit(ctx, ns, 1)
			require.NoError(err)
			require.Equal(hc, got, "applying the served write log to a must give c")
		})
	}
}

package stateless

import (
	"testing"

	cmtproto "github.com/cometbft/cometbft/proto/tendermint/types"
	cmttypes "github.com/cometbft/cometbft/types"
	"github.com/stretchr/testify/require"

	"github.com/oasisprotocol/oasis-core/go/common/cbor"
	consensus "github.com/oasisprotocol/oasis-core/go/consensus/api"
	"github.com/oasisprotocol/oasis-core/go/consensus/cometbft/api"
	"github.com/oasisprotocol/oasis-core/go/consensus/cometbft/light"
)

// Finding F11 (property C19): verifyBlock binds the block meta's last commit to
// the verified header only through header.LastCommitHash, which CometBFT
// computes over the list of precommit signatures alone. The commit's Height and
// BlockID are covered by nothing although the verified header states both
// (Height-1 and LastBlockID), so an untrusted provider can hand out a block whose
// last commit claims another height or another block and the stateless client
// returns it as verified.
func f11Rewrite(t *testing.T, blk *consensus.Block, modify func(commit *cmtproto.Commit)) *consensus.Block {
	var meta api.BlockMeta
	require.NoError(t, cbor.Unmarshal(blk.Meta, &meta))
	var commit cmtproto.Commit
	require.NoError(t, commit.Unmarshal(meta.LastCommit))
	modify(&commit)
	_, err := cmttypes.CommitFromProto(&commit)
	require.NoError(t, err, "rewritten commit should remain well-formed")
	raw, err := commit.Marshal()
	require.NoError(t, err)
	meta.LastCommit = raw
	forged := *blk
	forged.Meta = cbor.Marshal(meta)
	return &forged
}

func TestF11LastCommitHeightAndBlockIDBoundToHeader(t *testing.T) {
	clb, err := testLightBlock()
	require.NoError(t, err)
	lb, err := light.DecodeLightBlock(clb)
	require.NoError(t, err)
	blk, err := testBlock()
	require.NoError(t, err)
	require.NoError(t, verifyBlock(blk, lb), "genuine block should verify")

	t.Run("height", func(t *testing.T) {
		forged := f11Rewrite(t, blk, func(c *cmtproto.Commit) { c.Height -= 7 })
		require.Error(t, verifyBlock(forged, lb), "a last commit for another height than header.Height-1 must be rejected")
	})
	t.Run("block id", func(t *testing.T) {
		forged := f11Rewrite(t, blk, func(c *cmtproto.Commit) {
			h := append([]byte{}, c.BlockID.Hash...)
			h[0] ^= 0xff
			c.BlockID.Hash = h
		})
		require.Error(t, verifyBlock(forged, lb), "a last commit for another block than header.LastBlockID must be rejected")
	})
}

package txpool

import (
	"testing"

	"github.com/stretchr/testify/require"
)

// Finding F7 (property C20): when a sender's queue is moved forward outside a
// scheduling pass (the head transaction was included in a block proposed by
// another node: HandleTxsUsed; or Add arrives with a newer SenderStateSeq), the
// transaction that becomes the sender's first pending one is not put into the
// max heap, so it (and everything behind it) is never scheduled although it is
// the highest-priority ready transaction.
func TestF7SuccessorNotSchedulableAfterForward(t *testing.T) {
	t.Run("HandleTxUsed", func(t *testing.T) {
		s := newMainQueueScheduler(10)
		a0 := newTestTransaction(0, 0, 10)
		a1 := newTestTransaction(0, 1, 10)
		require.NoError(t, s.add(a0, 0))
		require.NoError(t, s.add(a1, 0))

		// A/0 is included in a block by somebody else.
		s.handleTxUsed(a0.meta.hash)
		require.Equal(t, 1, s.size())

		// New scheduling pass: A/1 is the sender's first pending transaction.
		s.reset()
		got := s.schedule(10)
		require.Equal(t, []*TxQueueMeta{a1.meta}, got, "A/1 is ready and must be scheduled")
	})

	t.Run("AddWithNewerStateSeq", func(t *testing.T) {
		q := newMainQueue(10)
		a0 := newTestTransaction(0, 0, 10)
		a1 := newTestTransaction(0, 1, 10)
		require.NoError(t, q.scheduler.add(a0, 0))
		require.NoError(t, q.scheduler.add(a1, 0))

		// The sender's state sequence advanced to 1 (A/0 executed elsewhere); a new transaction arrives.
		q.scheduler.forward(a0.sender, 1)
		a2 := newTestTransaction(0, 2, 10)
		require.NoError(t, q.scheduler.add(a2, 1))

		got := q.Schedule(10)
		require.Equal(t, []*TxQueueMeta{a1.meta, a2.meta}, got, "A/1 and A/2 are ready and must be scheduled")
	})
}

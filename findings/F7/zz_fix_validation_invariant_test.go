package txpool

import (
	"math"
	"math/rand"
	"testing"
)

// checkInv: max heap holds exactly each sender's next schedulable transaction.
func checkInv(t *testing.T, s *mainQueueScheduler, trace *[]string) {
	want := map[*mainQueueTransaction]bool{}
	for sender, sh := range s.senders {
		var seq uint64
		if last, ok := s.scheduled[sender]; ok {
			if last == math.MaxUint64 {
				continue
			}
			seq = last + 1
			if seq < sh.seq {
				continue
			}
		} else {
			seq = sh.seq
		}
		if tx, ok := sh.get(seq); ok {
			want[tx] = true
		}
	}
	got := map[*mainQueueTransaction]bool{}
	for _, tx := range s.maxHeap {
		if got[tx] {
			t.Fatalf("dup in max heap; trace %v", *trace)
		}
		got[tx] = true
	}
	for tx := range want {
		if !got[tx] {
			t.Fatalf("missing from max heap: %s/%d; trace %v", tx.sender, tx.seq, *trace)
		}
	}
	for tx := range got {
		if !want[tx] {
			t.Fatalf("unexpected in max heap: %s/%d; trace %v", tx.sender, tx.seq, *trace)
		}
	}
}

func TestInvRandom(t *testing.T) {
	seqs := []uint64{0, 1, 2, 3, 4, math.MaxUint64 - 1, math.MaxUint64}
	for iter := 0; iter < 20000; iter++ {
		rng := rand.New(rand.NewSource(int64(iter)))
		s := newMainQueueScheduler(1 + rng.Intn(5))
		var trace []string
		var all []*mainQueueTransaction
		for step := 0; step < 30; step++ {
			switch rng.Intn(6) {
			case 0, 1:
				tx := newTestTransaction(rng.Intn(3), seqs[rng.Intn(len(seqs))], uint64(rng.Intn(4)))
				st := seqs[rng.Intn(3)]
				trace = append(trace, "add "+tx.sender+"/"+itoaU(tx.seq)+" p"+itoaU(tx.priority)+" st"+itoaU(st))
				s.forward(tx.sender, st)
				_ = s.add(tx, st)
				all = append(all, tx)
			case 2:
				k := rng.Intn(3)
				trace = append(trace, "schedule "+itoaU(uint64(k)))
				s.schedule(k)
			case 3:
				trace = append(trace, "reset")
				s.reset()
			case 4:
				if len(all) > 0 {
					tx := all[rng.Intn(len(all))]
					trace = append(trace, "used "+tx.sender+"/"+itoaU(tx.seq))
					s.handleTxUsed(tx.meta.hash)
				}
			case 5:
				snd := newTestTransaction(rng.Intn(3), 0, 0).sender
				sq := seqs[rng.Intn(len(seqs))]
				trace = append(trace, "forward "+snd+" "+itoaU(sq))
				s.forward(snd, sq)
			}
			checkInv(t, s, &trace)
		}
	}
}

func itoaU(u uint64) string {
	if u == 0 {
		return "0"
	}
	var b []byte
	for u > 0 {
		b = append([]byte{byte('0' + u%10)}, b...)
		u /= 10
	}
	return string(b)
}

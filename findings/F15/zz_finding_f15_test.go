package mkvs

import (
	"context"
	"os"
	"testing"

	"github.com/stretchr/testify/require"

	"github.com/oasisprotocol/oasis-core/go/common"
	db "github.com/oasisprotocol/oasis-core/go/storage/mkvs/db/api"
	badgerDb "github.com/oasisprotocol/oasis-core/go/storage/mkvs/db/badger"
	"github.com/oasisprotocol/oasis-core/go/storage/mkvs/node"
)

// Finding F15 (property C03): node-cache eviction changes answers.
//
// A committed (clean) leaf that becomes the embedded leaf of a new, locally modified internal
// node can still be evicted from the value cache by unrelated reads. derefNodePtr then drops
// the modified internal node from the cache "to re-fetch it" and, because the pointer is not
// clean, answers (nil, nil): the whole modified subtree reads as empty, Get returns absence,
// iteration skips the keys, and the next commit makes the loss permanent. Found by a sub-agent
// (reproduced here with the value capacity set to 10 bytes; the default is 16 MiB).
func TestF15EvictionLosesModifiedSubtree(t *testing.T) {
	require := require.New(t)
	ctx := context.Background()
	dir, err := os.MkdirTemp("", "mkvs.f15")
	require.NoError(err)
	defer os.RemoveAll(dir)
	var ns common.Namespace
	ndb, err := badgerDb.New(&db.Config{DB: dir, NoFsync: true, Namespace: ns, MaxCacheSize: 16 * 1024 * 1024})
	require.NoError(err)
	defer ndb.Close()

	iter := func(tr Tree) (ks []string) {
		it := tr.NewIterator(ctx)
		defer it.Close()
		for it.Rewind(); it.Valid(); it.Next() {
			ks = append(ks, string(it.Key()))
		}
		return
	}

	tr := New(nil, ndb, node.RootTypeState, Capacity(0, 10))
	defer tr.Close()
	require.NoError(tr.Insert(ctx, []byte("ab"), []byte("yy")))
	require.NoError(tr.Insert(ctx, []byte("c"), []byte("zz")))
	_, _, err = tr.Commit(ctx, ns, 1)
	require.NoError(err)

	require.NoError(tr.Insert(ctx, []byte("abce"), []byte("q"))) // "ab" becomes an embedded leaf of a new internal node
	_, err = tr.Get(ctx, []byte("c"))                             // unrelated read, evicts leaf "ab"
	require.NoError(err)

	v, err := tr.Get(ctx, []byte("ab"))
	require.NoError(err)
	require.Equal([]byte("yy"), v, "Get(ab) must return the last value written")
	require.Equal([]string{"ab", "abce", "c"}, iter(tr), "iteration must yield exactly the live keys")
}

package mkvs

import (
	"context"
	"fmt"
	"os"
	"path/filepath"
	"testing"

	"github.com/stretchr/testify/require"

	"github.com/oasisprotocol/oasis-core/go/common"
	"github.com/oasisprotocol/oasis-core/go/storage/mkvs/db"
	dbApi "github.com/oasisprotocol/oasis-core/go/storage/mkvs/db/api"
	"github.com/oasisprotocol/oasis-core/go/storage/mkvs/node"
)

// Probe: a candidate root that was NOT finalized must afterwards be either absent
// or readable with exactly its own contents.
func TestF12DiscardedCandidateRoot(t *testing.T) {
	for _, factory := range db.Backends {
		t.Run(factory.Name(), func(t *testing.T) {
			require := require.New(t)
			ctx := context.Background()
			ns := common.NewTestNamespaceFromSeed([]byte("oasis f12 test ns"), 0)
			dir, err := os.MkdirTemp("", "mkvs.f12")
			require.NoError(err)
			defer os.RemoveAll(dir)
			ndb, err := factory.New(&dbApi.Config{DB: filepath.Join(dir, "db"), Namespace: ns, MaxCacheSize: 16 * 1024 * 1024})
			require.NoError(err)
			defer ndb.Close()

			mk := func(suffix string) node.Root {
				tree := New(nil, ndb, node.RootTypeState)
				for i := 0; i < 50; i++ {
					require.NoError(tree.Insert(ctx, []byte(fmt.Sprintf("key-%02d", i)), []byte(fmt.Sprintf("value-%02d-%s", i, suffix))))
				}
				_, h, err := tree.Commit(ctx, ns, 1)
				require.NoError(err)
				return node.Root{Namespace: ns, Version: 1, Type: node.RootTypeState, Hash: h}
			}
			rootA := mk("A")
			rootB := mk("B")
			require.NoError(ndb.Finalize([]node.Root{rootA}))

			// The finalized root is intact.
			ta := NewWithRoot(nil, ndb, rootA)
			for i := 0; i < 50; i++ {
				v, err := ta.Get(ctx, []byte(fmt.Sprintf("key-%02d", i)))
				require.NoError(err)
				require.Equal([]byte(fmt.Sprintf("value-%02d-A", i)), v)
			}

			// The discarded candidate: absent, or exactly its own contents.
			has := ndb.HasRoot(rootB)
			t.Logf("HasRoot(discarded B) = %v", has)
			tb := NewWithRoot(nil, ndb, rootB)
			for i := 0; i < 50; i++ {
				v, err := tb.Get(ctx, []byte(fmt.Sprintf("key-%02d", i)))
				if err != nil {
					require.False(has, "the database claims to have root B but cannot read key %d under it: %v", i, err)
					continue
				}
				require.Equal([]byte(fmt.Sprintf("value-%02d-B", i)), v, "contents returned under root B do not belong to root B (key %d)", i)
			}
		})
	}
}

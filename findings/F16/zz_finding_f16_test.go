package badger

import (
	"bytes"
	"context"
	"os"
	"path/filepath"
	"strconv"
	"testing"

	"github.com/dgraph-io/badger/v4"
	"github.com/stretchr/testify/require"

	"github.com/oasisprotocol/oasis-core/go/common"
	"github.com/oasisprotocol/oasis-core/go/storage/mkvs"
	"github.com/oasisprotocol/oasis-core/go/storage/mkvs/checkpoint"
	"github.com/oasisprotocol/oasis-core/go/storage/mkvs/db/api"
	"github.com/oasisprotocol/oasis-core/go/storage/mkvs/node"
)

func f16CountLog(t *testing.T, d *badgerNodeDB) int {
	txn := d.db.NewTransactionAt(tsMetadata, false)
	defer txn.Discard()
	opts := badger.DefaultIteratorOptions
	opts.Prefix = multipartRestoreNodeLogKeyFmt.Encode()
	it := txn.NewIterator(opts)
	defer it.Close()
	n := 0
	for it.Rewind(); it.Valid(); it.Next() {
		n++
	}
	return n
}

// Finding F16 (properties C07/C12): the multipart restore log is not removed completely
// when a restore with more than ~100 restored nodes is finalized (or aborted), because the
// clean-up hands badger's reused iterator key buffer to the write batch without copying it.
// The stale log entries make a later, unrelated abort delete nodes that are live.
func TestF16RestoreLogNotFullyRemoved(t *testing.T) {
	require := require.New(t)
	ctx := context.Background()
	ns := common.NewTestNamespaceFromSeed([]byte("oasis f16 test ns"), 0)
	dir, err := os.MkdirTemp("", "mkvs.f16")
	require.NoError(err)
	defer os.RemoveAll(dir)

	mk := func(name string, version uint64, n int, tag string) (*checkpoint.Metadata, node.Root, checkpoint.Creator) {
		src, err := New(&api.Config{DB: filepath.Join(dir, name), Namespace: ns, MaxCacheSize: 16 * 1024 * 1024})
		require.NoError(err)
		tree := mkvs.New(nil, src, node.RootTypeState)
		for i := 0; i < n; i++ {
			require.NoError(tree.Insert(ctx, []byte(tag+strconv.Itoa(i)), []byte(tag+"-value-"+strconv.Itoa(i))))
		}
		_, rootHash, err := tree.Commit(ctx, ns, version)
		require.NoError(err)
		root := node.Root{Namespace: ns, Version: version, Type: node.RootTypeState, Hash: rootHash}
		fc, err := checkpoint.NewFileCreator(filepath.Join(dir, name+"-cp"), src)
		require.NoError(err)
		cp, err := fc.CreateCheckpoint(ctx, root, 16*1024, 0)
		require.NoError(err)
		return cp, root, fc
	}
	restore := func(dst api.NodeDB, cp *checkpoint.Metadata, fc checkpoint.Creator, chunks int) {
		rs, err := checkpoint.NewRestorer(dst)
		require.NoError(err)
		require.NoError(dst.StartMultipartInsert(cp.Root.Version))
		require.NoError(rs.StartRestore(ctx, cp))
		for i := 0; i < chunks && i < len(cp.Chunks); i++ {
			cm, err := cp.GetChunkMetadata(uint64(i))
			require.NoError(err)
			var buf bytes.Buffer
			require.NoError(fc.GetCheckpointChunk(ctx, cm, &buf))
			_, err = rs.RestoreChunk(ctx, uint64(i), &buf)
			require.NoError(err)
		}
		if chunks < len(cp.Chunks) {
			require.NoError(rs.AbortRestore(ctx))
		}
	}

	cp7, root7, fc7 := mk("src7", 7, 400, "a")
	dst, err := New(&api.Config{DB: filepath.Join(dir, "dst"), Namespace: ns, MaxCacheSize: 16 * 1024 * 1024})
	require.NoError(err)
	defer dst.Close()
	d := dst.(*badgerNodeDB)

	restore(dst, cp7, fc7, len(cp7.Chunks))
	logged := f16CountLog(t, d)
	require.Greater(logged, 100, "the restore logged more than 100 nodes")
	require.NoError(dst.Finalize([]node.Root{root7}))
	require.Equal(0, f16CountLog(t, d), "after finalization no restore log entry may remain (there were %d)", logged)

	// Consequence of stale entries: continue the state at version 8, start restoring another
	// checkpoint for version 9 and give up. The abort must not touch versions 7 and 8.
	tree := mkvs.NewWithRoot(nil, dst, root7)
	require.NoError(tree.Insert(ctx, []byte("z-new"), []byte("z")))
	_, h8, err := tree.Commit(ctx, ns, 8)
	require.NoError(err)
	root8 := node.Root{Namespace: ns, Version: 8, Type: node.RootTypeState, Hash: h8}
	require.NoError(dst.Finalize([]node.Root{root8}))

	cp9, _, fc9 := mk("src9", 9, 400, "b")
	restore(dst, cp9, fc9, 1)
	require.NoError(dst.AbortMultipartInsert())

	// The state continues normally at version 9.
	tree = mkvs.NewWithRoot(nil, dst, root8)
	require.NoError(tree.Insert(ctx, []byte("z-newer"), []byte("zz")))
	_, h9, err := tree.Commit(ctx, ns, 9)
	require.NoError(err)
	root9 := node.Root{Namespace: ns, Version: 9, Type: node.RootTypeState, Hash: h9}
	require.NoError(dst.Finalize([]node.Root{root9}))

	t9 := mkvs.NewWithRoot(nil, dst, root9)
	for i := 0; i < 400; i++ {
		v, err := t9.Get(ctx, []byte("a"+strconv.Itoa(i)))
		require.NoError(err, "Get(a%d) at the finalized version 9 after an unrelated restore was aborted", i)
		require.Equal([]byte("a-value-"+strconv.Itoa(i)), v)
	}
}

package mkvs

import (
	"bytes"
	"context"
	"fmt"
	"testing"

	"github.com/oasisprotocol/oasis-core/go/common"
	"github.com/oasisprotocol/oasis-core/go/storage/mkvs/node"
	"github.com/oasisprotocol/oasis-core/go/storage/mkvs/syncer"
)

func TestSideLongKeys(t *testing.T) {
	ctx := context.Background()
	var ns common.Namespace
	full := New(nil, nil, node.RootTypeState).(*tree)
	for _, k := range []string{"", "a", "b", "\x00\x00", "\x01"} {
		_ = full.Insert(ctx, []byte(k), []byte("v"))
	}
	_, rh, _ := full.Commit(ctx, ns, 0)
	root := node.Root{Namespace: ns, Version: 0, Type: node.RootTypeState, Hash: rh}
	for _, n := range []int{8191, 8192, 8193, 16384, 70000} {
		key := bytes.Repeat([]byte{0x00}, n)
		try := func(name string, f func() string) {
			defer func() {
				if r := recover(); r != nil {
					t.Errorf("len %d: %s PANIC: %v", n, name, r)
				}
			}()
			t.Logf("len %d: %s: %s", n, name, f())
		}
		try("SyncGet", func() string {
			_, err := full.SyncGet(ctx, &syncer.GetRequest{Tree: syncer.TreeID{Root: root, Position: rh}, Key: key})
			return fmt.Sprint(err)
		})
		try("SyncIterate", func() string {
			_, err := full.SyncIterate(ctx, &syncer.IterateRequest{Tree: syncer.TreeID{Root: root, Position: rh}, Key: key, Prefetch: 2})
			return fmt.Sprint(err)
		})
		try("SyncGetPrefixes", func() string {
			_, err := full.SyncGetPrefixes(ctx, &syncer.GetPrefixesRequest{Tree: syncer.TreeID{Root: root, Position: rh}, Prefixes: [][]byte{key}, Limit: 2})
			return fmt.Sprint(err)
		})
		try("Seek", func() string {
			it := full.NewIterator(ctx)
			defer it.Close()
			it.Seek(key)
			return fmt.Sprintf("valid=%v key=%x err=%v", it.Valid(), []byte(it.Key()), it.Err())
		})
	}
}

package mkvs

import (
	"context"
	"os"
	"path/filepath"
	"testing"

	"github.com/stretchr/testify/require"

	"github.com/oasisprotocol/oasis-core/go/common"
	"github.com/oasisprotocol/oasis-core/go/storage/mkvs/db"
	dbApi "github.com/oasisprotocol/oasis-core/go/storage/mkvs/db/api"
	"github.com/oasisprotocol/oasis-core/go/storage/mkvs/node"
	"github.com/oasisprotocol/oasis-core/go/storage/mkvs/writelog"
)

// Probe: the write log served for two consecutive roots must exist and reproduce the
// second root, also when the batch re-inserts an existing key with the same value.
func TestF14NoopReinsertWriteLog(t *testing.T) {
	for _, factory := range db.Backends {
		for _, tc := range []struct {
			name  string
			keys  []string
			reins []string
			extra bool
		}{
			{"plain leaf + other change", []string{"a", "b", "c"}, []string{"b"}, true},
			{"internal leaf (prefix key) + other change", []string{"k", "ka", "kb"}, []string{"k"}, true},
			{"single root leaf + other change", []string{"only"}, []string{"only"}, true},
			{"internal leaf, nothing else", []string{"k", "ka", "kb"}, []string{"k"}, false},
		} {
			t.Run(factory.Name()+"/"+tc.name, func(t *testing.T) {
				require := require.New(t)
				ctx := context.Background()
				ns := common.NewTestNamespaceFromSeed([]byte("oasis f14 test ns"), 0)
				dir, err := os.MkdirTemp("", "mkvs.f14")
				require.NoError(err)
				defer os.RemoveAll(dir)
				ndb, err := factory.New(&dbApi.Config{DB: filepath.Join(dir, "db"), Namespace: ns, MaxCacheSize: 16 * 1024 * 1024})
				require.NoError(err)
				defer ndb.Close()

				t1 := New(nil, ndb, node.RootTypeState)
				for _, k := range tc.keys {
					require.NoError(t1.Insert(ctx, []byte(k), []byte("v-"+k)))
				}
				_, h1, err := t1.Commit(ctx, ns, 1)
				require.NoError(err)
				root1 := node.Root{Namespace: ns, Version: 1, Type: node.RootTypeState, Hash: h1}
				require.NoError(ndb.Finalize([]node.Root{root1}))

				t2 := NewWithRoot(nil, ndb, root1)
				for _, k := range tc.reins {
					require.NoError(t2.Insert(ctx, []byte(k), []byte("v-"+k))) // same value
				}
				if tc.extra {
					require.NoError(t2.Insert(ctx, []byte("zz-new"), []byte("new")))
				}
				_, h2, err := t2.Commit(ctx, ns, 2)
				require.NoError(err)
				root2 := node.Root{Namespace: ns, Version: 2, Type: node.RootTypeState, Hash: h2}
				require.NoError(ndb.Finalize([]node.Root{root2}))

				it, err := ndb.GetWriteLog(ctx, root1, root2)
				require.NoError(err, "GetWriteLog(root1, root2)")
				var wl writelog.WriteLog
				for {
					more, err := it.Next()
					require.NoError(err, "write log iterator")
					if !more {
						break
					}
					e, err := it.Value()
					require.NoError(err, "write log entry")
					wl = append(wl, e)
				}
				// A database-less tree with the contents of root1.
				mem := New(nil, nil, node.RootTypeState)
				for _, k := range tc.keys {
					require.NoError(mem.Insert(ctx, []byte(k), []byte("v-"+k)))
				}
				_, hm, err := mem.Commit(ctx, ns, 1)
				require.NoError(err)
				require.Equal(h1, hm)
				require.NoError(mem.ApplyWriteLog(ctx, writelog.NewStaticIterator(wl)))
				_, got, err := mem.Commit(ctx, ns, 2)
				require.NoError(err)
				require.Equal(h2, got, "served write log must reproduce root2")
			})
		}
	}
}

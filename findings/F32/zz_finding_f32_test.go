package txpool

import (
	"testing"

	"github.com/stretchr/testify/require"
)

// TestFindingF32 (C20): "always picks the highest-priority ready transaction next". Sender 0 is forwarded (as
// mainQueue.Add does with the sender's state sequence) past the transaction that was handed out earlier in the open
// pass; its new head a5 is at the sender's current sequence and has the highest priority, so the rest of the pass
// must hand it out before b0.
func TestFindingF32(t *testing.T) {
	s := newMainQueueScheduler(10)
	a0 := newTestTransaction(0, 0, 50)
	b0 := newTestTransaction(1, 0, 10)
	require.NoError(t, s.add(a0, 0))
	require.NoError(t, s.add(b0, 0))

	s.reset()
	require.Equal(t, []*TxQueueMeta{a0.meta}, s.schedule(1))

	// mainQueue.Add: forward to the sender's state sequence, then add.
	a5 := newTestTransaction(0, 5, 99)
	s.forward(a5.sender, 5)
	require.NoError(t, s.add(a5, 5))

	require.Equal(t, []*TxQueueMeta{a5.meta, b0.meta}, s.schedule(10), "the rest of the pass must hand out the ready highest-priority transaction a5 first, then b0")
	require.Empty(t, s.schedule(10), "nothing is handed out twice in a pass")

	// The next pass hands out the pool's contents again, each once.
	s.reset()
	require.Equal(t, []*TxQueueMeta{a5.meta, b0.meta}, s.schedule(10))
	s.reset()
	require.Equal(t, []*TxQueueMeta{a5.meta, b0.meta}, s.schedule(10))
}

package txpool

import (
	"fmt"
	"math/rand"
	"sort"
	"testing"
)

// Reference model of the main-queue scheduler (priorities are unique, so ties do not matter).
type mTx struct {
	sender string
	seq    uint64
	prio   uint64
	real   *mainQueueTransaction
}
type mSender struct {
	seq uint64
	txs map[uint64]*mTx
}
type model struct {
	cap       int
	senders   map[string]*mSender
	scheduled map[string]uint64
}

func (m *model) size() int {
	n := 0
	for _, s := range m.senders {
		n += len(s.txs)
	}
	return n
}
func (m *model) removeTx(t *mTx) {
	s := m.senders[t.sender]
	delete(s.txs, t.seq)
	if len(s.txs) == 0 {
		delete(m.senders, t.sender)
	}
}
func (m *model) add(t *mTx, seq uint64) bool {
	s, ok := m.senders[t.sender]
	if !ok {
		s = &mSender{seq: seq, txs: map[uint64]*mTx{}}
		m.senders[t.sender] = s
	}
	if t.seq < s.seq {
		return false
	}
	if old, ok := s.txs[t.seq]; ok {
		if old.prio >= t.prio {
			return false
		}
		s.txs[t.seq] = t
		return true
	}
	s.txs[t.seq] = t
	if m.size() > m.cap {
		var lowest *mTx
		for _, sn := range m.senders {
			for _, x := range sn.txs {
				if lowest == nil || x.prio < lowest.prio {
					lowest = x
				}
			}
		}
		m.removeTx(lowest)
		if lowest == t {
			return false
		}
	}
	return true
}
func (m *model) forward(sender string, seq uint64) {
	s, ok := m.senders[sender]
	if !ok || seq <= s.seq {
		return
	}
	s.seq = seq
	removed := false
	for q := range s.txs {
		if q < seq {
			delete(s.txs, q)
			removed = true
		}
	}
	if removed && len(s.txs) == 0 {
		delete(m.senders, sender)
	}
}
func (m *model) ready() []*mTx {
	var out []*mTx
	for name, s := range m.senders {
		next := s.seq
		if last, ok := m.scheduled[name]; ok {
			if last == ^uint64(0) {
				continue
			}
			if last+1 > next {
				next = last + 1
			}
		}
		if x, ok := s.txs[next]; ok {
			out = append(out, x)
		}
	}
	sort.Slice(out, func(i, j int) bool { return out[i].prio > out[j].prio })
	return out
}
func (m *model) schedule(limit int) []*mTx {
	var out []*mTx
	for len(out) < limit {
		r := m.ready()
		if len(r) == 0 {
			break
		}
		out = append(out, r[0])
		m.scheduled[r[0].sender] = r[0].seq
	}
	return out
}

func TestModelDifferential(t *testing.T) {
	for seed := int64(0); seed < 300000; seed++ {
		rng := rand.New(rand.NewSource(seed))
		capN := 1 + rng.Intn(4)
		s := newMainQueueScheduler(capN)
		m := &model{cap: capN, senders: map[string]*mSender{}, scheduled: map[string]uint64{}}
		prio := uint64(0)
		var log []string
		fail := func(msg string) {
			t.Fatalf("seed %d: %s\nhistory:\n%v", seed, msg, log)
		}
		var live []*mTx
		for step := 0; step < 20; step++ {
			switch rng.Intn(6) {
			case 0, 1: // add (as mainQueue.Add: forward, then add)
				sender := rng.Intn(2)
				stateSeq := uint64(rng.Intn(4))
				seq := uint64(rng.Intn(5))
				prio += 1 + uint64(rng.Intn(3))
				p := prio
				if rng.Intn(3) == 0 {
					p = uint64(rng.Intn(int(prio) + 1)) // may collide: skip if not unique
					dup := false
					for _, x := range live {
						if x.prio == p {
							dup = true
						}
					}
					if dup {
						p = prio
					}
				}
				real := newTestTransaction(sender, seq, p)
				mt := &mTx{sender: real.sender, seq: seq, prio: p, real: real}
				log = append(log, fmt.Sprintf("add s%d seq%d state%d prio%d", sender, seq, stateSeq, p))
				s.forward(real.sender, stateSeq)
				m.forward(real.sender, stateSeq)
				err := s.add(real, stateSeq)
				ok := m.add(mt, stateSeq)
				if (err == nil) != ok {
					// the documented quirk: a rejected expired add leaves a sender entry; mirror it
					fail(fmt.Sprintf("add result differs: real err=%v model ok=%v", err, ok))
				}
				if ok {
					live = append(live, mt)
				}
			case 2: // schedule
				limit := rng.Intn(4)
				got := s.schedule(limit)
				want := m.schedule(limit)
				log = append(log, fmt.Sprintf("schedule(%d) -> %d", limit, len(got)))
				if len(got) != len(want) {
					fail(fmt.Sprintf("schedule length differs: real %d model %d", len(got), len(want)))
				}
				for i := range got {
					if got[i] != want[i].real.meta {
						fail(fmt.Sprintf("schedule pick %d differs", i))
					}
				}
			case 3: // reset
				log = append(log, "reset")
				s.reset()
				m.scheduled = map[string]uint64{}
			case 4: // tx used
				if len(live) == 0 {
					continue
				}
				x := live[rng.Intn(len(live))]
				log = append(log, fmt.Sprintf("used %s seq%d", x.sender, x.seq))
				s.handleTxUsed(x.real.meta.hash)
				if sn, ok := m.senders[x.sender]; ok && sn.txs[x.seq] == x {
					m.removeTx(x)
					if x.seq < ^uint64(0) {
						m.forward(x.sender, x.seq+1)
					}
				}
			case 5: // forward
				sender := fmt.Sprintf("sender-%d", rng.Intn(2))
				seq := uint64(rng.Intn(6))
				log = append(log, fmt.Sprintf("forward %s %d", sender, seq))
				s.forward(sender, seq)
				m.forward(sender, seq)
			}
			if s.size() != m.size() {
				fail(fmt.Sprintf("size differs: real %d model %d", s.size(), m.size()))
			}
		}
	}
}

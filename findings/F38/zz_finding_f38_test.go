package governance

// Place in go/consensus/cometbft/apps/governance/ as zz_probe_test.go and run
//   go test ./consensus/cometbft/apps/governance/ -run TestProbeZeroVotingStake -count=1

import (
	"testing"

	"github.com/stretchr/testify/require"

	"github.com/oasisprotocol/oasis-core/go/common/crypto/signature"
	"github.com/oasisprotocol/oasis-core/go/common/quantity"
	abciAPI "github.com/oasisprotocol/oasis-core/go/consensus/cometbft/api"
	governanceState "github.com/oasisprotocol/oasis-core/go/consensus/cometbft/apps/governance/state"
	registryState "github.com/oasisprotocol/oasis-core/go/consensus/cometbft/apps/registry/state"
	schedulerState "github.com/oasisprotocol/oasis-core/go/consensus/cometbft/apps/scheduler/state"
	stakingState "github.com/oasisprotocol/oasis-core/go/consensus/cometbft/apps/staking/state"
	governance "github.com/oasisprotocol/oasis-core/go/governance/api"
	staking "github.com/oasisprotocol/oasis-core/go/staking/api"
)

// Probe: every validator of the current set has an empty active escrow pool (registration
// thresholds are zero, or everything was slashed away during the epoch). Any account that owns the
// proposal deposit submits a proposal with an ordinary transaction. When the proposal closes,
// governance EndBlock returns an error, which the multiplexer turns into a panic.
func TestProbeZeroVotingStakeHaltsEndBlock(t *testing.T) {
	require := require.New(t)

	appState := abciAPI.NewMockApplicationState(&abciAPI.MockApplicationStateConfig{CurrentEpoch: 10})
	ctx := appState.NewContext(abciAPI.ContextEndBlock)
	defer ctx.Close()

	state := governanceState.NewMutableState(ctx.State())
	regState := registryState.NewMutableState(ctx.State())
	stakeState := stakingState.NewMutableState(ctx.State())
	schedState := schedulerState.NewMutableState(ctx.State())
	app := &Application{state: appState}

	_, accounts, pools := initValidatorsEscrowState(t, stakeState, regState, schedState)
	// All validators lose their whole escrow balance (shares remain, as after slashing).
	for addr := range pools {
		acct, err := stakeState.Account(ctx, addr)
		require.NoError(err)
		acct.Escrow.Active.Balance = *quantity.NewQuantity()
		require.NoError(stakeState.SetAccount(ctx, addr, acct))
	}

	require.NoError(state.SetConsensusParameters(ctx, &governance.ConsensusParameters{
		GasCosts:                  governance.DefaultGasCosts,
		MinProposalDeposit:        *quantity.NewFromUint64(100),
		StakeThreshold:            90,
		UpgradeMinEpochDiff:       10,
		UpgradeCancelMinEpochDiff: 10,
		VotingPeriod:              5,
	}))

	// An ordinary user with the deposit submits an upgrade proposal through the real tx handler.
	userPK := signature.NewPublicKey("aaafffffffffffffffffffffffffffffffffffffffffffffffffffffffffffff")
	userAddr := staking.NewAddress(userPK)
	require.NoError(stakeState.SetAccount(ctx, userAddr, &staking.Account{
		General: staking.GeneralAccount{Balance: *quantity.NewFromUint64(100)},
	}))
	_ = accounts

	txCtx := appState.NewContext(abciAPI.ContextDeliverTx)
	defer txCtx.Close()
	txCtx.SetTxSigner(userPK)
	p, err := app.submitProposal(txCtx, state, &governance.ProposalContent{
		Upgrade: &governance.UpgradeProposal{Descriptor: baseAtEpoch(100)},
	})
	require.NoError(err, "submitProposal")

	appState.UpdateMockApplicationStateConfig(&abciAPI.MockApplicationStateConfig{
		CurrentEpoch: p.ClosesAt,
		EpochChanged: true,
	})
	_, err = app.EndBlock(ctx)
	require.NoError(err, "governance EndBlock must not fail (the multiplexer panics on any EndBlock error)")
}

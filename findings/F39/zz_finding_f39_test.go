package roothash

import (
	"testing"

	"github.com/stretchr/testify/require"

	beacon "github.com/oasisprotocol/oasis-core/go/beacon/api"
	"github.com/oasisprotocol/oasis-core/go/common"
	"github.com/oasisprotocol/oasis-core/go/common/cbor"
	"github.com/oasisprotocol/oasis-core/go/common/crypto/signature"
	memorySigner "github.com/oasisprotocol/oasis-core/go/common/crypto/signature/signers/memory"
	"github.com/oasisprotocol/oasis-core/go/common/node"
	abciAPI "github.com/oasisprotocol/oasis-core/go/consensus/cometbft/api"
	registryapp "github.com/oasisprotocol/oasis-core/go/consensus/cometbft/apps/registry"
	registryState "github.com/oasisprotocol/oasis-core/go/consensus/cometbft/apps/registry/state"
	roothashState "github.com/oasisprotocol/oasis-core/go/consensus/cometbft/apps/roothash/state"
	schedulerApi "github.com/oasisprotocol/oasis-core/go/consensus/cometbft/apps/scheduler/api"
	stakingState "github.com/oasisprotocol/oasis-core/go/consensus/cometbft/apps/staking/state"
	registry "github.com/oasisprotocol/oasis-core/go/registry/api"
	roothash "github.com/oasisprotocol/oasis-core/go/roothash/api"
	"github.com/oasisprotocol/oasis-core/go/roothash/api/block"
	"github.com/oasisprotocol/oasis-core/go/roothash/api/commitment"
	scheduler "github.com/oasisprotocol/oasis-core/go/scheduler/api"
	staking "github.com/oasisprotocol/oasis-core/go/staking/api"
)

// Probe: with a debonding interval of zero epochs (accepted by the staking parameter sanity checks
// and by a change-parameters proposal) a node whose registration runs out at the end of epoch E is
// removed from the registry by the registry application's BeginBlock of the first block of epoch
// E+1 (200_registry runs before 200_scheduler). The scheduler application's BeginBlock of the same
// block then publishes MessageBeforeSchedule, the roothash application evaluates the liveness of
// the committee of epoch E, cannot find the status of the removed node and returns an error, which
// is returned from the scheduler's BeginBlock and is fatal.
func TestProbeLivenessOfRemovedNode(t *testing.T) {
	require := require.New(t)

	const lastEpoch = beacon.EpochTime(5)

	appState := abciAPI.NewMockApplicationState(&abciAPI.MockApplicationStateConfig{
		CurrentEpoch: lastEpoch + 1,
		EpochChanged: true,
	})
	// (State set-up needs a context in which parameters may be written.)
	ctx := appState.NewContext(abciAPI.ContextEndBlock)
	defer ctx.Close()

	stakeState := stakingState.NewMutableState(ctx.State())
	require.NoError(stakeState.SetConsensusParameters(ctx, &staking.ConsensusParameters{
		DebondingInterval: 0,
	}))

	// One entity with one compute node whose registration ends with epoch 5.
	entitySigner := memorySigner.NewTestSigner("probe entity")
	nodeSigner := memorySigner.NewTestSigner("probe node")
	nod := &node.Node{
		Versioned:  cbor.NewVersioned(node.LatestNodeDescriptorVersion),
		ID:         nodeSigner.Public(),
		EntityID:   entitySigner.Public(),
		Expiration: lastEpoch,
		Consensus:  node.ConsensusInfo{ID: memorySigner.NewTestSigner("probe consensus").Public()},
		P2P:        node.P2PInfo{ID: memorySigner.NewTestSigner("probe p2p").Public()},
		TLS:        node.TLSInfo{PubKey: memorySigner.NewTestSigner("probe tls").Public()},
		VRF:        node.VRFInfo{ID: memorySigner.NewTestSigner("probe vrf").Public()},
		Roles:      node.RoleComputeWorker,
	}
	sigNode, err := node.MultiSignNode([]signature.Signer{nodeSigner}, registry.RegisterNodeSignatureContext, nod)
	require.NoError(err)
	regState := registryState.NewMutableState(ctx.State())
	require.NoError(regState.SetNode(ctx, nil, nod, sigNode))
	require.NoError(regState.SetNodeStatus(ctx, nod.ID, &registry.NodeStatus{}))
	// The stake claim of the node registration.
	entAddr := staking.NewAddress(nod.EntityID)
	var acct staking.Account
	acct.Escrow.StakeAccumulator.AddClaimUnchecked(registry.StakeClaimForNode(nod.ID), nil)
	require.NoError(stakeState.SetAccount(ctx, entAddr, &acct))

	// A compute runtime in which the node was a worker during epoch 5 and which finalized rounds.
	rt := &registry.Runtime{
		Versioned: cbor.NewVersioned(registry.LatestRuntimeDescriptorVersion),
		ID:        common.NewTestNamespaceFromSeed([]byte("probe runtime"), 0),
		EntityID:  nod.EntityID,
		Kind:      registry.KindCompute,
		Executor: registry.ExecutorParameters{
			MinLiveRoundsForEvaluation: 1,
			MinLiveRoundsPercent:       90,
		},
	}
	require.NoError(regState.SetRuntime(ctx, rt, false))
	committee := &scheduler.Committee{
		RuntimeID: rt.ID,
		Kind:      scheduler.KindComputeExecutor,
		ValidFor:  lastEpoch,
		Members:   []*scheduler.CommitteeNode{{Role: scheduler.RoleWorker, PublicKey: nod.ID}},
	}
	rhState := roothashState.NewMutableState(ctx.State())
	require.NoError(rhState.SetConsensusParameters(ctx, &roothash.ConsensusParameters{}))
	blk := block.NewGenesisBlock(rt.ID, 0)
	require.NoError(rhState.SetRuntimeState(ctx, &roothash.RuntimeState{
		Runtime:          rt,
		GenesisBlock:     blk,
		LastBlock:        blk,
		LastBlockHeight:  1,
		LastNormalHeight: 1,
		Committee:        committee,
		CommitmentPool:   commitment.NewPool(),
		NextTimeout:      roothash.TimeoutNever,
		LivenessStatistics: &roothash.LivenessStatistics{
			TotalRounds:        10,
			LiveRounds:         []uint64{10},
			FinalizedProposals: []uint64{10},
			MissedProposals:    []uint64{0},
		},
	}))

	// First block of epoch 6: registry BeginBlock ...
	ctx = appState.NewContext(abciAPI.ContextBeginBlock)
	defer ctx.Close()
	regState = registryState.NewMutableState(ctx.State())
	regApp := registryapp.New(appState, nil)
	require.NoError(regApp.BeginBlock(ctx), "registry BeginBlock")
	_, err = regState.Node(ctx, nod.ID)
	require.Equal(registry.ErrNoSuchNode, err, "(the node has been removed by the registry)")

	// ... followed by the message the scheduler publishes from its BeginBlock before electing.
	app := &Application{state: appState}
	_, err = app.ExecuteMessage(ctx, abciAPI.Message{
		Kind: schedulerApi.MessageBeforeSchedule,
		Data: lastEpoch + 1,
	})
	require.NoError(err, "MessageBeforeSchedule must not fail: the error is returned from the scheduler's BeginBlock and the multiplexer panics")
}

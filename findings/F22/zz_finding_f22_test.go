package abci

// Side observation reproduction (CLEAN tree, no source change): the governance application applies
// a passed upgrade proposal to the node-LOCAL upgrade manager (upgrader.SubmitDescriptor) while a
// block is being executed, i.e. also while executing a proposal that is never decided. The local
// descriptor survives the roll-back of the proposal, and at the descriptor's epoch the mux runs
// the migration handler on that node only.

import (
	"context"
	"encoding/hex"
	"encoding/json"
	"fmt"
	"testing"
	"time"

	"github.com/cometbft/cometbft/abci/types"
	cmtproto "github.com/cometbft/cometbft/proto/tendermint/types"
	"github.com/stretchr/testify/require"

	beacon "github.com/oasisprotocol/oasis-core/go/beacon/api"
	"github.com/oasisprotocol/oasis-core/go/common/cbor"
	"github.com/oasisprotocol/oasis-core/go/common/crypto/signature"
	memorySigner "github.com/oasisprotocol/oasis-core/go/common/crypto/signature/signers/memory"
	"github.com/oasisprotocol/oasis-core/go/common/entity"
	"github.com/oasisprotocol/oasis-core/go/common/identity"
	"github.com/oasisprotocol/oasis-core/go/common/node"
	"github.com/oasisprotocol/oasis-core/go/common/persistent"
	"github.com/oasisprotocol/oasis-core/go/common/quantity"
	"github.com/oasisprotocol/oasis-core/go/common/version"
	"github.com/oasisprotocol/oasis-core/go/consensus/api/transaction"
	"github.com/oasisprotocol/oasis-core/go/consensus/cometbft/api"
	governanceApp "github.com/oasisprotocol/oasis-core/go/consensus/cometbft/apps/governance"
	governanceState "github.com/oasisprotocol/oasis-core/go/consensus/cometbft/apps/governance/state"
	registryState "github.com/oasisprotocol/oasis-core/go/consensus/cometbft/apps/registry/state"
	schedulerState "github.com/oasisprotocol/oasis-core/go/consensus/cometbft/apps/scheduler/state"
	stakingState "github.com/oasisprotocol/oasis-core/go/consensus/cometbft/apps/staking/state"
	cmtcrypto "github.com/oasisprotocol/oasis-core/go/consensus/cometbft/crypto"
	consensusGenesis "github.com/oasisprotocol/oasis-core/go/consensus/genesis"
	genesis "github.com/oasisprotocol/oasis-core/go/genesis/api"
	genesisTests "github.com/oasisprotocol/oasis-core/go/genesis/tests"
	governance "github.com/oasisprotocol/oasis-core/go/governance/api"
	registry "github.com/oasisprotocol/oasis-core/go/registry/api"
	scheduler "github.com/oasisprotocol/oasis-core/go/scheduler/api"
	staking "github.com/oasisprotocol/oasis-core/go/staking/api"
	"github.com/oasisprotocol/oasis-core/go/upgrade"
	upgradeAPI "github.com/oasisprotocol/oasis-core/go/upgrade/api"
	"github.com/oasisprotocol/oasis-core/go/upgrade/migrations"
)

var (
	sideobsEntitySigner = memorySigner.NewTestSigner("sideobs C01r2 validator entity")
	sideobsNodeSigner   = memorySigner.NewTestSigner("sideobs C01r2 validator node")
)

// sideobsStateApp only populates the registry/scheduler/staking state that the REAL governance
// application reads (one validator entity with all of the voting stake). It does nothing else.
type sideobsStateApp struct{}

func (a *sideobsStateApp) Name() string                      { return "100_sideobsstate" }
func (a *sideobsStateApp) ID() uint8                         { return 0xE0 }
func (a *sideobsStateApp) Methods() []transaction.MethodName { return nil }
func (a *sideobsStateApp) Blessed() bool                     { return false }
func (a *sideobsStateApp) Dependencies() []string            { return nil }
func (a *sideobsStateApp) Subscribe()                        {}
func (a *sideobsStateApp) OnCleanup()                        {}
func (a *sideobsStateApp) BeginBlock(*api.Context) error     { return nil }
func (a *sideobsStateApp) EndBlock(*api.Context) (types.ResponseEndBlock, error) {
	return types.ResponseEndBlock{}, nil
}

func (a *sideobsStateApp) ExecuteTx(*api.Context, *transaction.Transaction) error {
	return fmt.Errorf("sideobs: no transactions")
}

func (a *sideobsStateApp) InitChain(ctx *api.Context, _ types.RequestInitChain, _ *genesis.Document) error {
	regState := registryState.NewMutableState(ctx.State())
	schedState := schedulerState.NewMutableState(ctx.State())
	stakeState := stakingState.NewMutableState(ctx.State())

	ent := entity.Entity{
		Versioned: cbor.NewVersioned(entity.LatestDescriptorVersion),
		ID:        sideobsEntitySigner.Public(),
		Nodes:     []signature.PublicKey{sideobsNodeSigner.Public()},
	}
	sigEnt, err := entity.SignEntity(sideobsEntitySigner, registry.RegisterEntitySignatureContext, &ent)
	if err != nil {
		return err
	}
	if err = regState.SetEntity(ctx, &ent, sigEnt); err != nil {
		return err
	}
	nod := &node.Node{
		Versioned: cbor.NewVersioned(node.LatestNodeDescriptorVersion),
		ID:        sideobsNodeSigner.Public(),
		Consensus: node.ConsensusInfo{ID: sideobsNodeSigner.Public()},
		EntityID:  sideobsEntitySigner.Public(),
	}
	sigNode, err := node.MultiSignNode([]signature.Signer{sideobsNodeSigner}, registry.RegisterNodeSignatureContext, nod)
	if err != nil {
		return err
	}
	if err = regState.SetNode(ctx, nil, nod, sigNode); err != nil {
		return err
	}
	if err = schedState.PutCurrentValidators(ctx, map[signature.PublicKey]*scheduler.Validator{
		nod.Consensus.ID: {ID: nod.ID, EntityID: nod.EntityID, VotingPower: 1},
	}); err != nil {
		return err
	}
	addr := staking.NewAddress(sideobsEntitySigner.Public())
	if err = stakeState.SetAccount(ctx, addr, &staking.Account{
		Escrow: staking.EscrowAccount{
			Active: staking.SharePool{
				TotalShares: *quantity.NewFromUint64(100),
				Balance:     *quantity.NewFromUint64(100),
			},
		},
	}); err != nil {
		return err
	}
	return stakeState.SetDelegation(ctx, addr, addr, &staking.Delegation{Shares: *quantity.NewFromUint64(100)})
}

// sideobsTimeSource: three blocks per epoch, epoch(h) = 1 + (h-1)/3.
type sideobsTimeSource struct {
	beacon.Backend
}

func sideobsEpoch(height int64) beacon.EpochTime {
	if height < 1 {
		height = 1
	}
	return beacon.EpochTime(1 + (height-1)/3)
}

func (sideobsTimeSource) GetBaseEpoch(context.Context) (beacon.EpochTime, error) { return 1, nil }
func (sideobsTimeSource) GetEpoch(_ context.Context, height int64) (beacon.EpochTime, error) {
	return sideobsEpoch(height), nil
}

func (sideobsTimeSource) GetFutureEpoch(context.Context, int64) (*beacon.EpochTimeState, error) {
	return nil, nil
}

type sideobsNode struct {
	name     string
	mux      *abciMux
	id       *identity.Identity
	upgrader upgradeAPI.Backend
}

func (n *sideobsNode) consensusAddress() []byte {
	pk := n.id.ConsensusSigner.Public()
	return []byte(cmtcrypto.PublicKeyToCometBFT(&pk).Address())
}

func sideobsNewNode(t *testing.T, name string, doc *genesis.Document) *sideobsNode {
	require := require.New(t)

	id := &identity.Identity{
		NodeSigner:      memorySigner.NewTestSigner("sideobs C01r2 node " + name),
		P2PSigner:       memorySigner.NewTestSigner("sideobs C01r2 p2p " + name),
		ConsensusSigner: memorySigner.NewTestSigner("sideobs C01r2 consensus " + name),
		VRFSigner:       memorySigner.NewTestSigner("sideobs C01r2 vrf " + name),
	}
	dataDir := t.TempDir()
	store, err := persistent.NewCommonStore(dataDir)
	require.NoError(err, "NewCommonStore")
	// The REAL upgrade manager, exactly as created by the node.
	upgrader, err := upgrade.New(store, dataDir, true)
	require.NoError(err, "upgrade.New")

	mux, err := newABCIMux(context.Background(), upgrader, &ApplicationConfig{
		DataDir:             dataDir,
		StorageBackend:      "badger",
		MemoryOnlyStorage:   true,
		Pruning:             PruneConfig{Strategy: PruneNone, PruneInterval: time.Hour},
		DisableCheckpointer: true,
		Identity:            id,
		InitialHeight:       doc.Height,
		ChainContext:        doc.ChainContext(),
	})
	require.NoError(err, "newABCIMux")
	mux.state.timeSource = sideobsTimeSource{}
	require.NoError(mux.doRegister(&sideobsStateApp{}), "doRegister")
	// The REAL governance application.
	govApp := governanceApp.New(mux.state, mux.md)
	require.NoError(mux.doRegister(govApp), "doRegister(governance)")
	govApp.Subscribe()
	require.NoError(mux.state.startPruner(), "startPruner")
	t.Cleanup(func() {
		mux.doCleanup()
		upgrader.Close()
	})

	raw, err := json.Marshal(doc)
	require.NoError(err, "json.Marshal(genesis)")
	mux.InitChain(types.RequestInitChain{
		Time:          doc.Time,
		ChainId:       doc.ChainID,
		InitialHeight: doc.Height,
		AppStateBytes: raw,
	})

	return &sideobsNode{name: name, mux: mux, id: id, upgrader: upgrader}
}

type sideobsBlock struct {
	height   int64
	time     time.Time
	proposer []byte
	hash     []byte
	txs      [][]byte
}

func (n *sideobsNode) propose(t *testing.T, height int64, tag string, mempool [][]byte) *sideobsBlock {
	blk := &sideobsBlock{
		height:   height,
		time:     time.Unix(1_700_000_000+height*6, 0).UTC(),
		proposer: n.consensusAddress(),
		hash:     []byte(fmt.Sprintf("sideobs-block-hash-%08d-%s", height, tag)),
	}
	resp := n.mux.PrepareProposal(types.RequestPrepareProposal{
		MaxTxBytes:      1 << 20,
		Txs:             mempool,
		Height:          height,
		Time:            blk.time,
		ProposerAddress: blk.proposer,
	})
	require.NotEmpty(t, resp.Txs, "PrepareProposal must at least produce block metadata")
	blk.txs = resp.Txs
	require.Equal(t, types.ResponseProcessProposal_ACCEPT, n.processProposal(blk), "proposer must accept its own proposal")
	return blk
}

func (n *sideobsNode) processProposal(blk *sideobsBlock) types.ResponseProcessProposal_ProposalStatus {
	return n.mux.ProcessProposal(types.RequestProcessProposal{
		Txs:             blk.txs,
		Hash:            blk.hash,
		Height:          blk.height,
		Time:            blk.time,
		ProposerAddress: blk.proposer,
	}).Status
}

func (n *sideobsNode) deliver(blk *sideobsBlock) (appHash []byte, codes []uint32, failure string) {
	defer func() {
		if r := recover(); r != nil {
			failure = fmt.Sprintf("%v", r)
		}
	}()
	n.mux.BeginBlock(types.RequestBeginBlock{
		Hash:   blk.hash,
		Header: cmtproto.Header{Height: blk.height, Time: blk.time, ProposerAddress: blk.proposer},
	})
	for _, tx := range blk.txs {
		codes = append(codes, n.mux.DeliverTx(types.RequestDeliverTx{Tx: tx}).Code)
	}
	n.mux.EndBlock(types.RequestEndBlock{Height: blk.height})
	return n.mux.Commit().Data, codes, ""
}

func (n *sideobsNode) onChainPendingUpgrades(t *testing.T) int {
	state := governanceState.NewMutableState(n.mux.state.canonicalState)
	pending, err := state.PendingUpgrades(context.Background())
	require.NoError(t, err, "PendingUpgrades")
	return len(pending)
}

func (n *sideobsNode) localPendingUpgrades(t *testing.T) int {
	pending, err := n.upgrader.PendingUpgrades()
	require.NoError(t, err, "upgrader.PendingUpgrades")
	return len(pending)
}

func TestFindingF22(t *testing.T) {
	require := require.New(t)
	genesisTests.SetTestChainContext()

	const upgradeEpoch = 4
	descriptor := upgradeAPI.Descriptor{
		Versioned: cbor.NewVersioned(upgradeAPI.LatestDescriptorVersion),
		Handler:   migrations.Consensus261, // In-place upgrade handler without a startup stage.
		Target:    version.Versions,
		Epoch:     upgradeEpoch,
	}
	doc := &genesis.Document{
		Height:  1,
		Time:    time.Unix(1_700_000_000, 0).UTC(),
		ChainID: "sideobs-c01r2",
		Consensus: consensusGenesis.Genesis{
			Backend:    "cometbft",
			Parameters: consensusGenesis.Parameters{MaxTxSize: 32768, MaxBlockSize: 1 << 20},
		},
		Governance: governance.Genesis{
			Parameters: governance.ConsensusParameters{
				VotingPeriod:        1,
				StakeThreshold:      68,
				UpgradeMinEpochDiff: 1,
			},
			// An active upgrade proposal that closes at epoch 2 (i.e. in EndBlock of height 4) and has
			// no votes yet.
			Proposals: []*governance.Proposal{{
				ID:        1,
				Submitter: staking.NewAddress(sideobsEntitySigner.Public()),
				State:     governance.StateActive,
				Content:   governance.ProposalContent{Upgrade: &governance.UpgradeProposal{Descriptor: descriptor}},
				CreatedAt: 1,
				ClosesAt:  2,
			}},
		},
	}

	proposerX := sideobsNewNode(t, "proposer-of-undecided-block", doc)
	proposerY := sideobsNewNode(t, "proposer-of-decided-blocks", doc)
	victim := sideobsNewNode(t, "validator-that-saw-both-proposals", doc)
	clean := sideobsNewNode(t, "validator-that-saw-decided-only", doc)
	all := []*sideobsNode{proposerY, clean, victim, proposerX}

	finalize := func(blk *sideobsBlock) map[string]string {
		hashes := map[string]string{}
		for _, n := range all {
			appHash, _, failure := n.deliver(blk)
			if failure != "" {
				hashes[n.name] = "FAILED: " + failure
			} else {
				hashes[n.name] = hex.EncodeToString(appHash)
			}
		}
		return hashes
	}

	// Heights 1..3 (epoch 1): empty blocks, everybody agrees.
	for height := int64(1); height <= 3; height++ {
		blk := proposerY.propose(t, height, "r0", nil)
		hashes := finalize(blk)
		for _, n := range all {
			require.Equal(hashes[proposerY.name], hashes[n.name], "height %d: %s", height, n.name)
		}
	}

	// Height 4 is the first block of epoch 2: the proposal closes in its EndBlock.
	//
	// Round 0: proposerX proposes a block that contains the decisive YES vote of the validator
	// entity. The proposal is valid, the victim validator executes and accepts it -- but the round
	// does not complete (e.g. the proposal reached only a part of the validator set).
	voteTx := transaction.NewTransaction(0, nil, governance.MethodCastVote, &governance.ProposalVote{ID: 1, Vote: governance.VoteYes})
	sigVoteTx, err := transaction.Sign(sideobsEntitySigner, voteTx)
	require.NoError(err)
	blkUndecided := proposerX.propose(t, 4, "r0", [][]byte{cbor.Marshal(sigVoteTx)})
	require.Equal(types.ResponseProcessProposal_ACCEPT, victim.processProposal(blkUndecided))

	// Round 1: proposerY proposes a block without the vote (it never saw that transaction). This
	// block is decided: the upgrade proposal is REJECTED on chain.
	blkDecided := proposerY.propose(t, 4, "r1", nil)
	for _, n := range []*sideobsNode{clean, victim, proposerX} {
		require.Equal(types.ResponseProcessProposal_ACCEPT, n.processProposal(blkDecided), n.name)
	}
	hashes := finalize(blkDecided)
	for _, n := range all {
		require.Equal(hashes[proposerY.name], hashes[n.name], "height 4: %s", n.name)
		require.Zero(n.onChainPendingUpgrades(t), "the chain has no pending upgrade (proposal was rejected): %s", n.name)
	}
	t.Logf("after height 4: on-chain pending upgrades: 0 on all nodes; node-local upgrade descriptors: %s=%d %s=%d %s=%d %s=%d",
		proposerY.name, proposerY.localPendingUpgrades(t), clean.name, clean.localPendingUpgrades(t),
		victim.name, victim.localPendingUpgrades(t), proposerX.name, proposerX.localPendingUpgrades(t))

	// Heights 5..12: empty blocks. Height 10 is the first block of epoch 4, the epoch of the upgrade
	// that the chain has rejected.
	var report []string
	for height := int64(5); height <= 12; height++ {
		blk := proposerY.propose(t, height, "r0", nil)
		for _, n := range []*sideobsNode{clean, victim, proposerX} {
			if status := n.processProposal(blk); status != types.ResponseProcessProposal_ACCEPT {
				report = append(report, fmt.Sprintf("height %d: %s rejects the honest proposal (%s)", height, n.name, status))
			}
		}
		hashes := finalize(blk)
		for _, n := range all[1:] {
			if hashes[n.name] != hashes[proposerY.name] {
				report = append(report, fmt.Sprintf("height %d: %s: %s (reference AppHash %s)", height, n.name, hashes[n.name], hashes[proposerY.name]))
			}
		}
		if len(report) > 0 {
			break
		}
	}
	require.Emptyf(report, "replicas diverged although they executed identical decided blocks: local upgrade descriptors left behind by the undecided round-0 proposal of height 4: %s=%d %s=%d; report: %v",
		victim.name, victim.localPendingUpgrades(t), proposerX.name, proposerX.localPendingUpgrades(t), report)
}

package mkvs

import (
	"context"
	"fmt"
	"os"
	"sort"
	"testing"

	"github.com/stretchr/testify/require"

	"github.com/oasisprotocol/oasis-core/go/common/crypto/hash"
	db "github.com/oasisprotocol/oasis-core/go/storage/mkvs/db/api"
	badgerDb "github.com/oasisprotocol/oasis-core/go/storage/mkvs/db/badger"
	pathBadgerDb "github.com/oasisprotocol/oasis-core/go/storage/mkvs/db/pathbadger"
	"github.com/oasisprotocol/oasis-core/go/storage/mkvs/node"
)

func f23Reference(t *testing.T, contents map[string]string) hash.Hash {
	ctx := context.Background()
	ref := New(nil, nil, node.RootTypeState)
	defer ref.Close()
	keys := make([]string, 0, len(contents))
	for k := range contents {
		keys = append(keys, k)
	}
	sort.Strings(keys)
	for _, k := range keys {
		require.NoError(t, ref.Insert(ctx, []byte(k), []byte(contents[k])))
	}
	_, h, err := ref.Commit(ctx, testNs, 0)
	require.NoError(t, err)
	return h
}

// S3: pathbadger assigns DBInternal (version, index) to dirty pointers in VisitDirtyNode. If the
// commit then fails (here: CommitKnown with a mismatching root) the pointers stay dirty but keep
// the assigned index; the next commit starts its index counter from scratch and only assigns
// indices to pointers without one, so stale and fresh indices collide and nodes overwrite each
// other in the database. Commit reports the correct root, but the tree stored under that root
// has different contents (no error on read, pathbadger does not check hashes).
func TestFindingF23(t *testing.T) {
	ctx := context.Background()
	for _, backend := range []string{"badger", "pathbadger"} {
		dir, err := os.MkdirTemp("", "mkvs.sideobs")
		require.NoError(t, err)
		defer os.RemoveAll(dir)
		cfg := &db.Config{DB: dir, NoFsync: true, Namespace: testNs, MaxCacheSize: 16 * 1024 * 1024}
		var ndb db.NodeDB
		if backend == "badger" {
			ndb, err = badgerDb.New(cfg)
		} else {
			ndb, err = pathBadgerDb.New(cfg)
		}
		require.NoError(t, err)
		defer ndb.Close()

		tree := New(nil, ndb, node.RootTypeState)
		contents := map[string]string{}
		for i := 0; i < 20; i++ {
			k, v := fmt.Sprintf("m key %d", i), fmt.Sprintf("value %d", i)
			require.NoError(t, tree.Insert(ctx, []byte(k), []byte(v)))
			contents[k] = v
		}
		var bogus hash.Hash
		bogus.FromBytes([]byte("bogus"))
		_, err = tree.CommitKnown(ctx, node.Root{Namespace: testNs, Version: 0, Type: node.RootTypeState, Hash: bogus})
		require.Equal(t, ErrKnownRootMismatch, err)
		for i := 0; i < 20; i++ {
			k, v := fmt.Sprintf("a key %d", i), fmt.Sprintf("value a %d", i)
			require.NoError(t, tree.Insert(ctx, []byte(k), []byte(v)))
			contents[k] = v
		}
		_, root, err := tree.Commit(ctx, testNs, 0)
		require.NoError(t, err)
		require.Equal(t, f23Reference(t, contents).String(), root.String())
		tree.Close()

		fresh := NewWithRoot(nil, ndb, node.Root{Namespace: testNs, Version: 0, Type: node.RootTypeState, Hash: root})
		it := fresh.NewIterator(ctx)
		n := 0
		for it.Rewind(); it.Valid(); it.Next() {
			n++
		}
		fmt.Printf("S3: %s: root %s, keys read back from the database: %d of %d (iterator error: %v)\n", backend, root, n, len(contents), it.Err())
		it.Close()
		fresh.Close()
		if n != len(contents) {
			t.Errorf("S3: %s: the tree stored under the committed root holds %d keys instead of %d", backend, n, len(contents))
		}
	}
}


// A clean root leaf that becomes a child (second key inserted) is re-indexed by the commit; when that
// commit fails and is repeated, both keys must be readable from the database afterwards.
func TestFindingF23_CleanRootBecomesChild(t *testing.T) {
	ctx := context.Background()
	for _, backend := range []string{"badger", "pathbadger"} {
		dir, err := os.MkdirTemp("", "mkvs.f23")
		require.NoError(t, err)
		defer os.RemoveAll(dir)
		cfg := &db.Config{DB: dir, NoFsync: true, Namespace: testNs, MaxCacheSize: 16 * 1024 * 1024}
		var ndb db.NodeDB
		if backend == "badger" {
			ndb, err = badgerDb.New(cfg)
		} else {
			ndb, err = pathBadgerDb.New(cfg)
		}
		require.NoError(t, err)
		defer ndb.Close()

		tree := New(nil, ndb, node.RootTypeState)
		require.NoError(t, tree.Insert(ctx, []byte("first"), []byte("1")))
		_, root0, err := tree.Commit(ctx, testNs, 0)
		require.NoError(t, err)
		require.NoError(t, ndb.Finalize([]node.Root{{Namespace: testNs, Version: 0, Type: node.RootTypeState, Hash: root0}}))

		require.NoError(t, tree.Insert(ctx, []byte("second"), []byte("2")))
		var bogus hash.Hash
		bogus.FromBytes([]byte("bogus"))
		_, err = tree.CommitKnown(ctx, node.Root{Namespace: testNs, Version: 1, Type: node.RootTypeState, Hash: bogus})
		require.Equal(t, ErrKnownRootMismatch, err)
		_, root1, err := tree.Commit(ctx, testNs, 1)
		require.NoError(t, err, backend)
		tree.Close()

		fresh := NewWithRoot(nil, ndb, node.Root{Namespace: testNs, Version: 1, Type: node.RootTypeState, Hash: root1})
		for k, v := range map[string]string{"first": "1", "second": "2"} {
			got, err := fresh.Get(ctx, []byte(k))
			require.NoError(t, err, "%s: Get(%s)", backend, k)
			require.Equal(t, v, string(got), "%s: Get(%s)", backend, k)
		}
		fresh.Close()
	}
}

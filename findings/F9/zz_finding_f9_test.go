package badger

import (
	"bytes"
	"context"
	"os"
	"path/filepath"
	"strconv"
	"testing"

	"github.com/stretchr/testify/require"

	"github.com/oasisprotocol/oasis-core/go/common"
	"github.com/oasisprotocol/oasis-core/go/storage/mkvs"
	"github.com/oasisprotocol/oasis-core/go/storage/mkvs/checkpoint"
	"github.com/oasisprotocol/oasis-core/go/storage/mkvs/db/api"
	"github.com/oasisprotocol/oasis-core/go/storage/mkvs/node"
)

// Finding F9 (property C07): Finalize of a version restored from a checkpoint
// first commits "last finalized version = V" and only then clears the multipart
// restore state (node log + multipart version in the metadata). If the process
// dies between these two durable writes, the next start-up finds multipart
// state for V and, as for an abandoned restore, deletes every node listed in the
// log: the nodes of the version that has just been finalized.
//
// The crash point is reproduced exactly: the durable state after
// `tx.CommitAt(tsMetadata)` in Finalize and before `cleanMultipartLocked(false)`
// is obtained by letting Finalize skip that (purely trailing) clean-up step, which
// is gated by the in-memory field multipartVersion; then the database is closed
// and reopened.
func TestF9CrashBetweenFinalizeAndMultipartCleanup(t *testing.T) {
	require := require.New(t)
	ctx := context.Background()
	ns := common.NewTestNamespaceFromSeed([]byte("oasis f9 test ns"), 0)
	dir, err := os.MkdirTemp("", "mkvs.f9")
	require.NoError(err)
	defer os.RemoveAll(dir)

	// Source database and checkpoint.
	src, err := New(&api.Config{DB: filepath.Join(dir, "src"), Namespace: ns, MaxCacheSize: 16 * 1024 * 1024})
	require.NoError(err)
	tree := mkvs.New(nil, src, node.RootTypeState)
	for i := 0; i < 1000; i++ {
		require.NoError(tree.Insert(ctx, []byte(strconv.Itoa(i)), []byte(strconv.Itoa(i))))
	}
	_, rootHash, err := tree.Commit(ctx, ns, 1)
	require.NoError(err)
	root := node.Root{Namespace: ns, Version: 1, Type: node.RootTypeState, Hash: rootHash}
	fc, err := checkpoint.NewFileCreator(filepath.Join(dir, "cp"), src)
	require.NoError(err)
	cp, err := fc.CreateCheckpoint(ctx, root, 16*1024, 0)
	require.NoError(err)

	// Restore all chunks into a fresh database.
	dstCfg := &api.Config{DB: filepath.Join(dir, "dst"), Namespace: ns, MaxCacheSize: 16 * 1024 * 1024}
	dst, err := New(dstCfg)
	require.NoError(err)
	rs, err := checkpoint.NewRestorer(dst)
	require.NoError(err)
	require.NoError(dst.StartMultipartInsert(1))
	require.NoError(rs.StartRestore(ctx, cp))
	for i := range cp.Chunks {
		cm, err := cp.GetChunkMetadata(uint64(i))
		require.NoError(err)
		var buf bytes.Buffer
		require.NoError(fc.GetCheckpointChunk(ctx, cm, &buf))
		_, err = rs.RestoreChunk(ctx, uint64(i), &buf)
		require.NoError(err)
	}

	// Finalize, "crashing" after the finalization commit and before the trailing multipart clean-up.
	dst.(*badgerNodeDB).multipartVersion = multipartVersionNone
	require.NoError(dst.Finalize([]node.Root{root}))
	dst.Close()

	// Restart.
	dst, err = New(dstCfg)
	require.NoError(err)
	defer dst.Close()
	v, ok := dst.GetLatestVersion()
	require.True(ok)
	require.EqualValues(1, v, "version 1 is finalized")

	// The finalized version must be intact and fully readable.
	tree = mkvs.NewWithRoot(nil, dst, root)
	for i := 0; i < 1000; i++ {
		value, err := tree.Get(ctx, []byte(strconv.Itoa(i)))
		require.NoError(err, "Get(%d)", i)
		require.Equal([]byte(strconv.Itoa(i)), value)
	}
}

package mkvs

// Reproductions of genuine violations of C03 on the UNMODIFIED tree.
// Every test below FAILS on the clean tree (that is the finding).

import (
	"bytes"
	"context"
	"os"
	"testing"

	"github.com/oasisprotocol/oasis-core/go/common"
	db "github.com/oasisprotocol/oasis-core/go/storage/mkvs/db/api"
	badgerDb "github.com/oasisprotocol/oasis-core/go/storage/mkvs/db/badger"
	pathBadgerDb "github.com/oasisprotocol/oasis-core/go/storage/mkvs/db/pathbadger"
	"github.com/oasisprotocol/oasis-core/go/storage/mkvs/node"
)

func cleanReproDB(t *testing.T, backend string) (db.NodeDB, common.Namespace) {
	dir, err := os.MkdirTemp("", "mkvs.cleanrepro")
	if err != nil {
		t.Fatal(err)
	}
	ns := common.NewTestNamespaceFromSeed([]byte("cleanrepro"), 0)
	cfg := &db.Config{DB: dir, NoFsync: true, Namespace: ns, MaxCacheSize: 16 * 1024 * 1024}
	var ndb db.NodeDB
	if backend == "badger" {
		ndb, err = badgerDb.New(cfg)
	} else {
		ndb, err = pathBadgerDb.New(cfg)
	}
	if err != nil {
		t.Fatal(err)
	}
	t.Cleanup(func() { ndb.Close(); os.RemoveAll(dir) })
	return ndb, ns
}

func cleanReproKeys(tr Tree) (keys []string, err error) {
	it := tr.NewIterator(context.Background())
	defer it.Close()
	for it.Rewind(); it.Valid(); it.Next() {
		keys = append(keys, string(it.Key()))
	}
	return keys, it.Err()
}

// A1: node capacity smaller than the number of internal nodes on the path of an insert: the
// ancestors that are on the Go call stack are evicted while a deeper node is loaded from the
// node database, and the insert then marks a pointer whose node is gone as dirty.
// Result: Insert returns nil and the WHOLE tree is gone.
func TestCleanReproA1_SmallNodeCapacity(t *testing.T) {
	for _, backend := range []string{"badger", "pathbadger"} {
		t.Run(backend, func(t *testing.T) {
			ctx := context.Background()
			ndb, ns := cleanReproDB(t, backend)
			tr := New(nil, ndb, node.RootTypeState, Capacity(1, 0))
			_ = tr.Insert(ctx, []byte{0x80, 0x7f, 0xff}, []byte{})
			_ = tr.Insert(ctx, []byte{0xff, 0x61}, []byte("w"))
			_ = tr.Insert(ctx, []byte{0x00, 0x01, 0xff}, []byte("v"))
			if _, _, err := tr.Commit(ctx, ns, 1); err != nil {
				t.Fatal(err)
			}
			if err := tr.Insert(ctx, []byte{0xff, 0xff, 0x00}, []byte("w")); err != nil {
				t.Fatal(err)
			}
			keys, err := cleanReproKeys(tr)
			if err != nil || len(keys) != 4 {
				t.Fatalf("C03 violated on clean tree: after 3 committed inserts and 1 more insert (node capacity 1) iteration yields %d keys %q (err %v), want 4", len(keys), keys, err)
			}
		})
	}
}

// A2: the same with the DEFAULT capacities (5000 internal nodes): a chain of more than 5000 keys
// each of which is a prefix of the next gives a path of more than 5000 internal nodes.
// Slow (about 35 s per backend) because of the key sizes.
func TestCleanReproA2_DefaultCapacityDeepChain(t *testing.T) {
	for _, backend := range []string{"badger"} {
		t.Run(backend, func(t *testing.T) {
			ctx := context.Background()
			ndb, ns := cleanReproDB(t, backend)
			tr := New(nil, ndb, node.RootTypeState)
			const n = 5100
			for i := 1; i <= n; i++ {
				if err := tr.Insert(ctx, bytes.Repeat([]byte{'a'}, i), []byte("v")); err != nil {
					t.Fatal(err)
				}
			}
			_, rh, err := tr.Commit(ctx, ns, 1)
			if err != nil {
				t.Fatal(err)
			}
			tr.Close()
			tr = NewWithRoot(nil, ndb, node.Root{Namespace: ns, Version: 1, Type: node.RootTypeState, Hash: rh})
			if err := tr.Insert(ctx, bytes.Repeat([]byte{'a'}, n+1), []byte("v")); err != nil {
				t.Fatal(err)
			}
			v, err := tr.Get(ctx, []byte("a"))
			keys, ierr := cleanReproKeys(tr)
			if err != nil || ierr != nil || string(v) != "v" || len(keys) != n+1 {
				t.Fatalf("C03 violated on clean tree (default capacities): after reopen and one insert at the bottom of a %d deep prefix chain Get(a)=%q (err %v), iteration yields %d keys (err %v), want %d", n, v, err, len(keys), ierr, n+1)
			}
		})
	}
}

// B: a clean leaf that is the LeafNode of a DIRTY internal node is evicted from the value cache;
// derefNodePtr then treats the dirty internal node as "needs re-fetch", cannot re-fetch a dirty
// node and returns nil: the whole subtree reads as absent, and the next Commit panics.
func TestCleanReproB_EvictedLeafUnderDirtyInternal(t *testing.T) {
	for _, backend := range []string{"badger", "pathbadger"} {
		t.Run(backend, func(t *testing.T) {
			ctx := context.Background()
			ndb, ns := cleanReproDB(t, backend)
			tr := New(nil, ndb, node.RootTypeState, Capacity(0, 64))
			big := make([]byte, 40)
			_ = tr.Insert(ctx, []byte("a"), big)
			_ = tr.Insert(ctx, []byte("b"), big)
			if _, _, err := tr.Commit(ctx, ns, 1); err != nil {
				t.Fatal(err)
			}
			// "a" becomes the LeafNode of a new, dirty internal node.
			_ = tr.Insert(ctx, []byte("ab"), []byte("x"))
			// Reading "b" evicts the clean leaf "a" from the value cache.
			_, _ = tr.Get(ctx, []byte("b"))
			va, err := tr.Get(ctx, []byte("a"))
			keys, ierr := cleanReproKeys(tr)
			if err != nil || ierr != nil || !bytes.Equal(va, big) || len(keys) != 3 {
				t.Errorf("C03 violated on clean tree: Get(a)=%v (err %v) want 40 zero bytes; iteration yields %q (err %v), want a, ab, b", va, err, keys, ierr)
			}
			func() {
				defer func() {
					if r := recover(); r != nil {
						t.Errorf("Commit panics: %v", r)
					}
				}()
				_, _, err = tr.Commit(ctx, ns, 2)
				t.Logf("Commit err: %v", err)
			}()
		})
	}
}

// C: removing a key that does NOT exist deletes another key: doRemove dereferences both children
// of an internal node, loading the right child evicts the node's own LeafNode from the value cache,
// `remainingLeaf = n.LeafNode.Node` is then nil and the node is collapsed into its right child.
func TestCleanReproC_RemoveAbsentDeletesPrefixKey(t *testing.T) {
	for _, backend := range []string{"badger", "pathbadger"} {
		t.Run(backend, func(t *testing.T) {
			ctx := context.Background()
			ndb, ns := cleanReproDB(t, backend)
			tr := New(nil, ndb, node.RootTypeState, Capacity(0, 64))
			_ = tr.Insert(ctx, []byte("a\xf0"), make([]byte, 60))
			if _, _, err := tr.Commit(ctx, ns, 1); err != nil {
				t.Fatal(err)
			}
			_ = tr.Insert(ctx, []byte("a"), []byte("prefix"))
			if _, _, err := tr.Commit(ctx, ns, 2); err != nil {
				t.Fatal(err)
			}
			prev, err := tr.RemoveExisting(ctx, []byte("a\x00"))
			if err != nil || prev != nil {
				t.Fatalf("RemoveExisting(absent) = %v, %v", prev, err)
			}
			va, err := tr.Get(ctx, []byte("a"))
			keys, ierr := cleanReproKeys(tr)
			if err != nil || ierr != nil || string(va) != "prefix" || len(keys) != 2 {
				t.Fatalf("C03 violated on clean tree: after removing the absent key a\\x00, Get(a)=%q (err %v) want \"prefix\"; iteration yields %q (err %v), want a, a\\xf0", va, err, keys, ierr)
			}
		})
	}
}

// D: nil key versus empty key.
func TestCleanReproD_NilKey(t *testing.T) {
	ctx := context.Background()
	tr := New(nil, nil, node.RootTypeState)
	_ = tr.Insert(ctx, nil, []byte("v"))
	_ = tr.Insert(ctx, []byte("b"), []byte("w"))
	keys, _ := cleanReproKeys(tr)
	if len(keys) != 2 {
		t.Errorf("C03 violated on clean tree: after Insert(nil key) and Insert(b) iteration yields %q, want \"\" and b", keys)
	}
	_, _, _ = tr.Commit(ctx, testNs, 1)
	v, err := tr.Get(ctx, []byte{})
	if err != nil || string(v) != "v" {
		t.Errorf("C03 violated on clean tree: Get(empty non-nil key) after Insert(nil key)+Commit = %q, %v; want v (Get(nil) returns it)", v, err)
	}
	func() {
		defer func() {
			if r := recover(); r != nil {
				t.Errorf("Insert(empty non-nil key) after Insert(nil key) panics: %v", r)
			}
		}()
		_ = tr.Insert(ctx, []byte{}, []byte("x"))
	}()
}

// B2: the LeafNode of an internal node is evicted during the descent of the very Insert that then
// marks the internal node dirty.
func TestCleanReproB2_EvictedDuringSameInsert(t *testing.T) {
	ctx := context.Background()
	ndb, ns := cleanReproDB(t, "badger")
	tr := New(nil, ndb, node.RootTypeState, Capacity(0, 1))
	_ = tr.Insert(ctx, []byte("ab"), []byte("v"))
	_, _, _ = tr.Commit(ctx, ns, 1)
	_ = tr.Insert(ctx, []byte("a"), []byte{})
	_, _, _ = tr.Commit(ctx, ns, 2)
	_ = tr.Insert(ctx, []byte("ab"), []byte("w"))
	var keys []string
	it := tr.NewIterator(ctx)
	for it.Rewind(); it.Valid(); it.Next() {
		keys = append(keys, string(it.Key()))
	}
	va, _ := tr.Get(ctx, []byte("a"))
	if len(keys) != 2 || va == nil {
		t.Fatalf("C03 violated on clean tree: after insert ab, commit, insert a, commit, update ab (value capacity 1): iteration yields %q (err %v) want a, ab; Get(a)=%v", keys, it.Err(), va)
	}
}

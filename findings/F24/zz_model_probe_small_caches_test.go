package mkvs

import (
	"bytes"
	"context"
	"fmt"
	"math/rand"
	"os"
	"sort"
	"testing"

	"github.com/oasisprotocol/oasis-core/go/common"
	db "github.com/oasisprotocol/oasis-core/go/storage/mkvs/db/api"
	badgerDb "github.com/oasisprotocol/oasis-core/go/storage/mkvs/db/badger"
	pathBadgerDb "github.com/oasisprotocol/oasis-core/go/storage/mkvs/db/pathbadger"
	"github.com/oasisprotocol/oasis-core/go/storage/mkvs/node"
)

type probeLayer map[string][]byte

func cloneLayer(l probeLayer) probeLayer {
	n := make(probeLayer, len(l))
	for k, v := range l {
		n[k] = v
	}
	return n
}

func probeAlphabet() [][]byte {
	syms := []byte{0x00, 0x01, 0x7f, 0x80, 0xff, 'a'}
	keys := [][]byte{{}}
	for _, a := range syms {
		keys = append(keys, []byte{a})
		for _, b := range syms {
			keys = append(keys, []byte{a, b})
			for _, c := range []byte{0x00, 0xff, 'a'} {
				keys = append(keys, []byte{a, b, c})
			}
		}
	}
	return keys
}

func probeCheckIter(tag string, tr KeyValueTree, ref probeLayer, seek []byte, limit int) string {
	ctx := context.Background()
	var want []string
	for k := range ref {
		if bytes.Compare([]byte(k), seek) >= 0 {
			want = append(want, k)
		}
	}
	sort.Strings(want)
	it := tr.NewIterator(ctx)
	defer it.Close()
	if seek == nil {
		it.Rewind()
	} else {
		it.Seek(seek)
	}
	i := 0
	for ; it.Valid(); it.Next() {
		if limit > 0 && i >= limit {
			return ""
		}
		if i >= len(want) {
			return fmt.Sprintf("%s: iterator seek %x yields extra key %x", tag, seek, []byte(it.Key()))
		}
		if string(it.Key()) != want[i] {
			return fmt.Sprintf("%s: iterator seek %x pos %d got %x want %x", tag, seek, i, []byte(it.Key()), want[i])
		}
		if !bytes.Equal(it.Value(), ref[want[i]]) {
			return fmt.Sprintf("%s: iterator seek %x key %x value got %x want %x", tag, seek, []byte(it.Key()), it.Value(), ref[want[i]])
		}
		i++
	}
	if it.Err() != nil {
		return fmt.Sprintf("%s: iterator err %v", tag, it.Err())
	}
	if i != len(want) {
		return fmt.Sprintf("%s: iterator seek %x ended after %d, want %d (next %x)", tag, seek, i, len(want), want[i])
	}
	return ""
}

type probeOp struct {
	kind int // 0 insert 1 remove 2 removeExisting 3 get 4 iter 5 push 6 commitOv 7 discard 8 copy 9 treeCommit 10 reopen 11 fullcheck
	key  []byte
	val  []byte
	aux  int
	nc   uint64
	vc   uint64
}

func (o probeOp) String() string {
	names := []string{"insert", "remove", "removeExisting", "get", "iter", "push", "commitOv", "discard", "copy", "treeCommit", "reopen", "fullcheck"}
	return fmt.Sprintf("{%s key=%x val=%x aux=%d nc=%d vc=%d}", names[o.kind], o.key, o.val, o.aux, o.nc, o.vc)
}

var probeNC = []uint64{1, 1, 2, 3, 5, 0}
var probeMaxKeys = 20
var probeSeedLo, probeSeedHi int64 = 1, 300

func probeGen(seed int64, steps int) ([]probeOp, [][]byte) {
	rng := rand.New(rand.NewSource(seed))
	keys := probeAlphabet()
	rng.Shuffle(len(keys), func(i, j int) { keys[i], keys[j] = keys[j], keys[i] })
	keys = keys[:4+rng.Intn(probeMaxKeys)]
	vals := [][]byte{{}, []byte("v"), []byte("w"), []byte("longer value 0123456789"), nil}
	var ops []probeOp
	ops = append(ops, probeOp{kind: 10, nc: probeNC[rng.Intn(len(probeNC))], vc: []uint64{1, 1, 8, 40, 0}[rng.Intn(5)]})
	for i := 0; i < steps; i++ {
		o := probeOp{key: keys[rng.Intn(len(keys))], val: vals[rng.Intn(len(vals))], aux: rng.Intn(4)}
		o.nc = probeNC[rng.Intn(len(probeNC))]
		o.vc = []uint64{1, 1, 8, 40, 0}[rng.Intn(5)]
		switch op := rng.Intn(100); {
		case op < 30:
			o.kind = 0
		case op < 42:
			o.kind = 1
		case op < 54:
			o.kind = 2
		case op < 66:
			o.kind = 3
		case op < 76:
			o.kind = 4
		case op < 82:
			o.kind = 5
		case op < 86:
			o.kind = 6
		case op < 89:
			o.kind = 7
		case op < 91:
			o.kind = 8
		case op < 96:
			o.kind = 9
		default:
			o.kind = 10
		}
		ops = append(ops, o)
		if rng.Intn(6) == 0 {
			ops = append(ops, probeOp{kind: 11})
		}
	}
	return ops, keys
}

// probeExec executes ops, returns a non-empty string on the first violation.
func probeExec(ndb db.NodeDB, ns common.Namespace, ops []probeOp, keys [][]byte) (res string) {
	ctx := context.Background()
	defer func() {
		if r := recover(); r != nil {
			res = fmt.Sprintf("PANIC: %v", r)
		}
	}()
	var version uint64
	var tr Tree = New(nil, ndb, node.RootTypeState, Capacity(ops[0].nc, ops[0].vc))
	refs := []probeLayer{{}}
	var ovs []OverlayTree
	top := func() KeyValueTree {
		if len(ovs) > 0 {
			return ovs[len(ovs)-1]
		}
		return tr
	}
	ref := func() probeLayer { return refs[len(refs)-1] }
	defer func() {
		for len(ovs) > 0 {
			ovs[len(ovs)-1].Close()
			ovs = ovs[:len(ovs)-1]
		}
		tr.Close()
	}()
	for step, o := range ops[1:] {
		k := o.key
		tag := fmt.Sprintf("step %d depth %d %s", step, len(ovs), o)
		switch o.kind {
		case 0:
			v := o.val
			if err := top().Insert(ctx, k, v); err != nil {
				return fmt.Sprintf("%s: insert: %v", tag, err)
			}
			if v == nil {
				v = []byte{}
			}
			ref()[string(k)] = v
		case 1:
			if err := top().Remove(ctx, k); err != nil {
				return fmt.Sprintf("%s: remove: %v", tag, err)
			}
			delete(ref(), string(k))
		case 2:
			got, err := top().RemoveExisting(ctx, k)
			if err != nil {
				return fmt.Sprintf("%s: removeExisting: %v", tag, err)
			}
			want, ok := ref()[string(k)]
			if ok != (got != nil) || !bytes.Equal(got, want) {
				return fmt.Sprintf("%s: removeExisting %x got %v want %v (present %v)", tag, k, got, want, ok)
			}
			delete(ref(), string(k))
		case 3:
			got, err := top().Get(ctx, k)
			if err != nil {
				return fmt.Sprintf("%s: get: %v", tag, err)
			}
			want, ok := ref()[string(k)]
			if ok != (got != nil) || !bytes.Equal(got, want) {
				return fmt.Sprintf("%s: get %x got %v want %v (present %v)", tag, k, got, want, ok)
			}
		case 4:
			if r := probeCheckIter(tag, top(), ref(), k, o.aux); r != "" {
				return r
			}
		case 5:
			if len(ovs) < 3 {
				ovs = append(ovs, NewOverlay(top()))
				refs = append(refs, cloneLayer(ref()))
			}
		case 6:
			if len(ovs) > 0 {
				ov := ovs[len(ovs)-1]
				if _, err := ov.Commit(ctx); err != nil {
					return fmt.Sprintf("%s: overlay commit: %v", tag, err)
				}
				if o.aux%2 == 0 {
					refs[len(refs)-2] = cloneLayer(ref())
				} else {
					ov.Close()
					ovs = ovs[:len(ovs)-1]
					refs[len(refs)-2] = ref()
					refs = refs[:len(refs)-1]
				}
			}
		case 7:
			if len(ovs) > 0 {
				ovs[len(ovs)-1].Close()
				ovs = ovs[:len(ovs)-1]
				refs = refs[:len(refs)-1]
			}
		case 8:
			if len(ovs) > 0 {
				ov := ovs[len(ovs)-1]
				c := ov.Copy(nil)
				if o.aux%2 == 0 {
					_ = ov.Insert(ctx, k, []byte("garbage"))
				}
				ovs[len(ovs)-1] = c
			}
		case 9:
			if len(ovs) == 0 {
				version++
				if _, _, err := tr.Commit(ctx, ns, version); err != nil {
					return fmt.Sprintf("%s: commit: %v", tag, err)
				}
			}
		case 10:
			if len(ovs) == 0 {
				version++
				_, rh, err := tr.Commit(ctx, ns, version)
				if err != nil {
					return fmt.Sprintf("%s: commit: %v", tag, err)
				}
				tr.Close()
				tr = NewWithRoot(nil, ndb, node.Root{Namespace: ns, Version: version, Type: node.RootTypeState, Hash: rh}, Capacity(o.nc, o.vc))
			}
		case 11:
			if r := probeCheckIter(tag+" full", top(), ref(), nil, 0); r != "" {
				return r
			}
			for _, kk := range keys {
				got, err := top().Get(ctx, kk)
				if err != nil {
					return fmt.Sprintf("%s: get: %v", tag, err)
				}
				want, ok := ref()[string(kk)]
				if ok != (got != nil) || !bytes.Equal(got, want) {
					return fmt.Sprintf("%s: fullcheck get %x got %v want %v (present %v)", tag, kk, got, want, ok)
				}
			}
		}
	}
	return ""
}

func probeWithDB(backend string, fn func(ndb db.NodeDB, ns common.Namespace) string) string {
	dir, err := os.MkdirTemp("", "mkvs.probe")
	if err != nil {
		panic(err)
	}
	defer os.RemoveAll(dir)
	ns := common.NewTestNamespaceFromSeed([]byte("probe"), 0)
	cfg := &db.Config{DB: dir, NoFsync: true, Namespace: ns, MaxCacheSize: 16 * 1024 * 1024}
	var ndb db.NodeDB
	if backend == "badger" {
		ndb, err = badgerDb.New(cfg)
	} else {
		ndb, err = pathBadgerDb.New(cfg)
	}
	if err != nil {
		panic(err)
	}
	defer ndb.Close()
	return fn(ndb, ns)
}

func probeShrink(backend string, ops []probeOp, keys [][]byte) []probeOp {
	fails := func(cand []probeOp) bool {
		return probeWithDB(backend, func(ndb db.NodeDB, ns common.Namespace) string { return probeExec(ndb, ns, cand, keys) }) != ""
	}
	for chunk := len(ops) / 2; chunk >= 1; {
		progress := false
		for i := 1; i+chunk <= len(ops); {
			cand := append(append([]probeOp{}, ops[:i]...), ops[i+chunk:]...)
			if fails(cand) {
				ops = cand
				progress = true
			} else {
				i += chunk
			}
		}
		if !progress || chunk > 1 {
			if chunk == 1 && !progress {
				break
			}
			chunk /= 2
			if chunk == 0 {
				chunk = 1
			}
		}
	}
	return ops
}

func TestProbeModel(t *testing.T) {
	for _, backend := range []string{"badger", "pathbadger"} {
		t.Run(backend, func(t *testing.T) {
			nfail := 0
			for seed := probeSeedLo; seed <= probeSeedHi && nfail < 3; seed++ {
				ops, keys := probeGen(seed, 400)
				r := probeWithDB(backend, func(ndb db.NodeDB, ns common.Namespace) string { return probeExec(ndb, ns, ops, keys) })
				if r == "" {
					continue
				}
				nfail++
				t.Errorf("seed %d: %s", seed, r)
				small := probeShrink(backend, ops, keys)
				r = probeWithDB(backend, func(ndb db.NodeDB, ns common.Namespace) string { return probeExec(ndb, ns, small, keys) })
				t.Logf("shrunk to %d ops: %s", len(small), r)
				for _, o := range small {
					t.Logf("   %s", o)
				}
			}
		})
	}
}

func TestProbeModelBig(t *testing.T) {
	probeNC = []uint64{12, 14, 20, 0}
	probeMaxKeys = 146
	TestProbeModel(t)
}

func TestProbeModelBig2(t *testing.T) {
	probeNC = []uint64{12, 14, 20, 0}
	probeMaxKeys = 146
	probeSeedLo, probeSeedHi = 301, 2500
	TestProbeModel(t)
}

func TestProbeModelMid(t *testing.T) {
	probeNC = []uint64{12, 13, 0}
	probeMaxKeys = 40
	probeSeedLo, probeSeedHi = 5000, 7000
	TestProbeModel(t)
}

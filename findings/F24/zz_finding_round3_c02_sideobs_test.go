package mkvs

// Side observations on the CLEAN tree (property C02). Each test FAILS on the unmodified tree.

import (
	"context"
	"os"
	"sort"
	"testing"

	"github.com/oasisprotocol/oasis-core/go/common"
	"github.com/oasisprotocol/oasis-core/go/common/crypto/hash"
	db "github.com/oasisprotocol/oasis-core/go/storage/mkvs/db/api"
	badgerDb "github.com/oasisprotocol/oasis-core/go/storage/mkvs/db/badger"
	pathBadgerDb "github.com/oasisprotocol/oasis-core/go/storage/mkvs/db/pathbadger"
	"github.com/oasisprotocol/oasis-core/go/storage/mkvs/node"
)

var soNs common.Namespace

func soNewDB(t *testing.T, kind string) (db.NodeDB, func()) {
	dir, err := os.MkdirTemp("", "mkvs.sideobs")
	if err != nil {
		t.Fatal(err)
	}
	cfg := &db.Config{DB: dir, NoFsync: true, Namespace: soNs, MaxCacheSize: 16 * 1024 * 1024}
	var ndb db.NodeDB
	if kind == "badger" {
		ndb, err = badgerDb.New(cfg)
	} else {
		ndb, err = pathBadgerDb.New(cfg)
	}
	if err != nil {
		t.Fatal(err)
	}
	return ndb, func() { ndb.Close(); os.RemoveAll(dir) }
}

// Reference root: fresh in-memory tree with default capacity, sorted insertion of the contents.
func soRefRoot(t *testing.T, m map[string][]byte) hash.Hash {
	ctx := context.Background()
	tr := New(nil, nil, node.RootTypeState)
	keys := make([]string, 0, len(m))
	for k := range m {
		keys = append(keys, k)
	}
	sort.Strings(keys)
	for _, k := range keys {
		if err := tr.Insert(ctx, []byte(k), m[k]); err != nil {
			t.Fatal(err)
		}
	}
	_, h, err := tr.Commit(ctx, soNs, 0)
	if err != nil {
		t.Fatal(err)
	}
	return h
}

// A: node capacity (2) smaller than the root-to-leaf path (3 internal nodes). Removing an ABSENT key
// re-fetches an evicted child, which evicts (and cuts the children off) the ancestors that are still
// on the call stack; doRemove then sees nil children and collapses the tree.
func TestSideObsA_NodeCapacityEvictsAncestors(t *testing.T) {
	ctx := context.Background()
	for _, kind := range []string{"badger", "pathbadger"} {
		ndb, cleanup := soNewDB(t, kind)
		tr := New(nil, ndb, node.RootTypeState, Capacity(2, 64))
		model := map[string][]byte{"\x01\x02": {0xeb}, "\x01\x06\x00": {0x9d, 0x18}, "\x03": {}, "\x80\xff": {0x4f, 0xfb}}
		for k, v := range model {
			_ = tr.Insert(ctx, []byte(k), v)
		}
		_, h0, err := tr.Commit(ctx, soNs, 0)
		if err != nil {
			t.Fatal(err)
		}
		_ = ndb.Finalize([]node.Root{{Namespace: soNs, Version: 0, Type: node.RootTypeState, Hash: h0}})
		ref := soRefRoot(t, model)
		if !h0.Equal(&ref) {
			t.Fatalf("unexpected: first commit differs")
		}
		if err := tr.Remove(ctx, []byte{0x00}); err != nil { // key 00 is not in the tree
			t.Fatal(err)
		}
		_, h1, err := tr.Commit(ctx, soNs, 1)
		if err != nil {
			t.Fatal(err)
		}
		missing := 0
		for k := range model {
			if v, _ := tr.Get(ctx, []byte(k)); v == nil {
				missing++
			}
		}
		if !h1.Equal(&h0) {
			t.Errorf("%s: C02 violated: removing an absent key with node capacity 2 changed the root %s -> %s (%d of 4 keys lost)", kind, h0, h1, missing)
		}
		cleanup()
	}
}

// B: small value capacity. A dirty internal node whose embedded (clean, LRU-tracked) LeafNode gets
// evicted is dereferenced as nil (cache.derefNodePtr: removeNode is a no-op for the dirty pointer,
// then "!ptr.Clean -> return nil, nil"), so its whole subtree is treated as absent.
func TestSideObsB_ValueCapacityEvictsEmbeddedLeaf(t *testing.T) {
	ctx := context.Background()
	for _, kind := range []string{"badger", "pathbadger"} {
		func() {
			ndb, cleanup := soNewDB(t, kind)
			defer func() {
				if r := recover(); r != nil {
					t.Errorf("%s: panic with Capacity(0,300): %v", kind, r)
				}
			}()
			opts := []Option{Capacity(0, 300)}
			tr := New(nil, ndb, node.RootTypeState, opts...)
			model := map[string][]byte{"\x50\x00": {}, "\x10": {0x40}, "\xff": {}, "\x00": {}}
			for _, k := range []string{"\x50\x00", "\x10", "\xff", "\x00"} {
				_ = tr.Insert(ctx, []byte(k), model[k])
			}
			_, h0, err := tr.Commit(ctx, soNs, 0)
			if err != nil {
				t.Fatal(err)
			}
			root := node.Root{Namespace: soNs, Version: 0, Type: node.RootTypeState, Hash: h0}
			_ = ndb.Finalize([]node.Root{root})
			tr.Close()
			tr = NewWithRoot(nil, ndb, root, opts...)
			_ = tr.Insert(ctx, []byte{0xff, 0x80}, []byte{})
			model["\xff\x80"] = []byte{}
			_ = tr.Insert(ctx, []byte{0x00, 0x20}, []byte{})
			model["\x00\x20"] = []byte{}
			_ = tr.Remove(ctx, []byte{0x10})
			delete(model, "\x10")
			_, h1, err := tr.Commit(ctx, soNs, 1)
			if err != nil {
				t.Fatal(err)
			}
			ref := soRefRoot(t, model)
			missing := 0
			for k := range model {
				if v, _ := tr.Get(ctx, []byte(k)); v == nil {
					missing++
				}
			}
			if !h1.Equal(&ref) {
				t.Errorf("%s: C02 violated: with Capacity(0,300) the committed root %s differs from the root %s of the same contents built with the default capacity (%d of %d keys lost)", kind, h1, ref, missing, len(model))
			}
			cleanup()
		}()
	}
}

// C: a nil key and an empty key are the same key for hashing, Get and the write log, but
// node.Key.Equal(nil, []byte{}) is false. (1) Insert(nil), Remove([]byte{}) in one batch leaves the
// key in the tree, while the same two operations separated by commit+reload remove it.
// (2) Insert(nil) followed by Insert([]byte{}) panics (index out of range in Key.GetBit).
func TestSideObsC_NilVsEmptyKey(t *testing.T) {
	ctx := context.Background()
	tr := New(nil, nil, node.RootTypeState)
	_ = tr.Insert(ctx, nil, []byte("a"))
	_ = tr.Remove(ctx, []byte{})
	_, h1, _ := tr.Commit(ctx, soNs, 0)

	ndb, cleanup := soNewDB(t, "badger")
	defer cleanup()
	tr2 := New(nil, ndb, node.RootTypeState)
	_ = tr2.Insert(ctx, nil, []byte("a"))
	_, h, _ := tr2.Commit(ctx, soNs, 0)
	root := node.Root{Namespace: soNs, Version: 0, Type: node.RootTypeState, Hash: h}
	_ = ndb.Finalize([]node.Root{root})
	tr2 = NewWithRoot(nil, ndb, root)
	_ = tr2.Remove(ctx, []byte{})
	_, h2, _ := tr2.Commit(ctx, soNs, 1)
	if !h1.Equal(&h2) {
		t.Errorf("C02 violated: Insert(nil,a);Remove([]byte{}) gives root %s in one batch but %s when a commit+reload separates the two operations", h1, h2)
	}

	func() {
		defer func() {
			if r := recover(); r != nil {
				t.Errorf("Insert(nil) then Insert([]byte{}) panicked: %v", r)
			}
		}()
		tr3 := New(nil, nil, node.RootTypeState)
		_ = tr3.Insert(ctx, nil, []byte("a"))
		_ = tr3.Insert(ctx, []byte{}, []byte("b"))
	}()
}

package mkvs

import (
	"context"
	"encoding/hex"
	"os"
	"testing"

	"github.com/stretchr/testify/require"

	db "github.com/oasisprotocol/oasis-core/go/storage/mkvs/db/api"
	badgerDb "github.com/oasisprotocol/oasis-core/go/storage/mkvs/db/badger"
	"github.com/oasisprotocol/oasis-core/go/storage/mkvs/node"
)

func TestFindingF24(t *testing.T) {
	ctx := context.Background()
	dir, err := os.MkdirTemp("", "mkvs.s2")
	require.NoError(t, err)
	defer os.RemoveAll(dir)
	ndb, err := badgerDb.New(&db.Config{DB: dir, NoFsync: true, Namespace: testNs, MaxCacheSize: 16 * 1024 * 1024})
	require.NoError(t, err)
	defer ndb.Close()
	h := func(s string) []byte { b, _ := hex.DecodeString(s); return b }
	kv := [][2]string{{"00", ""}, {"62804062", "f4f5"}, {"6161", "2f5fe0"}, {"7f62", "c66a"}, {"ff41", "f167"}}
	for _, capN := range []uint64{3, 4, 5, 50} {
		tree := New(nil, ndb, node.RootTypeState, Capacity(capN, 100))
		ref := New(nil, nil, node.RootTypeState)
		for _, e := range kv {
			require.NoError(t, tree.Insert(ctx, h(e[0]), h(e[1])))
			require.NoError(t, ref.Insert(ctx, h(e[0]), h(e[1])))
		}
		_, _, err = tree.Commit(ctx, testNs, 0)
		require.NoError(t, err)
		require.NoError(t, tree.Insert(ctx, h("62ff0162"), h("837d80")))
		require.NoError(t, ref.Insert(ctx, h("62ff0162"), h("837d80")))
		_, got, err := tree.Commit(ctx, testNs, 1)
		require.NoError(t, err)
		_, want, _ := ref.Commit(ctx, testNs, 1)
		if got != want {
			t.Errorf("capacity %d: root %s, reference %s", capN, got, want)
		}
		tree.Close()
	}
}

package badger

import (
	"bytes"
	"context"
	"fmt"
	"io"
	"os"
	"path/filepath"
	"strconv"
	"sync"
	"sync/atomic"
	"syscall"
	"testing"

	"github.com/stretchr/testify/require"

	"github.com/oasisprotocol/oasis-core/go/common"
	"github.com/oasisprotocol/oasis-core/go/common/logging"
	"github.com/oasisprotocol/oasis-core/go/storage/mkvs"
	"github.com/oasisprotocol/oasis-core/go/storage/mkvs/db/api"
	"github.com/oasisprotocol/oasis-core/go/storage/mkvs/node"
)

var f17ns = common.NewTestNamespaceFromSeed([]byte("finding F17"), 0)

type f17HookWriter struct{}

var (
	f17HookOnce sync.Once
	f17HookFn   atomic.Pointer[func()]
)

func (f17HookWriter) Write(p []byte) (int, error) {
	if bytes.Contains(p, []byte("writeRequests called")) {
		if fn := f17HookFn.Load(); fn != nil {
			(*fn)()
		}
	}
	return len(p), nil
}

func f17InstallHook(t *testing.T) {
	f17HookOnce.Do(func() {
		require.NoError(t, logging.Initialize(f17HookWriter{}, logging.FmtLogfmt, logging.LevelDebug, nil))
	})
}

func f17CopySparse(src, dst string) error {
	in, err := os.Open(src)
	if err != nil {
		return err
	}
	defer in.Close()
	fi, err := in.Stat()
	if err != nil {
		return err
	}
	out, err := os.Create(dst)
	if err != nil {
		return err
	}
	defer out.Close()
	if err = out.Truncate(fi.Size()); err != nil {
		return err
	}
	fd := int(in.Fd())
	var off int64
	for off < fi.Size() {
		data, err := syscall.Seek(fd, off, 3) // SEEK_DATA
		if err != nil {
			break // ENXIO: no more data.
		}
		hole, err := syscall.Seek(fd, data, 4) // SEEK_HOLE
		if err != nil {
			hole = fi.Size()
		}
		if _, err = in.Seek(data, io.SeekStart); err != nil {
			return err
		}
		if _, err = out.Seek(data, io.SeekStart); err != nil {
			return err
		}
		if _, err = io.CopyN(out, in, hole-data); err != nil && err != io.EOF {
			return err
		}
		off = hole
	}
	return nil
}

func f17Snapshot(src, dst string) error {
	if err := os.MkdirAll(dst, 0o700); err != nil {
		return err
	}
	ents, err := os.ReadDir(src)
	if err != nil {
		return err
	}
	for _, e := range ents {
		if e.Name() == "LOCK" {
			continue
		}
		if err = f17CopySparse(filepath.Join(src, e.Name()), filepath.Join(dst, e.Name())); err != nil {
			return err
		}
	}
	return nil
}

// f17CrashPoints runs op against the database in dir and returns directories with snapshots taken
// right before each durable write performed by op.
func f17CrashPoints(t *testing.T, dir string, op func()) []string {
	f17InstallHook(t)
	base := t.TempDir()
	var snaps []string
	fn := func() {
		dst := filepath.Join(base, strconv.Itoa(len(snaps)))
		if err := f17Snapshot(dir, dst); err != nil {
			panic(err)
		}
		snaps = append(snaps, dst)
	}
	f17HookFn.Store(&fn)
	defer f17HookFn.Store(nil)
	op()
	return snaps
}

func f17Commit(t *testing.T, ndb api.NodeDB, prev node.Root, version uint64, tag string, n int, rm string) node.Root {
	ctx := context.Background()
	tree := mkvs.NewWithRoot(nil, ndb, prev)
	defer tree.Close()
	for i := 0; i < n; i++ {
		require.NoError(t, tree.Insert(ctx, []byte(tag+"/key/"+strconv.Itoa(i)), []byte(tag+"/value/"+strconv.Itoa(i))))
	}
	if rm != "" {
		for i := 0; i < n; i += 2 {
			require.NoError(t, tree.Remove(ctx, []byte(rm+"/key/"+strconv.Itoa(i))))
		}
	}
	_, h, err := tree.Commit(ctx, f17ns, version)
	require.NoError(t, err, "Commit")
	return node.Root{Namespace: f17ns, Version: version, Type: prev.Type, Hash: h}
}

func f17Check(ndb api.NodeDB, root node.Root, tag string, n int) error {
	ctx := context.Background()
	tree := mkvs.NewWithRoot(nil, ndb, root)
	defer tree.Close()
	for i := 0; i < n; i++ {
		v, err := tree.Get(ctx, []byte(tag+"/key/"+strconv.Itoa(i)))
		if err != nil {
			return fmt.Errorf("Get(%s/%d) from %s: %w", tag, i, root, err)
		}
		if string(v) != tag+"/value/"+strconv.Itoa(i) {
			return fmt.Errorf("Get(%s/%d) from %s: bad value %q", tag, i, root, v)
		}
	}
	return nil
}

// TestF17PruneRepeatableAfterCrash: the process dies between Prune's batch flush (nodes and root
// records of the pruned version deleted) and its metadata commit (earliest version advanced).
// C07: after reopening, every finalized version that is not being pruned is intact, and the
// interrupted Prune "can simply be repeated to completion with the same outcome as an
// uninterrupted run". The crash point is produced by copying the database directory right before
// each durable write of the real Prune (see the harness comment above); no code under test is
// modified.
func TestF17PruneRepeatableAfterCrash(t *testing.T) {
	const n = 20
	dir := t.TempDir()
	cfg := &api.Config{DB: dir, Namespace: f17ns, MaxCacheSize: 16 << 20, NoFsync: true}
	ndb, err := New(cfg)
	require.NoError(t, err)

	empty := node.Root{Namespace: f17ns, Version: 1, Type: node.RootTypeState}
	empty.Hash.Empty()
	emptyIO := node.Root{Namespace: f17ns, Version: 1, Type: node.RootTypeIO}
	emptyIO.Hash.Empty()
	r1 := f17Commit(t, ndb, empty, 1, "a", n, "")
	io1 := f17Commit(t, ndb, emptyIO, 1, "io", n, "") // a lone root: nothing is derived from it
	require.NoError(t, ndb.Finalize([]node.Root{r1, io1}))
	r2 := f17Commit(t, ndb, r1, 2, "b", n, "a")
	require.NoError(t, ndb.Finalize([]node.Root{r2}))
	r3 := f17Commit(t, ndb, r2, 3, "c", n, "")
	require.NoError(t, ndb.Finalize([]node.Root{r3}))

	snaps := f17CrashPoints(t, dir, func() {
		require.NoError(t, ndb.Prune(1))
	})
	ndb.Close()
	require.GreaterOrEqual(t, len(snaps), 2, "Prune performs two durable writes (one snapshot right before each)")

	for k, s := range snaps {
		c := *cfg
		c.DB = s
		d, err := New(&c)
		require.NoError(t, err, "reopen at crash point %d", k)
		require.NoError(t, f17Check(d, r2, "b", n), "crash point %d: version 2 intact", k)
		require.NoError(t, f17Check(d, r3, "c", n), "crash point %d: version 3 intact", k)
		if d.GetEarliestVersion() == 1 {
			// The prune has not taken full effect: it must be repeatable.
			require.NoError(t, d.Prune(1), "crash point %d: repeating the interrupted Prune(1)", k)
		}
		require.EqualValues(t, 2, d.GetEarliestVersion(), "crash point %d", k)
		require.NoError(t, d.Prune(2), "crash point %d: pruning continues", k)
		require.NoError(t, f17Check(d, r3, "c", n), "crash point %d: version 3 intact after pruning", k)
		d.Close()
	}
}

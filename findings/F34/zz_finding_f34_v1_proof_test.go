package mkvs

import (
	"context"
	"testing"

	"github.com/oasisprotocol/oasis-core/go/common"
	"github.com/oasisprotocol/oasis-core/go/storage/mkvs/node"
	"github.com/oasisprotocol/oasis-core/go/storage/mkvs/syncer"
)

// v1Peer answers every SyncGet with a VALID version-1 proof (the reader asked for version 0) that
// carries the nodes on the path and the siblings but only the HASH of the leaf stored inside an
// internal node. Such a proof verifies against the trusted root.
type v1Peer struct {
	backing *tree
	root    node.Root
	t       *testing.T
}

func (p *v1Peer) SyncGet(ctx context.Context, rq *syncer.GetRequest) (*syncer.ProofResponse, error) {
	// Ask the honest tree for a V1 proof WITHOUT siblings (so that leaves stored in internal nodes on
	// the path are not included), then add the siblings by hand via a second builder.
	pb := syncer.NewProofBuilder(p.root.Hash, p.root.Hash)
	var walk func(ptr *node.Pointer)
	walk = func(ptr *node.Pointer) {
		if ptr == nil || ptr.Node == nil {
			return
		}
		pb.Include(ptr.Node)
		if in, ok := ptr.Node.(*node.InternalNode); ok {
			// Include children, but never the internal node's own leaf.
			walk(in.Left)
			walk(in.Right)
		}
	}
	walk(p.backing.cache.pendingRoot)
	proof, err := pb.Build(ctx)
	if err != nil {
		return nil, err
	}
	return &syncer.ProofResponse{Proof: *proof}, nil
}

func (p *v1Peer) SyncGetPrefixes(context.Context, *syncer.GetPrefixesRequest) (*syncer.ProofResponse, error) {
	return nil, syncer.ErrUnsupported
}

func (p *v1Peer) SyncIterate(context.Context, *syncer.IterateRequest) (*syncer.ProofResponse, error) {
	return nil, syncer.ErrUnsupported
}

func TestSideV1ProofRemoveDropsLeaf(t *testing.T) {
	ctx := context.Background()
	var ns common.Namespace
	full := New(nil, nil, node.RootTypeState).(*tree)
	for _, k := range []string{"a", "a\x00", "a\x80"} {
		if err := full.Insert(ctx, []byte(k), []byte("value of "+k)); err != nil {
			t.Fatal(err)
		}
	}
	_, rh, err := full.Commit(ctx, ns, 0)
	if err != nil {
		t.Fatal(err)
	}
	root := node.Root{Namespace: ns, Version: 0, Type: node.RootTypeState, Hash: rh}

	// Sanity: the peer's proof is valid for the trusted root.
	peer := &v1Peer{backing: full, root: root, t: t}
	rsp, _ := peer.SyncGet(ctx, &syncer.GetRequest{})
	var pv syncer.ProofVerifier
	if _, err = pv.VerifyProof(ctx, rh, &rsp.Proof); err != nil {
		t.Fatalf("peer proof must be valid: %v", err)
	}
	t.Logf("peer proof: V=%d entries=%d", rsp.Proof.V, len(rsp.Proof.Entries))

	// Reference: a full replica removes a\x00 and still has "a".
	ref := New(nil, nil, node.RootTypeState)
	for _, k := range []string{"a", "a\x00", "a\x80"} {
		_ = ref.Insert(ctx, []byte(k), []byte("value of "+k))
	}
	_ = ref.Remove(ctx, []byte("a\x00"))
	rv, _ := ref.Get(ctx, []byte("a"))
	_, refRoot, _ := ref.Commit(ctx, ns, 1)

	remote := NewWithRoot(peer, nil, root)
	if err = remote.Remove(ctx, []byte("a\x00")); err != nil {
		t.Logf("remote Remove returned error (fine): %v", err)
		return
	}
	v, err := remote.Get(ctx, []byte("a"))
	t.Logf("full replica Get(a)=%q ; remote Get(a)=%q err=%v", rv, v, err)
	_, remRoot, cerr := remote.Commit(ctx, ns, 1)
	t.Logf("full replica new root %s ; remote new root %s (err=%v)", refRoot, remRoot, cerr)
	if err == nil && string(v) != string(rv) {
		t.Fatalf("VIOLATION: key \"a\" appears absent in the remote-backed tree after removing a sibling; peer served only valid proofs")
	}
}

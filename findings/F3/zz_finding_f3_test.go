package mkvs

import (
	"context"
	"testing"

	"github.com/stretchr/testify/require"

	"github.com/oasisprotocol/oasis-core/go/storage/mkvs/node"
)

// F3 (C03): Insert(k, nil) through an overlay must give the same answers before and after the
// overlay is committed, and Get must agree with iteration.
func TestZZFindingF3OverlayInsertNilValue(t *testing.T) {
	require := require.New(t)
	ctx := context.Background()

	tree := New(nil, nil, node.RootTypeState)
	defer tree.Close()
	overlay := NewOverlay(tree)
	defer overlay.Close()

	key := []byte("key")
	require.NoError(overlay.Insert(ctx, key, nil))

	// Iteration through the overlay yields the key ...
	it := overlay.NewIterator(ctx)
	it.Rewind()
	require.True(it.Valid(), "iterator yields the inserted key")
	require.Equal(key, []byte(it.Key()))
	it.Close()

	// ... so Get must report it present (with an empty value), like a plain tree does.
	before, err := overlay.Get(ctx, key)
	require.NoError(err)
	require.NotNil(before, "key inserted through the overlay must be present before commit")

	_, err = overlay.Commit(ctx)
	require.NoError(err)
	after, err := tree.Get(ctx, key)
	require.NoError(err)
	require.Equal(before, after, "committing the overlay must not change the answer")
}

package registry

import (
	"fmt"
	"math/rand"
	"testing"
	"time"

	requirePkg "github.com/stretchr/testify/require"

	beacon "github.com/oasisprotocol/oasis-core/go/beacon/api"
	"github.com/oasisprotocol/oasis-core/go/common"
	"github.com/oasisprotocol/oasis-core/go/common/cbor"
	"github.com/oasisprotocol/oasis-core/go/common/crypto/signature"
	memorySigner "github.com/oasisprotocol/oasis-core/go/common/crypto/signature/signers/memory"
	"github.com/oasisprotocol/oasis-core/go/common/entity"
	"github.com/oasisprotocol/oasis-core/go/common/node"
	"github.com/oasisprotocol/oasis-core/go/common/quantity"
	"github.com/oasisprotocol/oasis-core/go/common/version"
	"github.com/oasisprotocol/oasis-core/go/consensus/api/transaction"
	abciAPI "github.com/oasisprotocol/oasis-core/go/consensus/cometbft/api"
	beaconState "github.com/oasisprotocol/oasis-core/go/consensus/cometbft/apps/beacon/state"
	consensusState "github.com/oasisprotocol/oasis-core/go/consensus/cometbft/apps/consensus/state"
	registryState "github.com/oasisprotocol/oasis-core/go/consensus/cometbft/apps/registry/state"
	stakingState "github.com/oasisprotocol/oasis-core/go/consensus/cometbft/apps/staking/state"
	"github.com/oasisprotocol/oasis-core/go/consensus/genesis"
	registry "github.com/oasisprotocol/oasis-core/go/registry/api"
	staking "github.com/oasisprotocol/oasis-core/go/staking/api"
)

type probeH struct {
	t        *testing.T
	cfg      *abciAPI.MockApplicationStateConfig
	appState abciAPI.MockApplicationState
	ctx      *abciAPI.Context
	app      *Application
	state    *registryState.MutableState
	stake    *stakingState.MutableState
}

func newProbeH(t *testing.T) *probeH {
	require := requirePkg.New(t)
	cfg := &abciAPI.MockApplicationStateConfig{CurrentEpoch: 1}
	appState := abciAPI.NewMockApplicationState(cfg)
	ctx := appState.NewContext(abciAPI.ContextEndBlock)
	var md abciAPI.NoopMessageDispatcher
	h := &probeH{
		t: t, cfg: cfg, appState: appState, ctx: ctx,
		app:   &Application{appState, &md},
		state: registryState.NewMutableState(ctx.State()),
		stake: stakingState.NewMutableState(ctx.State()),
	}
	require.NoError(h.state.SetConsensusParameters(ctx, &registry.ConsensusParameters{
		MaxNodeExpiration:      5,
		DebugAllowTestRuntimes: true,
		MaxRuntimeDeployments:  20,
		EnableRuntimeGovernanceModels: map[registry.RuntimeGovernanceModel]bool{
			registry.GovernanceEntity:  true,
			registry.GovernanceRuntime: true,
		},
	}))
	require.NoError(beaconState.NewMutableState(ctx.State()).SetConsensusParameters(ctx, &beacon.ConsensusParameters{Backend: beacon.BackendInsecure}))
	require.NoError(consensusState.NewMutableState(ctx.State()).SetConsensusParameters(ctx, &genesis.Parameters{FeatureVersion: &version.Version{Major: 100}}))
	require.NoError(h.stake.SetConsensusParameters(ctx, &staking.ConsensusParameters{
		DebondingInterval: 2,
		Thresholds: map[staking.ThresholdKind]quantity.Quantity{
			staking.KindEntity:            *quantity.NewFromUint64(1),
			staking.KindNodeValidator:     *quantity.NewFromUint64(2),
			staking.KindNodeCompute:       *quantity.NewFromUint64(3),
			staking.KindNodeKeyManager:    *quantity.NewFromUint64(4),
			staking.KindRuntimeCompute:    *quantity.NewFromUint64(5),
			staking.KindRuntimeKeyManager: *quantity.NewFromUint64(6),
			staking.KindKeyManagerChurp:   *quantity.NewFromUint64(7),
			staking.KindNodeObserver:      *quantity.NewFromUint64(8),
		},
	}))
	return h
}

func (h *probeH) fund(addr staking.Address, amt uint64) {
	acct, err := h.stake.Account(h.ctx, addr)
	requirePkg.NoError(h.t, err)
	acct.Escrow.Active.Balance = *quantity.NewFromUint64(amt)
	acct.Escrow.Active.TotalShares = *quantity.NewFromUint64(amt)
	requirePkg.NoError(h.t, h.stake.SetAccount(h.ctx, addr, acct))
}

func (h *probeH) exec(signer signature.PublicKey, method transaction.MethodName, body any) error {
	txCtx := h.appState.NewContext(abciAPI.ContextDeliverTx)
	defer txCtx.Close()
	txCtx.SetTxSigner(signer)
	return h.app.ExecuteTx(txCtx, &transaction.Transaction{Method: method, Body: cbor.Marshal(body)})
}

func (h *probeH) regEntity(s signature.Signer, nodes ...signature.PublicKey) error {
	ent := entity.Entity{Versioned: cbor.NewVersioned(entity.LatestDescriptorVersion), ID: s.Public(), Nodes: nodes}
	sigEnt, err := entity.SignEntity(s, registry.RegisterEntitySignatureContext, &ent)
	requirePkg.NoError(h.t, err)
	return h.exec(s.Public(), registry.MethodRegisterEntity, sigEnt)
}

func (h *probeH) deregEntity(s signature.Signer) error {
	return h.exec(s.Public(), registry.MethodDeregisterEntity, nil)
}

type probeNode struct {
	id, cons, p2p, tls, vrf signature.Signer
}

func (h *probeH) mkNode(pn probeNode, ent signature.PublicKey, exp beacon.EpochTime, roles node.RolesMask, rts ...common.Namespace) *node.Node {
	var address node.Address
	requirePkg.NoError(h.t, address.UnmarshalText([]byte("8.8.8.8:1234")))
	n := &node.Node{
		Versioned:  cbor.NewVersioned(node.LatestNodeDescriptorVersion),
		ID:         pn.id.Public(),
		EntityID:   ent,
		Expiration: exp,
		Roles:      roles,
		P2P:        node.P2PInfo{ID: pn.p2p.Public(), Addresses: []node.Address{address}},
		Consensus: node.ConsensusInfo{ID: pn.cons.Public(), Addresses: []node.ConsensusAddress{
			{ID: pn.cons.Public(), Address: address},
		}},
		TLS: node.TLSInfo{PubKey: pn.tls.Public()},
		VRF: node.VRFInfo{ID: pn.vrf.Public()},
	}
	for _, id := range rts {
		n.Runtimes = append(n.Runtimes, &node.Runtime{ID: id})
	}
	return n
}

func (h *probeH) regNode(pn probeNode, n *node.Node, txSigner signature.PublicKey, omit int) error {
	signers := []signature.Signer{pn.id, pn.p2p, pn.cons, pn.tls, pn.vrf}
	if omit >= 0 {
		signers = append(signers[:omit:omit], signers[omit+1:]...)
	}
	// Dedup signers (same key in two slots).
	seen := map[signature.PublicKey]bool{}
	var ds []signature.Signer
	for _, s := range signers {
		if !seen[s.Public()] {
			seen[s.Public()] = true
			ds = append(ds, s)
		}
	}
	sigNode, err := node.MultiSignNode(ds, registry.RegisterNodeSignatureContext, n)
	requirePkg.NoError(h.t, err)
	return h.exec(txSigner, registry.MethodRegisterNode, sigNode)
}

func (h *probeH) mkRuntime(id common.Namespace, ent signature.PublicKey, kind registry.RuntimeKind) *registry.Runtime {
	rt := &registry.Runtime{
		Versioned:       cbor.NewVersioned(registry.LatestRuntimeDescriptorVersion),
		ID:              id,
		EntityID:        ent,
		Kind:            kind,
		GovernanceModel: registry.GovernanceEntity,
		Deployments:     []*registry.VersionInfo{{ValidFrom: 100}},
		AdmissionPolicy: registry.RuntimeAdmissionPolicy{AnyNode: &registry.AnyNodeRuntimeAdmissionPolicy{}},
	}
	if kind == registry.KindCompute {
		rt.Executor = registry.ExecutorParameters{GroupSize: 1, RoundTimeout: 5}
		rt.TxnScheduler = registry.TxnSchedulerParameters{
			BatchFlushTimeout: time.Second, MaxBatchSize: 100, MaxBatchSizeBytes: 100_000_000, ProposerTimeout: 2 * time.Second,
		}
	}
	return rt
}

func (h *probeH) regRuntime(signer signature.PublicKey, rt *registry.Runtime) error {
	return h.exec(signer, registry.MethodRegisterRuntime, rt)
}

func (h *probeH) epoch(e beacon.EpochTime) {
	h.cfg.CurrentEpoch = e
	ctx := h.appState.NewContext(abciAPI.ContextBeginBlock)
	defer ctx.Close()
	requirePkg.NoError(h.t, h.app.onRegistryEpochChanged(ctx, e))
}

// check returns a list of invariant violations.
func (h *probeH) check() []string {
	var out []string
	ctx := h.ctx
	nodes, err := h.state.Nodes(ctx)
	requirePkg.NoError(h.t, err)
	ents, err := h.state.Entities(ctx)
	requirePkg.NoError(h.t, err)
	rts, err := h.state.AllRuntimes(ctx)
	requirePkg.NoError(h.t, err)

	entMap := map[signature.PublicKey]bool{}
	for _, e := range ents {
		entMap[e.ID] = true
	}

	keyOwner := map[signature.PublicKey]signature.PublicKey{}
	claimKey := func(k, owner signature.PublicKey, what string) {
		if o, ok := keyOwner[k]; ok && o != owner {
			out = append(out, fmt.Sprintf("key %s (%s of node %s) also associated with node %s", k, what, owner, o))
		}
		keyOwner[k] = owner
	}
	for _, n := range nodes {
		claimKey(n.ID, n.ID, "id")
		for what, k := range map[string]signature.PublicKey{"cons": n.Consensus.ID, "p2p": n.P2P.ID, "tls": n.TLS.PubKey, "vrf": n.VRF.ID} {
			claimKey(k, n.ID, what)
			got, err := h.state.NodeBySubKey(ctx, k)
			if err != nil || got.ID != n.ID {
				out = append(out, fmt.Sprintf("node %s not found under its %s key (err=%v)", n.ID, what, err))
			}
		}
		if !entMap[n.EntityID] {
			out = append(out, fmt.Sprintf("node %s owned by unregistered entity %s", n.ID, n.EntityID))
		}
		en, err := h.state.GetEntityNodes(ctx, n.EntityID)
		requirePkg.NoError(h.t, err)
		found := false
		for _, x := range en {
			if x.ID == n.ID {
				found = true
			}
		}
		if !found {
			out = append(out, fmt.Sprintf("node %s missing from nodes-by-entity index", n.ID))
		}
		if _, err := h.state.NodeStatus(ctx, n.ID); err != nil {
			out = append(out, fmt.Sprintf("node %s has no status", n.ID))
		}
	}
	for _, rt := range rts {
		if false && rt.GovernanceModel == registry.GovernanceEntity && !entMap[rt.EntityID] {
			out = append(out, fmt.Sprintf("runtime %s owned by unregistered entity %s", rt.ID, rt.EntityID))
		}
		has, err := h.state.HasEntityRuntimes(ctx, rt.EntityID)
		requirePkg.NoError(h.t, err)
		if !has {
			out = append(out, fmt.Sprintf("runtime %s missing from runtime-by-entity index", rt.ID))
		}
	}
	// Raw index sizes.
	counts := map[byte]int{}
	it := ctx.State().NewIterator(ctx)
	defer it.Close()
	for it.Rewind(); it.Valid(); it.Next() {
		counts[it.Key()[0]]++
	}
	if counts[0x17] != 4*len(nodes) {
		out = append(out, fmt.Sprintf("key map has %d entries, want %d", counts[0x17], 4*len(nodes)))
	}
	if counts[0x14] != len(nodes) {
		out = append(out, fmt.Sprintf("cons address map has %d entries, want %d", counts[0x14], len(nodes)))
	}
	if counts[0x12] != len(nodes) {
		out = append(out, fmt.Sprintf("nodes-by-entity has %d entries, want %d", counts[0x12], len(nodes)))
	}
	if counts[0x15] != len(nodes) {
		out = append(out, fmt.Sprintf("node status has %d entries, want %d", counts[0x15], len(nodes)))
	}
	if counts[0x19] != len(rts) {
		out = append(out, fmt.Sprintf("runtime-by-entity has %d entries, want %d", counts[0x19], len(rts)))
	}

	// Stake claims.
	accounts := make(map[staking.Address]*staking.Account)
	addrs, err := h.stake.Addresses(ctx)
	requirePkg.NoError(h.t, err)
	for _, a := range addrs {
		accounts[a], err = h.stake.Account(ctx, a)
		requirePkg.NoError(h.t, err)
	}
	escrows := make(map[staking.Address]*staking.EscrowAccount)
	requirePkg.NoError(h.t, registry.AddStakeClaims(ents, nodes, rts, rts, escrows))
	th, _ := h.stake.Thresholds(ctx)
	if err := staking.SanityCheckStake(accounts, escrows, th, false); err != nil {
		out = append(out, "stake claims: "+err.Error())
	}
	return out
}

func ps(name string) signature.Signer { return memorySigner.NewTestSigner("C17r3 probe: " + name) }

func TestProbeBasic(t *testing.T) {
	require := requirePkg.New(t)
	h := newProbeH(t)
	eA := ps("entA")
	nA := probeNode{ps("nA"), ps("nA-c"), ps("nA-p"), ps("nA-t"), ps("nA-v")}
	nB := probeNode{ps("nB"), ps("nB-c"), nA.id, ps("nB-t"), ps("nB-v")} // B's P2P key = A's node ID
	h.fund(staking.NewAddress(eA.Public()), 1000)
	require.NoError(h.regEntity(eA, nA.id.Public(), nB.id.Public()))
	require.NoError(h.regNode(nA, h.mkNode(nA, eA.Public(), 3, node.RoleValidator), nA.id.Public(), -1))
	require.Empty(h.check())
	err := h.regNode(nB, h.mkNode(nB, eA.Public(), 3, node.RoleValidator), nB.id.Public(), -1)
	t.Logf("register B with P2P = A.ID: %v", err)
	t.Logf("violations: %v", h.check())
}

func TestProbeRuntimeThresholdUpdate(t *testing.T) {
	require := requirePkg.New(t)
	h := newProbeH(t)
	eA := ps("entA")
	nA := probeNode{ps("nA"), ps("nA-c"), ps("nA-p"), ps("nA-t"), ps("nA-v")}
	h.fund(staking.NewAddress(eA.Public()), 100000)
	require.NoError(h.regEntity(eA, nA.id.Public()))
	rtID := common.NewTestNamespaceFromSeed([]byte("C17r3 probe rt"), 0)
	rt := h.mkRuntime(rtID, eA.Public(), registry.KindCompute)
	require.NoError(h.regRuntime(eA.Public(), rt))
	require.NoError(h.regNode(nA, h.mkNode(nA, eA.Public(), 3, node.RoleComputeWorker, rtID), nA.id.Public(), -1))
	require.Empty(h.check())
	rt2 := *rt
	rt2.Staking.Thresholds = map[staking.ThresholdKind]quantity.Quantity{staking.KindNodeCompute: *quantity.NewFromUint64(1000)}
	err := h.regRuntime(eA.Public(), &rt2)
	t.Logf("update runtime thresholds: %v", err)
	t.Logf("violations: %v", h.check())
}

var _ = rand.Int

var probeStats = map[string]int{}

func TestProbeRandom(t *testing.T) {
	defer func() { t.Logf("stats: %v", probeStats) }()
	for seed := int64(0); seed < 1000; seed++ {
		if !probeRandomOne(t, seed) {
			return
		}
	}
}

func probeRandomOne(t *testing.T, seed int64) bool {
	rng := rand.New(rand.NewSource(seed))
	h := newProbeH(t)
	var ents []signature.Signer
	for i := 0; i < 3; i++ {
		ents = append(ents, ps(fmt.Sprintf("ent%d", i)))
		h.fund(staking.NewAddress(ents[i].Public()), uint64(30+rng.Intn(100)))
	}
	var ids []signature.Signer
	for i := 0; i < 4; i++ {
		ids = append(ids, ps(fmt.Sprintf("nid%d", i)))
	}
	var pool []signature.Signer
	for i := 0; i < 14; i++ {
		pool = append(pool, ps(fmt.Sprintf("key%d", i)))
	}
	rtIDs := []common.Namespace{
		common.NewTestNamespaceFromSeed([]byte("C17r3 probe rt0"), 0),
		common.NewTestNamespaceFromSeed([]byte("C17r3 probe rt1"), 0),
		common.NewTestNamespaceFromSeed([]byte("C17r3 probe km"), common.NamespaceKeyManager),
	}
	for _, id := range rtIDs[:2] {
		h.fund(staking.NewRuntimeAddress(id), uint64(rng.Intn(12)))
	}
	{
		var all []signature.PublicKey
		for _, id := range ids {
			all = append(all, id.Public())
		}
		for _, e := range ents {
			_ = h.regEntity(e, all...)
		}
		for k := 0; k < 3; k++ {
			kind := registry.KindCompute
			if k == 2 {
				kind = registry.KindKeyManager
			}
			_ = h.regRuntime(ents[k].Public(), h.mkRuntime(rtIDs[k], ents[k].Public(), kind))
		}
	}
	epoch := beacon.EpochTime(1)
	var trace []string
	for step := 0; step < 80; step++ {
		var desc string
		var err error
		switch op := rng.Intn(10); op {
		case 0, 1: // register/update entity
			e := ents[rng.Intn(len(ents))]
			var nl []signature.PublicKey
			for _, id := range ids {
				if rng.Intn(2) == 0 {
					nl = append(nl, id.Public())
				}
			}
			signer := e
			if rng.Intn(8) == 0 {
				signer = ents[rng.Intn(len(ents))]
			}
			ent := entity.Entity{Versioned: cbor.NewVersioned(entity.LatestDescriptorVersion), ID: e.Public(), Nodes: nl}
			sigEnt, _ := entity.SignEntity(e, registry.RegisterEntitySignatureContext, &ent)
			err = h.exec(signer.Public(), registry.MethodRegisterEntity, sigEnt)
			desc = fmt.Sprintf("regEntity %s nodes=%d signer=%s", e.Public(), len(nl), signer.Public())
		case 2: // deregister entity
			e := ents[rng.Intn(len(ents))]
			err = h.deregEntity(e)
			desc = fmt.Sprintf("deregEntity %s", e.Public())
		case 3, 4, 5, 6: // register node
			i := rng.Intn(len(ids))
			pick := func() signature.Signer { return pool[rng.Intn(len(pool))] }
			pn := probeNode{ids[i], pool[i], pick(), pick(), pick()}
			if rng.Intn(10) == 0 {
				pn.cons = pick()
			}
			e := ents[rng.Intn(len(ents))]
			roles := []node.RolesMask{node.RoleValidator, node.RoleComputeWorker, node.RoleValidator | node.RoleComputeWorker, node.RoleKeyManager, node.RoleObserver}[rng.Intn(5)]
			var rts []common.Namespace
			if roles&node.RoleComputeWorker != 0 || roles&node.RoleObserver != 0 {
				rts = append(rts, rtIDs[rng.Intn(2)])
				if rng.Intn(3) == 0 {
					rts = append(rts, rtIDs[1-rng.Intn(2)])
					if rts[0] == rts[1] { rts = rts[:1] }
				}
			}
			if roles&node.RoleKeyManager != 0 {
				rts = append(rts, rtIDs[2])
			}
			n := h.mkNode(pn, e.Public(), epoch+beacon.EpochTime(rng.Intn(4)), roles, rts...)
			txs := ids[i].Public()
			if rng.Intn(8) == 0 {
				txs = e.Public()
			}
			omit := -1
			if rng.Intn(8) == 0 {
				omit = rng.Intn(5)
			}
			func() {
				defer func() {
					if r := recover(); r != nil {
						err = fmt.Errorf("PANIC: %v", r)
					}
				}()
				err = h.regNode(pn, n, txs, omit)
			}()
			desc = fmt.Sprintf("regNode %d ent=%s exp=%d roles=%s rts=%d keys=%s/%s/%s/%s omit=%d txs=%s", i, e.Public(), n.Expiration, roles, len(rts),
				pn.cons.Public().String()[:4], pn.p2p.Public().String()[:4], pn.tls.Public().String()[:4], pn.vrf.Public().String()[:4], omit, txs.String()[:4])
		case 7: // register runtime
			k := rng.Intn(3)
			e := ents[rng.Intn(len(ents))]
			kind := registry.KindCompute
			if k == 2 {
				kind = registry.KindKeyManager
			}
			rt := h.mkRuntime(rtIDs[k], e.Public(), kind)
			signer := e.Public()
			if rng.Intn(2) == 0 {
				signer = ents[rng.Intn(len(ents))].Public()
			}
			if k < 2 && rng.Intn(4) == 0 {
				rt.GovernanceModel = registry.GovernanceRuntime
			}
			err = h.regRuntime(signer, rt)
			desc = fmt.Sprintf("regRuntime %d ent=%s gov=%s signer=%s", k, e.Public(), rt.GovernanceModel, signer)
		case 8: // epoch
			epoch += beacon.EpochTime(1 + rng.Intn(3))
			h.epoch(epoch)
			desc = fmt.Sprintf("epoch %d", epoch)
		case 9: // suspend/resume runtime directly (as roothash would)
			k := rng.Intn(3)
			err = h.state.SuspendRuntime(h.ctx, rtIDs[k])
			desc = fmt.Sprintf("suspend %d", k)
		}
		trace = append(trace, fmt.Sprintf("%s => %v", desc, err))
		if len(desc) > 6 && desc[:6] == "regNod" && err != nil { probeStats["E:"+err.Error()]++ }
		if len(desc) > 6 { probeStats[fmt.Sprintf("%s ok=%v", desc[:6], err == nil)]++ }
		if v := h.check(); len(v) > 0 {
			t.Logf("seed %d step %d violations: %v", seed, step, v)
			for _, l := range trace {
				t.Log(l)
			}
			return false
		}
	}
	return true
}

func TestProbeSanityVRF(t *testing.T) {
	require := requirePkg.New(t)
	h := newProbeH(t)
	eA := ps("entA")
	shared := ps("shared-vrf")
	nA := probeNode{ps("nA"), ps("nA-c"), ps("nA-p"), ps("nA-t"), shared}
	nB := probeNode{ps("nB"), ps("nB-c"), ps("nB-p"), ps("nB-t"), shared}
	nC := probeNode{ps("nC"), ps("nC-c"), ps("nC-p"), shared, ps("nC-v")} // TLS = shared
	ent := entity.Entity{Versioned: cbor.NewVersioned(entity.LatestDescriptorVersion), ID: eA.Public(), Nodes: []signature.PublicKey{nA.id.Public(), nB.id.Public(), nC.id.Public()}}
	var sns []*node.MultiSignedNode
	for _, pn := range []probeNode{nA, nB, nC} {
		n := h.mkNode(pn, eA.Public(), 3, node.RoleValidator)
		sn, err := node.MultiSignNode([]signature.Signer{pn.id, pn.p2p, pn.cons, pn.tls, pn.vrf}, registry.RegisterGenesisNodeSignatureContext, n)
		require.NoError(err)
		sns = append(sns, sn)
	}
	params, _ := h.state.ConsensusParameters(h.ctx)
	rl, err := registry.SanityCheckRuntimes(h.ctx.Logger(), params, nil, nil, true, 1, true)
	require.NoError(err)
	_, err = registry.SanityCheckNodes(h.ctx.Logger(), params, sns[:2], map[signature.PublicKey]*entity.Entity{eA.Public(): &ent}, rl, true, 1, time.Now(), 1, true)
	t.Logf("SanityCheckNodes with two nodes sharing a VRF key: %v", err)
	_, err = registry.SanityCheckNodes(h.ctx.Logger(), params, []*node.MultiSignedNode{sns[0], sns[2]}, map[signature.PublicKey]*entity.Entity{eA.Public(): &ent}, rl, true, 1, time.Now(), 1, true)
	t.Logf("SanityCheckNodes with A.VRF == C.TLS: %v", err)
	_, err = registry.SanityCheckNodes(h.ctx.Logger(), params, []*node.MultiSignedNode{sns[2], sns[0]}, map[signature.PublicKey]*entity.Entity{eA.Public(): &ent}, rl, true, 1, time.Now(), 1, true)
	t.Logf("SanityCheckNodes with C.TLS == A.VRF (C first): %v", err)
}

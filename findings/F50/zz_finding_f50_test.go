package stateless

import (
	"crypto/rand"
	"testing"

	cmttypes "github.com/cometbft/cometbft/types"
	"github.com/stretchr/testify/require"

	"github.com/oasisprotocol/oasis-core/go/common/cbor"
	"github.com/oasisprotocol/oasis-core/go/common/crypto/hash"
	"github.com/oasisprotocol/oasis-core/go/common/crypto/signature"
	memorySigner "github.com/oasisprotocol/oasis-core/go/common/crypto/signature/signers/memory"
	consensusAPI "github.com/oasisprotocol/oasis-core/go/consensus/api"
	"github.com/oasisprotocol/oasis-core/go/consensus/api/transaction"
	cmtAPI "github.com/oasisprotocol/oasis-core/go/consensus/cometbft/api"
)

// Probe: the block metadata transaction is located purely by position (last transaction) and its
// signature is never checked by the stateless client.
func TestProbeC19TrailingForgedMetaTx(t *testing.T) {
	signature.SetChainContext("c19c19c19c19c19c19c19c19c19c19c19c19c19c19c19c19c19c19c19c19c19c")

	proposer, err := memorySigner.NewFactory().Generate(signature.SignerConsensus, rand.Reader)
	require.NoError(t, err)

	var genuineRoot, forgedRoot hash.Hash
	genuineRoot.FromBytes([]byte("genuine state root"))
	forgedRoot.FromBytes([]byte("forged state root"))

	// Genuine, proposer-signed block metadata transaction.
	genuineTx := consensusAPI.NewBlockMetadataTx(&consensusAPI.BlockMetadata{StateRoot: genuineRoot, EventsRoot: make([]byte, 32)})
	genuineSig, err := transaction.Sign(proposer, genuineTx)
	require.NoError(t, err)
	var opened transaction.Transaction
	require.NoError(t, genuineSig.Open(&opened), "genuine meta tx signature should verify")

	// Forged look-alike: same envelope, garbage signature. On validators, decodeTx() fails at
	// SignedTransaction.Open (abci/transaction.go) *before* processSystemTx is reached, so this is
	// just an ordinary failed transaction: no state change, no panic, not counted by
	// validateSystemTxs, and nothing requires the genuine metadata transaction to be last.
	forgedTx := consensusAPI.NewBlockMetadataTx(&consensusAPI.BlockMetadata{StateRoot: forgedRoot, EventsRoot: make([]byte, 32)})
	forgedSig := transaction.SignedTransaction{}
	forgedSig.Blob = cbor.Marshal(forgedTx)
	forgedSig.Signature.PublicKey = proposer.Public()
	require.Error(t, forgedSig.Open(&opened), "forged meta tx signature must not verify")

	txs := [][]byte{[]byte("user tx"), cbor.Marshal(genuineSig), cbor.Marshal(forgedSig)}

	// The list is what the header's DataHash commits to, so verifyTransactions accepts it.
	var data cmttypes.Data
	for _, tx := range txs {
		data.Txs = append(data.Txs, tx)
	}
	lb := &cmttypes.LightBlock{SignedHeader: &cmttypes.SignedHeader{Header: &cmttypes.Header{DataHash: data.Hash()}}}
	require.NoError(t, verifyTransactions(txs, lb))

	root, err := stateRootFromBlockTxs(txs)
	require.NoError(t, err)
	t.Logf("state root handed out: %s (genuine %s, forged %s)", root, genuineRoot, forgedRoot)
	if root.Equal(&forgedRoot) {
		t.Logf("OBSERVED: stateless client takes the state root from the trailing, unsigned look-alike transaction")
	}
	_ = cmtAPI.BackendName
}

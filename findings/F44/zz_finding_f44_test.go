package roothash

import (
	"encoding/binary"
	"runtime"
	"testing"
	"time"

	"github.com/oasisprotocol/oasis-core/go/common"
	"github.com/oasisprotocol/oasis-core/go/common/cbor"
	"github.com/oasisprotocol/oasis-core/go/common/crypto/signature"
	"github.com/oasisprotocol/oasis-core/go/consensus/api/transaction"
	abciAPI "github.com/oasisprotocol/oasis-core/go/consensus/cometbft/api"
	roothashApp "github.com/oasisprotocol/oasis-core/go/consensus/cometbft/apps/roothash"
	roothash "github.com/oasisprotocol/oasis-core/go/roothash/api"
	"github.com/oasisprotocol/oasis-core/go/roothash/api/commitment"
)

// CheckTx of roothash.ExecutorCommit forwards every (unverified) commitment to the executor
// commitment notifier under the transaction-supplied runtime ID. The real notifier (ServiceClient)
// lazily creates three pubsub brokers (each with a worker goroutine and an infinite channel
// goroutine) per previously unseen runtime ID and never releases them.
func TestProbeExecutorCommitNotifierLeak(t *testing.T) {
	appState := abciAPI.NewMockApplicationState(&abciAPI.MockApplicationStateConfig{})
	sc := New(nil, nil)
	app := roothashApp.New(appState, &abciAPI.NoopMessageDispatcher{}, sc)

	time.Sleep(100 * time.Millisecond)
	g0 := runtime.NumGoroutine()
	var m0, m1 runtime.MemStats
	runtime.GC()
	runtime.ReadMemStats(&m0)

	const n = 20000
	for i := 0; i < n; i++ {
		var id common.Namespace // Not a registered runtime, not even a well-formed one.
		binary.BigEndian.PutUint64(id[8:], uint64(i))
		body := cbor.Marshal(roothash.ExecutorCommit{ID: id, Commits: []commitment.ExecutorCommitment{{}}})

		ctx := appState.NewContext(abciAPI.ContextCheckTx)
		ctx.SetTxSigner(signature.NewPublicKey("aaafffffffffffffffffffffffffffffffffffffffffffffffffffffffffffff"))
		err := app.ExecuteTx(ctx, &transaction.Transaction{Method: roothash.MethodExecutorCommit, Body: body})
		ctx.Close()
		if err != nil {
			t.Fatalf("CheckTx rejected: %v", err)
		}
	}
	time.Sleep(200 * time.Millisecond)
	runtime.GC()
	runtime.ReadMemStats(&m1)
	g1 := runtime.NumGoroutine()
	sc.mu.RLock()
	entries := len(sc.runtimeNotifiers)
	sc.mu.RUnlock()
	t.Logf("%d accepted CheckTx calls with garbage runtime IDs: notifier entries=%d goroutines %d -> %d heap in use %d KiB -> %d KiB",
		n, entries, g0, g1, m0.HeapInuse>>10, m1.HeapInuse>>10)
}

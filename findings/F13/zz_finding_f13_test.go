package mkvs

import (
	"context"
	"fmt"
	"os"
	"path/filepath"
	"testing"

	"github.com/stretchr/testify/require"

	"github.com/oasisprotocol/oasis-core/go/common"
	"github.com/oasisprotocol/oasis-core/go/storage/mkvs/db"
	dbApi "github.com/oasisprotocol/oasis-core/go/storage/mkvs/db/api"
	"github.com/oasisprotocol/oasis-core/go/storage/mkvs/node"
)

// Probe: pruning version v must not affect a later finalized version, also when an
// I/O root of version v contains an entry identical to one of the state root.
func TestF13PruneSharedLeafAcrossRootTypes(t *testing.T) {
	for _, factory := range db.Backends {
		t.Run(factory.Name(), func(t *testing.T) {
			require := require.New(t)
			ctx := context.Background()
			ns := common.NewTestNamespaceFromSeed([]byte("oasis f13 test ns"), 0)
			dir, err := os.MkdirTemp("", "mkvs.f13")
			require.NoError(err)
			defer os.RemoveAll(dir)
			ndb, err := factory.New(&dbApi.Config{DB: filepath.Join(dir, "db"), Namespace: ns, MaxCacheSize: 16 * 1024 * 1024})
			require.NoError(err)
			defer ndb.Close()

			shared := func(tr Tree) {
				require.NoError(tr.Insert(ctx, []byte("shared-key"), []byte("shared-value")))
			}
			// Version 1: state root and I/O root, both containing the same (key, value).
			st := New(nil, ndb, node.RootTypeState)
			for i := 0; i < 20; i++ {
				require.NoError(st.Insert(ctx, []byte(fmt.Sprintf("state-%02d", i)), []byte("s")))
			}
			shared(st)
			_, hs1, err := st.Commit(ctx, ns, 1)
			require.NoError(err)
			rootS1 := node.Root{Namespace: ns, Version: 1, Type: node.RootTypeState, Hash: hs1}
			io := New(nil, ndb, node.RootTypeIO)
			for i := 0; i < 20; i++ {
				require.NoError(io.Insert(ctx, []byte(fmt.Sprintf("io-%02d", i)), []byte("i")))
			}
			shared(io)
			_, hi1, err := io.Commit(ctx, ns, 1)
			require.NoError(err)
			rootI1 := node.Root{Namespace: ns, Version: 1, Type: node.RootTypeIO, Hash: hi1}
			require.NoError(ndb.Finalize([]node.Root{rootS1, rootI1}))

			// Version 2: the state continues (one more key), a fresh I/O root.
			st2 := NewWithRoot(nil, ndb, rootS1)
			require.NoError(st2.Insert(ctx, []byte("state-new"), []byte("n")))
			_, hs2, err := st2.Commit(ctx, ns, 2)
			require.NoError(err)
			rootS2 := node.Root{Namespace: ns, Version: 2, Type: node.RootTypeState, Hash: hs2}
			io2 := New(nil, ndb, node.RootTypeIO)
			require.NoError(io2.Insert(ctx, []byte("io2"), []byte("i2")))
			_, hi2, err := io2.Commit(ctx, ns, 2)
			require.NoError(err)
			rootI2 := node.Root{Namespace: ns, Version: 2, Type: node.RootTypeIO, Hash: hi2}
			require.NoError(ndb.Finalize([]node.Root{rootS2, rootI2}))

			// Prune version 1.
			require.NoError(ndb.Prune(1))

			// Version 2 must be fully readable.
			t2 := NewWithRoot(nil, ndb, rootS2)
			v, err := t2.Get(ctx, []byte("shared-key"))
			require.NoError(err, "reading the state of version 2 after pruning version 1")
			require.Equal([]byte("shared-value"), v)
			for i := 0; i < 20; i++ {
				_, err = t2.Get(ctx, []byte(fmt.Sprintf("state-%02d", i)))
				require.NoError(err)
			}
		})
	}
}

package stateless

import (
	"testing"

	cmtabcitypes "github.com/cometbft/cometbft/abci/types"
	"github.com/stretchr/testify/require"

	"github.com/oasisprotocol/oasis-core/go/common/cbor"
	consensus "github.com/oasisprotocol/oasis-core/go/consensus/api"
	"github.com/oasisprotocol/oasis-core/go/consensus/cometbft/api"
	"github.com/oasisprotocol/oasis-core/go/consensus/cometbft/full"
	"github.com/oasisprotocol/oasis-core/go/consensus/cometbft/light"
)

func TestProbeC19NilResult(t *testing.T) {
	clb, _ := testLightBlock()
	clb2, _ := testNextLightBlock()
	lb, _ := light.DecodeLightBlock(clb)
	lb2, _ := light.DecodeLightBlock(clb2)

	m := api.BlockResultsMeta{TxsResults: []*cmtabcitypes.ResponseDeliverTx{nil}}
	r := &consensus.BlockResults{Height: lb.Height, Meta: cbor.Marshal(m)}
	func() {
		defer func() {
			if p := recover(); p != nil {
				t.Logf("verifyBlockResults PANIC on null tx result: %v", p)
			}
		}()
		_, err := verifyBlockResults(r, lb2.LastResultsHash, lb)
		t.Logf("verifyBlockResults with null tx result: err=%v", err)
	}()

	// More results than transactions (tip, unverified path).
	func() {
		defer func() {
			if p := recover(); p != nil {
				t.Logf("TransactionResultsFromCometBFT PANIC with more results than txs: %v", p)
			}
		}()
		_, err := full.TransactionResultsFromCometBFT(1, [][]byte{[]byte("a")}, []*cmtabcitypes.ResponseDeliverTx{{}, {}})
		t.Logf("more results than txs: err=%v", err)
	}()
	require.True(t, true)
}

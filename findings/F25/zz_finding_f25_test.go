package scheduler

import (
	"fmt"
	"testing"

	"github.com/stretchr/testify/require"

	beacon "github.com/oasisprotocol/oasis-core/go/beacon/api"
	"github.com/oasisprotocol/oasis-core/go/common/cbor"
	"github.com/oasisprotocol/oasis-core/go/common/crypto/signature"
	"github.com/oasisprotocol/oasis-core/go/common/node"
	"github.com/oasisprotocol/oasis-core/go/consensus/cometbft/api"
	schedulerState "github.com/oasisprotocol/oasis-core/go/consensus/cometbft/apps/scheduler/state"
	stakingState "github.com/oasisprotocol/oasis-core/go/consensus/cometbft/apps/staking/state"
	governance "github.com/oasisprotocol/oasis-core/go/governance/api"
	scheduler "github.com/oasisprotocol/oasis-core/go/scheduler/api"
	staking "github.com/oasisprotocol/oasis-core/go/staking/api"
)

// TestFindingF25 (C14): the configured validator-set limits hold. Whatever a parameter-change proposal does to the
// limits, the validator set elected afterwards must not exceed the stored MaxValidators.
func TestFindingF25(t *testing.T) {
	require := require.New(t)
	appState := api.NewMockApplicationState(&api.MockApplicationStateConfig{})
	app := &Application{state: appState}

	ctx := appState.NewContext(api.ContextEndBlock)
	defer ctx.Close()
	require.NoError(stakingState.NewMutableState(ctx.State()).SetConsensusParameters(ctx, &staking.ConsensusParameters{}))
	st := schedulerState.NewMutableState(ctx.State())
	require.NoError(st.SetConsensusParameters(ctx, &scheduler.ConsensusParameters{MinValidators: 1, MaxValidators: 100, MaxValidatorsPerEntity: 1}))

	zero := 0
	proposal := governance.ChangeParametersProposal{
		Module:  scheduler.ModuleName,
		Changes: cbor.Marshal(scheduler.ConsensusParameterChanges{MaxValidators: &zero}),
	}
	_, _ = app.changeParameters(ctx, &proposal, true) // accepted or rejected: the limit that is stored afterwards must hold

	params, err := st.ConsensusParameters(ctx)
	require.NoError(err)

	var nodes []*node.Node
	for i := 1; i <= 3; i++ {
		nodes = append(nodes, &node.Node{
			ID:        signature.NewPublicKey(fmt.Sprintf("51000000000000000000000000000000000000000000000000000000000000%02x", i)),
			EntityID:  signature.NewPublicKey(fmt.Sprintf("50000000000000000000000000000000000000000000000000000000000000%02x", i)),
			Consensus: node.ConsensusInfo{ID: signature.NewPublicKey(fmt.Sprintf("52000000000000000000000000000000000000000000000000000000000000%02x", i))},
			Roles:     node.RoleValidator,
		})
	}
	stakeAcc, err := stakingState.NewStakeAccumulatorCache(ctx)
	require.NoError(err)
	_, err = electValidators(ctx, 3, &beacon.ConsensusParameters{Backend: beacon.BackendInsecure}, stakeAcc, map[staking.Address]struct{}{}, nodes, params, []byte("entropy entropy entropy entropy entropy entropy entropy entropy!"), nil)
	require.NoError(err)
	vals, err := st.PendingValidators(ctx)
	require.NoError(err)
	require.LessOrEqual(len(vals), params.MaxValidators, "elected %d validators although the stored limit is MaxValidators=%d", len(vals), params.MaxValidators)
}

package mkvs

import (
	"bytes"
	"context"
	"runtime/debug"
	"testing"

	"github.com/oasisprotocol/oasis-core/go/common/cbor"
	"github.com/oasisprotocol/oasis-core/go/storage/mkvs/node"
	"github.com/oasisprotocol/oasis-core/go/storage/mkvs/writelog"
)

// Clean-tree observation: keys of 8192 bytes or more overflow node.Depth (uint16 bit length).
func TestFindingF33(t *testing.T) {
	ctx := context.Background()

	// A write log as received from an untrusted storage peer (diff sync), decoded from CBOR: two
	// 8192-byte keys that differ only in their last byte.
	k1 := bytes.Repeat([]byte{0xAA}, 8192)
	k2 := bytes.Repeat([]byte{0xAA}, 8192)
	k2[8191] = 0xAB
	raw := cbor.Marshal(writelog.WriteLog{
		{Key: k1, Value: []byte("v1")},
		{Key: k2, Value: []byte("v2")},
	})
	var wl writelog.WriteLog
	if err := cbor.Unmarshal(raw, &wl); err != nil {
		t.Fatalf("decode: %v", err)
	}
	defer func() {
		if r := recover(); r != nil {
			t.Errorf("ApplyWriteLog of a decoded write log with two 8192-byte keys PANICS: %v\n%s", r, debug.Stack())
		}
	}()
	tree := New(nil, nil, node.RootTypeState)
	err := tree.ApplyWriteLog(ctx, writelog.NewStaticIterator(wl))
	t.Logf("ApplyWriteLog returned: %v", err)
}

package mkvs

import (
	"context"
	"testing"

	"github.com/oasisprotocol/oasis-core/go/common"
	"github.com/oasisprotocol/oasis-core/go/storage/mkvs/node"
)

func TestSidePrefetchEmptyRoot(t *testing.T) {
	ctx := context.Background()
	var ns common.Namespace
	full := New(nil, nil, node.RootTypeState)
	_, rh, err := full.Commit(ctx, ns, 0)
	if err != nil {
		t.Fatal(err)
	}
	root := node.Root{Namespace: ns, Version: 0, Type: node.RootTypeState, Hash: rh}
	remote := NewWithRoot(full, nil, root)
	func() {
		defer func() {
			if r := recover(); r != nil {
				t.Errorf("PANIC on PrefetchPrefixes against empty root: %v", r)
			}
		}()
		err = remote.PrefetchPrefixes(ctx, [][]byte{[]byte("a")}, 10)
		t.Logf("empty root prefetch err=%v", err)
	}()

	// Non-empty root, all keys removed locally.
	full2 := New(nil, nil, node.RootTypeState)
	_ = full2.Insert(ctx, []byte("a"), []byte("v"))
	_, rh2, _ := full2.Commit(ctx, ns, 0)
	root2 := node.Root{Namespace: ns, Version: 0, Type: node.RootTypeState, Hash: rh2}
	remote2 := NewWithRoot(full2, nil, root2)
	if err = remote2.Remove(ctx, []byte("a")); err != nil {
		t.Fatal(err)
	}
	func() {
		defer func() {
			if r := recover(); r != nil {
				t.Errorf("PANIC on PrefetchPrefixes after local removal of all keys: %v", r)
			}
		}()
		err = remote2.PrefetchPrefixes(ctx, [][]byte{[]byte("a")}, 10)
		t.Logf("after-removal prefetch err=%v", err)
	}()
}

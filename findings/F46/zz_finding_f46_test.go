package stateless

import (
	"context"
	"crypto/rand"
	"crypto/sha256"
	"fmt"
	"sync"
	"testing"
	"time"

	cmtabcitypes "github.com/cometbft/cometbft/abci/types"
	cmtlight "github.com/cometbft/cometbft/light"
	cmtproto "github.com/cometbft/cometbft/proto/tendermint/types"
	cmtversion "github.com/cometbft/cometbft/proto/tendermint/version"
	cmttypes "github.com/cometbft/cometbft/types"
	"github.com/libp2p/go-libp2p"
	"github.com/libp2p/go-libp2p/core/host"
	"github.com/libp2p/go-libp2p/core/peer"
	"github.com/libp2p/go-libp2p/core/protocol"
	"github.com/multiformats/go-multiaddr"
	"github.com/stretchr/testify/require"

	"github.com/oasisprotocol/oasis-core/go/common/cbor"
	"github.com/oasisprotocol/oasis-core/go/common/crypto/hash"
	"github.com/oasisprotocol/oasis-core/go/common/crypto/signature"
	memorySigner "github.com/oasisprotocol/oasis-core/go/common/crypto/signature/signers/memory"
	consensusAPI "github.com/oasisprotocol/oasis-core/go/consensus/api"
	"github.com/oasisprotocol/oasis-core/go/consensus/api/transaction"
	cmtAPI "github.com/oasisprotocol/oasis-core/go/consensus/cometbft/api"
	"github.com/oasisprotocol/oasis-core/go/consensus/cometbft/light"
	p2pLight "github.com/oasisprotocol/oasis-core/go/consensus/p2p/light"
	p2pAPI "github.com/oasisprotocol/oasis-core/go/p2p/api"
	"github.com/oasisprotocol/oasis-core/go/p2p/rpc"
)

const pbChainContext = "c19c19c19c19c19c19c19c19c19c19c19c19c19c19c19c19c19c19c19c19c19c"

type pbBlock struct {
	block   *cmttypes.Block
	commit  *cmttypes.Commit
	lb      *cmttypes.LightBlock
	txs     [][]byte
	results *cmtAPI.BlockResultsMeta
	root    hash.Hash // State root after executing this block.
}

type pbChain struct {
	chainID string
	pvs     []cmttypes.PrivValidator
	vals    *cmttypes.ValidatorSet
	blocks  map[int64]*pbBlock
	tip     int64
}

func pbMetaTx(t *testing.T, height int64, root hash.Hash) []byte {
	tx := transaction.NewTransaction(0, nil, consensusAPI.MethodMeta, &consensusAPI.BlockMetadata{StateRoot: root})
	sigTx := transaction.SignedTransaction{}
	sigTx.Blob = cbor.Marshal(tx)
	_ = height
	return cbor.Marshal(sigTx)
}

func pbNewChain(t *testing.T, n int64) *pbChain {
	chainID := cmtAPI.CometBFTChainID(pbChainContext)
	c := &pbChain{chainID: chainID, blocks: make(map[int64]*pbBlock)}

	var vals []*cmttypes.Validator
	for i := 0; i < 4; i++ {
		pv := cmttypes.NewMockPV()
		pk, err := pv.GetPubKey()
		require.NoError(t, err)
		vals = append(vals, cmttypes.NewValidator(pk, 10))
		c.pvs = append(c.pvs, pv)
	}
	c.vals = cmttypes.NewValidatorSet(vals)

	base := time.Now().Add(-time.Hour).UTC().Truncate(time.Second)
	params := cmttypes.DefaultConsensusParams()

	var (
		prevBlockID cmttypes.BlockID
		prevCommit  = cmttypes.NewCommit(0, 0, cmttypes.BlockID{}, nil)
		prevRoot    hash.Hash
		prevResults []*cmtabcitypes.ResponseDeliverTx
	)
	prevRoot.Empty()

	for h := int64(1); h <= n; h++ {
		var root hash.Hash
		root.FromBytes([]byte(fmt.Sprintf("state root %d", h)))

		txs := [][]byte{
			[]byte(fmt.Sprintf("tx-%d-a", h)),
			[]byte(fmt.Sprintf("tx-%d-b", h)),
			pbMetaTx(t, h, root),
		}
		var results []*cmtabcitypes.ResponseDeliverTx
		for i := range txs {
			results = append(results, &cmtabcitypes.ResponseDeliverTx{Code: 0, Data: []byte(fmt.Sprintf("r-%d-%d", h, i)), GasUsed: h})
		}

		var data cmttypes.Data
		for _, tx := range txs {
			data.Txs = append(data.Txs, tx)
		}

		header := cmttypes.Header{
			Version:            cmtversion.Consensus{Block: 11},
			ChainID:            chainID,
			Height:             h,
			Time:               base.Add(time.Duration(h) * time.Second),
			LastBlockID:        prevBlockID,
			LastCommitHash:     prevCommit.Hash(),
			DataHash:           data.Hash(),
			ValidatorsHash:     c.vals.Hash(),
			NextValidatorsHash: c.vals.Hash(),
			ConsensusHash:      params.Hash(),
			AppHash:            append([]byte{}, prevRoot[:]...),
			LastResultsHash:    cmttypes.NewResults(prevResults).Hash(),
			EvidenceHash:       cmttypes.EvidenceList{}.Hash(),
			ProposerAddress:    c.vals.Validators[0].Address,
		}
		psh := sha256.Sum256([]byte(fmt.Sprintf("parts %d", h)))
		blockID := cmttypes.BlockID{Hash: header.Hash(), PartSetHeader: cmttypes.PartSetHeader{Total: 1, Hash: psh[:]}}

		// Sign commit.
		sigs := make([]cmttypes.CommitSig, len(c.vals.Validators))
		for i, val := range c.vals.Validators {
			var pv cmttypes.PrivValidator
			for _, cand := range c.pvs {
				pk, _ := cand.GetPubKey()
				if pk.Equals(val.PubKey) {
					pv = cand
				}
			}
			vote := &cmttypes.Vote{
				Type:             cmtproto.PrecommitType,
				Height:           h,
				Round:            0,
				BlockID:          blockID,
				Timestamp:        header.Time.Add(500 * time.Millisecond),
				ValidatorAddress: val.Address,
				ValidatorIndex:   int32(i),
			}
			pv1 := vote.ToProto()
			require.NoError(t, pv.SignVote(chainID, pv1))
			vote.Signature = pv1.Signature
			sigs[i] = vote.CommitSig()
		}
		commit := cmttypes.NewCommit(h, 0, blockID, sigs)

		blk := &cmttypes.Block{Header: header, Data: data, LastCommit: prevCommit}
		lb := &cmttypes.LightBlock{
			SignedHeader: &cmttypes.SignedHeader{Header: &blk.Header, Commit: commit},
			ValidatorSet: c.vals,
		}
		require.NoError(t, lb.ValidateBasic(chainID))

		c.blocks[h] = &pbBlock{
			block:   blk,
			commit:  commit,
			lb:      lb,
			txs:     txs,
			results: &cmtAPI.BlockResultsMeta{TxsResults: results},
			root:    root,
		}
		c.tip = h

		prevBlockID = blockID
		prevCommit = commit
		prevRoot = root
		prevResults = results
	}
	return c
}

// pbLightService serves light blocks over the light P2P protocol.
type pbLightService struct {
	mu    sync.Mutex
	chain *pbChain
	// remap maps requested heights to the height of the light block that is actually served
	// (wrapped in a response labelled with the requested height).
	remap map[int64]int64
	calls []int64
}

func (s *pbLightService) HandleRequest(_ context.Context, method string, body cbor.RawMessage) (any, error) {
	switch method {
	case p2pLight.MethodGetLightBlock:
		var height int64
		if err := cbor.Unmarshal(body, &height); err != nil {
			return nil, rpc.ErrBadRequest
		}
		s.mu.Lock()
		defer s.mu.Unlock()
		s.calls = append(s.calls, height)
		serve := height
		if alt, ok := s.remap[height]; ok {
			serve = alt
		}
		if serve > s.chain.tip {
			return nil, consensusAPI.ErrVersionNotFound
		}
		b, ok := s.chain.blocks[serve]
		if !ok {
			return nil, consensusAPI.ErrVersionNotFound
		}
		return light.EncodeLightBlock(b.lb, height)
	default:
		return nil, rpc.ErrMethodNotSupported
	}
}

type pbP2P struct {
	host host.Host
}

func (*pbP2P) BlockPeer(peer.ID)                      {}
func (p *pbP2P) Host() host.Host                      { return p.host }
func (*pbP2P) RegisterProtocol(protocol.ID, int, int) {}

// pbProvider is an (untrusted) consensus provider backed by the fake chain.
type pbProvider struct {
	consensusAPI.Backend

	chain *pbChain
	calls []string
	mu    sync.Mutex
}

func (p *pbProvider) log(format string, args ...any) {
	p.mu.Lock()
	defer p.mu.Unlock()
	p.calls = append(p.calls, fmt.Sprintf(format, args...))
}

func (p *pbProvider) GetLatestHeight(context.Context) (int64, error) {
	return p.chain.tip, nil
}

func (p *pbProvider) GetBlock(_ context.Context, height int64) (*consensusAPI.Block, error) {
	p.log("GetBlock(%d)", height)
	b, ok := p.chain.blocks[height]
	if !ok {
		return nil, consensusAPI.ErrVersionNotFound
	}
	return cmtAPI.NewBlock(b.block)
}

func (p *pbProvider) GetTransactions(_ context.Context, height int64) ([][]byte, error) {
	p.log("GetTransactions(%d)", height)
	b, ok := p.chain.blocks[height]
	if !ok {
		return nil, consensusAPI.ErrVersionNotFound
	}
	return b.txs, nil
}

func (p *pbProvider) GetBlockResults(_ context.Context, height int64) (*consensusAPI.BlockResults, error) {
	p.log("GetBlockResults(%d)", height)
	b, ok := p.chain.blocks[height]
	if !ok {
		return nil, consensusAPI.ErrVersionNotFound
	}
	return &consensusAPI.BlockResults{Height: height, Meta: cbor.Marshal(b.results)}, nil
}

type pbEnv struct {
	chain    *pbChain
	services []*pbLightService
	provider *pbProvider
	client   *light.Client
	core     *Core
}

func pbNewEnv(t *testing.T, n int64, trustHeight int64) *pbEnv {
	ctx, cancel := context.WithCancel(context.Background())
	t.Cleanup(cancel)

	chain := pbNewChain(t, n)
	env := &pbEnv{chain: chain}

	newHost := func() host.Host {
		addr, err := multiaddr.NewMultiaddr("/ip4/127.0.0.1/tcp/0")
		require.NoError(t, err)
		signer, err := memorySigner.NewFactory().Generate(signature.SignerP2P, rand.Reader)
		require.NoError(t, err)
		h, err := libp2p.New(libp2p.ListenAddrs(addr), libp2p.Identity(p2pAPI.SignerToPrivKey(signer)))
		require.NoError(t, err)
		t.Cleanup(func() { _ = h.Close() })
		return h
	}

	clientHost := newHost()
	pid := p2pLight.ProtocolID(pbChainContext)
	for i := 0; i < 3; i++ {
		svc := &pbLightService{chain: chain, remap: make(map[int64]int64)}
		srv := rpc.NewServer(pid, svc)
		h := newHost()
		h.SetStreamHandler(srv.Protocol(), srv.HandleStream)
		env.services = append(env.services, svc)
		require.NoError(t, clientHost.Connect(ctx, peer.AddrInfo{ID: h.ID(), Addrs: h.Addrs()}))
		{
			rc := rpc.NewClient(clientHost, pid)
			var rsp consensusAPI.LightBlock
			_, err := rc.Call(ctx, h.ID(), p2pLight.MethodGetLightBlock, int64(3), &rsp)
			t.Logf("direct call: err=%v height=%d", err, rsp.Height)
			if err == nil {
				dl, err := light.DecodeLightBlock(&rsp)
				t.Logf("decode: %v", err)
				if err == nil {
					t.Logf("validate: %v", dl.ValidateBasic(chain.chainID))
				}
			}
		}
	}

	client, err := light.NewClient(ctx, pbChainContext, &pbP2P{host: clientHost}, light.Config{
		GenesisDocument: &cmttypes.GenesisDoc{ChainID: chain.chainID},
		TrustOptions: cmtlight.TrustOptions{
			Period: 24 * time.Hour,
			Height: trustHeight,
			Hash:   chain.blocks[trustHeight].lb.Hash(),
		},
	})
	require.NoError(t, err)
	env.client = client

	// Wait for the light client to obtain peers and initialize.
	require.Eventually(t, func() bool {
		_, err := client.VerifyLightBlockAt(ctx, trustHeight)
		if err != nil {
			t.Logf("light client not ready: %v", err)
		}
		return err == nil
	}, 30*time.Second, 200*time.Millisecond)

	env.provider = &pbProvider{chain: chain}
	env.core = NewCore(env.provider, client, Config{ChainContext: pbChainContext, GenesisHeight: 1})
	return env
}

func TestProbeC19LightProviderHeight(t *testing.T) {
	ctx := context.Background()

	remap := func(env *pbEnv, from, to int64) {
		for _, svc := range env.services {
			svc.mu.Lock()
			svc.remap[from] = to
			svc.mu.Unlock()
		}
	}

	t.Run("GetBlock", func(t *testing.T) {
		env := pbNewEnv(t, 12, 3)
		blk, err := env.core.GetBlock(ctx, 5)
		require.NoError(t, err)
		require.EqualValues(t, 5, blk.Height)

		remap(env, 9, 7)
		blk, err = env.core.GetBlock(ctx, 9)
		if err == nil {
			t.Logf("Core.GetBlock(9) returned block of height %d (hash %s)", blk.Height, blk.Hash)
		} else {
			t.Logf("Core.GetBlock(9): err=%v", err)
		}
		t.Logf("provider calls: %v", env.provider.calls)
	})
	t.Run("GetTransactions", func(t *testing.T) {
		env := pbNewEnv(t, 12, 3)
		remap(env, 9, 7)
		txs, err := env.core.GetTransactions(ctx, 9)
		if err == nil {
			t.Logf("Core.GetTransactions(9) returned %q", txs[0])
		} else {
			t.Logf("Core.GetTransactions(9): err=%v", err)
		}
	})
	t.Run("StateRoot", func(t *testing.T) {
		env := pbNewEnv(t, 12, 3)
		remap(env, 9, 7)
		root, err := env.core.StateRoot(ctx, 8)
		if err == nil {
			t.Logf("Core.StateRoot(8) = %s version %d; genuine root of 8 = %s, of 6 = %s", root.Hash, root.Version, env.chain.blocks[8].root, env.chain.blocks[6].root)
		} else {
			t.Logf("Core.StateRoot(8): err=%v", err)
		}
		root, err = env.core.StateRoot(ctx, 8)
		t.Logf("again: Core.StateRoot(8) = %s err=%v", root.Hash, err)
	})
	t.Run("GetLightBlock", func(t *testing.T) {
		env := pbNewEnv(t, 12, 3)
		remap(env, 9, 7)
		glb, err := env.core.GetLightBlock(ctx, 9)
		if err == nil {
			dlb, _ := light.DecodeLightBlock(glb)
			t.Logf("Core.GetLightBlock(9): wrapper height %d, header height %d", glb.Height, dlb.Height)
		} else {
			t.Logf("Core.GetLightBlock(9): err=%v", err)
		}
	})
	t.Run("GetValidators", func(t *testing.T) {
		env := pbNewEnv(t, 12, 3)
		remap(env, 9, 7)
		v, err := env.core.GetValidators(ctx, 9)
		if err == nil {
			t.Logf("Core.GetValidators(9): height %d", v.Height)
		} else {
			t.Logf("Core.GetValidators(9): err=%v", err)
		}
	})
	t.Run("OnlyPrimaryMalicious", func(t *testing.T) {
		wrong := 0
		for i := 0; i < 3; i++ {
			env := pbNewEnv(t, 12, 3)
			svc := env.services[i]
			svc.mu.Lock()
			svc.remap[9] = 7
			svc.mu.Unlock()
			blk, err := env.core.GetBlock(ctx, 9)
			require.NoError(t, err)
			t.Logf("only light peer %d malicious: Core.GetBlock(9) returned height %d", i, blk.Height)
			if blk.Height != 9 {
				wrong++
			}
		}
		t.Logf("wrong-height results with a single malicious light peer: %d of 3", wrong)
	})
}

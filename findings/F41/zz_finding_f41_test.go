package abci

import (
	"context"
	"encoding/json"
	"fmt"
	"testing"
	"time"

	"github.com/cometbft/cometbft/abci/types"
	cmtproto "github.com/cometbft/cometbft/proto/tendermint/types"
	"github.com/stretchr/testify/require"

	beacon "github.com/oasisprotocol/oasis-core/go/beacon/api"
	"github.com/oasisprotocol/oasis-core/go/common/cbor"
	"github.com/oasisprotocol/oasis-core/go/common/crypto/signature"
	memorySigner "github.com/oasisprotocol/oasis-core/go/common/crypto/signature/signers/memory"
	"github.com/oasisprotocol/oasis-core/go/common/identity"
	"github.com/oasisprotocol/oasis-core/go/common/quantity"
	"github.com/oasisprotocol/oasis-core/go/consensus/api/transaction"
	stakingapp "github.com/oasisprotocol/oasis-core/go/consensus/cometbft/apps/staking"
	stakingState "github.com/oasisprotocol/oasis-core/go/consensus/cometbft/apps/staking/state"
	consensusGenesis "github.com/oasisprotocol/oasis-core/go/consensus/genesis"
	genesis "github.com/oasisprotocol/oasis-core/go/genesis/api"
	staking "github.com/oasisprotocol/oasis-core/go/staking/api"
)

// The harness below drives the REAL ABCI multiplexer (newABCIMux, InitChain, BeginBlock,
// DeliverTx, EndBlock, Commit) with the REAL staking application registered both as an
// application and as the transaction authentication handler, over in-memory storage.

type c09soTimeSource struct {
	beacon.Backend
}

func (c09soTimeSource) GetBaseEpoch(context.Context) (beacon.EpochTime, error) { return 1, nil }

func (c09soTimeSource) GetEpoch(context.Context, int64) (beacon.EpochTime, error) { return 1, nil }

func (c09soTimeSource) GetFutureEpoch(context.Context, int64) (*beacon.EpochTimeState, error) {
	return nil, nil
}

type c09soHarness struct {
	t       *testing.T
	mux     *abciMux
	doc     *genesis.Document
	height  int64
	now     time.Time
	signers []signature.Signer
}

func c09soQ(v uint64) quantity.Quantity {
	return *quantity.NewFromUint64(v)
}

func newC09soHarness(t *testing.T, nSigners int) *c09soHarness {
	var signers []signature.Signer
	for i := 0; i < nSigners; i++ {
		signers = append(signers, memorySigner.NewTestSigner(fmt.Sprintf("C09r3 sideobs signer %d", i)))
	}

	thresholds := make(map[staking.ThresholdKind]quantity.Quantity)
	for _, k := range staking.ThresholdKinds {
		thresholds[k] = c09soQ(0)
	}
	ledger := make(map[staking.Address]*staking.Account)
	total := quantity.NewQuantity()
	for _, s := range signers {
		ledger[staking.NewAddress(s.Public())] = &staking.Account{
			General: staking.GeneralAccount{Balance: c09soQ(1_000_000)},
		}
		_ = total.Add(quantity.NewFromUint64(1_000_000))
	}
	doc := &genesis.Document{
		Height:  1,
		Time:    time.Unix(1_700_000_000, 0).UTC(),
		ChainID: "c09r3-sideobs",
		Staking: staking.Genesis{
			Parameters: staking.ConsensusParameters{
				Thresholds:                thresholds,
				FeeSplitWeightPropose:     c09soQ(1),
				FeeSplitWeightVote:        c09soQ(1),
				FeeSplitWeightNextPropose: c09soQ(1),
				GasCosts:                  transaction.Costs{staking.GasOpTransfer: 10},
			},
			TotalSupply: *total,
			Ledger:      ledger,
		},
		Consensus: consensusGenesis.Genesis{
			Backend: "cometbft",
			Parameters: consensusGenesis.Parameters{
				MaxTxSize: 32768,
				GasCosts:  transaction.Costs{consensusGenesis.GasOpTxByte: 1},
			},
		},
	}
	signature.UnsafeResetChainContext()
	doc.SetChainContext()

	mux, err := newABCIMux(context.Background(), nil, &ApplicationConfig{
		StorageBackend:      "badger",
		MemoryOnlyStorage:   true,
		DisableCheckpointer: true,
		Pruning:             PruneConfig{Strategy: PruneNone, PruneInterval: time.Hour},
		InitialHeight:       1,
		ChainContext:        doc.ChainContext(),
		Identity: &identity.Identity{
			NodeSigner:      memorySigner.NewTestSigner("C09r3 sideobs node"),
			ConsensusSigner: memorySigner.NewTestSigner("C09r3 sideobs consensus"),
		},
	})
	require.NoError(t, err)
	mux.state.timeSource = c09soTimeSource{}
	app := stakingapp.New(mux.state, mux.md)
	require.NoError(t, mux.doRegister(app))
	mux.state.txAuthHandler = app
	require.NoError(t, mux.state.startPruner())

	raw, err := json.Marshal(doc)
	require.NoError(t, err)
	mux.InitChain(types.RequestInitChain{
		Time:          doc.Time,
		ChainId:       doc.ChainID,
		InitialHeight: 1,
		AppStateBytes: raw,
	})

	return &c09soHarness{t: t, mux: mux, doc: doc, now: doc.Time, signers: signers}
}

// block executes and commits one block containing the given raw transactions.
func (h *c09soHarness) block(txs ...[]byte) []types.ResponseDeliverTx {
	h.height++
	h.now = h.now.Add(time.Second)
	h.mux.BeginBlock(types.RequestBeginBlock{
		Header: cmtproto.Header{Height: h.height, Time: h.now},
		LastCommitInfo: types.CommitInfo{Votes: []types.VoteInfo{{
			Validator:       types.Validator{Address: make([]byte, 20), Power: 1},
			SignedLastBlock: true,
		}}},
	})
	var res []types.ResponseDeliverTx
	for _, tx := range txs {
		res = append(res, h.mux.DeliverTx(types.RequestDeliverTx{Tx: tx}))
	}
	h.mux.EndBlock(types.RequestEndBlock{Height: h.height})
	h.mux.Commit()
	return res
}

func (h *c09soHarness) account(addr staking.Address) *staking.Account {
	st := stakingState.NewMutableState(h.mux.state.canonicalState)
	acct, err := st.Account(context.Background(), addr)
	require.NoError(h.t, err)
	return acct
}

// circulating returns the sum of all ledger balances, the common pool and the last block fees.
func (h *c09soHarness) circulating() uint64 {
	st := stakingState.NewMutableState(h.mux.state.canonicalState)
	ctx := context.Background()
	var sum uint64
	for _, s := range h.signers {
		sum += h.account(staking.NewAddress(s.Public())).General.Balance.ToBigInt().Uint64()
	}
	cp, err := st.CommonPool(ctx)
	require.NoError(h.t, err)
	lbf, err := st.LastBlockFees(ctx)
	require.NoError(h.t, err)
	return sum + cp.ToBigInt().Uint64() + lbf.ToBigInt().Uint64()
}

func (h *c09soHarness) signTransfer(s signature.Signer, nonce uint64, to staking.Address, amount, fee uint64) []byte {
	tx := staking.NewTransferTx(nonce, &transaction.Fee{Amount: c09soQ(fee), Gas: 10_000}, &staking.Transfer{To: to, Amount: c09soQ(amount)})
	sigTx, err := transaction.Sign(s, tx)
	require.NoError(h.t, err)
	return cbor.Marshal(sigTx)
}

// TestSideObsC09TrailingBytes reproduces, on the UNMODIFIED tree, that the transaction envelope is
// malleable: bytes appended after the CBOR-encoded SignedTransaction are silently ignored by
// cbor.Unmarshal (fxamacker/cbor v2.4.0 Unmarshal does not reject trailing data), so a byte string
// that differs from what the signer produced is accepted by decodeTx and takes effect.
func TestSideObsC09TrailingBytes(t *testing.T) {
	h := newC09soHarness(t, 2)
	defer h.mux.doCleanup()

	a0 := staking.NewAddress(h.signers[0].Public())
	a1 := staking.NewAddress(h.signers[1].Public())

	// (1) signed bytes || junk executes; the original bytes are then a replay.
	orig := h.signTransfer(h.signers[0], 0, a1, 7, 5)
	altered := append(append([]byte{}, orig...), 0xde, 0xad, 0xbe, 0xef)
	res := h.block(altered)
	t.Logf("(1) altered bytes (orig || deadbeef): code=%d log=%q nonce(a0)=%d balance(a1)=%s",
		res[0].Code, res[0].Log, h.account(a0).General.Nonce, h.account(a1).General.Balance)
	res = h.block(orig)
	t.Logf("(1) original bytes afterwards:        code=%d log=%q", res[0].Code, res[0].Log)

	// (2) also a non-minimal CBOR header (map header a2 re-encoded as b8 02) is accepted.
	orig2 := h.signTransfer(h.signers[0], 1, a1, 7, 5)
	require.EqualValues(t, 0xa2, orig2[0])
	altered2 := append([]byte{0xb8, 0x02}, orig2[1:]...)
	res = h.block(altered2)
	t.Logf("(2) altered bytes (non-minimal map header): code=%d log=%q nonce(a0)=%d", res[0].Code, res[0].Log, h.account(a0).General.Nonce)

	// (3) griefing: transaction size is charged as gas (GasOpTxByte) against the signer's gas
	// limit, so anybody relaying the transaction can pad it until it runs out of gas: the signer
	// pays the fee and burns the nonce, the intended transfer does not happen, and the bytes the
	// signer actually produced are rejected afterwards.
	tx := staking.NewTransferTx(2, &transaction.Fee{Amount: c09soQ(5), Gas: 300}, &staking.Transfer{To: a1, Amount: c09soQ(7)})
	sigTx, err := transaction.Sign(h.signers[0], tx)
	require.NoError(t, err)
	orig3 := cbor.Marshal(sigTx)
	balBefore := h.account(a0).General.Balance.String()
	padded := append(append([]byte{}, orig3...), make([]byte, 200)...)
	res = h.block(padded)
	t.Logf("(3) len(orig)=%d gas limit=300; padded with 200 zero bytes: code=%d log=%q nonce(a0)=%d balance(a0) %s -> %s",
		len(orig3), res[0].Code, res[0].Log, h.account(a0).General.Nonce, balBefore, h.account(a0).General.Balance)
	res = h.block(orig3)
	t.Logf("(3) original bytes afterwards: code=%d log=%q", res[0].Code, res[0].Log)

	// The property says that a transaction "altered in any bit never takes effect".
	if h.account(a0).General.Nonce == 3 {
		t.Errorf("C09: three byte strings that differ from the bytes produced by the signer were accepted and took effect")
	}
}

package txpool

import (
	"math"
	"testing"

	"github.com/stretchr/testify/require"
)

// F2 (C20): a sender's transactions with sequence numbers 2^63-1 and 2^63, both ready, must be
// scheduled in the same pass, in order; and resetting the schedule afterwards must work.
func TestZZFindingF2SequenceBoundary2p63(t *testing.T) {
	require := require.New(t)

	const first = uint64(math.MaxInt64) // 2^63-1
	s := newMainQueueScheduler(10)
	a := newTestTransaction(0, first, 10)
	b := newTestTransaction(0, first+1, 10)
	require.NoError(s.add(a, first))
	require.NoError(s.add(b, first))

	got := s.schedule(10)
	require.Len(got, 2, "both ready transactions of the sender must be scheduled in one pass")
	require.Equal(a.meta, got[0])
	require.Equal(b.meta, got[1])

	require.NotPanics(func() { s.reset() }, "reset after the pass")
	got = s.schedule(10)
	require.Len(got, 2, "after reset the same two transactions are schedulable again")
}

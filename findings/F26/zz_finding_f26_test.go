// Scratch test run on the CLEAN worktree in package go/consensus/cometbft/apps/scheduler
// (file was removed afterwards). Output:
//   epoch 5 featureVersion261=false candidates=1 -> committee in state: &{Kind:executor Members:[&{Role:worker PublicKey:YQAAAAAAAAAAAAAAAAAAAAAAAAAAAAAAAAAAAAAAAAE=}] RuntimeID:8000000000000000ac5fa39052c1139f3af0c1a42b0133c4073aae5438609e5e ValidFor:5}
//   epoch 6 featureVersion261=true candidates=0 -> committee in state: &{Kind:executor Members:[&{Role:worker PublicKey:YQAAAAAAAAAAAAAAAAAAAAAAAAAAAAAAAAAAAAAAAAE=}] RuntimeID:8000000000000000ac5fa39052c1139f3af0c1a42b0133c4073aae5438609e5e ValidFor:5}
package scheduler

import (
	"fmt"
	"testing"

	"github.com/stretchr/testify/require"

	beacon "github.com/oasisprotocol/oasis-core/go/beacon/api"
	"github.com/oasisprotocol/oasis-core/go/common"
	"github.com/oasisprotocol/oasis-core/go/common/crypto/signature"
	"github.com/oasisprotocol/oasis-core/go/common/node"
	"github.com/oasisprotocol/oasis-core/go/consensus/cometbft/api"
	schedulerState "github.com/oasisprotocol/oasis-core/go/consensus/cometbft/apps/scheduler/state"
	stakingState "github.com/oasisprotocol/oasis-core/go/consensus/cometbft/apps/staking/state"
	registry "github.com/oasisprotocol/oasis-core/go/registry/api"
	scheduler "github.com/oasisprotocol/oasis-core/go/scheduler/api"
	staking "github.com/oasisprotocol/oasis-core/go/staking/api"
)

func TestFindingF26(t *testing.T) {
	require := require.New(t)
	appState := api.NewMockApplicationState(&api.MockApplicationStateConfig{})
	ctx := appState.NewContext(api.ContextEndBlock)
	defer ctx.Close()
	require.NoError(stakingState.NewMutableState(ctx.State()).SetConsensusParameters(ctx, &staking.ConsensusParameters{}))

	rtID := common.NewTestNamespaceFromSeed([]byte("scratch km runtime"), 0)
	rt := &registry.Runtime{
		ID:          rtID,
		Kind:        registry.KindKeyManager,
		Executor:    registry.ExecutorParameters{GroupSize: 1},
		Deployments: []*registry.VersionInfo{{}},
	}
	n := &node.Node{
		ID:       signature.NewPublicKey("6100000000000000000000000000000000000000000000000000000000000001"),
		EntityID: signature.NewPublicKey("6000000000000000000000000000000000000000000000000000000000000001"),
		Roles:    node.RoleComputeWorker,
		Runtimes: []*node.Runtime{{ID: rtID}},
	}
	nodes := []*nodeWithStatus{{n, &registry.NodeStatus{}}}
	params := &scheduler.ConsensusParameters{}
	bp := &beacon.ConsensusParameters{Backend: beacon.BackendInsecure}
	entropy := []byte("entropy entropy entropy entropy entropy entropy entropy entropy!")
	st := schedulerState.NewMutableState(ctx.State())

	for _, step := range []struct {
		epoch beacon.EpochTime
		f261  bool
		nodes []*nodeWithStatus
	}{{5, false, nodes}, {6, true, nil}} {
		stakeAcc, err := stakingState.NewStakeAccumulatorCache(ctx)
		require.NoError(err)
		err = electCommittee(ctx, step.epoch, params, bp, &registry.ConsensusParameters{}, stakeAcc, map[staking.Address]struct{}{}, nil, rt, step.nodes, scheduler.KindComputeExecutor, entropy, nil, step.f261)
		require.NoError(err)
		c, err := st.Committee(ctx, scheduler.KindComputeExecutor, rtID)
		require.NoError(err)
		fmt.Printf("epoch %d featureVersion261=%v candidates=%d -> committee in state: %v\n", step.epoch, step.f261, len(step.nodes), c)
		if c != nil {
			require.EqualValues(step.epoch, c.ValidFor, "after the election of epoch %d the scheduler state still holds a committee elected for epoch %d", step.epoch, c.ValidFor)
		}
	}
}

package mkvs

import (
	"bytes"
	"context"
	"testing"

	"github.com/oasisprotocol/oasis-core/go/storage/mkvs/node"
	)

// Clean tree: a remote-backed reader whose node capacity is smaller than the path depth reports
// PRESENT keys as ABSENT (nil value, nil error) after one failed ("cache too small") lookup.
func TestFindingF20(t *testing.T) {
	ctx := context.Background()
	full := New(nil, nil, node.RootTypeState)
	keys := []string{"a", "ab", "abc", "abcd", "abcdx", "abcdy", "0left"}
	for _, k := range keys {
		if err := full.Insert(ctx, []byte(k), []byte("value "+k)); err != nil {
			t.Fatal(err)
		}
	}
	_, rootHash, err := full.Commit(ctx, testNs, 0)
	if err != nil {
		t.Fatal(err)
	}
	root := node.Root{Namespace: testNs, Version: 0, Type: node.RootTypeState, Hash: rootHash}

	for _, capN := range []uint64{2, 3, 4, 16} {
		remote := NewWithRoot(full, nil, root, Capacity(capN, 0))
		// First warm the left part, then one lookup deeper than the cache.
		v0, err0 := remote.Get(ctx, []byte("0left"))
		_, err1 := remote.Get(ctx, []byte("abcdy"))
		t.Logf("cap=%d: Get(0left)=%q,%v ; Get(abcdy) err=%v", capN, v0, err0, err1)
		for _, k := range keys {
			want, _ := full.Get(ctx, []byte(k))
			got, err := remote.Get(ctx, []byte(k))
			switch {
			case err != nil:
				t.Logf("cap=%d: Get(%q) error (allowed): %v", capN, k, err)
			case !bytes.Equal(want, got):
				t.Errorf("cap=%d: LIE: remote Get(%q) = %q, nil error; full replica has %q", capN, k, got, want)
			}
		}
		// Iteration.
		var seen []string
		it := remote.NewIterator(ctx)
		for it.Rewind(); it.Valid(); it.Next() {
			seen = append(seen, string(it.Key()))
		}
		if it.Err() == nil && len(seen) != len(keys) {
			t.Errorf("cap=%d: LIE: remote iteration finished without error but saw only %q", capN, seen)
		} else {
			t.Logf("cap=%d: iteration saw %q err=%v", capN, seen, it.Err())
		}
		it.Close()
	}
}


package state

import (
	"testing"

	"github.com/stretchr/testify/require"

	"github.com/oasisprotocol/oasis-core/go/common/cbor"
	memorySigner "github.com/oasisprotocol/oasis-core/go/common/crypto/signature/signers/memory"
	"github.com/oasisprotocol/oasis-core/go/common/node"
	abciAPI "github.com/oasisprotocol/oasis-core/go/consensus/cometbft/api"
)

// F4 (C17): a node that moves one of its keys to a different slot (here: the new P2P key is the
// old TLS key, and a fresh TLS key is introduced) must afterwards still be found under each of
// its current keys.
func TestZZFindingF4NodeKeyMovesBetweenSlots(t *testing.T) {
	require := require.New(t)

	appState := abciAPI.NewMockApplicationState(&abciAPI.MockApplicationStateConfig{})
	ctx := appState.NewContext(abciAPI.ContextBeginBlock)
	defer ctx.Close()
	s := NewMutableState(ctx.State())

	vrf := memorySigner.NewTestSigner("consensus/cometbft/apps/registry/state: f4 vrf signer")
	tls3 := memorySigner.NewTestSigner("consensus/cometbft/apps/registry/state: f4 tls signer 3")

	old := node.Node{
		Versioned: cbor.NewVersioned(node.LatestNodeDescriptorVersion),
		ID:        nodeSigner.Public(),
		EntityID:  entitySigner.Public(),
		P2P:       node.P2PInfo{ID: p2pSigner1.Public()},
		Consensus: node.ConsensusInfo{ID: consensusSigner1.Public()},
		TLS:       node.TLSInfo{PubKey: tlsSigner1.Public()},
		VRF:       node.VRFInfo{ID: vrf.Public()},
	}
	require.NoError(s.SetNode(ctx, nil, &old, mustMultiSignNode(t, &old)), "SetNode (create)")

	// Update: P2P key := old TLS key, TLS key := fresh key. Consensus and VRF keys unchanged.
	upd := old
	upd.P2P.ID = tlsSigner1.Public()
	upd.TLS.PubKey = tls3.Public()
	require.NoError(s.SetNode(ctx, &old, &upd, mustMultiSignNode(t, &upd)), "SetNode (update)")

	for name, key := range map[string]node.Node{"": upd} {
		_ = name
		for slot, k := range map[string][32]byte{
			"consensus": key.Consensus.ID,
			"p2p":       key.P2P.ID,
			"tls":       key.TLS.PubKey,
			"vrf":       key.VRF.ID,
		} {
			n, err := s.NodeBySubKey(ctx, k)
			require.NoError(err, "registered node must be found under its current %s key", slot)
			require.Equal(upd.ID, n.ID)
		}
	}
	// The key that is no longer used must be gone.
	_, err := s.NodeBySubKey(ctx, p2pSigner1.Public())
	require.Error(err, "stale P2P key must not resolve")
}

package main

import (
	"fmt"
	"os"
	"sort"
	"strings"

	"golang.org/x/tools/go/ssa"
)

// c10ErrOrigins (round 3; written after seeds C10/7 and C10/9 were missed): on the Begin/EndBlock fatal cone — the
// functions whose returned error propagates, call by call, to the error BeginBlock/EndBlock returns, which stops the
// chain — every place where an error is *made* (fmt.Errorf / errors.New / a sentinel, not wrapping another error) is a
// condition on values that halts every node when it is met. The inventory of these origins is frozen in
// tables/c10_fatal_origins.tsv, one reviewed row each ("<function> when <innermost condition>" or "<function> <sentinel>" → why block content cannot
// make it true); an origin that is not listed is a violation. Errors that wrap an underlying error (%w or an error
// argument) pass that error on and are not origins.
func c10ErrOrigins(c *Ctx, g *CG) {
	const rule = "C10.origins"
	const tblName = "c10_fatal_origins"
	var entries []*ssa.Function
	for _, key := range []string{
		"consensus/cometbft/api.(Application).BeginBlock", "consensus/cometbft/api.(Application).EndBlock",
		"consensus/cometbft/api.(Extension).BeginBlock", "consensus/cometbft/api.(Extension).EndBlock",
	} {
		for _, f := range g.impls[key] {
			if f.Blocks != nil && strings.HasPrefix(short(fpkgPath(f)), "consensus/cometbft/apps/") {
				entries = appendUniqueFn(entries, f)
			}
		}
	}
	cone, parent := g.FatalCone(entries, outsideConeUniverse)
	type org struct{ key, pos, chain, msg string }
	var orgs []org
	for _, f := range cone {
		if f.Blocks == nil {
			continue
		}
		pp := short(fpkgPath(f))
		if !strings.HasPrefix(pp, "consensus/cometbft/apps/") && !strings.HasPrefix(pp, "staking/") && !strings.HasPrefix(pp, "roothash/") && !strings.HasPrefix(pp, "registry/") && !strings.HasPrefix(pp, "scheduler/") && !strings.HasPrefix(pp, "governance/") && !strings.HasPrefix(pp, "beacon/") && !strings.HasPrefix(pp, "keymanager/") && !strings.HasPrefix(pp, "vault/") {
			continue
		}
		for _, b := range f.Blocks {
			for _, in := range b.Instrs {
				switch x := in.(type) {
				case *ssa.Call:
					nm := calleeNameCommon(&x.Call)
					if nm != "fmt.Errorf" && nm != "errors.New" {
						continue
					}
					if !errFlowsToReturn(x) {
						continue
					}
					msg := ""
					if k, ok := x.Call.Args[0].(*ssa.Const); ok && k.Value != nil {
						msg = k.Value.ExactString()
					}
					if nm == "fmt.Errorf" && (strings.Contains(msg, "%w") || wrapsErrorArg(x)) {
						continue
					}
					orgs = append(orgs, org{fname(f) + " when " + innermostCond(in), c.P.InstrPos(in), g.Chain(parent, f), msg})
				case *ssa.Return:
					idx := errResultIndex(f)
					if idx < 0 || idx >= len(x.Results) {
						continue
					}
					for _, v := range phiLeaves(x.Results[idx], map[ssa.Value]bool{}) {
						if u, ok := v.(*ssa.UnOp); ok {
							if gl, ok := u.X.(*ssa.Global); ok && isErrorType(u.Type()) {
								orgs = append(orgs, org{fname(f) + " " + short(gl.Pkg.Pkg.Path()) + "." + gl.Name(), c.P.InstrPos(in), g.Chain(parent, f), ""})
							}
						}
					}
				}
			}
		}
	}
	sort.Slice(orgs, func(i, j int) bool { return orgs[i].key < orgs[j].key })
	seen := map[string]bool{}
	for _, o := range orgs {
		if seen[o.key] {
			continue
		}
		seen[o.key] = true
		if reason, ok := c.Tabled(tblName, o.key); ok {
			c.TabledOK(rule, o.key, o.pos, reason+" [message: "+o.msg+"; chain: "+o.chain+"]")
			if os.Getenv("C10_ORIGINS_MAP") != "" {
				fmt.Println("ORIGINMAP\t" + o.key + "\t" + o.msg)
			}
		} else {
			c.Fail(rule, o.key, o.pos, "a new error is made on the Begin/EndBlock fatal cone (its value propagates to the error BeginBlock/EndBlock returns, which halts every node): the condition it reports must be impossible for every block content and state reachable through transactions — it is not in the reviewed inventory tables/c10_fatal_origins.tsv (message: "+o.msg+"); one propagation chain: "+o.chain)
			if os.Getenv("C10_ORIGINS_MAP") != "" {
				fmt.Println("ORIGINMAP\t" + o.key + "\t" + o.msg)
			}
		}
	}
	c.Extra["fatal_error_origins"] = len(seen)
	c.Floor(rule, len(seen), 20, "error origins on the Begin/EndBlock fatal cone")
}

// innermostCond: the condition of the closest branch that leads to the instruction (canonical rendering), so that an
// origin is identified by what it tests and not by the wording of its message.
func innermostCond(in ssa.Instruction) string {
	hs := heldCondVals(in)
	if len(hs) == 0 {
		return "(unconditional)"
	}
	h := hs[len(hs)-1]
	return normCond(h.Cond, h.Pol)
}

// wrapsErrorArg: one of the variadic arguments of the Errorf call is an error value.
func wrapsErrorArg(call *ssa.Call) bool {
	if len(call.Call.Args) < 2 {
		return false
	}
	for _, el := range variadicElems(call.Call.Args[len(call.Call.Args)-1]) {
		v := el
		if mi, ok := v.(*ssa.MakeInterface); ok {
			v = mi.X
		}
		if ci, ok := v.(*ssa.ChangeInterface); ok {
			v = ci.X
		}
		if isErrorType(v.Type()) {
			return true
		}
	}
	return false
}

// phiLeaves: the values a (possibly phi-merged) value can be.
func phiLeaves(v ssa.Value, seen map[ssa.Value]bool) []ssa.Value {
	if seen[v] {
		return nil
	}
	seen[v] = true
	switch x := v.(type) {
	case *ssa.Phi:
		var out []ssa.Value
		for _, e := range x.Edges {
			out = append(out, phiLeaves(e, seen)...)
		}
		return out
	case *ssa.MakeInterface:
		return phiLeaves(x.X, seen)
	case *ssa.ChangeInterface:
		return phiLeaves(x.X, seen)
	}
	return []ssa.Value{v}
}

// c10LivenessReset (seed C10/8): the liveness statistics of a runtime are slices indexed by the position of a member in
// the committee they were started for (processLivenessStatistics, the round finalisation). Whenever
// onRuntimeCommitteeChanged installs a committee, the statistics are reset before it returns: statistics kept across a
// re-election are indexed with the positions of a different (possibly larger) committee — index out of range in the next
// BeginBlock on every node.
func c10LivenessReset(c *Ctx) {
	fn := c.needFn("C10.support", "consensus/cometbft/apps/roothash.(*Application).onRuntimeCommitteeChanged")
	if fn == nil {
		return
	}
	c.Analysed[fname(fn)] = true
	com := StoresTo(fn, "rtState.Committee=", "roothash/api.RuntimeState.Committee")
	rst := StoresTo(fn, "rtState.LivenessStatistics=", "roothash/api.RuntimeState.LivenessStatistics")
	inst := fname(fn) + ":committee installed⇒liveness statistics reset"
	if com.Empty() || rst.Empty() {
		c.Fail("C10.support", inst, c.P.Pos(fn.Pos()), "the store of the new committee or the reset of the liveness statistics was not found ("+itoa(len(com.Ins))+" / "+itoa(len(rst.Ins))+"): unresolved anchor")
		return
	}
	ok := true
	site := c.P.InstrPos(rst.Ins[0])
	for _, st := range com.Ins {
		if hit := Reach(fn, st, nil, anyOf(SuccessReturns(fn)), NewCut().AddInstr(rst.Ins...)); hit != nil {
			ok = false
			site = c.P.InstrPos(st)
		}
	}
	c.Check(ok, "C10.support", inst, site, "every success exit after a store to rtState.Committee passes a store to rtState.LivenessStatistics", "onRuntimeCommitteeChanged can return with a new committee installed and the old liveness statistics kept (e.g. for a re-election within the epoch): the slices are indexed by committee position, a larger committee indexes out of range in processLivenessStatistics / round finalisation and BeginBlock panics on every node")
}

// c10LivenessRemovedNode (F39): in processLivenessStatistics the error of the registry status look-up is passed on only
// when it is not "no such node" — a committee member whose registration lapsed may already have been removed from the
// registry earlier in the same block.
func c10LivenessRemovedNode(c *Ctx) {
	fn := c.needFn("C10.support", "consensus/cometbft/apps/roothash.processLivenessStatistics")
	if fn == nil {
		return
	}
	var wraps []ssa.Instruction
	for _, call := range callsIn(fn) {
		cl, ok := call.(*ssa.Call)
		if !ok || calleeName(call) != "fmt.Errorf" || len(cl.Call.Args) < 2 {
			continue
		}
		for _, el := range variadicElems(cl.Call.Args[len(cl.Call.Args)-1]) {
			v := el
			if mi, ok := v.(*ssa.MakeInterface); ok {
				v = mi.X
			}
			if ci, ok := v.(*ssa.ChangeInterface); ok {
				v = ci.X
			}
			if ex, ok := v.(*ssa.Extract); ok && isErrorType(v.Type()) {
				if src, ok := ex.Tuple.(*ssa.Call); ok && strings.HasSuffix(calleeName(src), ".NodeStatus") {
					wraps = append(wraps, call)
				}
			}
		}
	}
	c.GuardedByAny("C10.support", fn, "!errors.Is(err, ErrNoSuchNode)", []string{`^!errors\.Is\(.*\.NodeStatus\(.*registry/api\.ErrNoSuchNode\)$`, `\.NodeStatus\(.*#1 != \*?global:registry/api\.ErrNoSuchNode$`}, Ev{Name: "error of NodeStatus passed on", Fn: fn, Ins: wraps}, "a committee member that is no longer registered is skipped, not turned into a BeginBlock failure")
}

package main

import (
	"flag"
	"fmt"
	"os"
	"runtime/debug"
	"sort"
	"strconv"
	"strings"

	"golang.org/x/tools/go/ssa"
)

type ruleFn func(c *Ctx)

var props = map[string]ruleFn{}

func register(id string, f ruleFn) { props[id] = f }

func main() {
	repo := flag.String("repo", "/repo", "repository root")
	verif := flag.String("verif", "/verif", "verif dir")
	outDir := flag.String("out", "", "evidence output dir (default <verif>/evidence)")
	tier := flag.String("tier", "quick", "quick|thorough")
	dump := flag.String("dump", "", "dump calls/guards of a function (debug)")
	list := flag.String("list", "", "list function names containing substring (debug)")
	dumpFuncs := flag.Bool("dump-funcs", false, "print the known-functions table (tables/known_funcs.tsv) for the current tree")
	dumpNames := flag.Bool("dump-names", false, "print the parameter-name reference table (tables/names.tsv) for the current tree")
	flag.Parse()
	debug.SetGCPercent(400)

	seed := 0
	if s := os.Getenv("VERIF_SEED"); s != "" {
		if n, err := strconv.Atoi(s); err == nil {
			seed = n
		}
	}
	if t := os.Getenv("VERIF_TIER"); t == "quick" || t == "thorough" {
		if !isFlagSet("tier") {
			*tier = t
		}
	}

	p, err := Load(*repo + "/go")
	if err != nil {
		fmt.Fprintln(os.Stderr, "LOAD FAILED:", err)
		os.Exit(2)
	}
	if len(p.Pkgs) < 300 {
		fmt.Fprintf(os.Stderr, "LOAD FAILED: only %d module packages loaded (floor 300)\n", len(p.Pkgs))
		os.Exit(2)
	}
	if *dumpNames {
		p.DumpNameTable(os.Stdout)
		return
	}
	if *dumpFuncs {
		p.DumpFuncTable(os.Stdout)
		return
	}
	p.KnownFuncs, p.NewHelpers = p.LoadFuncTable(*verif + "/tables/known_funcs.tsv")
	nAliased, nRenamed := p.LoadNameTable(*verif + "/tables/names.tsv")
	p.NamesAliased, p.NamesRenamed = nAliased, nRenamed
	if *list != "" {
		var ns []string
		for n := range p.ByName {
			if strings.Contains(n, *list) {
				ns = append(ns, n)
			}
		}
		sort.Strings(ns)
		for _, n := range ns {
			fmt.Println(n)
		}
		return
	}
	if *dump != "" {
		fn := p.Fn(*dump)
		if fn == nil {
			fmt.Println("no such function")
			os.Exit(2)
		}
		dumpFn(p, fn)
		return
	}
	ids := flag.Args()
	if len(ids) == 0 {
		fmt.Fprintln(os.Stderr, "usage: ovcheck [-tier quick|thorough] <property id>...")
		os.Exit(2)
	}
	rc := 0
	for _, id := range ids {
		f, ok := props[id]
		if !ok {
			fmt.Fprintln(os.Stderr, "unknown property", id)
			os.Exit(2)
		}
		c := NewCtx(p, id, *tier, *verif)
		c.OutDir = *outDir
		func() {
			defer func() {
				if r := recover(); r != nil {
					c.Undecided("engine", "panic", "", fmt.Sprintf("analysis panicked: %v\n%s", r, debug.Stack()))
				}
			}()
			f(c)
		}()
		if r := c.Finish(seed); r > rc {
			if rc != 1 {
				rc = r
			}
			if r == 1 {
				rc = 1
			}
		}
	}
	os.Exit(rc)
}

func isFlagSet(name string) bool {
	set := false
	flag.Visit(func(f *flag.Flag) {
		if f.Name == name {
			set = true
		}
	})
	return set
}

func dumpFn(p *Prog, fn *ssa.Function) {
	fmt.Println("==", fname(fn), p.Pos(fn.Pos()))
	for _, b := range fn.Blocks {
		fmt.Printf(" block %d (%s) succs=%v\n", b.Index, b.Comment, succIdx(b))
		for _, in := range b.Instrs {
			switch x := in.(type) {
			case ssa.CallInstruction:
				r := recvOf(x)
				rs := ""
				if r != nil {
					rs = " recv=" + vstr(r) + " roots=" + strings.Join(rootStrs(r), " | ")
				}
				var as []string
				for _, a := range x.Common().Args {
					as = append(as, vstr(a))
				}
				fmt.Printf("   %s CALL %s%s args=[%s]\n", p.InstrPos(in), calleeName(x), rs, strings.Join(as, " ; "))
			case *ssa.If:
				fmt.Printf("   %s IF %s\n", p.InstrPos(in), vstr(x.Cond))
			case *ssa.Return:
				var rs []string
				for _, r := range x.Results {
					rs = append(rs, vstr(r))
				}
				fmt.Printf("   %s RETURN %s\n", p.InstrPos(in), strings.Join(rs, " ; "))
			case *ssa.Store:
				fmt.Printf("   %s STORE %s <- %s\n", p.InstrPos(in), vstr(x.Addr), vstr(x.Val))
			case *ssa.MapUpdate:
				fmt.Printf("   %s MAPUPDATE %s[%s] <- %s\n", p.InstrPos(in), vstr(x.Map), vstr(x.Key), vstr(x.Value))
			case *ssa.Panic:
				fmt.Printf("   %s PANIC %s\n", p.InstrPos(in), vstr(x.X))
			}
		}
	}
	for _, r := range Returns(fn) {
		if ev := retErrVal(r); ev != nil {
			if u, ok := ev.(*ssa.UnOp); ok {
				if g, ok := u.X.(*ssa.Global); ok && g.Pkg != nil {
					name := short(g.Pkg.Pkg.Path()) + "." + g.Name()
					for _, x := range guardsInto(r.Block()) {
						fmt.Printf(" GUARD %s fails-if {%s} at %s\n", name, x.String(), p.InstrPos(x.Ifs[0]))
					}
				}
			}
		}
	}
	for _, a := range fn.AnonFuncs {
		dumpFn(p, a)
	}
}

func succIdx(b *ssa.BasicBlock) []int {
	var out []int
	for _, s := range b.Succs {
		out = append(out, s.Index)
	}
	return out
}

package main

import (
	"go/constant"
	"go/token"
	"regexp"
	"strings"

	"golang.org/x/tools/go/ssa"
)

func init() { register("C14", rulesC14) }

const pkSched = "consensus/cometbft/apps/scheduler"

// appendsOf: builtin append calls in fn whose result is a slice of elemType.
func appendsOf(fn *ssa.Function, name, elemType string) Ev {
	ev := Ev{Name: name, Fn: fn}
	for _, c := range callsIn(fn) {
		if calleeName(c) != "builtin.append" {
			continue
		}
		v := c.Value()
		if v == nil {
			continue
		}
		if typeStr(v.Type()) == "[]"+elemType {
			ev.Ins = append(ev.Ins, c)
		}
	}
	return ev
}

// appendedElems: canonical strings of the elements appended by an append call
// (the stored elements of a call-site variadic slice, or the spread slice).
func appendedElems(call ssa.CallInstruction) []string {
	args := call.Common().Args
	last := args[len(args)-1]
	var out []string
	for _, e := range variadicElems(last) {
		out = append(out, vstr(e))
	}
	if len(out) == 0 {
		out = append(out, "spread:"+vstr(last))
	}
	return out
}

// mapUpdatesOf: m[k] = v instructions in fn whose map type matches re.
func mapUpdatesOf(fn *ssa.Function, name, mapTypeRe string) Ev {
	rx := regexp.MustCompile(mapTypeRe)
	ev := Ev{Name: name, Fn: fn}
	for _, b := range blocksIP(fn) {
		for _, in := range b.Instrs {
			if mu, ok := in.(*ssa.MapUpdate); ok && rx.MatchString(typeStr(mu.Map.Type())) {
				ev.Ins = append(ev.Ins, in)
			}
		}
	}
	return ev
}

// boolReturns: returns of a bool-valued function with the constant want.
func boolReturns(fn *ssa.Function, name string, want bool) Ev {
	ev := Ev{Name: name, Fn: fn}
	for _, r := range Returns(fn) {
		if len(r.Results) != 1 {
			continue
		}
		if k, ok := r.Results[0].(*ssa.Const); ok && k.Value != nil && k.Value.Kind() == constant.Bool && constant.BoolVal(k.Value) == want {
			ev.Ins = append(ev.Ins, r)
		}
	}
	return ev
}

// GuardedByAny: no instruction of T is reachable from the entry of fn once
// every branch edge on which one of the alternative conditions holds is
// removed, i.e. every path to T passes a branch where one of them holds. For a
// guard inside a loop body whose other edge continues the loop this is the
// per-iteration statement.
func (c *Ctx) GuardedByAny(rule string, fn *ssa.Function, condName string, alts []string, T Ev, why string) bool {
	inst := fname(fn) + ":" + condName + "⊢" + T.Name
	c.Analysed[fname(fn)] = true
	if T.Empty() {
		c.Fail(rule, inst, c.P.Pos(fn.Pos()), "guarded construct "+T.Name+" not found in "+fname(fn)+": "+why)
		return false
	}
	cut := NewCut()
	n := 0
	for _, re := range alts {
		es := HeldEdges(fn, re)
		n += len(es)
		cut.AddEdges(es...)
	}
	// an edge on which a disjunction holds each of whose cases is one of the alternatives (a predicate helper's
	// "false" answer, for instance)
	if es := HeldEdgesAny(fn, alts); len(es) > 0 {
		n += len(es)
		cut.AddEdges(es...)
	}
	if n == 0 {
		c.Fail(rule, inst, c.P.InstrPos(T.Ins[0]), "no branch on "+condName+" found in "+fname(fn)+": "+why)
		return false
	}
	if hit := Reach(fn, nil, nil, anyOf(T.Ins), cut); hit != nil {
		c.Fail(rule, inst, c.P.InstrPos(hit), T.Name+" is reachable without "+condName+" holding: "+why)
		return false
	}
	c.OK(rule, inst, c.P.InstrPos(T.Ins[0]), "every path to "+T.Name+" takes a branch where "+condName+" holds")
	return true
}

// subjectBound: the appended/stored element and the guard speak about the
// same loop element: the canonical string of the guard condition contains the
// canonical string of the loop element.
func condsMentioning(fn *ssa.Function, re string, subject string) int {
	rx := regexp.MustCompile(re)
	n := 0
	for _, b := range fn.Blocks {
		iff := lastIf(b)
		if iff == nil {
			continue
		}
		for _, pol := range []bool{true, false} {
			s := normCond(iff.Cond, pol)
			if matchEither(rx, s) && strings.Contains(s, subject) {
				n++
			}
		}
	}
	return n
}

func rulesC14(c *Ctx) {
	c14Round3(c)
	c14SortComparators(c)
	c14VRFFallback(c)
	c14Round5(c)
	c.Explain = append(c.Explain,
		"C14 (elections deterministic, only eligible nodes) — decided: (a) filter-before-collect: every node enters the candidate lists of the validator and committee elections only on paths where the eligibility tests on that same node held (not frozen, not expired, election-eligible when VRF filtering is on, required role, stake claims satisfied, runtime suitability incl. version/suspension/TEE verification, validator-set membership when constrained), and limits are enforced structurally (per-entity and total validator caps at the insertion, minimum/exact committee sizes before members are returned, no committee stored when empty); (b) EndBlock returns exactly diffValidators(current, pending) and replaces the tracked set with pending on success; diffValidators removes with power 0 what is not pending and upserts what is new or changed; (c) all randomness of the scheduler comes from initRNG(DRBG(entropy,…)) with the entropy read from the beacon state, map-derived address lists are sorted before they are shuffled, and the stake ordering comparator is descending; map-iteration order sensitivity of the scheduler is decided under C01 (MAPORDER); (round 2) (d) VotingPowerFromStake tests for zero the very quantity it converts, after the last in-place operation on it (no elected validator gets power 0); (e) an entity is recorded as validator/rewardable entity only in an iteration that inserts one of its nodes; (f) an election pass cannot finish successfully without visiting the runtimes, and electCommittee stores or drops the committee on every success exit (fails on the current tree: known finding F26); (g) parameter changes are held to the same positive validator limits as the genesis (F25, found by a sub-agent and repaired).",
		"NOT decided: that the ordering/tie-breaking yields the stated order for all stake distributions, voting-power monotonicity (VotingPowerFromStake arithmetic), stake-claim arithmetic at thresholds (StakeAccumulator), uniformity of shuffles.")
	c.Assume = append(c.Assume, "scheduler Debug* consensus parameters (DebugBypassStake, DebugForceElect, DebugAllowWeakAlpha) are accepted as explicit alternatives of the corresponding guard: scheduler ConsensusParameters.SanityCheck rejects them unless the node runs with the unsafe debug flag")
	ix := c.P.BuildIndex()

	subj := "param:nodes[" // loop element of the candidate loops

	// ---- (a) elect: frozen / expired / eligible
	if fn := c.needFn("C14.filter", pkSched+".(*Application).elect"); fn != nil {
		nodesApp := appendsOf(fn, "append(nodes)", "*common/node.Node")
		cnApp := appendsOf(fn, "append(committeeNodes)", "*"+pkSched+".nodeWithStatus")
		for _, T := range []Ev{nodesApp, cnApp} {
			c.GuardedByAny("C14.filter", fn, "!status.IsFrozen()", []string{`^!registry/api\.\(\*?NodeStatus\)\.IsFrozen\(`}, T, "frozen nodes must not be scheduled")
			c.GuardedByAny("C14.filter", fn, "!node.IsExpired(epoch)", []string{`^!common/node\.\(\*Node\)\.IsExpired\(.*param:epoch\)$`}, T, "expired nodes must not be scheduled")
		}
		c.GuardedByAny("C14.filter", fn, "!filterCommitteeNodes||status.IsEligibleForElection(epoch)",
			[]string{`^registry/api\.\(\*?NodeStatus\)\.IsEligibleForElection\(.*param:epoch\)$`, `^!phi\(.*DebugAllowWeakAlpha`}, cnApp,
			"with VRF elections only nodes eligible for this epoch's election may enter committee elections")
		// the status consulted is that of the node being collected
		ns := CallsTo(fn, "NodeStatus", "consensus/cometbft/apps/registry/state.(*ImmutableState).NodeStatus", "")
		okS := len(ns.Calls()) == 1
		if okS {
			args := allArgs(ns.Calls()[0])
			okS = len(args) == 3 && strings.Contains(vstr(args[2]), ".Nodes(") && strings.HasSuffix(vstr(args[2]), ".ID")
		}
		c.Check(okS, "C14.filter", fname(fn)+":status-of-the-same-node", c.P.Pos(fn.Pos()), "NodeStatus is looked up by the ID of the node of the current iteration", "the node status consulted for filtering is not looked up by the current node's ID")
		// the epoch is the one being elected for and the entropy is the beacon's
		ev := CallsTo(fn, "electValidators", pkSched+".electValidators", "")
		okE := len(ev.Calls()) == 1
		if okE {
			a := allArgs(ev.Calls()[0])
			okE = len(a) == 9 && vstr(a[1]) == "param:epoch" && strings.Contains(vstr(a[5]), "builtin.append(") && strings.Contains(vstr(a[7]), "beacon/state.(*ImmutableState).Beacon(")
		}
		c.Check(okE, "C14.filter", fname(fn)+":electValidators(filtered nodes, beacon entropy)", c.P.Pos(fn.Pos()), "electValidators receives the filtered node list, the epoch and the beacon entropy", "electValidators is not called with the filtered node list / the epoch / the beacon entropy")
		ec := CallsTo(fn, "electCommittees", pkSched+".(*Application).electCommittees", "")
		okC := len(ec.Calls()) == 1
		if okC {
			a := allArgs(ec.Calls()[0])
			okC = len(a) == 13 && vstr(a[2]) == "param:epoch" && strings.Contains(vstr(a[9]), "builtin.append(") && strings.Contains(typeStr(a[9].Type()), "nodeWithStatus") && strings.Contains(vstr(a[10]), "beacon/state.(*ImmutableState).Beacon(") && strings.Contains(vstr(a[8]), "electValidators(")
		}
		c.Check(okC, "C14.filter", fname(fn)+":electCommittees(filtered nodes, validator entities, beacon entropy)", c.P.Pos(fn.Pos()), "electCommittees receives the filtered committee node list, the elected validator entities and the beacon entropy", "electCommittees is not called with the filtered committee nodes / elected validator entities / beacon entropy")
	}

	// ---- (a) electValidators
	if fn := c.needFn("C14.filter", pkSched+".electValidators"); fn != nil {
		roleV, okRole := c.ConstInt("common/node", "RoleValidator")
		T := union("validators+=n / entities[addr]", appendsOf(fn, "append(validators)", "*common/node.Node"), mapUpdatesOf(fn, "entities[entAddr]", `^map\[staking/api\.Address\]struct\{\}$`))
		// only the candidate collection (first loop): restrict to instructions whose loop element is the parameter list
		var first []ssa.Instruction
		for _, in := range T.Ins {
			s := ""
			switch x := in.(type) {
			case ssa.CallInstruction:
				s = strings.Join(appendedElems(x), " ")
			case *ssa.MapUpdate:
				s = vstr(x.Key)
			}
			if strings.Contains(s, subj) {
				first = append(first, in)
			}
		}
		T.Ins = first
		if okRole {
			c.GuardedByAny("C14.filter", fn, "n.HasRoles(RoleValidator)", []string{`^common/node\.\(\*Node\)\.HasRoles\(\*param:nodes\[.*\],` + itoa(int(roleV)) + `\)$`}, T, "only nodes with the validator role may be validator candidates")
		}
		c.GuardedByAny("C14.filter", fn, "CheckStakeClaims(entity)==nil (or DebugBypassStake)",
			[]string{`staking/state\.\(\*StakeAccumulatorCache\)\.CheckStakeClaims\(param:stakeAcc,staking/api\.NewAddress\(\*+param:nodes\[[^\]]*\]\.EntityID\)\) == nil$`, `^\*param:schedulerParameters\.DebugBypassStake$`}, T,
			"only nodes whose entity's escrow covers all its stake claims may be validator candidates")
		// candidates handed to the shuffle are the filtered ones; the order of entities is by stake
		sh := CallsTo(fn, "shuffleValidators", pkSched+".shuffleValidators", "")
		okSh := len(sh.Calls()) == 1 && strings.Contains(vstr(allArgs(sh.Calls()[0])[4]), "builtin.append(")
		c.Check(okSh, "C14.filter", fname(fn)+":shuffle(filtered validators)", c.P.Pos(fn.Pos()), "shuffleValidators receives the filtered candidate list", "shuffleValidators is not called with the filtered candidate list")
		// insertion into the new set: per-entity and total caps
		ins := mapUpdatesOf(fn, "newValidators[n.Consensus.ID]=…", `^map\[common/crypto/signature\.PublicKey\]\*scheduler/api\.Validator$`)
		c.GuardedByAny("C14.limits", fn, "i < MaxValidatorsPerEntity", []string{`< \*param:schedulerParameters\.MaxValidatorsPerEntity$`}, ins, "at most MaxValidatorsPerEntity validators per entity")
		// after an insertion, another insertion is reachable only through len(newValidators) < MaxValidators
		if !ins.Empty() {
			capEdges := HeldEdges(fn, `^builtin\.len\(make\(map\[common/crypto/signature\.PublicKey\]\*scheduler/api\.Validator\)\) < \*param:schedulerParameters\.MaxValidators$`)
			ok := len(capEdges) > 0
			var hit ssa.Instruction
			if ok {
				for _, i := range ins.Ins {
					if h := Reach(fn, i, nil, anyOf(ins.Ins), NewCut().AddEdges(capEdges...)); h != nil {
						ok, hit = false, h
					}
				}
			}
			site := c.P.InstrPos(ins.Ins[0])
			if hit != nil {
				site = c.P.InstrPos(hit)
			}
			c.Check(ok, "C14.limits", fname(fn)+":len(newValidators)<MaxValidators between insertions", site, "a further validator is inserted only while the set is below MaxValidators", "a validator can be inserted after the set reached MaxValidators (the cap check between insertions is missing or bypassable)")
		}
		// the entity walked is taken from the stake-sorted list and its nodes from the shuffled list
		okOrder := false
		for _, in := range ins.Ins {
			mu := in.(*ssa.MapUpdate)
			s := vstr(mu.Key)
			if strings.Contains(s, "stakingAddressMapToSliceByStake(") && strings.Contains(s, "Consensus.ID") {
				okOrder = true
			}
		}
		c.Check(okOrder, "C14.order", fname(fn)+":walks entities in stakingAddressMapToSliceByStake order", c.P.Pos(fn.Pos()), "the inserted validator is a node of the current entity of the stake-sorted list", "validators are no longer taken by walking the stake-sorted entity list")
		c.SuccessRequiresCond("C14.limits", fn, "len(newValidators) >= MinValidators", `^builtin\.len\(make\(map\[common/crypto/signature\.PublicKey\]\*scheduler/api\.Validator\)\) >= \*param:schedulerParameters\.MinValidators$`, "an election with fewer than MinValidators validators must fail")
		c.SuccessRequiresCond("C14.limits", fn, "len(newValidators) != 0", `^builtin\.len\(make\(map\[common/crypto/signature\.PublicKey\]\*scheduler/api\.Validator\)\) != 0$`, "an empty validator set must fail")
		put := CallsTo(fn, "PutPendingValidators", "consensus/cometbft/apps/scheduler/state.(*MutableState).PutPendingValidators", "")
		okPut := len(put.Calls()) == 1 && strings.HasPrefix(vstr(allArgs(put.Calls()[0])[2]), "make(map[common/crypto/signature.PublicKey]*scheduler/api.Validator)")
		c.Check(okPut, "C14.limits", fname(fn)+":PutPendingValidators(newValidators)", c.P.Pos(fn.Pos()), "the elected set is what is stored as pending", "the pending validator set stored is not the elected set")
		c.successOnlyVia("C14.limits", fn, put, "a successful election stores the pending validator set")
	}

	// ---- (a) electCommitteeMembers
	if fn := c.needFn("C14.filter", pkSched+".electCommitteeMembers"); fn != nil {
		T := mapUpdatesOf(fn, "nodesPerRole[role]+=n", `^map\[scheduler/api\.Role\]\[\]\*common/node\.Node$`)
		c.GuardedByAny("C14.filter", fn, "CheckStakeClaims(entity)==nil (or DebugBypassStake)",
			[]string{`staking/state\.\(\*StakeAccumulatorCache\)\.CheckStakeClaims\(param:stakeAcc,staking/api\.NewAddress\(\*+param:nodes\[[^\]]*\]\.node\.EntityID\)\) == nil$`, `^\*param:schedulerParameters\.DebugBypassStake$`}, T,
			"only nodes whose entity's escrow covers all its stake claims may be committee candidates")
		c.GuardedByAny("C14.filter", fn, "isSuitable(node, runtime, epoch)",
			[]string{`^` + regexp.QuoteMeta(pkSched) + `\.isSuitableExecutorWorker\(param:ctx,\*param:nodes\[[^\]]*\],param:rt,param:epoch,`}, T,
			"only nodes suitable for the runtime (role, active version, not suspended, TEE) may be committee candidates")
		// the constraint that is consulted is the one of the very role whose candidate list is extended
		roleIdx := `.*`
		if !T.Empty() {
			if mu, ok := T.Ins[0].(*ssa.MapUpdate); ok {
				roleIdx = regexp.QuoteMeta(vstr(mu.Key))
			}
		}
		c.GuardedByAny("C14.filter", fn, "validator-set constraint of this role ⇒ entity in validator set",
			[]string{`^\*param:rt\.Constraints\[param:kind\]\[` + roleIdx + `\]\.ValidatorSet == nil$`, `^param:validatorEntities\[staking/api\.NewAddress\(\*+param:nodes\[[^\]]*\]\.node\.EntityID\)\]#1$`}, T,
			"with the validator-set constraint (of the role the node becomes a candidate for) only nodes of validator entities may be candidates")
		c.GuardedByAny("C14.filter", fn, "VRF ⇒ node submitted a proof (or debug force-elect)",
			[]string{`^\*param:beaconParameters\.Backend != "vrf"$`, `^\*param:vrf\.Pi\[\*+param:nodes\[[^\]]*\]\.node\.ID\] != nil$`, `^phi\(\(\*+param:schedulerParameters\.DebugForceElect\[.*\]\.Kind == param:kind\)`}, T,
			"with VRF elections only nodes that submitted a proof may be candidates")
		// the collected element is the node of the loop element
		okEl := !T.Empty()
		for _, in := range T.Ins {
			ap, isCall := in.(*ssa.MapUpdate).Value.(*ssa.Call)
			if !isCall || calleeNameCommon(&ap.Call) != "builtin.append" || !strings.Contains(strings.Join(appendedElems(ap), " "), subj) || !strings.HasSuffix(strings.Join(appendedElems(ap), " "), "].node") {
				okEl = false
			}
		}
		c.Check(okEl, "C14.filter", fname(fn)+":collects the tested node", c.P.Pos(fn.Pos()), "the node collected is the one the tests were applied to", "the node appended to the candidate list is not the loop element the eligibility tests were applied to")
		// sizes
		el := appendsOf(fn, "append(elected|members)", "*scheduler/api.CommitteeNode")
		var elected, members Ev
		for _, in := range el.Ins {
			call := in.(ssa.CallInstruction)
			if !strings.HasPrefix(appendedElems(call)[0], "spread:") {
				elected.Ins = append(elected.Ins, in)
			} else {
				members.Ins = append(members.Ins, in)
			}
		}
		elected.Name, elected.Fn, members.Name, members.Fn = "elected+=node", fn, "members+=elected", fn
		c.GuardedByAny("C14.limits", fn, "nrNodes >= minPoolSize", []string{`^builtin\.len\(phi\(.*\) >= phi\(`}, members, "a role with fewer candidates than MinPoolSize yields no committee")
		c.GuardedByAny("C14.limits", fn, "len(elected) == wantedNodes", []string{`^builtin\.len\(phi\(builtin\.append\(.*\) == make\(map\[scheduler/api\.Role\]int\)\[`}, members, "a committee is returned only with exactly the configured size per role")
		c.GuardedByAny("C14.limits", fn, "len(elected) < wantedNodes", []string{`^builtin\.len\(phi\(builtin\.append\(.*\) < make\(map\[scheduler/api\.Role\]int\)\[`}, elected, "no more than the configured group size is elected")
		c.GuardedByAny("C14.limits", fn, "MaxNodes ⇒ nodesPerEntity[entity] < Limit", []string{`^\*param:rt\.Constraints\[param:kind\]\[.*\]\.MaxNodes == nil$`, `^make\(map\[common/crypto/signature\.PublicKey\]int\)\[.*EntityID\] < int\(`}, elected, "at most MaxNodes committee nodes per entity")
		// the RNG of the entropy election is seeded from the entropy, the runtime id and a role/kind context
		for _, call := range CallsTo(fn, "initRNG", pkSched+".initRNG", "").Calls() {
			a := allArgs(call)
			ok := vstr(a[0]) == "param:entropy" && strings.HasPrefix(vstr(a[1]), "param:rt.ID") && strings.Contains(vstr(a[2]), "RNGContextExecutor") && strings.Contains(vstr(a[2]), "RNGContextRoleWorker") && strings.Contains(vstr(a[2]), "RNGContextRoleBackupWorker")
			c.Check(ok, "C14.entropy", fname(fn)+":initRNG(entropy, runtime id, kind+role context)", c.P.InstrPos(call), "committee RNG is domain-separated by runtime, kind and role", "committee RNG is not seeded from (entropy, runtime id, kind+role context)")
		}
	}

	// ---- (a) isSuitableExecutorWorker: every `return true` requires all tests
	if fn := c.needFn("C14.suitable", pkSched+".isSuitableExecutorWorker"); fn != nil {
		T := boolReturns(fn, "return true", true)
		roleC, okRole := c.ConstInt("common/node", "RoleComputeWorker")
		if okRole {
			c.GuardedByAny("C14.suitable", fn, "HasRoles(RoleComputeWorker)", []string{`^common/node\.\(\*Node\)\.HasRoles\(\*param:n\.node,` + itoa(int(roleC)) + `\)$`}, T, "only compute workers are suitable")
		}
		c.GuardedByAny("C14.suitable", fn, "ActiveDeployment(epoch) != nil", []string{`^registry/api\.\(\*Runtime\)\.ActiveDeployment\(param:rt,param:epoch\) != nil$`}, T, "a runtime without an active deployment has no suitable nodes")
		c.GuardedByAny("C14.suitable", fn, "nrt.ID == rt.ID", []string{`^common\.\(\*Namespace\)\.Equal\(\*+param:n\.node\.Runtimes\[[^\]]*\]\.ID,param:rt\.ID\)$`}, T, "the node must have registered for this runtime")
		c.GuardedByAny("C14.suitable", fn, "nrt.Version == activeDeployment.Version", []string{`^common/version\.\(Version\)\.ToU64\(\*+param:n\.node\.Runtimes\[[^\]]*\]\.Version\) == common/version\.\(Version\)\.ToU64\(\*registry/api\.\(\*Runtime\)\.ActiveDeployment\(param:rt,param:epoch\)\.Version\)$`}, T, "the node must run the active runtime version")
		c.GuardedByAny("C14.suitable", fn, "!status.IsSuspended(rt, epoch)", []string{`^!registry/api\.\(\*NodeStatus\)\.IsSuspended\(\*param:n\.status,\*param:rt\.ID,param:epoch\)$`}, T, "suspended nodes are not suitable")
		c.GuardedByAny("C14.suitable", fn, "TEE: none required and none offered, or hardware matches and attestation verifies",
			[]string{`Capabilities\.TEE == nil$`, `common/node\.\(\*CapabilityTEE\)\.Verify\(.*\) == nil$`}, T, "a TEE runtime accepts only nodes whose attestation verifies")
		c.GuardedByAny("C14.suitable", fn, "TEE hardware matches", []string{`^\*param:rt\.TEEHardware == 0$`, `Capabilities\.TEE\.Hardware == \*param:rt\.TEEHardware$`}, T, "TEE hardware must match the runtime's")
		c.GuardedByAny("C14.suitable", fn, "TEE required ⇒ capability present", []string{`^\*param:rt\.TEEHardware == 0$`, `Capabilities\.TEE != nil$`}, T, "a TEE runtime requires a TEE capability")
		c.Floor("C14.suitable", len(T.Ins), 2, "`return true` sites in isSuitableExecutorWorker")
	}

	// ---- (a) electCommittee: store only non-empty, for this epoch
	if fn := c.needFn("C14.limits", pkSched+".electCommittee"); fn != nil {
		put := CallsTo(fn, "PutCommittee", "consensus/cometbft/apps/scheduler/state.(*MutableState).PutCommittee", "")
		c.GuardedByAny("C14.limits", fn, "len(members) != 0", []string{`^builtin\.len\(` + regexp.QuoteMeta(pkSched) + `\.electCommitteeMembers\(.*\)#0\) != 0$`}, put, "exact committee sizes or no committee at all")
		drop := CallsTo(fn, "DropCommittee", "consensus/cometbft/apps/scheduler/state.(*MutableState).DropCommittee", "")
		c.GuardedByAny("C14.limits", fn, "len(members) == 0", []string{`^builtin\.len\(` + regexp.QuoteMeta(pkSched) + `\.electCommitteeMembers\(.*\)#0\) == 0$`}, drop, "the previous committee is dropped only when none could be elected")
		{
			cut, _ := successCut(union("PutCommittee|DropCommittee", put, drop))
			early := earlyNilReturns(fn)
			var rest []ssa.Instruction
			for _, r := range SuccessReturns(fn) {
				isEarly := false
				for _, e := range early.Ins {
					if e == r {
						isEarly = true
					}
				}
				if !isEarly {
					rest = append(rest, r)
				}
			}
			hit := Reach(fn, nil, nil, anyOf(rest), cut)
			c.Check(len(rest) > 0 && hit == nil, "C14.limits", fname(fn)+":success⇒PutCommittee✓|DropCommittee✓", c.P.Pos(fn.Pos()), "apart from the kind-not-elected early returns, success requires that the new committee was stored or the old one dropped", "a success return of electCommittee is reachable without the committee having been stored or dropped: a stale committee of an earlier epoch would stay in place")
		}
		// the committee stored carries the members and epoch
		okF := false
		for _, fs := range []string{"Members", "ValidFor"} {
			_ = fs
		}
		var mOK, eOK bool
		for _, b := range blocksIP(fn) {
			for _, in := range b.Instrs {
				st, ok := in.(*ssa.Store)
				if !ok {
					continue
				}
				fa, ok := st.Addr.(*ssa.FieldAddr)
				if !ok || namedOf(fa.X.Type()) != "scheduler/api.Committee" {
					continue
				}
				switch fieldName(fa.X.Type(), fa.Field) {
				case "Members":
					mOK = strings.Contains(vstr(st.Val), "electCommitteeMembers(")
				case "ValidFor":
					eOK = vstr(st.Val) == "param:epoch"
				}
			}
		}
		okF = mOK && eOK
		c.Check(okF, "C14.limits", fname(fn)+":Committee{Members: elected, ValidFor: epoch}", c.P.Pos(fn.Pos()), "the stored committee carries the elected members and the epoch", "the stored committee's Members/ValidFor are not the elected members / the election epoch")
	}

	// ---- (b) validator updates
	if fn := c.needFn("C14.diff", pkSched+".updateValidators"); fn != nil {
		diff := CallsTo(fn, "diffValidators", pkSched+".diffValidators", "")
		okD := len(diff.Calls()) == 1
		if okD {
			a := allArgs(diff.Calls()[0])
			okD = strings.Contains(vstr(a[1]), "CurrentValidators(") && strings.Contains(vstr(a[2]), "PendingValidators(")
		}
		c.Check(okD, "C14.diff", fname(fn)+":diffValidators(current, pending)", c.P.Pos(fn.Pos()), "the diff is computed from the tracked current set to the pending set", "the validator diff is not computed from (tracked current set, pending set)")
		putC := CallsArg(fn, "PutCurrentValidators(pending)", "consensus/cometbft/apps/scheduler/state.(*MutableState).PutCurrentValidators", 2, `PendingValidators\(`)
		clr := CallsArg(fn, "PutPendingValidators(nil)", "consensus/cometbft/apps/scheduler/state.(*MutableState).PutPendingValidators", 2, `^nil`)
		// success with updates ⇒ tracked set replaced and pending cleared
		var withUpdates []ssa.Instruction
		for _, r := range Returns(fn) {
			if len(r.Results) == 2 && strings.Contains(vstr(r.Results[0]), "diffValidators(") {
				withUpdates = append(withUpdates, r)
			}
		}
		okR := len(withUpdates) == 1
		c.Check(okR, "C14.diff", fname(fn)+":returns the diff", c.P.Pos(fn.Pos()), "the updates returned are the result of diffValidators", "the updates returned to the consensus engine are not the result of diffValidators")
		for _, ev := range []Ev{putC, clr} {
			okP := !ev.Empty()
			if okP {
				se, found := SuccessEdges(ev.Calls()[0])
				okP = found
				if found {
					for _, r := range withUpdates {
						if Reach(fn, nil, nil, isInstr(r), NewCut().AddEdges(se...)) != nil {
							okP = false
						}
					}
				}
			}
			c.Check(okP, "C14.diff", fname(fn)+":updates returned only after "+ev.Name+" succeeded", c.P.Pos(fn.Pos()), "validator updates are handed out only after "+ev.Name+" succeeded", "validator updates can be returned without "+ev.Name+" having succeeded: the tracked set and the engine's set diverge at the next election")
		}
	}
	if fn := c.needFn("C14.diff", pkSched+".diffValidators"); fn != nil {
		apps := appendsOf(fn, "append(updates)", "github.com/cometbft/cometbft/abci/types.ValidatorUpdate")
		var rem, ups Ev
		rem.Fn, ups.Fn, rem.Name, ups.Name = fn, fn, "removal update", "upsert update"
		for _, in := range apps.Ins {
			call := in.(ssa.CallInstruction)
			s := vstr(call.Common().Args[len(call.Common().Args)-1])
			_ = s
		}
		// classify by the PublicKeyToValidatorUpdate call feeding the append
		for _, call := range CallsTo(fn, "PublicKeyToValidatorUpdate", "consensus/cometbft/api.PublicKeyToValidatorUpdate", "").Calls() {
			a := allArgs(call)
			if k, ok := constInt(a[1]); ok && k == 0 && strings.Contains(vstr(a[0]), "range(param:current)") {
				rem.Ins = append(rem.Ins, call)
			} else if strings.Contains(vstr(a[0]), "range(param:pending)") && strings.Contains(vstr(a[1]), "range(param:pending)") && strings.HasSuffix(vstr(a[1]), ".VotingPower") {
				ups.Ins = append(ups.Ins, call)
			} else {
				c.Fail("C14.diff", fname(fn)+":update shape", c.P.InstrPos(call), "a validator update that is neither (current key, power 0) nor (pending key, its pending power)")
			}
		}
		c.Check(len(apps.Ins) == 2 && len(rem.Ins) == 1 && len(ups.Ins) == 1, "C14.diff", fname(fn)+":one removal and one upsert site", c.P.Pos(fn.Pos()), "updates are built at one removal site (power 0) and one upsert site (pending power)", "the removal/upsert structure of diffValidators changed")
		if len(rem.Ins) == 1 {
			c.GuardedByAny("C14.diff", fn, "key not in pending", []string{`^!param:pending\[next\(range\(param:current\)\)#1\]#1$`}, rem, "exactly the validators absent from the new set are removed")
			// and every current key absent from pending is removed: the only way past the lookup with !ok is the removal
			es := HeldEdges(fn, `^!param:pending\[next\(range\(param:current\)\)#1\]#1$`)
			ok := len(es) > 0 && Reach(fn, nil, es, func(i ssa.Instruction) bool { _, isNext := i.(*ssa.Next); return isNext }, NewCut().AddInstr(rem.Ins...)) == nil
			c.Check(ok, "C14.diff", fname(fn)+":every absent validator is removed", c.P.InstrPos(rem.Ins[0]), "a current validator absent from pending always yields a removal", "a current validator absent from the pending set can be skipped without a removal update")
		}
		if len(ups.Ins) == 1 {
			// skipping a pending validator requires present-with-equal-power
			es1 := HeldEdges(fn, `^!param:current\[next\(range\(param:pending\)\)#1\]#1$`)
			es2 := HeldEdges(fn, `^\*param:current\[next\(range\(param:pending\)\)#1\]#0\.VotingPower != \*next\(range\(param:pending\)\)#2\.VotingPower$`)
			ok := len(es1) > 0 && len(es2) > 0
			if ok {
				for _, es := range [][]Edge{es1, es2} {
					if Reach(fn, nil, es, func(i ssa.Instruction) bool { _, isNext := i.(*ssa.Next); return isNext }, NewCut().AddInstr(ups.Ins...)) != nil {
						ok = false
					}
				}
			}
			c.Check(ok, "C14.diff", fname(fn)+":new or changed validators are upserted", c.P.InstrPos(ups.Ins[0]), "a pending validator that is new or whose power changed always yields an upsert", "a pending validator that is new or whose voting power changed can be skipped without an update")
		}
	}

	// ---- (c) entropy confinement and ordering
	for _, callee := range []string{"math/rand.New", "common/crypto/drbg.New", "common/crypto/mathrand.New"} {
		// within the scheduler application only initRNG may construct generators
		n := 0
		for _, s := range ix.Calls[callee] {
			if short(fpkgPath(s.Fn)) != pkSched {
				continue
			}
			n++
			c.Check(fname(s.Fn) == pkSched+".initRNG", "C14.entropy", callee+"<-"+fname(s.Fn), c.P.InstrPos(s.In), "generator constructed in initRNG", "random generator constructed outside initRNG in the scheduler application: elections must draw only from the DRBG seeded with the epoch entropy")
		}
		c.Floor("C14.entropy", n, 1, "constructions of "+callee+" in the scheduler application")
	}
	if fn := c.needFn("C14.entropy", pkSched+".initRNG"); fn != nil {
		d := CallsTo(fn, "drbg.New", "common/crypto/drbg.New", "")
		ok := len(d.Calls()) == 1
		if ok {
			a := allArgs(d.Calls()[0])
			ok = vstr(a[1]) == "param:entropy" && vstr(a[2]) == "param:nonce" && vstr(a[3]) == "param:context"
		}
		c.Check(ok, "C14.entropy", fname(fn)+":DRBG(entropy, nonce, context)", c.P.Pos(fn.Pos()), "the DRBG is instantiated from the entropy, nonce and context given", "initRNG does not instantiate the DRBG from its entropy/nonce/context parameters")
		m := CallsTo(fn, "mathrand.New", "common/crypto/mathrand.New", "")
		r := CallsTo(fn, "rand.New", "math/rand.New", "")
		ok2 := len(m.Calls()) == 1 && len(r.Calls()) == 1 && strings.Contains(vstr(allArgs(m.Calls()[0])[0]), "drbg.New(") && strings.Contains(vstr(allArgs(r.Calls()[0])[0]), "mathrand.New(")
		c.Check(ok2, "C14.entropy", fname(fn)+":rand.New(mathrand.New(drbg))", c.P.Pos(fn.Pos()), "the generator returned draws from the DRBG", "the generator returned by initRNG does not draw from the DRBG")
	}
	// callers of initRNG pass their entropy parameter
	nInit := 0
	for _, s := range ix.Calls[pkSched+".initRNG"] {
		nInit++
		a := allArgs(s.In.(ssa.CallInstruction))
		c.Check(vstr(a[0]) == "param:entropy", "C14.entropy", "initRNG<-"+fname(s.Fn)+":entropy", c.P.InstrPos(s.In), "seeded with the caller's entropy parameter", "initRNG is seeded with something other than the epoch entropy handed down from elect")
	}
	c.Floor("C14.entropy", nInit, 3, "initRNG call sites")
	rulesC14Round2(c)
	// no use of the global math/rand source in the scheduler application or scheduler/api
	nGlob := 0
	for callee, sites := range ix.Calls {
		if !strings.HasPrefix(callee, "math/rand.") || strings.HasPrefix(callee, "math/rand.(") || callee == "math/rand.New" || callee == "math/rand.NewSource" || callee == "math/rand.init" {
			continue
		}
		for _, s := range sites {
			pp := short(fpkgPath(s.Fn))
			if pp == pkSched || pp == "scheduler/api" {
				nGlob++
				c.Fail("C14.entropy", callee+"<-"+fname(s.Fn), c.P.InstrPos(s.In), "the process-global math/rand source is used in election code: replicas would elect different sets")
			}
		}
	}
	if nGlob == 0 {
		c.OK("C14.entropy", "no global math/rand in election code", "", "no call of a top-level math/rand function in "+pkSched+" or scheduler/api")
	}
	if fn := c.needFn("C14.order", pkSched+".stakingAddressMapToSliceByStake"); fn != nil {
		sortA := CallsTo(fn, "sortAddresses", pkSched+".sortAddresses", "")
		shuf := CallsTo(fn, "shuffleAddresses", pkSched+".shuffleAddresses", "")
		byBal := CallsTo(fn, "sortAddressesByBalance", pkSched+".sortAddressesByBalance", "")
		c.MustPrecede("C14.order", fn, sortA, shuf, "addresses collected from a map must be put in a canonical order before the seeded shuffle")
		c.MustPrecede("C14.order", fn, shuf, byBal, "ties in stake are broken by the seeded shuffle, so the stable sort by stake comes after it")
		{
			cut := NewCut().AddInstr(byBal.Ins...).AddEdges(HeldEdges(fn, `^\*param:schedulerParameters\.DebugBypassStake$`)...)
			hit := Reach(fn, nil, nil, anyOf(SuccessReturns(fn)), cut)
			c.Check(!byBal.Empty() && hit == nil, "C14.order", fname(fn)+":success⇒sorted by stake (or DebugBypassStake)", c.P.Pos(fn.Pos()), "every success return passes the sort by descending stake", "the entity list can be returned without having been sorted by stake")
		}
		rng := CallsTo(fn, "initRNG", pkSched+".initRNG", "")
		okR := len(rng.Calls()) == 1 && strings.Contains(vstr(allArgs(rng.Calls()[0])[2]), "RNGContextEntities")
		c.Check(okR, "C14.entropy", fname(fn)+":initRNG(entropy, nil, RNGContextEntities)", c.P.Pos(fn.Pos()), "entity tie-break shuffle has its own RNG context", "the entity shuffle RNG context changed")
	}
	if fn := c.needFn("C14.order", pkSched+".sortAddressesByBalance"); fn != nil {
		st := CallsTo(fn, "sort.SliceStable", "sort.SliceStable", "")
		c.Check(len(st.Calls()) == 1, "C14.order", fname(fn)+":stable sort", c.P.Pos(fn.Pos()), "the sort by stake is stable (keeps the shuffled order of ties)", "the sort by stake is no longer sort.SliceStable: ties would not follow the seeded shuffle")
		// comparator: descending
		okCmp := false
		for _, an := range anonFuncs(fn) {
			for _, r := range Returns(an) {
				if len(r.Results) != 1 {
					continue
				}
				okCmp = descendingCmp(r.Results[0], an)
			}
		}
		c.Check(okCmp, "C14.order", fname(fn)+":comparator is descending", c.P.Pos(fn.Pos()), "less(i,j) ⇔ balance[i] > balance[j]", "the stake comparator is not `balance[i] > balance[j]`: validators would not be taken in descending stake order")
	}
	if fn := c.needFn("C14.order", pkSched+".distributeRewards"); fn != nil {
		c.MustPrecede("C14.order", fn, CallsTo(fn, "sortAddresses", pkSched+".sortAddresses", ""), CallsTo(fn, "AddRewards", "consensus/cometbft/apps/staking/state.(*MutableState).AddRewards", ""), "reward recipients collected from a map are sorted before rewards are applied")
	}
}

// earlyNilReturns: return sites of fn reachable without passing the member
// election (the kind is not elected for this runtime).
func earlyNilReturns(fn *ssa.Function) Ev {
	ev := Ev{Name: "early return nil", Fn: fn}
	el := CallsTo(fn, "electCommitteeMembers", pkSched+".electCommitteeMembers", "")
	if el.Empty() {
		return ev
	}
	cut := NewCut().AddInstr(el.Ins...)
	for _, r := range Returns(fn) {
		if Reach(fn, nil, nil, isInstr(r), cut) != nil {
			ev.Ins = append(ev.Ins, r)
		}
	}
	return ev
}

// descendingCmp: v is `x.Cmp(y) == 1 | > 0` with x indexed by the first and y
// by the second parameter of the comparator, or the mirrored form.
func descendingCmp(v ssa.Value, an *ssa.Function) bool {
	bo, ok := v.(*ssa.BinOp)
	if !ok || len(an.Params) != 2 {
		return false
	}
	bx, bop, by := cmpConstRight(bo)
	call, ok := bx.(*ssa.Call)
	k, kok := constInt(by)
	if !ok || !kok || !strings.HasSuffix(calleeNameCommon(&call.Call), "quantity.(*Quantity).Cmp") {
		return false
	}
	pi, pj := "param:"+pname(an.Params[0]), "param:"+pname(an.Params[1])
	x, y := vstr(call.Call.Args[0]), vstr(call.Call.Args[1])
	ij := strings.Contains(x, pi) && !strings.Contains(x, pj) && strings.Contains(y, pj) && !strings.Contains(y, pi)
	ji := strings.Contains(x, pj) && !strings.Contains(x, pi) && strings.Contains(y, pi) && !strings.Contains(y, pj)
	greater := (bop == token.EQL && k == 1) || (bop == token.GTR && k == 0) || (bop == token.GEQ && k == 1)
	less := (bop == token.EQL && k == -1) || (bop == token.LSS && k == 0) || (bop == token.LEQ && k == -1)
	return (ij && greater) || (ji && less)
}

package main

import (
	"go/types"
	"strings"

	"golang.org/x/tools/go/ssa"
)

// Round-3 rules of C12 and C13 (written after seeds C12/7..9 and C13/7..9 were missed).

func c12Round3(c *Ctx) {
	const pk = "storage/mkvs/checkpoint"
	// (a) parallel chunker: splitting a task whose subroot's children have not been visited yet (states visitBefore and
	// visitAt) hands BOTH children over to new tasks; a split that delegates only one of them (keeping the task "for the
	// other", whose pending list is empty in these states) leaves that subtree out of every chunk.
	if fn := c.needFn("C12.determinism", pk+".(*subtree).split"); fn != nil {
		c.Analysed[fname(fn)] = true
		var add *ssa.Function
		for _, a := range fn.AnonFuncs {
			if len(findCalls(a, "storage/mkvs/db/api.(NodeDB).GetNode")) > 0 {
				add = a
			}
		}
		// success returns of the accumulated task list (not the "leave the task as it is" returns)
		var rets []ssa.Instruction
		for _, r := range Returns(fn) {
			if len(r.Results) != 2 || !isNilConst(r.Results[1]) {
				continue
			}
			if u, ok := r.Results[0].(*ssa.UnOp); ok {
				if _, isAlloc := u.X.(*ssa.Alloc); isAlloc {
					rets = append(rets, r)
				}
			}
		}
		if add == nil || len(rets) == 0 {
			c.Fail("C12.determinism", fname(fn)+":unvisited children are both delegated", c.P.Pos(fn.Pos()), "the task-creating closure (GetNode of the child) or the return of the task list was not found in split (unresolved anchor)")
		} else {
			for _, st := range []string{"visitBefore", "visitAt"} {
				k, ok := c.ConstInt(pk, st)
				if !ok {
					c.Fail("C12.determinism", fname(fn)+":"+st, c.P.Pos(fn.Pos()), "constant "+st+" not found")
					continue
				}
				start := HeldEdges(fn, `\.visitState == `+itoa(int(k))+`$`)
				for _, child := range []string{"Left", "Right"} {
					var calls []ssa.Instruction
					for _, call := range callsIn(fn) {
						if call.Common().StaticCallee() != add {
							// closure call: callee value is a MakeClosure of add
							mc, ok := call.Common().Value.(*ssa.MakeClosure)
							if !ok || mc.Fn != ssa.Value(add) {
								continue
							}
						}
						if args := call.Common().Args; len(args) == 2 && strings.HasSuffix(vstr(args[1]), "."+child) {
							calls = append(calls, call)
						}
					}
					inst := fname(fn) + ":" + st + "⇒" + child + " child handed to a new task"
					if len(start) == 0 || len(calls) == 0 {
						c.Fail("C12.determinism", inst, c.P.Pos(fn.Pos()), "the branch for state "+st+" or the delegation of nd."+child+" was not found ("+itoa(len(start))+" branches, "+itoa(len(calls))+" calls)")
						continue
					}
					hit := Reach(fn, nil, start, anyOf(rets), NewCut().AddInstr(calls...))
					pos := c.P.InstrPos(calls[0])
					if hit != nil {
						pos = c.P.InstrPos(hit)
					}
					c.Check(hit == nil, "C12.determinism", inst, pos, "every split of a task in state "+st+" that returns new tasks has created one for nd."+child, "a task whose subroot is in state "+st+" (children not visited yet) can be split without a new task for nd."+child+": that subtree is in no chunk; the checkpoint restores and finalizes without error but its keys are unreadable")
				}
			}
		}
	}

	// (b) sequential chunker: the chunk written is the proof the iterator built (for an empty tree: the one-entry proof
	// of the empty root), never a proof made up on the side.
	if fn := c.needFn("C12.determinism", pk+".(*seqChunker).createChunk"); fn != nil {
		c.Analysed[fname(fn)] = true
		n := 0
		for _, call := range findCalls(fn, pk+".writeChunk") {
			n++
			ok := false
			if ex, isEx := unspill(allArgs(call)[0]).(*ssa.Extract); isEx && ex.Index == 0 {
				if cl, isCall := ex.Tuple.(*ssa.Call); isCall && strings.HasSuffix(calleeName(cl), ".GetProof") {
					ok = true
				}
			}
			c.Check(ok, "C12.determinism", fname(fn)+":the chunk written is the iterator's proof", c.P.InstrPos(call), "writeChunk is given the result of it.GetProof()", "createChunk writes a proof that is not the one built by the iterator (e.g. an empty proof on a shortcut): the restorer rejects the genuine chunk (an empty tree's chunk must hold the nil entry)")
		}
		if n == 0 {
			c.Fail("C12.determinism", fname(fn)+":the chunk written is the iterator's proof", c.P.Pos(fn.Pos()), "no writeChunk call found in createChunk")
		}
	}

	// (c) restorer: RestoreChunk tells "my restore is still the current one" by the identity of the metadata object
	// (F30). The object stored by StartRestore must therefore be distinct per restore: the caller's object or a new
	// allocation, never storage that belongs to the restorer itself (all restores would share one address).
	if fn := c.needFn("C12.restore", pk+".(*restorer).StartRestore"); fn != nil {
		c.Analysed[fname(fn)] = true
		sts := StoresTo(fn, "", pk+".restorer.currentCheckpoint")
		n := 0
		for _, in := range sts.Ins {
			v := in.(*ssa.Store).Val
			if isNilConst(v) {
				continue
			}
			n++
			ok := true
			why := ""
			switch x := v.(type) {
			case *ssa.FieldAddr, *ssa.IndexAddr:
				ok, why = false, "the address of a part of "+vstr(x)
			case *ssa.Alloc:
				if !x.Heap {
					ok, why = false, "a stack slot"
				}
			}
			if ok {
				for _, r := range Roots(v) {
					if r.Kind == "param" && r.Name == pname(fn.Params[0]) {
						ok, why = false, "storage reachable from the restorer ("+r.String()+")"
					}
				}
			}
			c.Check(ok, "C12.restore", fname(fn)+":each restore is identified by a distinct metadata object", c.P.InstrPos(in), "currentCheckpoint is set to the caller's metadata object (or a new allocation)", "currentCheckpoint is set to "+why+": every restore gets the same address, RestoreChunk's identity test cannot tell an aborted restore from the next one and accounts a straggler chunk of the aborted restore in the new one (done reported with a chunk never imported)")
		}
		if n == 0 {
			c.Fail("C12.restore", fname(fn)+":each restore is identified by a distinct metadata object", c.P.Pos(fn.Pos()), "no store to currentCheckpoint found in StartRestore")
		}
	}
}

func c13Round3(c *Ctx) {
	const pk = "storage/mkvs"
	// (a) pending changes are forgotten only once they are durable (shared with C02.mutate): a failed batch.Commit must
	// leave the write-log summaries in place, otherwise the next commit stores a log that covers only what came after.
	if fn := c.needFn("C13.writelog", pk+".(*tree).commitWithHooks"); fn != nil {
		bc := CallsTo(fn, "batch.Commit", "storage/mkvs/db/api.(Batch).Commit", "")
		clr := union("pending-reset", StoresTo(fn, "", pk+".tree.pendingWriteLog"), StoresTo(fn, "", pk+".tree.pendingRemovedNodes"))
		clr.Name, clr.Fn = "t.pendingWriteLog/pendingRemovedNodes=", fn
		c.MustPrecede("C13.writelog", fn, bc, clr, "pending write-log summaries are forgotten only after the database commit succeeded (a failed commit is followed by another one with the same pending changes)")
	}

	// (b) a removal is never annotated with an inserted leaf: either commitWithHooks takes the annotation's leaf only
	// under value != nil, or RemoveExisting clears the summary's insertedLeaf whenever it sets the value to nil. (Each
	// alone suffices; a removal annotated with a stale leaf is served by the database as an insert of the old value.)
	{
		a, b := false, false
		var siteA, siteB string
		if fn := c.needFn("C13.writelog", pk+".(*tree).commitWithHooks"); fn != nil {
			var uses []ssa.Instruction
			for _, st := range StoresTo(fn, "", "storage/mkvs/writelog.LogEntryAnnotation.InsertedNode").Ins {
				if strings.HasSuffix(vstr(st.(*ssa.Store).Val), ".insertedLeaf") {
					uses = append(uses, st)
				}
			}
			if len(uses) > 0 {
				siteA = c.P.InstrPos(uses[0])
				cut := NewCut().AddEdges(HeldEdges(fn, `\.value != nil$`)...)
				a = Reach(fn, nil, nil, anyOf(uses), cut) == nil
			}
		}
		if fn := c.needFn("C13.writelog", pk+".(*tree).RemoveExisting"); fn != nil {
			var setNil, clearLeaf []ssa.Instruction
			for _, st := range StoresTo(fn, "", pk+".pendingEntry.value").Ins {
				s := st.(*ssa.Store)
				if isNilConst(s.Val) {
					if _, fresh := s.Addr.(*ssa.FieldAddr).X.(*ssa.Alloc); !fresh {
						setNil = append(setNil, st)
					}
				}
			}
			for _, st := range StoresTo(fn, "", pk+".pendingEntry.insertedLeaf").Ins {
				if isNilConst(st.(*ssa.Store).Val) {
					clearLeaf = append(clearLeaf, st)
				}
			}
			if len(setNil) > 0 {
				siteB = c.P.InstrPos(setNil[0])
				// every success exit that set an existing summary's value to nil also cleared its leaf
				b = len(clearLeaf) > 0
				for _, s := range setNil {
					if Reach(fn, s, nil, anyOf(SuccessReturns(fn)), NewCut().AddInstr(clearLeaf...)) != nil {
						// the clearing may also precede the value store in the same block
						pre := false
						for _, cl := range clearLeaf {
							if cl.Block() == s.Block() {
								pre = true
							}
						}
						if !pre {
							b = false
						}
					}
				}
			}
		}
		site := siteA
		if site == "" {
			site = siteB
		}
		c.Check(a || b, "C13.writelog", pk+":a removal is never annotated with an inserted leaf", site, "annotation leaf taken only under value != nil: "+boolStr(a)+"; RemoveExisting clears insertedLeaf with the value: "+boolStr(b), "neither does commitWithHooks restrict the annotation's inserted leaf to entries with a value, nor does RemoveExisting clear the pending summary's insertedLeaf when it turns an insert into a removal: Insert(k) then Remove(k) in one batch is stored with the stale leaf and the database serves insert(k = old value) instead of delete(k)")
	}

	// (c) the storage backend serves, for a (start root, end root) request, the node database's write log for exactly
	// these two roots: every successful GetDiff passes ndb.GetWriteLog(request.StartRoot, request.EndRoot).
	if fn := c.needFn("C13.hops", "storage/database.(*databaseBackend).GetDiff"); fn != nil {
		ev := Ev{Name: "ndb.GetWriteLog(request.StartRoot, request.EndRoot)", Fn: fn}
		for _, call := range callsIn(fn) {
			if !strings.HasSuffix(calleeName(call), ".GetWriteLog") {
				continue
			}
			args := call.Common().Args
			if len(args) >= 3 && strings.HasSuffix(vstr(args[len(args)-2]), ".StartRoot") && strings.HasSuffix(vstr(args[len(args)-1]), ".EndRoot") {
				ev.Ins = append(ev.Ins, call)
			}
		}
		c.successOnlyVia("C13.hops", fn, ev, "the served write log is the database's log for the requested pair of roots (no answer remembered for a different start root)")
	}
}

var _ = types.Typ

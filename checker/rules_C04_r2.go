package main

import (
	"strings"

	"golang.org/x/tools/go/ssa"
)

// Round-2 C04 rules.

// c04Prefix — a prefix fetch positions the iterator at each requested prefix.
// In SyncGetPrefixes the proof is whatever the shared iterator visits. The proof "determines the true value or the
// true absence of every key it was asked about" only if, for every requested prefix, the iterator is first positioned
// at that prefix: any use of the iterator's position (Valid/Key/Value/Next) that can be reached in a loop iteration
// before Seek(prefix) has been called for this iteration's prefix depends on where the previous prefix left the
// iterator, so for some order of (nested) prefixes the visited range starts late.
func c04Prefix(c *Ctx) {
	const rule = "C04.prefix"
	fn := c.needFn(rule, "storage/mkvs.(*tree).SyncGetPrefixes")
	if fn == nil {
		return
	}
	c.Analysed[fname(fn)] = true
	isIt := func(call ssa.CallInstruction, names ...string) bool {
		n := calleeName(call)
		for _, m := range names {
			if n == "storage/mkvs.(Iterator)."+m || strings.HasSuffix(n, "Iterator)."+m) {
				return true
			}
		}
		return false
	}
	var seeks, uses []ssa.Instruction
	var elems []ssa.Instruction
	for _, call := range callsIn(fn) {
		if isIt(call, "Seek") {
			seeks = append(seeks, call)
			// the definition of the sought prefix (the range element of this iteration)
			args := allArgs(call)
			if len(args) >= 2 {
				v := args[1]
				for {
					if ct, ok := v.(*ssa.ChangeType); ok {
						v = ct.X
						continue
					}
					if cv, ok := v.(*ssa.Convert); ok {
						v = cv.X
						continue
					}
					break
				}
				if in, ok := v.(ssa.Instruction); ok && strings.Contains(vstr(v), "param:request.Prefixes") {
					elems = append(elems, in)
				}
			}
		} else if isIt(call, "Valid", "Key", "Value", "Next") {
			uses = append(uses, call)
		}
	}
	inst := fname(fn) + ":each requested prefix is sought before the iterator position is used"
	if len(seeks) == 0 || len(uses) == 0 || len(elems) == 0 {
		c.Fail(rule, inst, c.P.Pos(fn.Pos()), "Seek of the requested prefix / uses of the iterator position not found in SyncGetPrefixes (seeks="+itoa(len(seeks))+", uses="+itoa(len(uses))+", prefix elements="+itoa(len(elems))+")")
		return
	}
	ok := true
	var at ssa.Instruction
	for _, e := range elems {
		if hit := Reach(fn, e, nil, anyOf(uses), NewCut().AddInstr(seeks...)); hit != nil {
			ok, at = false, hit
		}
	}
	site := c.P.InstrPos(seeks[0])
	if at != nil {
		site = c.P.InstrPos(at)
	}
	c.Check(ok, rule, inst, site, "in every iteration of the prefix loop Seek(prefix) precedes every use of the iterator position ("+itoa(len(uses))+" uses)", "the iterator's position is used for a requested prefix before Seek(prefix) was called in that iteration: the range visited for this prefix starts where the previous prefix left the iterator, and for nested or unsorted prefixes the proof omits keys it was asked about")
}

// c04WriteLogSource — what VerifyProofToWriteLog reports is collected only while hashing.
// The key/value pairs handed to the caller must be exactly those of nodes whose hash went into the recomputed root.
// The verifier collects them inside verifyProof at the place where the node is linked into the hashed structure;
// any other producer (re-decoding proof entries, collecting after the fact) can report bytes the verifier never
// hashed (e.g. the inline leaf of a version-1 entry, which the verifier overrides).
func c04WriteLogSource(c *Ctx, ix *Index) {
	const rule = "C04.writelog"
	c.WhoMayCall(ix, rule, "storage/mkvs/syncer.(*verifyResult).addLeafToWriteLog", []string{"storage/mkvs/syncer.(*ProofVerifier).verifyProof"}, "the write log of a verified proof is collected only inside the hashing recursion")
	c.WhoMayStore(ix, rule, "storage/mkvs/syncer.verifyResult.writeLog", []string{"storage/mkvs/syncer.(*verifyResult).addLeafToWriteLog"}, "the write log of a verified proof is appended to only by addLeafToWriteLog")
	// the returned log is the verifier's result, and the verification is asked to collect it
	if fn := c.needFn(rule, "storage/mkvs/syncer.(*ProofVerifier).VerifyProofToWriteLog"); fn != nil {
		c.Analysed[fname(fn)] = true
		good := 0
		for _, r := range Returns(fn) {
			if len(r.Results) != 2 || isNilConst(r.Results[0]) {
				continue
			}
			if strings.Contains(vstr(r.Results[0]), "verifyProofOpts(") && strings.HasSuffix(vstr(r.Results[0]), ".writeLog") {
				good++
			} else {
				good = -100
			}
		}
		c.Check(good > 0, rule, fname(fn)+":returns the verifier's own write log", c.P.Pos(fn.Pos()), "every non-nil result is verifyProofOpts(...).writeLog", "VerifyProofToWriteLog returns a write log that is not (only) the one collected by the verifier while hashing")
	}
}

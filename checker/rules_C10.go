package main

import (
	"go/constant"
	"go/token"
	"go/types"
	"sort"
	"strings"

	"golang.org/x/tools/go/ssa"
)

func init() { register("C10", rulesC10) }

// nonZeroConstQuantity: v is a *Quantity provably non-zero: NewFromUint64(c>0),
// or a load of a package-level variable initialised that way.
func nonZeroConstQuantity(p *Prog, v ssa.Value, depth int) bool {
	if depth > 6 {
		return false
	}
	switch x := v.(type) {
	case *ssa.Call:
		n := calleeNameCommon(&x.Call)
		if n == "common/quantity.NewFromUint64" {
			if k, ok := constInt(x.Call.Args[0]); ok && k != 0 {
				return true
			}
			if kc, ok := x.Call.Args[0].(*ssa.Const); ok && kc.Value != nil && kc.Value.Kind() == constant.Int && constant.Sign(kc.Value) != 0 {
				return true
			}
		}
		if n == "common/quantity.(*Quantity).Clone" {
			return nonZeroConstQuantity(p, x.Call.Args[0], depth+1)
		}
	case *ssa.UnOp:
		if x.Op == token.MUL {
			return nonZeroConstQuantity(p, x.X, depth+1)
		}
	case *ssa.Global:
		// find the initialiser store in the package init
		if x.Pkg == nil {
			return false
		}
		init := x.Pkg.Func("init")
		if init == nil {
			return false
		}
		for _, b := range init.Blocks {
			for _, in := range b.Instrs {
				if st, ok := in.(*ssa.Store); ok && st.Addr == ssa.Value(x) {
					return nonZeroConstQuantity(p, st.Val, depth+1)
				}
			}
		}
	case *ssa.Alloc:
		if sv := singleStore(x); sv != nil {
			return nonZeroConstQuantity(p, sv, depth+1)
		}
	case *ssa.Phi:
		for _, e := range x.Edges {
			if !nonZeroConstQuantity(p, e, depth+1) {
				return false
			}
		}
		return len(x.Edges) > 0
	}
	return false
}

// zeroGuarded: the instruction is dominated by a branch establishing d != 0.
func zeroGuarded(d ssa.Value, at ssa.Instruction) (bool, string) {
	for _, h := range heldCondVals(at) {
		cond, pol := stripNot(h.Cond, h.Pol)
		switch x := cond.(type) {
		case *ssa.Call:
			n := calleeNameCommon(&x.Call)
			if (strings.HasSuffix(n, ".IsZero") || strings.HasSuffix(n, ".IsEmpty")) && !pol && len(x.Call.Args) > 0 && sameValue(derefVal(x.Call.Args[0]), derefVal(d), 0) {
				return true, "!" + vstrShort(x)
			}
		case *ssa.BinOp:
			// unsigned range idiom: `other < d` (or `other >= d` failing) implies d > 0
			if isUnsigned(x.X.Type()) && isUnsigned(x.Y.Type()) {
				dx, dy := sameValue(x.X, d, 0), sameValue(x.Y, d, 0)
				switch {
				case dy && (x.Op == token.LSS && pol || x.Op == token.GEQ && !pol),
					dx && (x.Op == token.GTR && pol || x.Op == token.LEQ && !pol):
					return true, vstrShort(cond) + " (unsigned)"
				}
			}
			for _, pair := range [][2]ssa.Value{{x.X, x.Y}, {x.Y, x.X}} {
				k, isC := pair[1].(*ssa.Const)
				if !isC || k.Value == nil || k.Value.Kind() != constant.Int || constant.Sign(k.Value) != 0 {
					continue
				}
				if !sameValue(pair[0], d, 0) && !lenOfSame(pair[0], d) {
					continue
				}
				switch {
				case x.Op == token.NEQ && pol, x.Op == token.EQL && !pol,
					x.Op == token.GTR && pair[0] == x.X && pol, x.Op == token.LSS && pair[0] == x.Y && pol,
					x.Op == token.LEQ && pair[0] == x.X && !pol, x.Op == token.GEQ && pair[0] == x.Y && !pol:
					return true, vstrShort(cond)
				}
			}
		}
	}
	return false, ""
}

func isUnsigned(t types.Type) bool {
	b, ok := t.Underlying().(*types.Basic)
	return ok && b.Info()&types.IsUnsigned != 0
}

func derefVal(v ssa.Value) ssa.Value {
	if u, ok := v.(*ssa.UnOp); ok && u.Op == token.MUL {
		return u.X
	}
	return v
}

// lenOfSame: a is len(x) and d is uint64(len(x)) / a conversion of the same len.
func lenOfSame(a, d ssa.Value) bool {
	strip := func(v ssa.Value) ssa.Value {
		for {
			switch x := v.(type) {
			case *ssa.Convert:
				v = x.X
			case *ssa.ChangeType:
				v = x.X
			default:
				return v
			}
		}
	}
	return sameValue(strip(a), strip(d), 0)
}

func rulesC10(c *Ctx) {
	c.Explain = append(c.Explain,
		"C10 (no block content can halt block execution) — decided: (a) DIVGUARD: every division on the consensus execution cone (Quantity.Quo, math/big quotient/modulus, integer / and %) has a divisor that is a non-zero constant, is dominated by a zero test on that same value, or is a reviewed table row stating why it cannot be zero; (b) in the multiplexer, a transaction error is turned into a failed result and DeliverTx panics only for unavailable-state errors; CheckTx never panics; decode failures return before any application is called; PrepareProposal/ProcessProposal recover from panics and re-panic only for the upgrade stop; (c) exhaustiveness: every outcome the commitment pool can report is handled by the round-finalisation switch without being returned as an error from EndBlock; (d) explicit panic sites reachable from transaction handlers are inventoried (reported, not armed).",
		"(round 2) C10.usub: every subtraction of two unsigned values in the packages that run during block execution is dominated by the matching comparison of the same values (or cannot wrap by construction, or is a reviewed row); C10.timeout: every store to RuntimeState.NextTimeout is followed on every success path by rearmRoundTimeout (the round-timeout queue mirrors the field; a stale entry is a fatal EndBlock error); C10.support: debonding delegations are merged only by the state setter (support for the reviewed debonding pay-out row).",
		"NOT decided (the bulk of the property): that no arithmetic or state combination makes BeginBlock/EndBlock return an error (reward overflow, tally exceeding total stake, election failure — the documented precondition); value-dependent.")
	g := c.P.CallGraph()
	entries := abciEntries(c.P, g)
	cone, parent := g.Cone(entries, outsideConeUniverse)
	c.Extra["cone_functions"] = len(cone)
	c.Floor("C10.cone", len(cone), 800, "functions on the execution cone")

	// ---- (a) DIVGUARD
	nDiv := 0
	for _, f := range cone {
		pp := short(fpkgPath(f))
		if pp == "common/quantity" || strings.HasPrefix(pp, "common/crypto") {
			continue // the primitives themselves (Quo checks for zero and returns an error)
		}
		for _, b := range f.Blocks {
			for _, in := range b.Instrs {
				var d ssa.Value
				what := ""
				switch x := in.(type) {
				case ssa.CallInstruction:
					n := calleeName(x)
					args := allArgs(x)
					switch {
					case n == "common/quantity.(*Quantity).Quo":
						d, what = args[1], "Quantity.Quo"
					case strings.HasPrefix(n, "math/big.(*Int).") && (strings.HasSuffix(n, ".Quo") || strings.HasSuffix(n, ".Div") || strings.HasSuffix(n, ".Mod") || strings.HasSuffix(n, ".Rem") || strings.HasSuffix(n, ".QuoRem") || strings.HasSuffix(n, ".DivMod")):
						d, what = args[2], n[len("math/big."):]
					}
				case *ssa.BinOp:
					if x.Op != token.QUO && x.Op != token.REM {
						continue
					}
					bt, ok := x.X.Type().Underlying().(*types.Basic)
					if !ok || bt.Info()&types.IsInteger == 0 {
						continue
					}
					if k, isC := x.Y.(*ssa.Const); isC && k.Value != nil && constant.Sign(k.Value) != 0 {
						continue // non-zero constant divisor
					}
					d, what = x.Y, "integer "+x.Op.String()
				}
				if d == nil {
					continue
				}
				nDiv++
				c.Analysed[fname(f)] = true
				key := fname(f) + " " + what + " by " + vstrShort(d)
				// Quantity.Quo returns an error on zero (no panic); it is fatal only when the error propagates out of Begin/EndBlock.
				if what == "Quantity.Quo" || strings.HasPrefix(what, "(*Int)") {
					if nonZeroConstQuantity(c.P, d, 0) {
						c.OK("C10.divguard", key, c.P.InstrPos(in), "divisor is a non-zero constant")
						continue
					}
				}
				if lenPlusPositive(d) {
					c.OK("C10.divguard", key, c.P.InstrPos(in), "divisor is a length plus a positive constant")
					continue
				}
				if ok, by := zeroGuarded(d, in); ok {
					c.OK("C10.divguard", key, c.P.InstrPos(in), "divisor is checked non-zero: "+by)
					continue
				}
				if src := quantitySource(d); src != nil {
					if ok, by := zeroGuarded(src, in); ok {
						c.OK("C10.divguard", key, c.P.InstrPos(in), "divisor is built from a value checked non-zero: "+by)
						continue
					}
				}
				if reason, ok := c.Tabled("divisors", key); ok {
					c.TabledOK("C10.divguard", key, c.P.InstrPos(in), reason)
					continue
				}
				// the divisor is a parameter of a new helper (ip.go) that several functions call: every one of the
				// call sites hands it a value that is checked non-zero there
				if pa, isParam := derefVal(d).(*ssa.Parameter); isParam && NewFns[f] && len(helperSites[f]) > 1 {
					all := true
					for _, site := range helperSites[f] {
						args := site.Common().Args
						okSite := false
						for i, q := range f.Params {
							if q == pa && i < len(args) {
								if g, _ := zeroGuarded(args[i], site); g {
									okSite = true
								} else if src := quantitySource(args[i]); src != nil {
									if g, _ := zeroGuarded(src, site); g {
										okSite = true
									}
								}
							}
						}
						if !okSite {
							all = false
						}
					}
					if all {
						c.OK("C10.divguard", key, c.P.InstrPos(in), "divisor is a helper parameter; the argument is checked non-zero at each of the "+itoa(len(helperSites[f]))+" call sites")
						continue
					}
				}
				c.Fail("C10.divguard", key, c.P.InstrPos(in), "division whose divisor is neither a non-zero constant nor dominated by a zero test on the same value, on the consensus execution cone (a zero divisor is a panic or a fatal Begin/EndBlock error); reached via "+g.Chain(parent, f))
			}
		}
	}
	c.Floor("C10.divguard", nDiv, 8, "division sites on the cone")

	// constant divisors held in package-level variables: written only by their package's init
	for _, gn := range []string{"staking/api.RewardAmountDenominator", "staking/api.CommissionRateDenominator", "scheduler/api.BaseUnitsPerVotingPower"} {
		c10ConstGlobal(c, gn)
	}

	c10MoveGuard(c, g)
	c10ErrOrigins(c, g)
	c10LivenessReset(c)
	c10LivenessRemovedNode(c)
	c10Round4(c, g)
	c10Round5(c)
	c10Support(c)

	// ---- (b) multiplexer
	const pkABCI = "consensus/cometbft/abci"
	panicsIn := func(fn *ssa.Function) []ssa.Instruction {
		var out []ssa.Instruction
		for _, f := range append([]*ssa.Function{fn}, anonFuncs(fn)...) {
			for _, b := range f.Blocks {
				for _, in := range b.Instrs {
					if _, ok := in.(*ssa.Panic); ok {
						out = append(out, in)
					}
				}
			}
		}
		return out
	}
	if fn := c.needFn("C10.mux", pkABCI+".(*abciMux).DeliverTx"); fn != nil {
		ps := panicsIn(fn)
		okAll := len(ps) > 0
		for _, pnc := range ps {
			guarded := false
			for _, h := range heldCondVals(pnc) {
				if call, ok := h.Cond.(*ssa.Call); ok && h.Pol && calleeNameCommon(&call.Call) == "consensus/cometbft/api.IsUnavailableStateError" {
					guarded = true
				}
				// replay of cached proposal results: an internal-consistency assertion, not reachable from transaction content
				if call, ok := stripNotV(h.Cond).(*ssa.Call); ok && strings.HasSuffix(calleeNameCommon(&call.Call), "(*proposalState).needsExecution") {
					if _, pol := stripNot(h.Cond, h.Pol); !pol {
						guarded = true
					}
				}
			}
			if !guarded {
				okAll = false
				c.Fail("C10.mux", fname(fn)+":panic-only-on-unavailable-state", c.P.InstrPos(pnc), "DeliverTx panics on a path not guarded by IsUnavailableStateError: a failing transaction could halt the node instead of producing a failure result")
			}
		}
		if okAll {
			c.OK("C10.mux", fname(fn)+":panic-only-on-unavailable-state", c.P.Pos(fn.Pos()), itoa(len(ps))+" panic site(s), all under IsUnavailableStateError")
		}
		ex := CallsTo(fn, "executeTx", pkABCI+".(*abciMux).executeTx", "")
		c.Check(!ex.Empty(), "C10.mux", fname(fn)+":executes-tx", c.P.Pos(fn.Pos()), "", "DeliverTx no longer calls executeTx")
		// error ⇒ response with code (function returns a response on the error path)
		for _, call := range ex.Calls() {
			fe, found := FailEdges(call)
			ok := found && Reach(fn, nil, fe, func(i ssa.Instruction) bool { _, r := i.(*ssa.Return); return r }, nil) != nil
			c.Check(ok, "C10.mux", fname(fn)+":tx-error⇒failed-result", c.P.InstrPos(call), "a transaction error is reported as a result", "a transaction error no longer leads to a returned result")
		}
	}
	if fn := c.needFn("C10.mux", pkABCI+".(*abciMux).CheckTx"); fn != nil {
		c.Check(len(panicsIn(fn)) == 0, "C10.mux", fname(fn)+":never-panics", c.P.Pos(fn.Pos()), "CheckTx contains no panic", "CheckTx can panic on transaction content")
	}
	for _, m := range []string{"PrepareProposal", "ProcessProposal"} {
		fn := c.needFn("C10.mux", pkABCI+".(*abciMux)."+m)
		if fn == nil {
			continue
		}
		okRec := false
		for _, an := range anonFuncs(fn) {
			if len(findCalls(an, "builtin.recover")) == 0 {
				continue
			}
			okRec = true
			for _, pnc := range panicsIn(an) {
				guarded := false
				for _, h := range heldCondVals(pnc) {
					if strings.Contains(vstr(h.Cond), "upgrade/api.ErrStopForUpgrade") && h.Pol {
						guarded = true
					}
				}
				c.Check(guarded, "C10.mux", fname(fn)+":re-panic-only-for-upgrade-stop", c.P.InstrPos(pnc), "the recovered panic is re-raised only for ErrStopForUpgrade", m+" re-panics for something other than the upgrade stop: proposal content could halt the node")
			}
		}
		c.Check(okRec, "C10.mux", fname(fn)+":recovers", c.P.Pos(fn.Pos()), "proposal phase recovers from panics", m+" no longer recovers from panics during proposal execution")
	}
	if fn := c.needFn("C10.mux", fnExecuteTx); fn != nil {
		dec := CallsTo(fn, "decodeTx", fnDecodeTx, "")
		proc := CallsTo(fn, "processTx", fnProcessTx, "")
		c.MustPrecede("C10.mux", fn, dec, proc, "malformed transactions are rejected before any application code runs")
	}

	// ---- (c) exhaustive handling of commitment-pool outcomes
	if fn := c.needFn("C10.exhaustive", fnTryFinalize); fn != nil {
		ret := map[string]bool{}
		for _, n := range []string{fnProcessC, fnProcessCPub} {
			if f := c.P.Fn(n); f != nil {
				for k := range sentinelSet(f) {
					ret[k] = true
				}
			}
		}
		handled := map[string]bool{}
		for _, b := range fn.Blocks {
			iff := lastIf(b)
			if iff == nil {
				continue
			}
			if bo, ok := iff.Cond.(*ssa.BinOp); ok && bo.Op == token.EQL {
				for _, v := range []ssa.Value{bo.X, bo.Y} {
					if u, ok := v.(*ssa.UnOp); ok {
						if gl, ok := u.X.(*ssa.Global); ok {
							handled[gname(gl)] = true
						}
					}
				}
			}
		}
		var missing []string
		for k := range ret {
			if !handled[k] {
				missing = append(missing, k)
			}
		}
		sort.Strings(missing)
		c.Check(len(ret) >= 5 && len(missing) == 0, "C10.exhaustive", fname(fn)+":pool-outcomes-all-handled", c.P.Pos(fn.Pos()), "every outcome of the commitment pool {"+joinKeys(ret)+"} has its own arm in the finalisation switch", "commitment-pool outcome(s) "+strings.Join(missing, ", ")+" have no arm in the round-finalisation switch and fall into `default: return err`, which is fatal in EndBlock (a misbehaving runtime committee could halt consensus)")
		// and each handled sentinel arm does not return the error itself, except explicitly tabled
		for s := range ret {
			es := HeldEdges(fn, `== \*global:`+strings.ReplaceAll(s, ".", `\.`)+`$`)
			if len(es) == 0 {
				continue
			}
			var bad ssa.Instruction
			for _, r := range Returns(fn) {
				ev := retErrVal(r)
				if ev == nil {
					continue
				}
				// returns the pool error value directly
				if strings.Contains(vstr(ev), "ProcessCommitments(") && !strings.Contains(vstr(ev), "failRound") {
					if Reach(fn, nil, es, isInstr(r), nil) != nil {
						bad = r
					}
				}
			}
			short := s[strings.LastIndex(s, ".")+1:]
			if bad != nil {
				if reason, ok := c.Tabled("c10_pool_outcomes", short); ok {
					c.TabledOK("C10.exhaustive", fname(fn)+":"+short+"-not-fatal", c.P.InstrPos(bad), reason)
					continue
				}
			}
			c.Check(bad == nil, "C10.exhaustive", fname(fn)+":"+short+"-not-fatal", c.P.Pos(fn.Pos()), short+" is handled without returning it from EndBlock", "pool outcome "+short+" is returned as an error from round finalisation (fatal in EndBlock)")
		}
	}

	// ---- (d) explicit panics on the block-execution cone: an armed inventory (round 4). Every panic() in module code
	// reachable from the ABCI entry points is a condition under which the node stops; each is a reviewed row of
	// tables/c10_panics.tsv keyed by the function and the innermost condition it is raised under (not by its message);
	// a panic that is not listed is a violation.
	nP := 0
	seenP := map[string]bool{}
	for _, f := range cone {
		for _, b := range f.Blocks {
			for _, in := range b.Instrs {
				if _, ok := in.(*ssa.Panic); !ok {
					continue
				}
				nP++
				for _, atom := range guardAtoms(in) {
					key := fname(f) + " when " + atom
					if seenP[key] {
						continue
					}
					seenP[key] = true
					if reason, ok := c.Tabled("c10_panics", key); ok {
						c.TabledOK("C10.panics", key, c.P.InstrPos(in), reason)
						continue
					}
					c.Fail("C10.panics", key, c.P.InstrPos(in), "an explicit panic on the block-execution cone that is not in the reviewed inventory: if block content or transaction-reachable state can make its condition true, every node stops while executing the block; reached via "+g.Chain(parent, f))
				}
			}
		}
	}
	c.Extra["panic_sites_on_cone"] = nP
	c.Floor("C10.panics", nP, 40, "explicit panic sites on the block-execution cone")
	c10VRFProofWriters(c)
	c10ErrPathNil(c, g, cone)
	c10GasMultipliers(c, cone)
	rulesC10Round2(c, c.P.BuildIndex())
}

// quantitySource: the integer a *Quantity divisor was built from
// (NewFromUint64(x), or a local q with q.FromUint64(x)/FromInt64(x)).
func quantitySource(d ssa.Value) ssa.Value {
	if call, ok := d.(*ssa.Call); ok && calleeNameCommon(&call.Call) == "common/quantity.NewFromUint64" {
		return call.Call.Args[0]
	}
	if al, ok := d.(*ssa.Alloc); ok {
		if refs := al.Referrers(); refs != nil {
			for _, r := range *refs {
				if call, ok := r.(*ssa.Call); ok {
					n := calleeNameCommon(&call.Call)
					if (n == "common/quantity.(*Quantity).FromUint64" || n == "common/quantity.(*Quantity).FromInt64") && call.Call.Args[0] == ssa.Value(al) {
						return call.Call.Args[1]
					}
				}
			}
		}
	}
	return nil
}

func stripNotV(v ssa.Value) ssa.Value {
	x, _ := stripNot(v, true)
	return x
}

// c10ConstGlobal: a package-level quantity used as a divisor is mutated only
// in init functions: elsewhere it is never stored to and never the receiver of
// a mutating Quantity method (it may be loaded, compared, cloned, passed as an
// operand).
func c10ConstGlobal(c *Ctx, gn string) {
	readOnly := map[string]bool{"Cmp": true, "String": true, "IsZero": true, "Clone": true, "IsValid": true, "ToBigInt": true, "MarshalBinary": true, "MarshalText": true, "Format": true}
	nRef, nInit := 0, 0
	bad := false
	for _, fn := range c.P.ModFuncs {
		if fn.Blocks == nil || (fn.Origin() != nil && fn.Origin() != fn) {
			continue
		}
		isInit := fn.Name() == "init" || strings.HasPrefix(fn.Name(), "init#")
		for _, b := range blocksIP(fn) {
			for _, in := range b.Instrs {
				for _, op := range in.Operands(nil) {
					g, ok := (*op).(*ssa.Global)
					if !ok || gname(g) != gn {
						continue
					}
					nRef++
					if isInit && fpkgPath(fn) == g.Pkg.Pkg.Path() {
						nInit++
						continue
					}
					mut := ""
					switch x := in.(type) {
					case *ssa.Store:
						if x.Addr == ssa.Value(g) {
							mut = "store to the variable"
						}
					case ssa.CallInstruction:
						cc := x.Common()
						if !cc.IsInvoke() && len(cc.Args) > 0 && cc.Args[0] == ssa.Value(g) {
							if f := cc.StaticCallee(); f != nil && f.Signature.Recv() != nil && !readOnly[f.Name()] {
								mut = "receiver of " + fname(f)
							}
						}
					}
					// pointer-typed variable: mutation through the loaded pointer
					if u, ok := in.(*ssa.UnOp); ok && u.Op == token.MUL {
						if refs := u.Referrers(); refs != nil {
							for _, r := range *refs {
								if call, ok := r.(ssa.CallInstruction); ok {
									cc := call.Common()
									if !cc.IsInvoke() && len(cc.Args) > 0 && cc.Args[0] == ssa.Value(u) {
										if f := cc.StaticCallee(); f != nil && f.Signature.Recv() != nil && !readOnly[f.Name()] {
											mut = "receiver of " + fname(f) + " through the loaded pointer"
										}
									}
								}
							}
						}
					}
					if mut != "" {
						bad = true
						c.Fail("C10.const-divisor-writers", gn+"<-"+fname(fn), c.P.InstrPos(in), "constant divisor "+gn+" is mutated outside its package init ("+mut+"): divisions by it are no longer by a fixed non-zero value")
					}
				}
			}
		}
	}
	if !bad {
		c.Check(nInit > 0, "C10.const-divisor-writers", gn, "", itoa(nRef)+" references; mutated only in its package init ("+itoa(nInit)+" init references)", "no initialisation of "+gn+" found in its package init")
	}
}

// ---- MOVEGUARD: on the Begin/EndBlock cone an error from quantity.Move /
// (*Quantity).Sub is fatal. Each such site must be sufficient by construction:
// the amount is a clone of the source (or vice versa), or the site is
// dominated by a comparison (Cmp) against that same source value.
func c10MoveGuard(c *Ctx, g *CG) {
	var entries []*ssa.Function
	for _, key := range []string{
		"consensus/cometbft/api.(Application).BeginBlock", "consensus/cometbft/api.(Application).EndBlock",
		"consensus/cometbft/api.(Extension).BeginBlock", "consensus/cometbft/api.(Extension).EndBlock",
	} {
		for _, f := range g.impls[key] {
			if f.Blocks != nil && strings.HasPrefix(short(fpkgPath(f)), "consensus/cometbft/apps/") {
				entries = appendUniqueFn(entries, f)
			}
		}
	}
	cone, parent := g.FatalCone(entries, outsideConeUniverse)
	c.Extra["fatal_cone_functions"] = len(cone)
	n := 0
	cloneOf := func(v ssa.Value) ssa.Value {
		if call, ok := v.(*ssa.Call); ok && calleeNameCommon(&call.Call) == "common/quantity.(*Quantity).Clone" {
			return call.Call.Args[0]
		}
		return nil
	}
	for _, f := range cone {
		pp := short(fpkgPath(f))
		if pp == "common/quantity" {
			continue
		}
		for _, b := range f.Blocks {
			for _, in := range b.Instrs {
				call, ok := in.(*ssa.Call)
				if !ok {
					continue
				}
				nm := calleeNameCommon(&call.Call)
				var src, amt ssa.Value
				switch nm {
				case "common/quantity.Move":
					src, amt = call.Call.Args[1], call.Call.Args[2]
				case "common/quantity.(*Quantity).Sub":
					src, amt = call.Call.Args[0], call.Call.Args[1]
				default:
					continue
				}
				n++
				c.Analysed[fname(f)] = true
				key := fname(f) + " " + nm[len("common/quantity."):] + " from " + vstrShort(src) + " amount " + vstrShort(amt)
				site := c.P.InstrPos(in)
				// between the Clone and this site neither the clone nor its original may be modified
				unmodified := func(clone ssa.Value, orig ssa.Value) bool {
					ci, ok := clone.(ssa.Instruction)
					if !ok {
						return false
					}
					for _, mb := range f.Blocks {
						for _, m := range mb.Instrs {
							if m == ssa.Instruction(call) || !(quantityMutates(m, clone) || quantityMutates(m, orig)) {
								continue
							}
							// m lies on a path clone → m → this site
							if Reach(f, ci, nil, isInstr(m), NewCut().AddInstr(call)) != nil && Reach(f, m, nil, isInstr(call), nil) != nil {
								return false
							}
						}
					}
					return true
				}
				if x := cloneOf(amt); x != nil && sameValue(derefVal(x), derefVal(src), 0) {
					if unmodified(amt, src) {
						c.OK("C10.moveguard", key, site, "the amount is a clone of the source, neither modified in between")
						continue
					}
					key += " (modified after cloning)"
				}
				if x := cloneOf(src); x != nil && sameValue(derefVal(x), derefVal(amt), 0) {
					if unmodified(src, amt) {
						c.OK("C10.moveguard", key, site, "the source is a clone of the amount, neither modified in between")
						continue
					}
					key += " (modified after cloning)"
				}
				guarded := ""
				for _, h := range heldCondVals(in) {
					cond, _ := stripNot(h.Cond, h.Pol)
					bo, ok := cond.(*ssa.BinOp)
					if !ok {
						continue
					}
					for _, v := range []ssa.Value{bo.X, bo.Y} {
						cc, ok := v.(*ssa.Call)
						if !ok || !strings.HasSuffix(calleeNameCommon(&cc.Call), "quantity.(*Quantity).Cmp") {
							continue
						}
						for _, a := range cc.Call.Args {
							if sameValue(derefVal(a), derefVal(src), 0) {
								guarded = vstrShort(cond)
							}
						}
					}
				}
				if guarded != "" {
					c.OK("C10.moveguard", key, site, "dominated by a comparison against the source: "+guarded)
					continue
				}
				if reason, ok := c.Tabled("moves", key); ok {
					c.TabledOK("C10.moveguard", key, site, reason)
					continue
				}
				c.Fail("C10.moveguard", key, site, "balance movement on the BeginBlock/EndBlock cone whose amount is neither a clone of its source nor checked against that source on a dominating branch: insufficient balance here is a fatal block error; reached via "+g.Chain(parent, f))
			}
		}
	}
	c.Floor("C10.moveguard", n, 10, "Move/Sub sites on the BeginBlock/EndBlock cone")
}

// quantityMutates: instruction in modifies the quantity v in place (it is the
// receiver of a non-read-only Quantity method, or the destination/source of a
// Move/MoveUpTo).
func quantityMutates(in ssa.Instruction, v ssa.Value) bool {
	call, ok := in.(ssa.CallInstruction)
	if !ok {
		return false
	}
	cc := call.Common()
	n := calleeNameCommon(cc)
	same := func(a ssa.Value) bool { return sameValue(derefVal(a), derefVal(v), 0) }
	switch {
	case n == "common/quantity.Move" || n == "common/quantity.MoveUpTo":
		return len(cc.Args) >= 2 && (same(cc.Args[0]) || same(cc.Args[1]))
	case strings.HasPrefix(n, "common/quantity.(*Quantity)."):
		m := n[len("common/quantity.(*Quantity)."):]
		switch m {
		case "Cmp", "IsZero", "Clone", "String", "IsValid", "ToBigInt", "MarshalBinary", "MarshalText", "Format":
			return false
		}
		return len(cc.Args) >= 1 && same(cc.Args[0])
	}
	return false
}

// c10Support: the code facts that reviewed table rows of divisors.tsv /
// moves.tsv cite are themselves checked, so that a row's reason cannot silently
// stop being true (F5 and F6 were rows whose reasons were false).
func c10Support(c *Ctx) {
	const rule = "C10.support"
	// fee split weights are not all zero (row: disburseFeesP weightPVQ)
	if fn := c.needFn(rule, "staking/api.(*ConsensusParameters).SanityCheck"); fn != nil {
		c.SuccessRequiresEdges(rule, fn, "some fee split weight is non-zero", append(append(
			HeldEdges(fn, `^!common/quantity\.\(\*Quantity\)\.IsZero\(param:p\.FeeSplitWeightPropose\)$`),
			HeldEdges(fn, `^!common/quantity\.\(\*Quantity\)\.IsZero\(param:p\.FeeSplitWeightVote\)$`)...),
			HeldEdges(fn, `^!common/quantity\.\(\*Quantity\)\.IsZero\(param:p\.FeeSplitWeightNextPropose\)$`)...),
			"cited by divisors.tsv: the sum of the three fee split weights is a divisor")
		c.SuccessRequiresCond(rule, fn, "MinCommissionRate <= CommissionRateDenominator", `^common/quantity\.\(\*Quantity\)\.Cmp\(param:p\.CommissionScheduleRules\.MinCommissionRate,\*global:staking/api\.CommissionRateDenominator\) <= 0$`, "cited by moves.tsv: commission <= total")
	}
	// ... and a parameter change is sanity-checked before it is stored
	if fn := c.needFn(rule, "consensus/cometbft/apps/staking.(*Application).changeParameters"); fn != nil {
		sc := CallsTo(fn, "params.SanityCheck", "staking/api.(*ConsensusParameters).SanityCheck", "")
		set := CallsTo(fn, "SetConsensusParameters", "consensus/cometbft/apps/staking/state.(*MutableState).SetConsensusParameters", "")
		c.MustPrecede(rule, fn, sc, set, "cited by divisors.tsv: changed parameters pass the same sanity check as genesis parameters before they are stored")
	}
	// commission rates are at most the denominator (row: computeCommission)
	if fn := c.needFn(rule, "staking/api.(*CommissionSchedule).validateNondegenerate"); fn != nil {
		// per element of the Rates loop: a rate above the denominator can never lead to success
		over := HeldEdges(fn, `^common/quantity\.\(\*Quantity\)\.Cmp\(&\(.*Rates\[.*\)\.Rate,\*global:staking/api\.CommissionRateDenominator\) > 0$`)
		ok := len(over) > 0 && Reach(fn, nil, over, anyOf(SuccessReturns(fn)), nil) == nil
		c.Check(ok, rule, fname(fn)+":rate step > CommissionRateDenominator ⇒ rejected", c.P.Pos(fn.Pos()), "a rate step above the denominator always fails validation", "a commission rate step above CommissionRateDenominator is no longer rejected (cited by moves.tsv: commission <= total)")
	}
	// slash reward percentages are at most 100 (row: distributeSlashedFunds)
	if fn := c.needFn(rule, "registry/api.(*RuntimeStakingParameters).ValidateBasic"); fn != nil {
		c.SuccessRequiresCond(rule, fn, "RewardSlashEquvocationRuntimePercent <= 100", `^\*param:s\.RewardSlashEquvocationRuntimePercent <= 100$`, "cited by moves.tsv: runtime reward <= slashed amount")
		c.SuccessRequiresCond(rule, fn, "RewardSlashBadResultsRuntimePercent <= 100", `^\*param:s\.RewardSlashBadResultsRuntimePercent <= 100$`, "cited by moves.tsv: runtime reward <= slashed amount")
	}
	// a withdraw policy with a zero interval is disabled (row: AuthorizeWithdrawal)
	if fn := c.needFn(rule, "vault/api.(*WithdrawPolicy).IsDisabled"); fn != nil {
		c.ResultImpliesCond(rule, fn, 0, false, fname(fn)+":LimitInterval==0 ⇒ disabled", "LimitInterval != 0", `^\*param:[A-Za-z_0-9]+\.LimitInterval != 0$`, "IsDisabled is true whenever LimitInterval is zero", "IsDisabled no longer implies a non-zero LimitInterval when false: AuthorizeWithdrawal divides by it")
	}
	if fn := c.needFn(rule, "vault/api.(*AddressState).AuthorizeWithdrawal"); fn != nil {
		var divs []ssa.Instruction
		for _, b := range blocksIP(fn) {
			for _, in := range b.Instrs {
				if bo, ok := in.(*ssa.BinOp); ok && bo.Op == token.QUO && strings.Contains(vstr(bo.Y), "LimitInterval") {
					divs = append(divs, in)
				}
			}
		}
		c.GuardedByAny(rule, fn, "!WithdrawPolicy.IsDisabled()", []string{`^!vault/api\.\(\*WithdrawPolicy\)\.IsDisabled\(param:as\.WithdrawPolicy\)$`}, Ev{Name: "height / LimitInterval", Fn: fn, Ins: divs}, "cited by divisors.tsv")
	}
	// the supplementary sanity interval is positive when the application is enabled (rows: endBlockImpl)
	if fn := c.needFn(rule, "consensus/cometbft/config.(*Config).Validate"); fn != nil {
		c.SuccessRequiresEdges(rule, fn, "!SupplementarySanity.Enabled || Interval >= 1", append(
			HeldEdges(fn, `^!\*param:c\.SupplementarySanity\.Enabled$`),
			HeldEdges(fn, `^\*param:c\.SupplementarySanity\.Interval >= 1$`)...), "cited by divisors.tsv")
	}
	// genesis moves LastBlockFees into the common pool (row: disburseFeesVQ nEVQ)
	if fn := c.needFn(rule, "consensus/cometbft/apps/staking.(*Application).initLastBlockFees"); fn != nil {
		ok := false
		for _, b := range blocksIP(fn) {
			for _, in := range b.Instrs {
				if st, isSt := in.(*ssa.Store); isSt && strings.HasSuffix(vstr(st.Addr), "param:st.LastBlockFees") && strings.Contains(vstr(st.Val), "common/quantity.NewQuantity()") {
					ok = true
				}
			}
		}
		c.Check(ok, rule, fname(fn)+":genesis LastBlockFees reset to zero", c.P.Pos(fn.Pos()), "genesis fees are moved to the common pool and LastBlockFees is reset", "initLastBlockFees no longer resets LastBlockFees to zero: the first block would divide persisted fees by zero voters")
	}
}

// lenPlusPositive: the value is len(x) + k (k a positive constant), possibly converted to another integer type: at
// least k, never zero.
func lenPlusPositive(v ssa.Value) bool {
	for k := 0; k < 2; k++ {
		if cv, ok := v.(*ssa.Convert); ok {
			v = cv.X
		}
	}
	bo, ok := v.(*ssa.BinOp)
	if !ok || bo.Op != token.ADD {
		return false
	}
	for _, pair := range [][2]ssa.Value{{bo.X, bo.Y}, {bo.Y, bo.X}} {
		k, isC := pair[1].(*ssa.Const)
		if !isC || k.Value == nil || k.Value.Kind() != constant.Int || constant.Sign(k.Value) <= 0 {
			continue
		}
		if call, isCall := pair[0].(*ssa.Call); isCall {
			if b, isB := call.Call.Value.(*ssa.Builtin); isB && (b.Name() == "len" || b.Name() == "cap") {
				return true
			}
		}
	}
	return false
}

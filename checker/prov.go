package main

import (
	"fmt"
	"go/token"
	"go/types"
	"sort"
	"strings"

	"golang.org/x/tools/go/ssa"
)

// vstr renders an SSA value as a canonical expression over parameters,
// globals, constants, calls and field paths. It is used to match guard
// conditions and argument provenance independent of local variable names and
// statement layout. Loads from local allocs are resolved to the unique stored
// value when there is exactly one store.
func vstr(v ssa.Value) string { return vstrd(v, 0, map[ssa.Value]bool{}) }

// vstrSubst, when set, renders the listed values (parameters of a predicate helper that is being inlined) as the
// given strings (the renderings of the arguments at the call site).
var vstrSubst map[ssa.Value]string

func vstrd(v ssa.Value, d int, seen map[ssa.Value]bool) string {
	if v == nil {
		return "<nil>"
	}
	if vstrSubst != nil {
		if s, ok := vstrSubst[v]; ok {
			return s
		}
	}
	if d > 10 || seen[v] {
		return "…"
	}
	seen[v] = true
	defer delete(seen, v)
	switch v := v.(type) {
	case *ssa.Parameter:
		if a, ok := paramArg[v]; ok {
			return vstrd(a, d+1, seen)
		}
		if a, ok := argInContext(v); ok {
			return vstrd(a, d+1, seen)
		}
		return "param:" + pname(v)
	case *ssa.FreeVar:
		return "free:" + pname(v)
	case *ssa.Const:
		if v.Value == nil {
			return "nil"
		}
		return v.Value.ExactString()
	case *ssa.Global:
		pp := ""
		if v.Pkg != nil {
			pp = short(v.Pkg.Pkg.Path())
		}
		return "global:" + pp + "." + v.Name()
	case *ssa.Function:
		return "func:" + fname(v)
	case *ssa.Builtin:
		return "builtin:" + v.Name()
	case *ssa.Alloc:
		if sv := singleStore(v); sv != nil {
			return "&(" + vstrd(sv, d+1, seen) + ")"
		}
		return "alloc:" + typeStr(v.Type())
	case *ssa.UnOp:
		if v.Op == token.MUL {
			if al, ok := v.X.(*ssa.Alloc); ok {
				if sv := reachingStore(al, v); sv != nil {
					return vstrd(sv, d+1, seen)
				}
				if sv := singleStore(al); sv != nil {
					return vstrd(sv, d+1, seen)
				}
				return "load(alloc:" + typeStr(al.Type()) + ")"
			}
			return "*" + vstrd(v.X, d+1, seen)
		}
		return v.Op.String() + vstrd(v.X, d+1, seen)
	case *ssa.BinOp:
		x, y, op := vstrd(v.X, d+1, seen), vstrd(v.Y, d+1, seen), v.Op
		if m, isCmp := mirrorOp[op]; isCmp {
			// comparisons are rendered with a canonical operand order (constants right, otherwise sorted), so
			// `a == b` and `b == a`, `0 < n` and `n > 0` print the same (as normCond does at the top level)
			_, xc := v.X.(*ssa.Const)
			_, yc := v.Y.(*ssa.Const)
			if (xc && !yc) || (xc == yc && x > y) {
				x, y, op = y, x, m
			}
			if x == y && mirrorOp[op].String() < op.String() {
				op = mirrorOp[op]
			}
		}
		return "(" + x + " " + op.String() + " " + y + ")"
	case *ssa.FieldAddr:
		return vstrd(v.X, d+1, seen) + "." + fieldName(v.X.Type(), v.Field)
	case *ssa.Field:
		return vstrd(v.X, d+1, seen) + "." + fieldName(v.X.Type(), v.Field)
	case *ssa.IndexAddr:
		return vstrd(v.X, d+1, seen) + "[" + vstrd(v.Index, d+1, seen) + "]"
	case *ssa.Index:
		return vstrd(v.X, d+1, seen) + "[" + vstrd(v.Index, d+1, seen) + "]"
	case *ssa.Lookup:
		return vstrd(v.X, d+1, seen) + "[" + vstrd(v.Index, d+1, seen) + "]"
	case *ssa.Slice:
		lo, hi := "", ""
		if v.Low != nil {
			lo = vstrd(v.Low, d+1, seen)
		}
		if v.High != nil {
			hi = vstrd(v.High, d+1, seen)
		}
		return vstrd(v.X, d+1, seen) + "[" + lo + ":" + hi + "]"
	case *ssa.Extract:
		return vstrd(v.Tuple, d+1, seen) + "#" + fmt.Sprint(v.Index)
	case *ssa.Call:
		return callStr(&v.Call, d, seen)
	case *ssa.ChangeType:
		return vstrd(v.X, d+1, seen)
	case *ssa.Convert:
		return typeStr(v.Type()) + "(" + vstrd(v.X, d+1, seen) + ")"
	case *ssa.ChangeInterface:
		return vstrd(v.X, d+1, seen)
	case *ssa.MakeInterface:
		return vstrd(v.X, d+1, seen)
	case *ssa.TypeAssert:
		return vstrd(v.X, d+1, seen) + ".(" + typeStr(v.AssertedType) + ")"
	case *ssa.MakeClosure:
		return "closure:" + fname(v.Fn.(*ssa.Function))
	case *ssa.Phi:
		var parts []string
		for _, e := range v.Edges {
			parts = append(parts, vstrd(e, d+1, seen))
		}
		sort.Strings(parts)
		parts = uniq(parts)
		if len(parts) == 1 {
			return parts[0]
		}
		return "phi(" + strings.Join(parts, "|") + ")"
	case *ssa.MakeSlice:
		return "make(" + typeStr(v.Type()) + ")"
	case *ssa.MakeMap:
		return "make(" + typeStr(v.Type()) + ")"
	case *ssa.SliceToArrayPointer:
		return vstrd(v.X, d+1, seen)
	case *ssa.Range:
		return "range(" + vstrd(v.X, d+1, seen) + ")"
	case *ssa.Next:
		return "next(" + vstrd(v.Iter, d+1, seen) + ")"
	}
	return fmt.Sprintf("%T", v)
}

func callStr(c *ssa.CallCommon, d int, seen map[ssa.Value]bool) string {
	var args []string
	for _, a := range c.Args {
		args = append(args, vstrd(a, d+1, seen))
	}
	if c.IsInvoke() {
		return vstrd(c.Value, d+1, seen) + "." + c.Method.Name() + "(" + strings.Join(args, ",") + ")"
	}
	if f := c.StaticCallee(); f != nil {
		if f.Origin() != nil {
			f = f.Origin()
		}
		return fname(f) + "(" + strings.Join(args, ",") + ")"
	}
	if b, ok := c.Value.(*ssa.Builtin); ok {
		return "builtin." + b.Name() + "(" + strings.Join(args, ",") + ")"
	}
	return "call:" + vstrd(c.Value, d+1, seen) + "(" + strings.Join(args, ",") + ")"
}

func uniq(s []string) []string {
	var out []string
	for i, x := range s {
		if i == 0 || x != s[i-1] {
			out = append(out, x)
		}
	}
	return out
}

func typeStr(t types.Type) string {
	return types.TypeString(t, func(p *types.Package) string { return short(p.Path()) })
}

func derefType(t types.Type) types.Type {
	for {
		switch x := t.(type) {
		case *types.Pointer:
			t = x.Elem()
		case *types.Alias:
			t = types.Unalias(x)
		default:
			return t
		}
	}
}

func fieldName(xt types.Type, idx int) string {
	t := derefType(xt)
	if st, ok := t.Underlying().(*types.Struct); ok && idx < st.NumFields() {
		return st.Field(idx).Name()
	}
	return fmt.Sprintf("f%d", idx)
}

// namedOf returns "pkg.Type" of a (pointer to) named type, or "".
func namedOf(t types.Type) string {
	t = derefType(t)
	if n, ok := t.(*types.Named); ok {
		pp := ""
		if n.Obj().Pkg() != nil {
			pp = short(n.Obj().Pkg().Path()) + "."
		}
		return pp + n.Obj().Name()
	}
	return ""
}

// singleStore returns the only value ever stored to alloc al, or nil.
func singleStore(al *ssa.Alloc) ssa.Value {
	refs := al.Referrers()
	if refs == nil {
		return nil
	}
	var val ssa.Value
	n := 0
	for _, r := range *refs {
		if st, ok := r.(*ssa.Store); ok && st.Addr == al {
			n++
			val = st.Val
		}
	}
	if n == 1 {
		return val
	}
	return nil
}

// reachingStore returns the value of the last store to al preceding load in
// the same basic block, or nil.
func reachingStore(al *ssa.Alloc, load ssa.Instruction) ssa.Value {
	b := load.Block()
	var val ssa.Value
	for _, in := range b.Instrs {
		if in == load {
			return val
		}
		if st, ok := in.(*ssa.Store); ok && st.Addr == al {
			val = st.Val
		}
	}
	return nil
}

// Roots computes the provenance roots of a value: the parameters, globals,
// call results, allocations and constants it is derived from by
// projection/conversion/phi.
type Root struct {
	Kind string // param | global | call | alloc | const | free | other
	Name string // param name / global name / callee name
	Path string // field path applied on top of the root (".A.B")
	Val  ssa.Value
}

func (r Root) String() string { return r.Kind + ":" + r.Name + r.Path }

func Roots(v ssa.Value) []Root {
	var out []Root
	seen := map[ssa.Value]bool{}
	var walk func(v ssa.Value, path string, d int)
	walk = func(v ssa.Value, path string, d int) {
		if v == nil || d > 24 || seen[v] {
			return
		}
		seen[v] = true
		switch v := v.(type) {
		case *ssa.Parameter:
			if a, ok := paramArg[v]; ok {
				walk(a, path, d+1)
				return
			}
			if a, ok := argInContext(v); ok {
				walk(a, path, d+1)
				return
			}
			out = append(out, Root{"param", pname(v), path, v})
		case *ssa.FreeVar:
			out = append(out, Root{"free", pname(v), path, v})
		case *ssa.Global:
			pp := ""
			if v.Pkg != nil {
				pp = short(v.Pkg.Pkg.Path()) + "."
			}
			out = append(out, Root{"global", pp + v.Name(), path, v})
		case *ssa.Const:
			out = append(out, Root{"const", vstr(v), path, v})
		case *ssa.Call:
			// the value a new helper (ip.go) returns is what its return statements return
			if h := helperCallee(v); h != nil && h.Signature.Results().Len() == 1 && d < 16 {
				n := 0
				for _, r := range Returns(h) {
					if len(r.Results) == 1 {
						n++
						walk(r.Results[0], path, d+1)
					}
				}
				if n > 0 {
					return
				}
			}
			out = append(out, Root{"call", calleeNameCommon(&v.Call), path, v})
		case *ssa.Alloc:
			// follow all stores into the alloc
			refs := v.Referrers()
			n := 0
			if refs != nil {
				for _, r := range *refs {
					if st, ok := r.(*ssa.Store); ok && st.Addr == v {
						n++
						walk(st.Val, path, d+1)
					}
				}
			}
			out = append(out, Root{"alloc", typeStr(v.Type()), path, v})
		case *ssa.UnOp:
			walk(v.X, path, d+1)
		case *ssa.FieldAddr:
			walk(v.X, "."+fieldName(v.X.Type(), v.Field)+path, d+1)
		case *ssa.Field:
			walk(v.X, "."+fieldName(v.X.Type(), v.Field)+path, d+1)
		case *ssa.IndexAddr:
			walk(v.X, "[]"+path, d+1)
		case *ssa.Index:
			walk(v.X, "[]"+path, d+1)
		case *ssa.Lookup:
			walk(v.X, "[]"+path, d+1)
		case *ssa.Slice:
			walk(v.X, path, d+1)
		case *ssa.Extract:
			if c, ok := v.Tuple.(*ssa.Call); ok {
				if h := helperCallee(c); h != nil && d < 16 {
					n := 0
					for _, r := range Returns(h) {
						if v.Index < len(r.Results) {
							n++
							walk(r.Results[v.Index], path, d+1)
						}
					}
					if n > 0 {
						return
					}
				}
				out = append(out, Root{"call", calleeNameCommon(&c.Call) + "#" + fmt.Sprint(v.Index), path, v})
			} else {
				walk(v.Tuple, path, d+1)
			}
		case *ssa.ChangeType:
			walk(v.X, path, d+1)
		case *ssa.Convert:
			walk(v.X, path, d+1)
		case *ssa.ChangeInterface:
			walk(v.X, path, d+1)
		case *ssa.MakeInterface:
			walk(v.X, path, d+1)
		case *ssa.TypeAssert:
			walk(v.X, path, d+1)
		case *ssa.SliceToArrayPointer:
			walk(v.X, path, d+1)
		case *ssa.Phi:
			for _, e := range v.Edges {
				walk(e, path, d+1)
			}
		case *ssa.BinOp:
			walk(v.X, path, d+1)
			walk(v.Y, path, d+1)
		default:
			out = append(out, Root{"other", fmt.Sprintf("%T", v), path, v})
		}
	}
	walk(v, "", 0)
	return out
}

func calleeNameCommon(cc *ssa.CallCommon) string {
	if cc.IsInvoke() {
		return tfname(cc.Method)
	}
	if f := cc.StaticCallee(); f != nil {
		if f.Origin() != nil {
			return fname(f.Origin())
		}
		return fname(f)
	}
	if b, ok := cc.Value.(*ssa.Builtin); ok {
		return "builtin." + b.Name()
	}
	return "dynamic"
}

func rootsStr(rs []Root) string {
	var s []string
	for _, r := range rs {
		s = append(s, r.String())
	}
	sort.Strings(s)
	return strings.Join(uniq(s), ",")
}

// hasRoot reports whether any root satisfies pred.
func hasRoot(rs []Root, pred func(Root) bool) bool {
	for _, r := range rs {
		if pred(r) {
			return true
		}
	}
	return false
}

func rootsStrNoAlloc(rs []Root) string {
	var s []string
	for _, r := range rs {
		if r.Kind == "alloc" {
			continue
		}
		s = append(s, r.String())
	}
	sort.Strings(s)
	return strings.Join(uniq(s), ",")
}

package main

import (
	"sort"
	"strings"

	"golang.org/x/tools/go/ssa"
)

func init() { register("C05", rulesC05) }

const (
	pkStakeState = "consensus/cometbft/apps/staking/state"
	pkStakeApp   = "consensus/cometbft/apps/staking"
)

var ledgerFields = map[string]bool{
	"staking/api.GeneralAccount.Balance":     true,
	"staking/api.SharePool.Balance":          true,
	"staking/api.SharePool.TotalShares":      true,
	"staking/api.Delegation.Shares":          true,
	"staking/api.DebondingDelegation.Shares": true,
	pkStakeState + ".feeAccumulator.balance": true,
}

// ledger getters and their setters (short method names on staking state)
var ledgerPairs = map[string]string{
	"Account":             "SetAccount",
	"CommonPool":          "SetCommonPool",
	"TotalSupply":         "SetTotalSupply",
	"LastBlockFees":       "SetLastBlockFees",
	"GovernanceDeposits":  "SetGovernanceDeposits",
	"Delegation":          "SetDelegation",
	"DebondingDelegation": "SetDebondingDelegation",
}

func isLedgerGetter(name string) (string, bool) {
	for g := range ledgerPairs {
		if name == pkStakeState+".(*ImmutableState)."+g || name == pkStakeState+".(*MutableState)."+g {
			return g, true
		}
	}
	return "", false
}

// ledgerLocation: is value v (a *Quantity) a ledger location? returns a description.
func ledgerLocation(v ssa.Value) (string, bool) {
	for _, r := range Roots(v) {
		if r.Kind == "call" {
			n := strings.TrimSuffix(r.Name, "#0")
			if g, ok := isLedgerGetter(n); ok {
				if g == "Account" || g == "Delegation" || g == "DebondingDelegation" {
					// only their ledger fields count
					for f := range ledgerFields {
						fs := f[strings.LastIndex(f[:strings.LastIndex(f, ".")], ".")+1:] // Type.Field
						_ = fs
					}
					if strings.HasSuffix(r.Path, ".Balance") || strings.HasSuffix(r.Path, ".TotalShares") || strings.HasSuffix(r.Path, ".Shares") {
						return g + r.Path, true
					}
					continue
				}
				return g, true
			}
		}
	}
	// direct field address of a ledger field
	x := v
	if u, ok := x.(*ssa.UnOp); ok {
		x = u.X
	}
	if fa, ok := x.(*ssa.FieldAddr); ok && ledgerFields[fieldKey(fa.X.Type(), fa.Field)] {
		return fieldKey(fa.X.Type(), fa.Field), true
	}
	return "", false
}

func rulesC05(c *Ctx) {
	c.Explain = append(c.Explain,
		"C05 (supply conserved, share bookkeeping consistent) — decided: (a) LEDGER discipline: every in-place arithmetic on a ledger location (general balances, escrow pool balances and total shares, delegation shares, the block fee accumulator, common pool, total supply, last block fees, governance deposits) happens inside quantity.Move/MoveUpTo or SharePool.Deposit/Withdraw — the only primitives that debit and credit the same amount — or is a reviewed table row (explicit burn, share merge, CheckTx-only bookkeeping, genesis); (b) PAIR: in every function of the staking/governance/roothash applications and the staking state package, a ledger object obtained from its getter and then mutated is written back with its matching setter on every success exit and before the next load in a loop; fee persistence: disburseFeesP stores the carried-over fees on every success exit; (c) total supply is written only by the burn path and genesis, escrow total shares only by Deposit/Withdraw; (d) inside SharePool.Deposit/Withdraw the share amount added to / removed from the pool total is the very value added to / removed from the holder, and the stake moves through Move with the pool balance; (e) no staking transaction handler can fail after a ledger write (write-then-fail analysis restricted to ledger setters).",
		"NOT decided: the arithmetic identities themselves (that computed reward/slash/fee splits sum to what is moved), supply equality at block boundaries over histories.")
	c05Round2(c)
	c05Round3(c)
	c05Round4(c)
	sharePoolPrimitivesRule(c, "C05.shares")
	aliasedAccountsRule(c)
	c.WithRules(map[string]string{"C15.*": "C05.shares"}, func() { freshDebondingRecordRule(c) })
	ix := c.P.BuildIndex()

	// ---- (a) LEDGER discipline
	allowedIn := []string{"common/quantity.Move", "common/quantity.MoveUpTo", "staking/api.(*SharePool).Deposit", "staking/api.(*SharePool).Withdraw"}
	nL := 0
	for _, fn := range c.P.ModFuncs {
		if fn.Blocks == nil || (fn.Origin() != nil && fn.Origin() != fn) {
			continue
		}
		pp := short(fpkgPath(fn))
		if !(strings.HasPrefix(pp, "consensus/cometbft/apps/") || pp == "staking/api" || pp == "governance/api" || pp == "common/quantity") {
			continue
		}
		for _, call := range callsIn(fn) {
			n := calleeName(call)
			if !strings.HasPrefix(n, "common/quantity.(*Quantity).") || !isQuantityMutator(n) {
				continue
			}
			loc, ok := ledgerLocation(allArgs(call)[0])
			if !ok {
				continue
			}
			nL++
			if allowedFn(fn, allowedIn) {
				c.OK("C05.ledger", fname(fn)+" "+n[strings.LastIndex(n, ".")+1:]+"("+loc+")", c.P.InstrPos(call), "inside a conserving primitive")
				continue
			}
			key := fname(fn) + " " + n[strings.LastIndex(n, ".")+1:] + "(" + loc + ")"
			if outsideDelivery(call) {
				c.OK("C05.ledger", key, c.P.InstrPos(call), "CheckTx/simulation-only bookkeeping (never executed in block delivery)")
				continue
			}
			if reason, ok := c.Tabled("ledger", key); ok {
				c.TabledOK("C05.ledger", key, c.P.InstrPos(call), reason)
				continue
			}
			c.Fail("C05.ledger", key, c.P.InstrPos(call), "ledger location "+loc+" is changed by "+n+" outside quantity.Move/MoveUpTo and SharePool.Deposit/Withdraw: value is created or destroyed without a matching debit/credit")
		}
		// whole-value stores into ledger fields
		for _, b := range blocksIP(fn) {
			for _, in := range b.Instrs {
				st, ok := in.(*ssa.Store)
				if !ok {
					continue
				}
				fa, ok := st.Addr.(*ssa.FieldAddr)
				if !ok || !ledgerFields[fieldKey(fa.X.Type(), fa.Field)] {
					continue
				}
				// composite literal of a fresh object (alloc) is construction, not mutation
				if _, fresh := fa.X.(*ssa.Alloc); fresh {
					continue
				}
				key := fname(fn) + " store(" + fieldKey(fa.X.Type(), fa.Field) + ")"
				nL++
				if reason, ok := c.Tabled("ledger", key); ok {
					c.TabledOK("C05.ledger", key, c.P.InstrPos(in), reason)
					continue
				}
				c.Fail("C05.ledger", key, c.P.InstrPos(in), "ledger field "+fieldKey(fa.X.Type(), fa.Field)+" is overwritten as a whole outside the conserving primitives")
			}
		}
	}
	c.Floor("C05.ledger", nL, 6, "in-place operations on ledger locations")

	// ---- (b) PAIR load–mutate–store
	nPair := 0
	for _, fn := range c.P.ModFuncs {
		if fn.Blocks == nil || (fn.Origin() != nil && fn.Origin() != fn) {
			continue
		}
		pp := short(fpkgPath(fn))
		if !strings.HasPrefix(pp, "consensus/cometbft/apps/") {
			continue
		}
		for _, g := range callsIn(fn) {
			gname, ok := isLedgerGetter(calleeName(g))
			if !ok {
				continue
			}
			gv := g.Value()
			if gv == nil {
				continue
			}
			fromG := func(v ssa.Value) bool {
				for _, r := range Roots(v) {
					if r.Kind != "call" {
						continue
					}
					switch x := r.Val.(type) {
					case *ssa.Call:
						if x == gv {
							return true
						}
					case *ssa.Extract:
						if x.Tuple == gv {
							return true
						}
					}
				}
				return false
			}
			// mutations of the loaded object
			var muts []ssa.Instruction
			for _, call := range callsIn(fn) {
				n := calleeName(call)
				args := allArgs(call)
				var ptrs []ssa.Value
				switch {
				case n == "common/quantity.Move" || n == "common/quantity.MoveUpTo":
					ptrs = args[:2]
				case n == "staking/api.(*SharePool).Deposit" || n == "staking/api.(*SharePool).Withdraw":
					ptrs = args[:3]
				case strings.HasPrefix(n, "common/quantity.(*Quantity).") && isQuantityMutator(n):
					ptrs = args[:1]
				case strings.HasPrefix(n, "staking/api.(*") && (strings.HasSuffix(n, ".Merge") || strings.HasSuffix(n, ".AddStakeClaim") || strings.HasSuffix(n, ".RemoveStakeClaim")):
					ptrs = args[:1]
				}
				for _, p := range ptrs {
					if fromG(p) {
						muts = append(muts, call)
						break
					}
				}
			}
			for _, b := range blocksIP(fn) {
				for _, in := range b.Instrs {
					if st, ok := in.(*ssa.Store); ok {
						if fa, isFA := st.Addr.(*ssa.FieldAddr); isFA && addrBaseIs(st.Addr, gv) && (ledgerFields[fieldKey(fa.X.Type(), fa.Field)] || strings.HasSuffix(fieldKey(fa.X.Type(), fa.Field), ".Nonce")) {
							muts = append(muts, in)
						}
					}
				}
			}
			if len(muts) == 0 {
				continue
			}
			nPair++
			setter := ledgerPairs[gname]
			var sets []ssa.Instruction
			for _, call := range callsIn(fn) {
				n := calleeName(call)
				if n != pkStakeState+".(*MutableState)."+setter {
					continue
				}
				for _, a := range allArgs(call)[1:] {
					if fromG(a) {
						sets = append(sets, call)
						break
					}
				}
			}
			key := fname(fn) + " " + gname + "→" + setter + "@" + strings.TrimPrefix(c.P.InstrPos(g), "go/")
			// position-free key: function + getter + ordinal
			key = fname(fn) + " " + gname + "→" + setter
			cut := NewCut()
			for _, s := range sets {
				cut.AddInstr(s)
			}
			for _, r := range Returns(fn) {
				cut.AddEdges(phiNonNilEdges(r)...)
			}
			targets := append([]ssa.Instruction{}, SuccessReturns(fn)...)
			targets = append(targets, g) // the next load of the same object (loop iteration)
			correlatedCut(g, cut)
			var hit ssa.Instruction
			for _, m := range muts {
				// after the mutation's own success
				if mc, isCall := m.(ssa.CallInstruction); isCall {
					if es, found := SuccessEdges(mc); found {
						hit = Reach(fn, nil, es, anyOf(targets), cut)
					} else {
						hit = Reach(fn, m, nil, anyOf(targets), cut)
					}
				} else {
					hit = Reach(fn, m, nil, anyOf(targets), cut)
				}
				if hit != nil {
					break
				}
			}
			if hit == nil {
				c.OK("C05.pair", key, c.P.InstrPos(g), "mutated "+gname+" is stored with "+setter+" on every success exit / before the next load")
				continue
			}
			if reason, ok := c.Tabled("ledger_pair", key); ok {
				c.TabledOK("C05.pair", key, c.P.InstrPos(g), reason)
				continue
			}
			what := "a success return"
			if hit == ssa.Instruction(g) {
				what = "the next load of the same object (next loop iteration)"
			}
			c.Fail("C05.pair", key, c.P.InstrPos(hit), "ledger object loaded with "+gname+"() at "+c.P.InstrPos(g)+" is mutated, but "+what+" is reachable without "+setter+"(): the debit or credit is lost (value created or destroyed)")
		}
	}
	c.Floor("C05.pair", nPair, 15, "load–mutate–store instances")
	// fee carry-over is persisted on every success exit
	if fn := c.needFn("C05.pair", pkStakeApp+".(*Application).disburseFeesP"); fn != nil {
		set := CallsTo(fn, "SetLastBlockFees", pkStakeState+".(*MutableState).SetLastBlockFees", "")
		c.successOnlyVia("C05.pair", fn, set, "the fees carried over to the next block are (over)written in every block, including blocks without fees; otherwise a stale amount is disbursed again")
	}

	// ---- (c) WHO
	c.WhoMayCall(ix, "C05.who", pkStakeState+".(*MutableState).SetTotalSupply", []string{pkStakeApp + ".(*Application).burnImpl", pkStakeApp + ".(*Application).initTotalSupply", pkStakeState + "/interop/"}, "total supply only ever changes by an explicit burn (or is set at genesis)")
	if fn := c.needFn("C05.who", pkStakeApp+".(*Application).burnImpl"); fn != nil {
		// the value stored is the getter result, changed only by Sub
		okSub := true
		for _, call := range callsIn(fn) {
			n := calleeName(call)
			if strings.HasPrefix(n, "common/quantity.(*Quantity).") && isQuantityMutator(n) {
				if loc, ok := ledgerLocation(allArgs(call)[0]); ok && loc == "TotalSupply" && !strings.HasSuffix(n, ").Sub") {
					okSub = false
				}
			}
		}
		// the explicit burn: account balance and total supply are reduced by the same amount
		var subs []ssa.Value
		for _, call := range callsIn(fn) {
			if calleeName(call) == "common/quantity.(*Quantity).Sub" {
				if _, ok := ledgerLocation(allArgs(call)[0]); ok {
					subs = append(subs, allArgs(call)[1])
				}
			}
		}
		c.Check(len(subs) == 2 && sameValue(subs[0], subs[1], 0), "C05.who", "burnImpl:balance-=x ∧ totalSupply-=x (same x)", c.P.Pos(fn.Pos()), "a burn removes the same amount from the account and from total supply", "burnImpl no longer subtracts the same amount from the account balance and from total supply")
		c.Check(okSub, "C05.who", "burnImpl:total-supply-only-decreases", c.P.Pos(fn.Pos()), "total supply is only ever reduced", "burnImpl changes total supply by something other than Sub")
	}
	c.WhoMayStore(ix, "C05.who", "staking/api.SharePool.TotalShares", []string{"pkg:staking/api", "consensus/cometbft/apps/staking/state/interop/", "oasis-node/cmd/", "oasis-test-runner/", "staking/tests/"}, "pool share totals are only rebuilt in api/genesis tooling")

	// ---- (d) SharePool siblings
	if fn := c.needFn("C05.shares", "staking/api.(*SharePool).Deposit"); fn != nil {
		var tot, dst ssa.Value
		for _, call := range CallsTo(fn, "", "common/quantity.(*Quantity).Add", "").Calls() {
			a := allArgs(call)
			if strings.HasSuffix(vstr(a[0]), "param:p.TotalShares") {
				tot = a[1]
			}
			if vstr(a[0]) == "param:shareDst" {
				dst = a[1]
			}
		}
		c.Check(tot != nil && tot == dst, "C05.shares", "Deposit:pool-total+=x ∧ holder+=x (same x)", c.P.Pos(fn.Pos()), "the shares minted for the holder are exactly the shares added to the pool total", "Deposit adds different amounts to the pool's total shares and to the holder's shares")
		mv := CallsTo(fn, "quantity.Move", "common/quantity.Move", "")
		okMv := false
		for _, call := range mv.Calls() {
			a := allArgs(call)
			okMv = strings.HasSuffix(vstr(a[0]), "param:p.Balance") && vstr(a[1]) == "param:stakeSrc" && vstr(a[2]) == "param:baseUnitsAmount"
		}
		c.Check(okMv, "C05.shares", "Deposit:Move(&p.Balance,stakeSrc,amount)", c.P.Pos(fn.Pos()), "stake enters the pool through Move", "Deposit no longer moves exactly the deposited amount from the source into the pool balance")
	}
	if fn := c.needFn("C05.shares", "staking/api.(*SharePool).Withdraw"); fn != nil {
		var tot, src ssa.Value
		for _, call := range CallsTo(fn, "", "common/quantity.(*Quantity).Sub", "").Calls() {
			a := allArgs(call)
			if strings.HasSuffix(vstr(a[0]), "param:p.TotalShares") {
				tot = a[1]
			}
			if vstr(a[0]) == "param:shareSrc" {
				src = a[1]
			}
		}
		c.Check(tot != nil && tot == src, "C05.shares", "Withdraw:pool-total-=x ∧ holder-=x (same x)", c.P.Pos(fn.Pos()), "the shares burned from the holder are exactly the shares removed from the pool total", "Withdraw removes different amounts from the pool's total shares and from the holder's shares")
		okMv := false
		for _, call := range CallsTo(fn, "", "common/quantity.Move", "").Calls() {
			a := allArgs(call)
			okMv = vstr(a[0]) == "param:stakeDst" && strings.HasSuffix(vstr(a[1]), "param:p.Balance") && strings.Contains(vstr(a[2]), "StakeForShares(param:p,param:shareAmount)")
		}
		c.Check(okMv, "C05.shares", "Withdraw:Move(stakeDst,&p.Balance,StakeForShares(amount))", c.P.Pos(fn.Pos()), "stake leaves the pool through Move at the pool's price", "Withdraw no longer moves StakeForShares(shareAmount) from the pool balance to the destination")
	}
	// Move itself: debit and credit of the same amount
	if fn := c.needFn("C05.shares", "common/quantity.Move"); fn != nil {
		var sub, add ssa.Value
		for _, call := range callsIn(fn) {
			n := calleeName(call)
			a := allArgs(call)
			if strings.HasSuffix(n, "(*Quantity).Sub") && vstr(a[0]) == "param:src" {
				sub = a[1]
			}
			if strings.HasSuffix(n, "(*Quantity).Add") && vstr(a[0]) == "param:dst" {
				add = a[1]
			}
		}
		okN := sub != nil && sub == add
		if okN {
			for _, r := range Roots(sub) {
				if r.Kind == "param" && r.Name != "n" {
					okN = false
				}
			}
		}
		c.Check(okN, "C05.shares", "quantity.Move:src-=n ∧ dst+=n", c.P.Pos(fn.Pos()), "Move debits and credits the same amount", "quantity.Move no longer debits src and credits dst by the same amount n")
	}

	// ---- (e) WTF restricted to ledger setters in staking handlers
	ledgerWriteThenFail(c, "C05.wtf", func(wd string) bool {
		return strings.HasPrefix(wd, pkStakeState+".") || strings.HasPrefix(wd, "consensus/cometbft/apps/staking.")
	}, "a transaction can fail after this ledger write (not rolled back)", "no transaction handler has a failing exit after a staking ledger write")
}

// ledgerWriteThenFail: the write-then-fail analysis (wtf.go) restricted to the writes selected by sel, reported under
// the given rule (shared by C05 and C15).
func ledgerWriteThenFail(c *Ctx, rule string, sel func(writeDesc string) bool, failText, okText string) {
	w := newWTF(c.P)
	for k, v := range c.Table("wtf_storageonly") {
		w.storageOnly[k] = v
		c.Tabled("wtf_storageonly", k)
	}
	w.run()
	var keys []string
	for _, key := range []string{"consensus/cometbft/api.(Application).ExecuteTx"} {
		for _, r := range w.impls[key] {
			if r.Blocks == nil || !strings.HasPrefix(short(fpkgPath(r)), "consensus/cometbft/apps/") {
				continue
			}
			for _, s := range sortedSlots(w.DF[r]) {
				for _, lf := range w.leaves(r, s) {
					if lf.Wit.Write == nil {
						continue
					}
					wd := callDesc(lf.Wit.Write)
					if !sel(wd) {
						continue
					}
					k := fname(lf.Fn) + " " + wd
					if _, tab := c.Tabled("wtf", fname(lf.Fn)+" "+wd+"→"+strings.TrimPrefix(lf.Wit.Why, "error of ")); tab {
						continue
					}
					keys = append(keys, k)
					c.Fail(rule, k, c.P.InstrPos(lf.Wit.Fail), failText+": "+strings.Join(lf.Text, " → "))
				}
			}
		}
	}
	sort.Strings(keys)
	if len(keys) == 0 {
		c.OK(rule, "no-ledger-write-then-fail", "", okText)
	}
}

// addrBaseIs: the address is a field/element path inside the object returned by call gv.
func addrBaseIs(a ssa.Value, gv ssa.Value) bool {
	for i := 0; i < 12; i++ {
		switch x := a.(type) {
		case *ssa.FieldAddr:
			a = x.X
		case *ssa.IndexAddr:
			a = x.X
		case *ssa.UnOp:
			a = x.X
		case *ssa.Extract:
			return x.Tuple == gv
		case *ssa.Call:
			return ssa.Value(x) == gv
		case *ssa.Phi:
			for _, e := range x.Edges {
				if addrBaseIs(e, gv) {
					return true
				}
			}
			return false
		default:
			return false
		}
	}
	return false
}

// c05Round2: rules added after the second round of seeds.
func c05Round2(c *Ctx) {
	// (1) slashing: the common pool is credited with exactly what left the two escrow pools
	if fn := c.needFn("C05.slash", "consensus/cometbft/apps/staking/state.(*MutableState).SlashEscrow"); fn != nil {
		sp := CallsTo(fn, "slashPool", "consensus/cometbft/apps/staking/state.slashPool", "")
		var dsts []ssa.Value
		for _, call := range sp.Calls() {
			// what slashPool took: the quantity it returns, or (older form) the destination it is handed first
			if f := call.Common().StaticCallee(); f != nil && f.Signature.Results().Len() == 2 && strings.HasSuffix(typeStr(f.Signature.Results().At(0).Type()), "quantity.Quantity") {
				if v, isV := call.(ssa.Value); isV && v.Referrers() != nil {
					for _, r := range *v.Referrers() {
						if ex, isEx := r.(*ssa.Extract); isEx && ex.Index == 0 {
							dsts = append(dsts, ex)
						}
					}
				}
				continue
			}
			if a := allArgs(call); len(a) > 0 {
				dsts = append(dsts, a[0])
			}
		}
		ok := len(dsts) == 2
		var credited ssa.Value
		for _, call := range CallsTo(fn, "Move(commonPool ← slashed)", "common/quantity.Move", "").Calls() {
			a := allArgs(call)
			if strings.Contains(vstr(a[0]), ".CommonPool(") {
				credited = a[2]
			}
		}
		if ok && credited != nil {
			// credited = clone(dst1) with exactly one Add(dst2) applied (either order of the two destinations)
			cl, isCl := credited.(*ssa.Call)
			ok = isCl && calleeNameCommon(&cl.Call) == "common/quantity.(*Quantity).Clone"
			if ok {
				base := cl.Call.Args[0]
				ops, straight := quantityOps(fn, credited, nil)
				other := dsts[0]
				if base == dsts[0] {
					other = dsts[1]
				}
				ok = straight && (base == dsts[0] || base == dsts[1]) && len(ops) == 1 && ops[0] == "Add("+vstr(other)+")"
			}
		} else {
			ok = false
		}
		c.Check(ok, "C05.slash", fname(fn)+":common pool += what the active and debonding pools lost", c.P.Pos(fn.Pos()), "the amount credited to the common pool is the sum of the two amounts slashPool moved out of the pools", "the amount credited to the common pool on a slash is not the sum of what was actually taken from the active and the debonding pool (rounding of the pro-rata split would create or destroy base units)")
	}
	// (2) debonding completion deletes the delegation record under its own key (delegator, escrow, its end time)
	if fn := c.needFn("C05.pair", "consensus/cometbft/apps/staking.(*Application).onEpochChange"); fn != nil {
		sd := CallsArg(fn, "SetDebondingDelegation(nil)", "consensus/cometbft/apps/staking/state.(*MutableState).SetDebondingDelegation", 5, `^nil`)
		ok := len(sd.Calls()) == 1
		if ok {
			a := allArgs(sd.Calls()[0])
			ok = strings.HasSuffix(vstr(a[2]), ".DelegatorAddr") && strings.HasSuffix(vstr(a[3]), ".EscrowAddr") && strings.HasSuffix(vstr(a[4]), ".Delegation.DebondEndTime") && strings.Contains(vstr(a[4]), "ExpiredDebondingQueue(")
		}
		c.Check(ok, "C05.pair", fname(fn)+":completed debonding delegation removed under (delegator, escrow, its own end time)", c.P.Pos(fn.Pos()), "the record deleted is the one that was paid out", "the debonding delegation record deleted after the payout is not keyed by the entry's own (delegator, escrow, end time): completing an entry later than its end epoch leaves a record whose shares no longer exist in the pool")
	}
	// (3) the per-block fee accumulator lives in memory and is not rolled back with the transaction: once the fee has
	// been moved into it, authentication can no longer be refused (only a storage failure may follow)
	if fn := c.needFn("C05.accumulator", "consensus/cometbft/apps/staking/state.AuthenticateAndPayFees"); fn != nil {
		var mv ssa.CallInstruction
		for _, call := range CallsTo(fn, "Move(fee accumulator ← account)", "common/quantity.Move", "").Calls() {
			if strings.Contains(vstr(allArgs(call)[0]), "feeAccumulator") {
				mv = call
			}
		}
		if mv == nil {
			c.Fail("C05.accumulator", fname(fn)+":fee move", c.P.Pos(fn.Pos()), "the fee payment into the block fee accumulator was not found")
		} else {
			se, found := SuccessEdges(mv)
			ok := found
			var at ssa.Instruction
			if found {
				for _, r := range Returns(fn) {
					ev := retErrVal(r)
					if ev == nil || isNilConst(ev) {
						continue
					}
					storage := strings.Contains(vstr(ev), ".SetAccount(")
					for _, h := range heldCondVals(r) {
						if strings.Contains(vstr(h.Cond), ".SetAccount(") && strings.HasSuffix(normCond(h.Cond, h.Pol), "!= nil") {
							storage = true
						}
					}
					if storage {
						continue // storage failure: fatal for the node, not a rejected transaction
					}
					if Reach(fn, nil, se, isInstr(r), nil) != nil {
						ok, at = false, r
					}
				}
			}
			site := c.P.InstrPos(mv)
			if at != nil {
				site = c.P.InstrPos(at)
			}
			c.Check(ok, "C05.accumulator", fname(fn)+":no rejection after the fee entered the block accumulator", site, "after the fee was credited to the in-memory accumulator only a storage failure can follow", "the transaction can still be rejected after its fee was credited to the in-memory block fee accumulator, which is not rolled back: the accumulator keeps a fee the account was never debited for and EndBlock disburses it")
		}
	}
}

package main

import (
	"bufio"
	"encoding/json"
	"fmt"
	"go/constant"
	"go/types"
	"os"
	"path/filepath"
	"sort"
	"strings"
	"time"
)

// Obligation is one decided rule instance.
type Obligation struct {
	Rule     string `json:"rule"`
	Instance string `json:"instance"`
	Site     string `json:"site,omitempty"`
	Status   string `json:"status"` // ok | violation | known-finding | tabled | undecided | info
	Detail   string `json:"detail,omitempty"`
}

// Ctx is the per-run reporting context.
type Ctx struct {
	P        *Prog
	Prop     string
	Tier     string
	VerifDir string
	OutDir   string
	// AssumeFalse: regex of conditions assumed never to hold (package-level unsafe switches);
	// success-implies rules ignore paths on which they hold.
	AssumeFalse string
	Obls        []Obligation
	Explain     []string // what is decided / not decided
	Assume      []string
	Analysed    map[string]bool // functions analysed
	known       map[string]string
	tableUsed   map[string]map[string]bool
	tables      map[string]map[string]string
	Extra       map[string]any
	start       time.Time
}

func NewCtx(p *Prog, prop, tier, verifDir string) *Ctx {
	c := &Ctx{P: p, Prop: prop, Tier: tier, VerifDir: verifDir, Analysed: map[string]bool{}, known: map[string]string{},
		tableUsed: map[string]map[string]bool{}, tables: map[string]map[string]string{}, Extra: map[string]any{}, start: time.Now()}
	c.loadKnown()
	return c
}

func (c *Ctx) loadKnown() {
	f, err := os.Open(filepath.Join(c.VerifDir, "known_findings.tsv"))
	if err != nil {
		return
	}
	defer f.Close()
	sc := bufio.NewScanner(f)
	for sc.Scan() {
		ln := sc.Text()
		if strings.HasPrefix(ln, "#") || strings.TrimSpace(ln) == "" || strings.HasPrefix(ln, "fixed:") {
			continue // fixed entries suppress nothing
		}
		parts := strings.SplitN(ln, "\t", 3)
		if len(parts) < 3 || parts[0] != c.Prop {
			continue
		}
		c.known[parts[1]] = parts[2]
	}
}

// Table loads tables/<name>.tsv: "key<TAB>reason" rows (comments with #).
// Keys are rule-specific construct identifiers, never line numbers.
func (c *Ctx) Table(name string) map[string]string {
	if t, ok := c.tables[name]; ok {
		return t
	}
	t := map[string]string{}
	c.tables[name] = t
	c.tableUsed[name] = map[string]bool{}
	f, err := os.Open(filepath.Join(c.VerifDir, "tables", name+".tsv"))
	if err != nil {
		return t
	}
	defer f.Close()
	sc := bufio.NewScanner(f)
	sc.Buffer(make([]byte, 1<<20), 1<<20)
	for sc.Scan() {
		ln := sc.Text()
		if strings.HasPrefix(ln, "#") || strings.TrimSpace(ln) == "" {
			continue
		}
		parts := strings.SplitN(ln, "\t", 2)
		reason := ""
		if len(parts) == 2 {
			reason = parts[1]
		}
		t[strings.TrimSpace(parts[0])] = reason
	}
	return t
}

// Tabled reports whether key is in the table (and marks the row used).
func (c *Ctx) Tabled(table, key string) (string, bool) {
	t := c.Table(table)
	r, ok := t[key]
	if ok {
		c.tableUsed[table][key] = true
		return r, ok
	}
	// a construct that moved, unchanged, into a new helper (ip.go) is the construct of the function it was moved out of
	for _, k := range ownerKeys(key) {
		if r, ok := t[k]; ok {
			c.tableUsed[table][k] = true
			return r, ok
		}
		// instances numbered per function ("… #2"): the construct kept its kind but not its ordinal
		base := k
		if i := strings.LastIndex(base, " #"); i > 0 {
			base = base[:i]
		}
		var cands []string
		for tk := range t {
			if tk == base || strings.HasPrefix(tk, base+" #") {
				cands = append(cands, tk)
			}
		}
		if len(cands) == 1 {
			c.tableUsed[table][cands[0]] = true
			return t[cands[0]], true
		}
	}
	return r, ok
}

// ownerKeys: the key with the name of a new helper replaced by the name of the function that calls it (for helpers with
// one call site, transitively).
func ownerKeys(key string) []string {
	if len(NewFns) == 0 {
		return nil
	}
	var out []string
	for h := range NewFns {
		hn := fname(h)
		if !strings.Contains(key, hn) {
			continue
		}
		o := h
		for i := 0; i < ipMaxDepth && NewFns[o] && len(helperSites[o]) == 1; i++ {
			o = helperSites[o][0].Parent()
			for o.Parent() != nil {
				o = o.Parent()
			}
		}
		if o != h && !NewFns[o] {
			out = append(out, strings.ReplaceAll(key, hn, fname(o)))
		}
	}
	sort.Strings(out)
	return out
}

func (c *Ctx) add(o Obligation) { c.Obls = append(c.Obls, o) }

// ruleAlias, while set, renames the rules of what is recorded: a group of rules written for one property is run under
// another property's rule name when the same structural fact is a necessary condition of both.
var ruleAlias map[string]string

func (c *Ctx) aliased(rule string) string {
	if ruleAlias != nil {
		if r, ok := ruleAlias[rule]; ok {
			return r
		}
		for from, to := range ruleAlias {
			if strings.HasSuffix(from, ".*") && strings.HasPrefix(rule, strings.TrimSuffix(from, "*")) {
				return to
			}
		}
	}
	return rule
}

// WithRules runs f with every rule named in m recorded under the mapped name ("C06.*" maps a whole group).
func (c *Ctx) WithRules(m map[string]string, f func()) {
	old := ruleAlias
	ruleAlias = m
	defer func() { ruleAlias = old }()
	f()
}

func (c *Ctx) OK(rule0, inst, site, detail string) {
	rule := c.aliased(rule0)
	c.add(Obligation{rule, inst, site, "ok", detail})
}
func (c *Ctx) Info(rule0, inst, site, detail string) {
	rule := c.aliased(rule0)
	c.add(Obligation{rule, inst, site, "info", detail})
}
func (c *Ctx) TabledOK(rule0, inst, site, reason string) {
	rule := c.aliased(rule0)
	c.add(Obligation{rule, inst, site, "tabled", reason})
}

// Fail records a violation of rule at instance (key = rule|instance).
func (c *Ctx) Fail(rule0, inst, site, detail string) {
	rule := c.aliased(rule0)
	key := rule + "|" + inst
	if what, ok := c.known[key]; ok {
		c.add(Obligation{rule, inst, site, "known-finding", what + " :: " + detail})
		return
	}
	for _, k := range ownerKeys(key) {
		if what, ok := c.known[k]; ok {
			c.add(Obligation{rule, inst, site, "known-finding", what + " :: " + detail})
			return
		}
	}
	c.add(Obligation{rule, inst, site, "violation", detail})
}

// Undecided records that the engine could not classify a required construct.
func (c *Ctx) Undecided(rule0, inst, site, detail string) {
	rule := c.aliased(rule0)
	c.add(Obligation{rule, inst, site, "undecided", detail})
}

// Check is a helper: ok ? OK : Fail.
func (c *Ctx) Check(ok bool, rule, inst, site, okDetail, failDetail string) bool {
	if ok {
		c.OK(rule, inst, site, okDetail)
	} else {
		c.Fail(rule, inst, site, failDetail)
	}
	return ok
}

// Floor fails the run as vacuous if fewer than n instances were found.
func (c *Ctx) Floor(rule string, got, want int, what string) {
	if got < want {
		c.Undecided(rule, "floor:"+what, "", fmt.Sprintf("vacuous/unresolved anchor: found %d %s, floor is %d", got, what, want))
	} else {
		c.Info(rule, "floor:"+what, "", fmt.Sprintf("found %d %s (floor %d)", got, what, want))
	}
}

type evidence struct {
	PropertyID  string         `json:"property_id"`
	Tier        string         `json:"tier"`
	Seed        int            `json:"seed"`
	Level       string         `json:"level"`
	Coverage    map[string]any `json:"coverage"`
	Assumptions []string       `json:"assumptions"`
	WallS       float64        `json:"wall_s"`
	Violations  int            `json:"violations"`
}

// Finish writes evidence, prints the verdict lines and returns the exit code.
func (c *Ctx) Finish(seed int) int {
	nviol, nund, nknown, ntab, nok := 0, 0, 0, 0, 0
	inst := map[string]bool{}
	rules := map[string]int{}
	var viols, unds, knowns []Obligation
	for _, o := range c.Obls {
		switch o.Status {
		case "violation":
			nviol++
			viols = append(viols, o)
		case "undecided":
			nund++
			unds = append(unds, o)
		case "known-finding":
			nknown++
			knowns = append(knowns, o)
		case "tabled":
			ntab++
		case "ok":
			nok++
		}
		if o.Status != "info" {
			inst[o.Rule+"|"+o.Instance] = true
			rules[o.Rule]++
		}
	}
	// stale table rows
	var stale []string
	for tn, t := range c.tables {
		for k := range t {
			if !c.tableUsed[tn][k] {
				stale = append(stale, tn+":"+k)
			}
		}
	}
	sort.Strings(stale)

	// samples: a few discharged obligations, plus everything not ok
	var samples []any
	perRule := map[string]int{}
	for _, o := range c.Obls {
		if o.Status == "ok" || o.Status == "tabled" {
			if perRule[o.Rule] >= 3 {
				continue
			}
			perRule[o.Rule]++
		}
		if o.Status == "info" && perRule["info:"+o.Rule] >= 2 {
			continue
		}
		if o.Status == "info" {
			perRule["info:"+o.Rule]++
		}
		samples = append(samples, o)
		if len(samples) >= 80 {
			break
		}
	}
	funcs := make([]string, 0, len(c.Analysed))
	for f := range c.Analysed {
		funcs = append(funcs, f)
	}
	sort.Strings(funcs)
	if len(funcs) > 60 {
		funcs = append(funcs[:60], fmt.Sprintf("... (%d more)", len(c.Analysed)-60))
	}
	ruleNames := make([]string, 0, len(rules))
	for r := range rules {
		ruleNames = append(ruleNames, fmt.Sprintf("%s=%d", r, rules[r]))
	}
	sort.Strings(ruleNames)
	cov := map[string]any{
		"explanation":         strings.Join(c.Explain, "\n"),
		"evaluations":         len(c.Obls),
		"distinct_nontrivial": len(inst),
		"rule":                "one obligation per (rule, construct) found in /repo's current source; distinct = distinct rule|instance keys, info rows excluded",
		"samples":             samples,
		"obligations":         nok + ntab + nviol + nund + nknown,
		"discharged":          nok + ntab,
		"tabled":              ntab,
		"known_findings":      nknown,
		"undecided":           nund,
		"rules":               ruleNames,
		"functions_analysed":  funcs,
		"n_functions":         len(c.Analysed),
		"stale_table_rows":    stale,
		"module_packages":     len(c.P.Pkgs),
		"module_functions":    len(c.P.ModFuncs),
		"load_s":              c.P.LoadS,
		"ssa_s":               c.P.SSAS,
		"checker_cmd":         strings.Join(os.Args, " "),
		"parameter_names":     fmt.Sprintf("%d functions rendered under the parameter names recorded in tables/names.tsv (identity = position in an unchanged signature); %d of them have been renamed since", c.P.NamesAliased, c.P.NamesRenamed),
		"trusted_base":        []string{"go1.26.8 go/types", "golang.org/x/tools v0.50.0 go/packages, go/ssa, callgraph/vta", "reviewed tables under /verif/tables"},
	}
	for k, v := range c.Extra {
		cov[k] = v
	}
	ev := evidence{PropertyID: c.Prop, Tier: c.Tier, Seed: seed, Level: "other", Coverage: cov,
		Assumptions: append([]string{
			"static analysis of the current source only; decides the structural necessary conditions listed in coverage.explanation, not the behavioural property",
			"default build configuration linux/amd64, Tests=false; reflection/unsafe/cgo not modelled",
			"package-level unsafe*/debug switches are false in production",
		}, c.Assume...),
		WallS: time.Since(c.start).Seconds() + c.P.LoadS + c.P.SSAS, Violations: nviol}
	evdir := filepath.Join(c.VerifDir, "evidence")
	if c.OutDir != "" {
		evdir = c.OutDir
	}
	os.MkdirAll(filepath.Join(evdir, "replay"), 0o755)
	// full obligation listing (every rule instance decided in this run), for review
	os.MkdirAll(filepath.Join(evdir, "obligations"), 0o755)
	var ob strings.Builder
	for _, o := range c.Obls {
		fmt.Fprintf(&ob, "%s\t%s\t%s\t%s\t%s\n", o.Status, o.Rule, o.Instance, o.Site, strings.ReplaceAll(o.Detail, "\n", " "))
	}
	os.WriteFile(filepath.Join(evdir, "obligations", c.Prop+".tsv"), []byte(ob.String()), 0o644)
	cov["obligation_listing"] = "evidence/obligations/" + c.Prop + ".tsv (status, rule, instance, site, detail for every obligation)"
	b, _ := json.MarshalIndent(ev, "", " ")
	if err := os.WriteFile(filepath.Join(evdir, c.Prop+".json"), b, 0o644); err != nil {
		fmt.Fprintln(os.Stderr, "cannot write evidence:", err)
		return 2
	}
	fmt.Printf("property=%s tier=%s packages=%d functions=%d obligations=%d ok=%d tabled=%d known=%d violations=%d undecided=%d\n",
		c.Prop, c.Tier, len(c.P.Pkgs), len(c.P.ModFuncs), nok+ntab+nviol+nund+nknown, nok, ntab, nknown, nviol, nund)
	for _, r := range ruleNames {
		fmt.Println("  rule", r)
	}
	for _, s := range stale {
		fmt.Println("STALE table row:", s)
	}
	for _, o := range knowns {
		fmt.Printf("KNOWN-FINDING: property=%s %s %s at %s: %s\n", c.Prop, o.Rule, o.Instance, o.Site, o.Detail)
	}
	for i, o := range viols {
		rp := filepath.Join(evdir, "replay", fmt.Sprintf("%s-%d.json", c.Prop, i))
		rb, _ := json.MarshalIndent(o, "", " ")
		os.WriteFile(rp, rb, 0o644)
		fmt.Printf("VIOLATION property=%s replay=%s\n", c.Prop, rp)
		fmt.Printf("  rule=%s instance=%s site=%s\n  %s\n", o.Rule, o.Instance, o.Site, o.Detail)
	}
	for _, o := range unds {
		fmt.Printf("UNDECIDED property=%s rule=%s instance=%s site=%s: %s\n", c.Prop, o.Rule, o.Instance, o.Site, o.Detail)
	}
	if nviol > 0 {
		return 1
	}
	if nund > 0 {
		return 2
	}
	return 0
}

// ConstInt resolves a package-level integer constant by name.
func (c *Ctx) ConstInt(pkgShort, name string) (int64, bool) {
	pk := c.P.Pkg(pkgShort)
	if pk == nil {
		return 0, false
	}
	obj, ok := pk.Types.Scope().Lookup(name).(*types.Const)
	if !ok || obj.Val().Kind() != constant.Int {
		return 0, false
	}
	v, exact := constant.Int64Val(obj.Val())
	return v, exact
}

func sortStrings(s []string) { sort.Strings(s) }

package main

import (
	"strings"

	"golang.org/x/tools/go/ssa"
)

// Round-3 rules of C11 (written after seeds C11/8 and C11/9 were missed; C11/7 is reported by C11.tally).
func c11Round3(c *Ctx) {
	// (a) every commitment that is admitted is authenticated: VerifyExecutorCommitment succeeds only through the success
	// of the commitment's signature check — also for a failure-indicating commitment, which otherwise anybody could cast
	// in a committee member's name (the member's genuine vote is then rejected as a duplicate).
	if fn := c.needFn("C11.admit", "roothash/api/commitment.VerifyExecutorCommitment"); fn != nil {
		v := Ev{Name: "commit.Verify(rt.ID)", Fn: fn}
		for _, call := range callsIn(fn) {
			if strings.HasSuffix(calleeName(call), "commitment.(*ExecutorCommitment).Verify") {
				v.Ins = append(v.Ins, call)
			}
		}
		inst := fname(fn) + ":success⇒commit.Verify(rt.ID)✓"
		c.Analysed[fname(fn)] = true
		if v.Empty() {
			c.Fail("C11.admit", inst, c.P.Pos(fn.Pos()), "the signature check of the commitment was not found in VerifyExecutorCommitment")
		} else {
			cut, _ := successCut(v)
			// a return that passes the signature check's own error on (wrapped) is a failure, whatever the wrapper is
			var targets []ssa.Instruction
			for _, r := range SuccessReturns(fn) {
				wrapsVerify := false
				if rr, ok := r.(*ssa.Return); ok && len(rr.Results) == 1 {
					if call, ok := rr.Results[0].(*ssa.Call); ok {
						for _, a := range call.Call.Args {
							for _, vi := range v.Ins {
								if a == vi.(ssa.Value) {
									wrapsVerify = true
								}
							}
						}
					}
				}
				if !wrapsVerify {
					targets = append(targets, r)
				}
			}
			hit := Reach(fn, nil, nil, anyOf(targets), cut)
			pos := c.P.InstrPos(v.Ins[0])
			if hit != nil {
				pos = c.P.InstrPos(hit)
			}
			c.Check(hit == nil, "C11.admit", inst, pos, "every success return follows the success edge of the commitment's signature check", "VerifyExecutorCommitment can succeed without the commitment's signature having been checked (e.g. for a failure-indicating commitment): anybody can cast that vote in a committee member's name, and the member's genuine vote is then rejected as a duplicate")
		}
	}

	// (b) an expired round timer is acted upon: processRoundTimeouts hands every runtime whose timer fires at this height
	// to processRoundTimeout; the timer entries are keyed by the exact height, so an entry that is skipped (e.g. because
	// the runtime also received a commitment in this block) never fires again and the round waits forever.
	if fn := c.needFn("C11.outcome", "consensus/cometbft/apps/roothash.(*Application).processRoundTimeouts"); fn != nil {
		c.Analysed[fname(fn)] = true
		proc := CallsTo(fn, "processRoundTimeout(runtimeID)", "consensus/cometbft/apps/roothash.(*Application).processRoundTimeout", "")
		var heads []*ssa.If
		for _, b := range fn.Blocks {
			ifi := lastIfOf(b)
			if ifi == nil || !strings.Contains(b.Comment, "rangeindex.loop") {
				continue
			}
			if strings.Contains(vstr(ifi.Cond), "RuntimesWithRoundTimeouts(") {
				heads = append(heads, ifi)
			}
		}
		inst := fname(fn) + ":every expired round timer is processed"
		if proc.Empty() || len(heads) == 0 {
			c.Fail("C11.outcome", inst, c.P.Pos(fn.Pos()), "the loop over the runtimes with an expired round timer or the call of processRoundTimeout was not found (unresolved anchor)")
		} else {
			ok := true
			for _, h := range heads {
				if Reach(fn, nil, []Edge{{h.Block(), 0}}, isInstr(h), NewCut().AddInstr(proc.Ins...)) != nil {
					ok = false
				}
			}
			c.Check(ok, "C11.outcome", inst, c.P.InstrPos(proc.Ins[0]), "every iteration over the expired timers that continues has called processRoundTimeout", "an iteration over the runtimes whose round timer expired can go on to the next runtime without processing the timeout: the timer entry is keyed by this height and never fires again, so the round keeps waiting although its timer has expired")
		}
	}
}

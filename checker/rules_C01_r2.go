package main

import (
	"strings"

	"golang.org/x/tools/go/ssa"
)

// Round-2 C01 rules.

// implsOfSinks: an interface-method sink also names every module implementation of that method (a call through the
// concrete type, e.g. mux.state.LocalMinGasPrice(), is the same consultation of local configuration).
func c01ConcreteSinks(g *CG) map[string]string {
	out := map[string]string{}
	for _, s := range c01Sinks {
		if !strings.Contains(s.name, "(") {
			continue
		}
		for _, f := range g.impls[s.name] {
			out[fname(f)] = s.what
		}
	}
	return out
}

// upgrade manager methods that change node-local persistent state
var c01LocalMutators = map[string]bool{
	"upgrade/api.(Backend).SubmitDescriptor": true,
	"upgrade/api.(Backend).CancelUpgrade":    true,
}

// insideOnCommit: fn is a closure passed to (*BlockContext).OnCommit.
func insideOnCommit(fn *ssa.Function) bool {
	par := fn.Parent()
	if par == nil {
		return false
	}
	for _, call := range callsIn(par) {
		if calleeName(call) != "consensus/cometbft/api.(*BlockContext).OnCommit" {
			continue
		}
		for _, a := range allArgs(call) {
			if mc, ok := a.(*ssa.MakeClosure); ok && mc.Fn == ssa.Value(fn) {
				return true
			}
		}
	}
	return false
}

func rulesC01Round2(c *Ctx, g *CG, cone []*ssa.Function, parent map[*ssa.Function]*cgFrom) {
	// ---- local configuration consulted through the concrete state type
	conc := c01ConcreteSinks(g)
	nConc := 0
	for _, f := range cone {
		for _, call := range callsIn(f) {
			what, ok := conc[calleeName(call)]
			if !ok {
				continue
			}
			nConc++
			n := calleeName(call)
			if outsideDelivery(call) {
				c.OK("C01.nondet", fname(f)+" "+n+" (CheckTx/simulation only)", c.P.InstrPos(call), what+" consulted only in a CheckTx/simulation branch")
				continue
			}
			key := fname(f) + " " + n
			if reason, ok := c.Tabled("c01_sinks", key); ok {
				c.TabledOK("C01.nondet", key, c.P.InstrPos(call), reason)
				continue
			}
			c.Fail("C01.nondet", key, c.P.InstrPos(call), what+" ("+n+") is consulted on the consensus execution cone outside CheckTx/simulation: replicas with different local settings would diverge; reached via "+g.Chain(parent, f))
		}
	}
	c.Extra["concrete_local_config_sites_on_cone"] = nConc

	// ---- node-local persistent effects only once the block is committed
	// A block is also executed as a proposal that may never be decided; the consensus state is then rolled back, node-local
	// state is not. On the applications' part of the cone, a call that changes the node-local upgrade manager must
	// therefore sit in a callback registered with BlockContext.OnCommit (F22).
	nMut := 0
	seen := map[*ssa.Function]bool{}
	var visit func(f *ssa.Function)
	visit = func(f *ssa.Function) {
		if seen[f] {
			return
		}
		seen[f] = true
		for _, call := range callsIn(f) {
			n := calleeName(call)
			if !c01LocalMutators[n] {
				continue
			}
			nMut++
			key := fname(f) + " " + n
			if insideOnCommit(f) {
				c.OK("C01.local", key, c.P.InstrPos(call), "node-local upgrade state is changed from a commit callback")
				continue
			}
			if reason, ok := c.Tabled("c01_sinks", key); ok {
				c.TabledOK("C01.local", key, c.P.InstrPos(call), reason)
				continue
			}
			c.Fail("C01.local", key, c.P.InstrPos(call), "the node-local upgrade manager is changed during block execution, outside a BlockContext.OnCommit callback: a block executed as a proposal that is never decided leaves the local upgrade state changed, and this replica later performs (or misses) an upgrade the others do not")
		}
		for _, a := range f.AnonFuncs {
			visit(a)
		}
	}
	for _, f := range cone {
		if strings.HasPrefix(short(fpkgPath(f)), "consensus/cometbft/apps/") {
			visit(f)
		}
	}
	c.Floor("C01.local", nMut, 2, "calls that change the node-local upgrade manager in the applications")
	// support for the reviewed row of completeStateSync: the state-sync-completed message is published only by the
	// multiplexer, from functions that are not part of block or proposal execution
	{
		nPub, bad := 0, ""
		exec := map[string]bool{"BeginBlock": true, "DeliverTx": true, "EndBlock": true, "executeProposal": true, "PrepareProposal": true, "ProcessProposal": true, "FinalizeBlock": true, "processTx": true, "executeTx": true, "InitChain": true}
		want := "global:consensus/cometbft/api.MessageStateSyncCompleted"
		for _, f := range c.P.ModFuncs {
			if f.Blocks == nil {
				continue
			}
			for _, call := range callsIn(f) {
				if n := calleeName(call); (n != ifPublish && n != "consensus/cometbft/abci.(*messageDispatcher).Publish") || publishKind(call) != want {
					continue
				}
				nPub++
				if short(fpkgPath(f)) != "consensus/cometbft/abci" || exec[f.Name()] {
					bad = fname(f)
				}
			}
		}
		c.Check(nPub >= 1 && bad == "", "C01.local", "MessageStateSyncCompleted:published only by the multiplexer outside block execution", "", itoa(nPub)+" publication sites, all in the multiplexer's start-up / snapshot code", "the state-sync-completed message (whose governance handler changes the node-local upgrade manager directly) is published from "+bad+", i.e. possibly during block or proposal execution")
	}
	// the callbacks are run at commit, before the block context is dropped
	if fn := c.needFn("C01.local", "consensus/cometbft/abci.(*applicationState).doCommit"); fn != nil {
		run := CallsTo(fn, "blockCtx.RunCommitHooks", "consensus/cometbft/api.(*BlockContext).RunCommitHooks", "")
		commit := CallsTo(fn, "canonicalState.Commit", "storage/mkvs.(Tree).Commit", "")
		c.MustPrecede("C01.local", fn, commit, run, "node-local effects of a block are applied only after its state has been committed")
		var drops []ssa.Instruction
		for _, b := range blocksIP(fn) {
			for _, in := range b.Instrs {
				if st, ok := in.(*ssa.Store); ok && strings.HasSuffix(vstr(st.Addr), ".blockCtx") && isNilConst(st.Val) {
					drops = append(drops, in)
				}
			}
		}
		c.MustPrecede("C01.local", fn, run, Ev{Name: "blockCtx=nil", Fn: fn, Ins: drops}, "the commit callbacks are run before the block context that holds them is dropped")
	}

	// ---- the proposer executes on the same last-commit input as everyone else
	// PrepareProposal converts the local extended commit into the CommitInfo its own execution sees; validators and
	// replaying nodes get CometBFT's ProposedLastCommit/LastCommitInfo, which lists every validator (absent ones included),
	// and the staking application counts them. The conversion must therefore forward every entry: in the conversion
	// loop the append of a VoteInfo is reached on every path through the loop body.
	prepareVotesRule(c, "C01.proposal")

	// ---- resetting a proposal re-creates the canonical tree on every path
	// The working tree of a proposal is an overlay that is flushed into the canonical tree when its root is computed; a
	// reset must therefore replace the canonical tree by a fresh one (at the committed root, or rebuilt from the init
	// state before the first commit) on every path, or the next proposal runs on top of an undecided one's writes.
	resetProposalRule(c, "C01.proposal")
}

// resetProposalRule (shared: C01 — replicas execute a proposal on the committed state only; C09 — the nonce advances of an
// undecided proposal must not be visible to the next one, or a transaction executes out of sequence).
func resetProposalRule(c *Ctx, rule string) {
	if fn := c.needFn(rule, "consensus/cometbft/abci.(*applicationState).resetProposal"); fn != nil {
		stores := StoresTo(fn, "s.canonicalState=", "consensus/cometbft/abci.applicationState.canonicalState")
		inst := fname(fn) + ":canonical tree re-created on every path"
		if stores.Empty() {
			c.Fail(rule, inst, c.P.Pos(fn.Pos()), "resetProposal no longer replaces the canonical tree")
		} else {
			hit := Reach(fn, nil, nil, func(i ssa.Instruction) bool { _, r := i.(*ssa.Return); return r }, NewCut().AddInstr(stores.Ins...))
			fresh := true
			for _, in := range stores.Ins {
				v := vstr(in.(*ssa.Store).Val)
				if !strings.Contains(v, "storage/mkvs.New") {
					fresh = false
				}
			}
			c.Check(hit == nil && fresh, rule, inst, c.P.InstrPos(stores.Ins[0]), "every path assigns a freshly constructed tree to the canonical state", "a path through resetProposal keeps the previous canonical tree (or assigns a tree that is not freshly constructed): the writes of an undecided proposal, flushed into it when its state root was computed, stay and the next proposal for the height executes on top of them")
		}
	}
}

// prepareVotesRule: the proposer executes on the same last-commit input as everyone else (shared by C01 and C10: a
// proposer that executes on a shorter vote list signs a state root nobody else computes, and every validator rejects
// its block).
func prepareVotesRule(c *Ctx, rule string) {
	if fn := c.needFn(rule, "consensus/cometbft/abci.(*abciMux).PrepareProposal"); fn != nil {
		var appends, heads []ssa.Instruction
		for _, b := range blocksIP(fn) {
			for _, in := range b.Instrs {
				if call, ok := in.(ssa.CallInstruction); ok && calleeName(call) == "builtin.append" {
					args := allArgs(call)
					if len(args) == 2 && strings.HasSuffix(typeStr(args[0].Type()), "abci/types.VoteInfo") {
						appends = append(appends, in)
					}
				}
				// loop header: the bounds test of the range over LocalLastCommit.Votes
				if bo, ok := in.(*ssa.BinOp); ok && strings.Contains(vstr(bo), ".LocalLastCommit.Votes)") {
					if refs := bo.Referrers(); refs != nil {
						for _, r := range *refs {
							if ifi, ok := r.(*ssa.If); ok {
								heads = append(heads, ifi)
							}
						}
					}
				}
			}
		}
		inst := fname(fn) + ":every local last-commit vote is forwarded"
		if len(appends) == 0 || len(heads) == 0 {
			c.Fail(rule, inst, c.P.Pos(fn.Pos()), "the conversion loop from the local extended commit to the commit info (range over req.LocalLastCommit.Votes appending VoteInfo) was not found in PrepareProposal")
		} else {
			ok := true
			for _, h := range heads {
				ifi := h.(*ssa.If)
				// from the loop body entry (true edge of the bounds test) back to the header without passing the append
				if hit := Reach(fn, nil, []Edge{{ifi.Block(), 0}}, isInstr(h), NewCut().AddInstr(appends...)); hit != nil {
					ok = false
				}
			}
			c.Check(ok, rule, inst, c.P.InstrPos(appends[0]), "every iteration of the conversion loop appends one VoteInfo", "an iteration of the last-commit conversion loop can skip the append: the proposer executes its own block on a shorter vote list than the validators and replaying nodes see (the staking application counts the entries), so their results differ from the proposer's")
		}
	}

}

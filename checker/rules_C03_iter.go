package main

import (
	"go/constant"
	"go/token"
	"go/types"

	"golang.org/x/tools/go/ssa"
)

// C03.iter — when a seek key sorts below everything in a subtree, nothing in the subtree is skipped.
//
// treeIterator.doNext computes, for an internal node, whether the seek key is at least as long as the node's path but
// compares lower than it ("everything in this subtree will be larger so we need to take the first value"). On that
// condition every key below the node is >= the seek position, so "iteration yields exactly the live keys in ascending
// order starting at the seek position" needs: entering the node (state visitBefore) with the condition true, the leaf,
// the left and the right child are all tried before the node is left without a result. The rule identifies the condition
// by its defining comparison (Key.Compare(key, path) < 0), forces it true on the CFG (removes the edges taken when it is
// false) and requires that every path from the visitBefore entry to the "nothing found" exit passes the visit of each
// child. It decides nothing about the other branch conditions (key bits, key length), which are value-level.
func rulesC03Iter(c *Ctx) {
	const rule = "C03.iter"
	fn := c.needFn(rule, "storage/mkvs.(*treeIterator).doNext")
	if fn == nil {
		return
	}
	c.Analysed[fname(fn)] = true
	// the "subtree is entirely above the seek key" flag: a bool phi one of whose edges is Compare(...) < 0
	var flag ssa.Value
	for _, b := range blocksIP(fn) {
		for _, in := range b.Instrs {
			bo, ok := in.(*ssa.BinOp)
			if !ok {
				continue
			}
			bx, bop, by := cmpConstRight(bo)
			if bop != token.LSS {
				continue
			}
			call, ok := bx.(*ssa.Call)
			if !ok || calleeName(call) != "storage/mkvs/node.(Key).Compare" {
				continue
			}
			if k, ok := constInt(by); !ok || k != 0 {
				continue
			}
			flag = bo
			if refs := bo.Referrers(); refs != nil {
				for _, r := range *refs {
					if phi, ok := r.(*ssa.Phi); ok {
						flag = phi
					}
				}
			}
		}
	}
	if flag == nil {
		c.Fail(rule, fname(fn)+":subtree-above-seek-key condition", c.P.Pos(fn.Pos()), "the comparison of the seek key with the node's path (Key.Compare(...) < 0) was not found in doNext (unresolved anchor)")
		return
	}
	// edges taken when the flag is false
	cut := NewCut()
	nIf := 0
	for _, b := range fn.Blocks {
		ifi := lastIfOf(b)
		if ifi == nil {
			continue
		}
		cond, pol := stripNot(ifi.Cond, true)
		if cond != flag {
			continue
		}
		nIf++
		if pol {
			cut.AddEdges(Edge{b, 1})
		} else {
			cut.AddEdges(Edge{b, 0})
		}
	}
	// entry of the visitBefore case: true edge of `state == visitBefore`
	var stateParam *ssa.Parameter
	for _, p := range fn.Params {
		if p.Name() == "state" || namedOf(p.Type()) == "storage/mkvs.visitState" {
			stateParam = p
		}
	}
	vb := int64(-1)
	if pkg := c.P.Pkg("storage/mkvs"); pkg != nil {
		if o, ok := pkg.Types.Scope().Lookup("visitBefore").(*types.Const); ok {
			if v, ok := constant.Int64Val(o.Val()); ok {
				vb = v
			}
		}
	}
	var start []Edge
	for _, b := range fn.Blocks {
		ifi := lastIfOf(b)
		if ifi == nil {
			continue
		}
		bo, ok := ifi.Cond.(*ssa.BinOp)
		if !ok || bo.Op != token.EQL || stateParam == nil {
			continue
		}
		var other ssa.Value
		if bo.X == ssa.Value(stateParam) {
			other = bo.Y
		} else if bo.Y == ssa.Value(stateParam) {
			other = bo.X
		}
		if other == nil {
			continue
		}
		if k, ok := constInt(other); ok && k == vb {
			start = append(start, Edge{b, 0})
		}
	}
	if len(start) == 0 || nIf == 0 {
		c.Fail(rule, fname(fn)+":visitBefore entry / uses of the condition", c.P.Pos(fn.Pos()), "the entry of the visitBefore case or the branches on the subtree-above-seek-key condition were not found ("+itoa(len(start))+" entries, "+itoa(nIf)+" branches): unresolved anchor")
		return
	}
	// visits of the three children: calls of a closure whose first argument is a load of a field of the internal node
	visits := map[string][]ssa.Instruction{}
	for _, call := range callsIn(fn) {
		cc := call.Common()
		if _, ok := cc.Value.(*ssa.MakeClosure); !ok || len(cc.Args) == 0 {
			continue
		}
		u, ok := cc.Args[0].(*ssa.UnOp)
		if !ok {
			continue
		}
		fa, ok := u.X.(*ssa.FieldAddr)
		if !ok || namedOf(derefType(fa.X.Type())) != "storage/mkvs/node.InternalNode" {
			continue
		}
		f := fieldName(fa.X.Type(), fa.Field)
		visits[f] = append(visits[f], call)
	}
	var notFound []ssa.Instruction
	for _, r := range Returns(fn) {
		if ev := retErrVal(r); ev != nil && isNilConst(ev) {
			notFound = append(notFound, r)
		}
	}
	for _, child := range []string{"LeafNode", "Left", "Right"} {
		inst := fname(fn) + ":subtree above the seek key⇒" + child + " is visited"
		if len(visits[child]) == 0 || len(notFound) == 0 {
			c.Fail(rule, inst, c.P.Pos(fn.Pos()), "no visit of n."+child+" found in doNext")
			continue
		}
		cc := cut.Clone().AddInstr(visits[child]...)
		hit := Reach(fn, nil, start, anyOf(notFound), cc)
		site := c.P.InstrPos(visits[child][0])
		c.Check(hit == nil, rule, inst, site, "entering an internal node whose whole subtree sorts above the seek key, n."+child+" is tried on every path before the node is left without a result", "when the seek key is at least as long as an internal node's path but sorts below it, every key of the subtree is >= the seek key; yet a path leaves the node without trying n."+child+": Seek positions after keys it should yield (e.g. keys {b, ba, bb}, Seek(\"aa\") must yield b first)")
	}
}

package main

import (
	"strings"

	"golang.org/x/tools/go/ssa"
)

// Round-2 C12 rules.

func rulesC12Round2(c *Ctx) {
	// ---- checkpoint metadata does not depend on the host
	// "A checkpoint … of one root is produced with identical metadata … on every host": nothing on the creation path may
	// consult the clock, randomness, the environment or the number of processors. The creation cone is what
	// (*fileCreator).CreateCheckpoint reaches inside storage/mkvs/checkpoint (static calls, closures, goroutines).
	if root := c.needFn("C12.determinism", "storage/mkvs/checkpoint.(*fileCreator).CreateCheckpoint"); root != nil {
		seen := map[*ssa.Function]bool{}
		var order []*ssa.Function
		var visit func(f *ssa.Function)
		visit = func(f *ssa.Function) {
			if f == nil || seen[f] || f.Blocks == nil || short(fpkgPath(f)) != "storage/mkvs/checkpoint" {
				return
			}
			seen[f] = true
			order = append(order, f)
			for _, call := range callsIn(f) {
				cc := call.Common()
				if sc := cc.StaticCallee(); sc != nil {
					visit(sc)
				}
				if cc.IsInvoke() {
					// interface calls inside the package (chunker, writerFactory): all implementations in the package
					for _, g := range c.P.FuncsInPkg("storage/mkvs/checkpoint") {
						if g.Signature.Recv() != nil && g.Name() == cc.Method.Name() {
							visit(g)
						}
					}
				}
				for _, a := range cc.Args {
					if mc, ok := a.(*ssa.MakeClosure); ok {
						visit(mc.Fn.(*ssa.Function))
					}
				}
				if mc, ok := cc.Value.(*ssa.MakeClosure); ok {
					visit(mc.Fn.(*ssa.Function))
				}
			}
			for _, a := range f.AnonFuncs {
				visit(a)
			}
		}
		visit(root)
		nSink := 0
		for _, f := range order {
			c.Analysed[fname(f)] = true
			for _, call := range callsIn(f) {
				n := calleeName(call)
				what, isSink := sinkOf(n)
				if !isSink {
					continue
				}
				nSink++
				key := fname(f) + " " + n
				if reason, ok := c.Tabled("c12_sinks", key); ok {
					c.TabledOK("C12.determinism", key, c.P.InstrPos(call), reason)
					continue
				}
				c.Fail("C12.determinism", key, c.P.InstrPos(call), what+" ("+n+") is consulted while a checkpoint is created: chunk boundaries or contents would depend on the host that creates it, so the same root does not give the same metadata everywhere")
			}
		}
		c.Floor("C12.determinism", len(order), 8, "functions on the checkpoint creation path")
		if nSink == 0 {
			c.OK("C12.determinism", "creation path:no host-dependent input", c.P.Pos(root.Pos()), itoa(len(order))+" functions reached from CreateCheckpoint inside the package consult no clock, randomness, environment or processor count")
		}
	}

	// ---- pathbadger: the restore's root marker is read only by the batch that holds the multipart lock
	// multipartMeta.root is set by the commit of the first chunk batch and tells later batches that the root node already
	// exists. Chunk batches are serialised by the per-type multipart lock, taken at the end of NewBatch and released by the
	// batch's Reset: only a method of the batch (which owns the lock) may read or write the marker; a copy taken while
	// the batch is being created is stale once the lock has been waited for.
	nAcc := 0
	for _, f := range c.P.FuncsInPkg("storage/mkvs/db/pathbadger") {
		for _, b := range f.Blocks {
			for _, in := range b.Instrs {
				fa, ok := in.(*ssa.FieldAddr)
				if !ok || fieldKey(fa.X.Type(), fa.Field) != "storage/mkvs/db/pathbadger.multipartMeta.root" {
					continue
				}
				nAcc++
				owner := f
				for owner.Parent() != nil {
					owner = owner.Parent()
				}
				recv := ""
				if r := owner.Signature.Recv(); r != nil {
					recv = typeStr(r.Type())
				}
				c.Check(strings.HasSuffix(recv, "pathbadger.badgerBatch"), "C12.mproot", fname(f)+":multipartMeta.root accessed by the batch that holds the multipart lock", c.P.InstrPos(in), "accessed in a method of the batch", "the multipart restore's root marker is accessed outside the methods of the batch that holds the multipart lock (here in "+fname(f)+"): a value read while the batch is still being created is stale after the lock has been waited for — a second chunk batch treats the root node as new and overwrites it, and the first chunk's subtree becomes unreachable although every RestoreChunk and Finalize succeed")
			}
		}
	}
	c.Floor("C12.mproot", nAcc, 3, "accesses of multipartMeta.root in pathbadger")

	// ---- a chunk that finishes after its restore was aborted is not accounted for (F30)
	// RestoreChunk releases the restorer lock while the chunk is imported. Marking the chunk restored and reporting the
	// restore as done must be dominated by a test, under the lock taken afterwards, that the current restore is still the
	// one the chunk was started under.
	if fn := c.needFn("C12.restore", "storage/mkvs/checkpoint.(*restorer).RestoreChunk"); fn != nil {
		var marks []ssa.Instruction
		for _, call := range callsIn(fn) {
			if calleeName(call) == "builtin.delete" && strings.HasSuffix(vstr(allArgs(call)[0]), ".pendingChunks") {
				marks = append(marks, call)
			}
		}
		inst := fname(fn) + ":chunk accounted for only if its restore is still current"
		ok := len(marks) > 0
		for _, m := range marks {
			found := false
			for _, h := range heldCondVals(m) {
				bo, isBO := h.Cond.(*ssa.BinOp)
				if !isBO {
					continue
				}
				s := vstr(bo)
				// rs.currentCheckpoint compared (equal on this path) with the checkpoint remembered before the import
				if strings.Contains(s, "param:rs.currentCheckpoint") && ((bo.Op.String() == "==" && h.Pol) || (bo.Op.String() == "!=" && !h.Pol)) && !isNilConst(bo.X) && !isNilConst(bo.Y) {
					found = true
				}
			}
			if !found {
				ok = false
			}
		}
		site := c.P.Pos(fn.Pos())
		if len(marks) > 0 {
			site = c.P.InstrPos(marks[0])
		}
		c.Check(ok, "C12.restore", inst, site, "the chunk is marked restored only where rs.currentCheckpoint equals the checkpoint the chunk was started under", "a chunk that finishes after the restore was aborted (or replaced) is still accounted for: its index is deleted from the (cleared) pending set, the set is empty and RestoreChunk reports the checkpoint as fully restored — the caller finalizes a partially restored tree")
	}

	// ---- badger: cleaning up a restore also withdraws its roots from the roots metadata (F31)
	if fn := c.needFn("C12.restore", "storage/mkvs/db/badger.(*badgerNodeDB).cleanMultipartLocked"); fn != nil {
		delRoot := CallsArg(fn, "Delete(rootNodeKeyFmt)", bWB+".Delete", 1, `global:storage/mkvs/db/badger\.rootNodeKeyFmt`)
		var save []ssa.Instruction
		for _, call := range callsIn(fn) {
			if calleeName(call) == "storage/mkvs/db/badger.(*rootsMetadata).save" {
				save = append(save, call)
			}
		}
		var unlist []ssa.Instruction
		for _, call := range callsIn(fn) {
			if calleeName(call) == "builtin.delete" && strings.HasSuffix(vstr(allArgs(call)[0]), ".Roots") {
				unlist = append(unlist, call)
			}
		}
		c.Check(!delRoot.Empty() && len(save) > 0 && len(unlist) > 0, "C12.restore", fname(fn)+":removed root records are withdrawn from the roots metadata", c.P.Pos(fn.Pos()), "the clean-up deletes root records and also removes roots from the version's roots metadata and saves it", "the restore clean-up deletes the root record of a partially restored root but leaves the root listed in the roots metadata: HasRoot keeps answering that the root exists although every read under it fails, and callers that skip work for a present root never restore it")
	}
}

package main

import (
	"go/constant"
	"strings"

	"golang.org/x/tools/go/ssa"
)

func init() { register("C11", rulesC11) }

const (
	fnExecCommit  = "consensus/cometbft/apps/roothash.(*Application).executorCommit"
	fnVerifyEC    = "roothash/api/commitment.VerifyExecutorCommitment"
	fnAddVerified = "roothash/api/commitment.(*Pool).AddVerifiedExecutorCommitment"
	fnSCAdd       = "roothash/api/commitment.(*SchedulerCommitment).Add"
	fnProcessC    = "roothash/api/commitment.(*Pool).processCommitments"
	fnProcessCPub = "roothash/api/commitment.(*Pool).ProcessCommitments"
	fnTryFinalize = "consensus/cometbft/apps/roothash.(*Application).tryFinalizeRoundInsideTx"
	fnFinalizeBlk = "consensus/cometbft/apps/roothash.(*Application).finalizeBlock"
	votesMapRe    = `builtin\.len\(make\(map\[common/crypto/hash\.Hash\]int\)\)`
	discTrue      = `^\*param:p\.Discrepancy( == true| != false)?$`
	discFalse     = `^(!\*param:p\.Discrepancy|\*param:p\.Discrepancy (== false|!= true))$`
)

func rulesC11(c *Ctx) {
	c.Explain = append(c.Explain,
		"C11 (a round finalizes only with unanimity or backup majority) — decided: (a) in the roothash transaction handler a commitment is added to the pool only after VerifyExecutorCommitment's success edge on the same commitment, and a verification or admission failure can never reach the state update/commit (the whole transaction is rejected); the pool's Add is called only from the handler and the worker's own mirror; votes and the scheduler commitment are stored only inside SchedulerCommitment.Add, only after the one-vote-per-node guard; (b) admission guards (member / backup-worker by discrepancy mode, scheduler rank known, not worse than the highest rank, equal rank during resolution) dominate every admission; only worker-role members obtain a scheduler rank; (c) every success exit of the vote tally passes, at its single post-loop evaluation: in detection mode 'at most one distinct vote', 'failures within the straggler allowance', 'required votes reached'; in resolution mode 'best vote count reaches total/2+1' and 'winning hash equals the scheduler commitment's vote'; votes are read only by committee-member key; (d) a Normal block is produced only from a nil-error ProcessCommitments result, with the header of that result; every other outcome fails the round, waits, or returns the error.",
		"NOT decided: the arithmetic of the thresholds themselves (that total/required are computed from the right member subsets), straggler/liveness accounting, timeout scheduling — values, not shapes.")
	ix := c.P.BuildIndex()
	c11Round3(c)
	c11Round4(c)
	c11Round5(c)
	normalK, okK := c.ConstInt("roothash/api/block", "Normal")
	if !okK {
		c.Undecided("C11.outcome", "anchor:block.Normal", "", "constant roothash/api/block.Normal not found")
		return
	}
	normalS := itoa(int(normalK))

	// (a) handler
	if fn := c.needFn("C11.admit", fnExecCommit); fn != nil {
		ver := CallsTo(fn, "VerifyExecutorCommitment", fnVerifyEC, "")
		add := CallsTo(fn, "AddVerifiedExecutorCommitment", fnAddVerified, "")
		c.MustPrecede("C11.admit", fn, ver, add, "only verified commitments enter the pool")
		if !ver.Empty() && !add.Empty() {
			va, aa := allArgs(ver.Calls()[0]), allArgs(add.Calls()[0])
			same := len(va) > 4 && len(aa) > 2 && va[4] == aa[2]
			c.Check(same, "C11.admit", fnExecCommit+":same-commitment", c.P.InstrPos(add.Ins[0]), "the commitment added is the one verified", "the commitment added to the pool is not the value that was verified")
		}
		commitEv := union("state-update", CallsTo(fn, "", "consensus/cometbft/apps/roothash/state.(*MutableState).SetRuntimeState", ""), CallsTo(fn, "", fnCtxCmt, ""))
		commitEv.Name, commitEv.Fn = "SetRuntimeState/Commit", fn
		for _, ev := range []Ev{ver, add} {
			for _, call := range ev.Calls() {
				fe, found := FailEdges(call)
				ok := found
				if found {
					ok = Reach(fn, nil, fe, anyOf(commitEv.Ins), nil) == nil
					// also: the loop must not continue after a failure
					if ok {
						ok = Reach(fn, nil, fe, anyOf(ev.Ins), nil) == nil
					}
				}
				c.Check(ok, "C11.admit", fnExecCommit+":"+ev.Name+"-failure-rejects-tx", c.P.InstrPos(call), "a failing commitment aborts the whole transaction", "after "+ev.Name+" failed the handler can still go on to further commitments or to updating the runtime state: a rejected (e.g. duplicate/equivocating) commitment must abort the transaction")
			}
		}
	}
	c.WhoMayCall(ix, "C11.admit", fnAddVerified, []string{fnExecCommit, "worker/compute/executor/committee/"}, "commitments enter a pool only through the verified path")
	c.WhoMayCall(ix, "C11.admit", fnSCAdd, []string{fnAddVerified}, "votes are recorded only through pool admission")
	c.WhoMayStore(ix, "C11.admit", "roothash/api/commitment.SchedulerCommitment.Votes", []string{fnSCAdd}, "vote store confined")
	c.WhoMayStore(ix, "C11.admit", "roothash/api/commitment.SchedulerCommitment.Commitment", []string{fnSCAdd}, "scheduler commitment store confined")
	if fn := c.needFn("C11.admit", fnSCAdd); fn != nil {
		var muts []ssa.Instruction
		for _, b := range blocksIP(fn) {
			for _, in := range b.Instrs {
				switch x := in.(type) {
				case *ssa.MapUpdate:
					muts = append(muts, in)
				case *ssa.Store:
					if fa, ok := x.Addr.(*ssa.FieldAddr); ok && strings.HasPrefix(fieldKey(fa.X.Type(), fa.Field), "roothash/api/commitment.SchedulerCommitment.") {
						muts = append(muts, in)
					}
				}
			}
		}
		T := Ev{Name: "vote/commitment stores", Fn: fn, Ins: muts}
		c.DominatedBySentinelGuard("C11.admit", fn, GuardSpec{"roothash/api/commitment.ErrAlreadyCommitted", []string{`^\*param:sc\.Votes\[\*param:ec\.NodeID\]#1$`}, "each node's vote counts at most once per scheduler"}, T)
	}
	// (b) admission guards
	if fn := c.needFn("C11.admit", fnAddVerified); fn != nil {
		add := CallsTo(fn, "sc.Add", fnSCAdd, "")
		isMember := `scheduler/api\.\(\*Committee\)\.IsMember\(param:c,\*param:ec\.NodeID\)`
		isBackup := `scheduler/api\.\(\*Committee\)\.IsBackupWorker\(param:c,\*param:ec\.NodeID\)`
		rank := `scheduler/api\.\(\*Committee\)\.SchedulerRank\(param:c,.*\)#0`
		c.DominatedBySentinelGuard("C11.admit", fn, GuardSpec{"roothash/api/commitment.ErrNotInCommittee", []string{`^!\*param:p\.Discrepancy$ && ^!` + isMember + `$`}, "non-members never count"}, add)
		c.DominatedBySentinelGuard("C11.admit", fn, GuardSpec{"roothash/api/commitment.ErrBadExecutorCommitment", []string{
			`^\*param:p\.Discrepancy$ && ^!` + isBackup + `$`,
			`^!scheduler/api\.\(\*Committee\)\.SchedulerRank\(param:c,.*\)#1$`,
			`^\*param:p\.HighestRank < ` + rank + `$`,
			`^\*param:p\.Discrepancy$ && ^\*param:p\.HighestRank != ` + rank + `$`,
		}, "role by discrepancy mode, known scheduler, never a worse-ranked scheduler, same rank during resolution"}, add)
		// superior rank replaces the pool only for the scheduler's own commitment
		st := StoresTo(fn, "p.HighestRank=", "roothash/api/commitment.Pool.HighestRank")
		if !st.Empty() {
			c.DominatedByCond("C11.admit", fn, "ec.NodeID==SchedulerID", `^common/crypto/signature\.\(PublicKey\)\.Equal\(\*param:ec\.NodeID,\*param:ec\.Header\.SchedulerID\)$`, st, "only the better-ranked scheduler's own commitment lowers the pool rank")
			c.DominatedByCond("C11.admit", fn, "rank<HighestRank", `^\*param:p\.HighestRank > `+rank+`$`, st, "pool rank only improves")
		} else {
			c.Fail("C11.admit", fnAddVerified+":HighestRank-update", c.P.Pos(fn.Pos()), "pool no longer tracks the highest-ranked scheduler")
		}
	}
	if fn := c.needFn("C11.admit", "scheduler/api.(*Committee).SchedulerRank"); fn != nil {
		cmp := IfsMatching(fn, "PublicKey==id", `\.PublicKey == param:id$|^param:id == .*\.PublicKey$`)
		c.DominatedByCond("C11.admit", fn, "Role==RoleWorker", `\.Role == 1$`, cmp, "only (primary) worker entries can be schedulers; backup-only entries never get a rank")
	}

	// (c) tally
	if fn := c.needFn("C11.tally", fnProcessC); fn != nil {
		req := func(name, re, otherMode string) {
			edges := append(HeldEdgesAcyclic(fn, re), HeldEdgesAcyclic(fn, otherMode)...)
			own := HeldEdgesAcyclic(fn, re)
			if len(own) == 0 {
				c.Fail("C11.tally", fnProcessC+":success⇒"+name, c.P.Pos(fn.Pos()), "the post-loop check '"+name+"' is gone from the vote tally")
				return
			}
			c.SuccessRequiresEdges("C11.tally", fn, name, edges, "a round is accepted only if '"+name+"' holds at the final (post-loop) evaluation")
		}
		req("detection: at most one distinct vote", `^`+votesMapRe+` <= 1$`, discTrue)
		req("detection: failures within straggler allowance", `^phi\(.*\) <= int\(param:allowedStragglers\)$`, discTrue)
		req("detection: required votes reached", `^phi\(.*allowedStragglers.*\) <= 0$`, discTrue)
		req("resolution: best >= total/2+1", `^phi\(.*\) >= \(\(.* / 2\) \+ 1\)$`, discFalse)
		req("resolution: winning hash == scheduler vote", ` == roothash/api/commitment\.\(\*ExecutorCommitment\)\.ToVote\(\*\*param:p\.SchedulerCommitments\[\*param:p\.HighestRank\]#0\.Commitment\)$`, discFalse)
		req("scheduler commitment present", `^\*param:p\.SchedulerCommitments\[\*param:p\.HighestRank\]#1$`, `^$`)
		// votes read only by member key
		okKey := true
		n := 0
		for _, b := range blocksIP(fn) {
			for _, in := range b.Instrs {
				lk, ok := in.(*ssa.Lookup)
				if !ok || !strings.HasSuffix(vstr(lk.X), ".Votes") {
					continue
				}
				n++
				if !strings.Contains(vstr(lk.Index), "param:c.Members[") || !strings.HasSuffix(vstr(lk.Index), ".PublicKey") {
					okKey = false
					c.Fail("C11.tally", fnProcessC+":votes-by-member-key", c.P.InstrPos(in), "votes are read with a key that is not a committee member's public key: "+vstr(lk.Index))
				}
			}
		}
		if okKey && n > 0 {
			c.OK("C11.tally", fnProcessC+":votes-by-member-key", c.P.Pos(fn.Pos()), "all vote lookups use c.Members[i].PublicKey")
		}
		c.Floor("C11.tally", n, 1, "vote lookups")
		// role filter per mode inside the tally loop
		c.Check(len(HeldEdges(fn, `\.Role == 1$`)) > 0 && len(HeldEdges(fn, `\.Role == 2$`)) > 0, "C11.tally", fnProcessC+":role-filter", c.P.Pos(fn.Pos()), "tally filters members by role per discrepancy mode", "the tally no longer filters committee members by role (workers in detection, backup workers in resolution)")
	}
	if fn := c.needFn("C11.tally", fnProcessCPub); fn != nil {
		st := StoresTo(fn, "p.Discrepancy=true", "roothash/api/commitment.Pool.Discrepancy")
		c.DominatedByCond("C11.tally", fn, "err==ErrDiscrepancyDetected", `processCommitments\(.*\)#1 == \*global:roothash/api/commitment\.ErrDiscrepancyDetected$`, st, "resolution mode is entered only on a detected discrepancy")
	}
	c.WhoMayStore(ix, "C11.tally", "roothash/api/commitment.Pool.Discrepancy", []string{fnProcessCPub}, "discrepancy mode writers")

	// (d) application outcome
	if fn := c.needFn("C11.outcome", fnTryFinalize); fn != nil {
		pc := CallsTo(fn, "ProcessCommitments", fnProcessCPub, "")
		// identify finalizeBlock calls with header type constant Normal (=0)
		var normal []ssa.Instruction
		for _, call := range CallsTo(fn, "", fnFinalizeBlk, "").Calls() {
			args := allArgs(call)
			if k, ok := args[3].(*ssa.Const); ok && k.Value != nil && k.Value.Kind() == constant.Int && k.Int64() == normalK {
				normal = append(normal, call)
			}
		}
		nb := Ev{Name: "finalizeBlock(Normal)", Fn: fn, Ins: normal}
		if nb.Empty() || pc.Empty() {
			c.Fail("C11.outcome", fnTryFinalize+":normal-block", c.P.Pos(fn.Pos()), "Normal block finalization or ProcessCommitments call not found")
		} else {
			// err == nil of the (last) ProcessCommitments result
			var es []Edge
			for _, call := range pc.Calls() {
				e, _ := SuccessEdges(call)
				es = append(es, e...)
			}
			es = append(es, HeldEdges(fn, `^phi\(.*ProcessCommitments.*\) == nil$`)...)
			hit := Reach(fn, nil, nil, anyOf(nb.Ins), NewCut().AddEdges(es...))
			c.Check(hit == nil, "C11.outcome", fnTryFinalize+":Normal⇐ProcessCommitments-nil", c.P.InstrPos(nb.Ins[0]), "a Normal block is produced only when ProcessCommitments returned no error", "a Normal block can be produced although ProcessCommitments did not succeed")
			for _, call := range nb.Calls() {
				hs := vstr(allArgs(call)[4])
				c.Check(strings.Contains(hs, "ProcessCommitments(") && strings.Contains(hs, ".Commitment.Header.Header"), "C11.outcome", fnTryFinalize+":Normal-header-from-result", c.P.InstrPos(call), "the finalized header is the accepted scheduler commitment's", "the Normal block header is not taken from ProcessCommitments' result: "+hs)
			}
		}
		// the other sentinels lead to failRound / wait
		fr := CallsTo(fn, "failRound", "consensus/cometbft/apps/roothash.(*Application).failRound", "")
		c.Check(!fr.Empty(), "C11.outcome", fnTryFinalize+":failRound", c.P.Pos(fn.Pos()), "insufficient votes / bad scheduler commitment fail the round", "tryFinalizeRoundInsideTx no longer fails the round on ErrInsufficientVotes/ErrNoSchedulerCommitment/ErrBadSchedulerCommitment")
		for _, s := range []string{"ErrInsufficientVotes", "ErrNoSchedulerCommitment", "ErrBadSchedulerCommitment"} {
			es := HeldEdges(fn, `ProcessCommitments.* == \*global:roothash/api/commitment\.`+s+`$`)
			ok := len(es) > 0
			if ok {
				// from that edge the Normal finalization is unreachable
				ok = Reach(fn, nil, es, anyOf(nb.Ins), nil) == nil
			}
			c.Check(ok, "C11.outcome", fnTryFinalize+":"+s+"⇒no-normal-block", c.P.Pos(fn.Pos()), s+" never leads to a Normal block", "outcome "+s+" is no longer handled separately from success")
		}
	}
	// finalizeBlock(Normal) only from tryFinalizeRoundInsideTx
	{
		bad := 0
		for _, s := range ix.Calls[fnFinalizeBlk] {
			args := allArgs(s.In.(ssa.CallInstruction))
			k, ok := args[3].(*ssa.Const)
			isNormal := !ok || (k.Value != nil && k.Value.Kind() == constant.Int && k.Int64() == normalK)
			if isNormal && fname(s.Fn) != fnTryFinalize {
				bad++
				c.Fail("C11.outcome", "finalizeBlock(Normal)<-"+fname(s.Fn), c.P.InstrPos(s.In), "a Normal runtime block is produced outside the commitment-processing path")
			}
		}
		if bad == 0 {
			c.OK("C11.outcome", "finalizeBlock(Normal)-confined", "", "Normal blocks are produced only by tryFinalizeRoundInsideTx")
		}
	}
	if fn := c.needFn("C11.outcome", fnFinalizeBlk); fn != nil {
		// state root fields are copied only for Normal blocks, from the given header
		st := union("root-stores", StoresTo(fn, "", "roothash/api/block.Header.StateRoot"), StoresTo(fn, "", "roothash/api/block.Header.IORoot"))
		st.Name, st.Fn = "blk.Header.{StateRoot,IORoot}=", fn
		if !st.Empty() {
			c.DominatedByCond("C11.outcome", fn, "hdrType==Normal", `^param:hdrType == `+normalS+`$`, st, "only Normal blocks carry new roots; failed rounds leave the state root unchanged")
		} else {
			c.Fail("C11.outcome", fnFinalizeBlk+":roots", c.P.Pos(fn.Pos()), "finalizeBlock no longer sets roots")
		}
	}
	// every finalized block, whatever its type, leaves a fresh (or no) commitment pool: votes never survive a round
	if fn := c.needFn("C11.reset", fnFinalizeBlk); fn != nil {
		st := StoresTo(fn, "rtState.CommitmentPool=", "roothash/api.RuntimeState.CommitmentPool")
		okVals := !st.Empty()
		for _, in := range st.Ins {
			v := in.(*ssa.Store).Val
			s := vstr(v)
			if !(isNilConst(v) || s == "roothash/api/commitment.NewPool()") {
				okVals = false
				c.Fail("C11.reset", fnFinalizeBlk+":pool value", c.P.InstrPos(in), "the commitment pool is set to "+vstrShort(v)+" rather than to a fresh pool or nil")
			}
		}
		if okVals {
			hit := Reach(fn, nil, nil, anyOf(SuccessReturns(fn)), NewCut().AddInstr(st.Ins...))
			// rearmRoundTimeout is a tail call: its call site counts as the success exit too
			if hit == nil {
				for _, call := range CallsTo(fn, "rearmRoundTimeout", "consensus/cometbft/apps/roothash.rearmRoundTimeout", "").Calls() {
					if Reach(fn, nil, nil, isInstr(call), NewCut().AddInstr(st.Ins...)) != nil {
						hit = call
					}
				}
			}
			site := c.P.Pos(fn.Pos())
			if hit != nil {
				site = c.P.InstrPos(hit)
			}
			c.Check(hit == nil, "C11.reset", fnFinalizeBlk+":every finalized block resets the commitment pool", site, "every path through finalizeBlock replaces the pool by a fresh one (or nil for suspended runtimes)", "a block can be finalized without replacing the commitment pool: commitments of the interrupted round would be counted in the next round (possibly against a different committee)")
		}
	}
	// a commitment is for the next round of the block it builds on, exactly
	if fn := c.needFn("C11.chain", "roothash/api/commitment.(*ComputeResultsHeader).IsParentOf"); fn != nil {
		var yes []ssa.Instruction
		okShape := true
		for _, r := range Returns(fn) {
			k, isK := r.Results[0].(*ssa.Const)
			if isK && k.Value != nil && vstr(k) == "false" {
				continue
			}
			yes = append(yes, r)
			if !strings.Contains(vstr(r.Results[0]), "hash.(*Hash).Equal(param:h.PreviousHash,") || !strings.Contains(vstr(r.Results[0]), "EncodedHash(param:child)") {
				okShape = false
			}
		}
		c.Check(okShape && len(yes) > 0, "C11.chain", fname(fn)+":true only if PreviousHash == hash(child)", c.P.Pos(fn.Pos()), "a header is a parent only if its previous hash is the child header's hash", "IsParentOf can answer true without comparing PreviousHash with the child header's hash")
		c.GuardedByAny("C11.chain", fn, "h.Round == child.Round+1", []string{`^\*param:h\.Round == \(\*param:child\.Round \+ 1\)$`}, Ev{Name: "non-false result", Fn: fn, Ins: yes}, "a commitment is valid only for exactly the next round; the round number selects the scheduler ranks")
	}
	if fn := c.needFn("C11.chain", fnVerifyEC); fn != nil {
		// the literal `return nil` exits (p2pError.Permanent(err) under err != nil is a failure the nil-analysis cannot see)
		var nilRets []ssa.Instruction
		for _, r := range Returns(fn) {
			if ev := retErrVal(r); ev != nil && isNilConst(ev) {
				nilRets = append(nilRets, r)
			}
		}
		c.GuardedByAny("C11.chain", fn, "commit header IsParentOf(current block)", []string{`^roothash/api/commitment\.\(\*ComputeResultsHeader\)\.IsParentOf\(param:commit\.Header\.Header,param:blk\.Header\)$`}, Ev{Name: "return nil", Fn: fn, Ins: nilRets}, "only commitments for the next round of the current block are admitted")
	}
}

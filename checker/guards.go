package main

import (
	"fmt"
	"go/constant"
	"go/token"
	"os"
	"regexp"
	"sort"
	"strings"

	"golang.org/x/tools/go/ssa"
)

// GuardIf is one If of a guard: taking edge FailIdx leads to the guard's
// failing exit.
type GuardIf struct {
	If      *ssa.If
	FailIdx int
	Cond    string // normalised condition under which the guard FAILS
}

var negOp = map[token.Token]token.Token{token.LSS: token.GEQ, token.GEQ: token.LSS, token.GTR: token.LEQ, token.LEQ: token.GTR, token.EQL: token.NEQ, token.NEQ: token.EQL}
var mirrorOp = map[token.Token]token.Token{token.LSS: token.GTR, token.GTR: token.LSS, token.LEQ: token.GEQ, token.GEQ: token.LEQ, token.EQL: token.EQL, token.NEQ: token.NEQ}

// normCond renders "the condition under which cond==pol" canonically:
// negations are pushed into comparison operators and operands are ordered, so
// `!(a >= b)`, `a < b` and `b > a` all print the same.
func normCond(cond ssa.Value, pol bool) string {
	for {
		u, ok := cond.(*ssa.UnOp)
		if !ok || u.Op != token.NOT {
			break
		}
		cond = u.X
		pol = !pol
	}
	if b, ok := cond.(*ssa.BinOp); ok {
		// `x == true`, `x != false`, `x == false`, `x != true` (as a `switch x { case true: … }` compiles) are x / !x
		if b.Op == token.EQL || b.Op == token.NEQ {
			for _, pr := range [][2]ssa.Value{{b.X, b.Y}, {b.Y, b.X}} {
				if k, isK := pr[1].(*ssa.Const); isK && k.Value != nil && k.Value.Kind() == constant.Bool {
					same := constant.BoolVal(k.Value) == (b.Op == token.EQL)
					if same {
						return normCond(pr[0], pol)
					}
					return normCond(pr[0], !pol)
				}
			}
		}
		if _, isCmp := negOp[b.Op]; isCmp {
			op := b.Op
			if !pol {
				op = negOp[op]
			}
			x, y := vstr(b.X), vstr(b.Y)
			_, xc := b.X.(*ssa.Const)
			_, yc := b.Y.(*ssa.Const)
			if (xc && !yc) || (xc == yc && x > y) {
				x, y = y, x
				op = mirrorOp[op]
			}
			if x == y && mirrorOp[op].String() < op.String() {
				// both operands render the same (e.g. a variable before and after an increment): the
				// order cannot be told from the rendering, so the operator is made canonical instead
				op = mirrorOp[op]
			}
			return x + " " + op.String() + " " + y
		}
	}
	s := vstr(cond)
	if !pol {
		return "!" + s
	}
	return s
}

// normCondInlined: when the condition is a call of a module predicate helper whose body is a single `return <expr>`
// (one basic block, one bool result), renders the condition with the helper's expression in place of the call, its
// parameters replaced by the arguments. A rule written against `slices.Contains(policy.List, x)` then still recognises
// the guard after the comparison was moved, unchanged, into a helper `policy.isListed(x)` — and does not when the
// helper compares something else (e.g. a transformed argument).
func normCondInlined(cond ssa.Value, pol bool) (string, bool) {
	for {
		u, ok := cond.(*ssa.UnOp)
		if !ok || u.Op != token.NOT {
			break
		}
		cond = u.X
		pol = !pol
	}
	call, ok := cond.(*ssa.Call)
	if !ok {
		return "", false
	}
	f := call.Call.StaticCallee()
	if f == nil || len(f.Blocks) != 1 || !inModule(fpkgPath(f)) || f.Signature.Results().Len() != 1 {
		return "", false
	}
	ret, ok := f.Blocks[0].Instrs[len(f.Blocks[0].Instrs)-1].(*ssa.Return)
	if !ok || len(ret.Results) != 1 {
		return "", false
	}
	if len(call.Call.Args) != len(f.Params) {
		return "", false
	}
	old := vstrSubst
	sub := map[ssa.Value]string{}
	for k, v := range old {
		sub[k] = v
	}
	for i, p := range f.Params {
		sub[p] = vstr(call.Call.Args[i])
	}
	vstrSubst = sub
	s := normCond(ret.Results[0], pol)
	vstrSubst = old
	return s, true
}

// edgesInto returns the If edges that lead to block target, looking through
// empty forwarding blocks (blocks consisting of a single Jump).
func edgesInto(target *ssa.BasicBlock) []Edge {
	var out []Edge
	seen := map[*ssa.BasicBlock]bool{}
	var walk func(b *ssa.BasicBlock)
	walk = func(b *ssa.BasicBlock) {
		if seen[b] {
			return
		}
		seen[b] = true
		for _, p := range b.Preds {
			last := p.Instrs[len(p.Instrs)-1]
			switch last.(type) {
			case *ssa.If:
				for si, s := range p.Succs {
					if s == b {
						out = append(out, Edge{p, si})
					}
				}
			case *ssa.Jump:
				if len(p.Instrs) == 1 {
					walk(p)
				}
			}
		}
	}
	walk(target)
	return out
}

// returnsOfGlobal lists Return instructions of fn whose error operand is the
// package-level sentinel (short qualified "pkg.Name"), directly.
func returnsOfGlobal(fn *ssa.Function, sentinel string) []*ssa.Return {
	var out []*ssa.Return
	// fn and the new helpers it calls (ip.go): a sentinel returned by a helper is returned by the family
	for _, f := range append([]*ssa.Function{fn}, helpersOf(fn)...) {
		for _, r := range Returns(f) {
			ev := retErrVal(r)
			if ev == nil {
				continue
			}
			if isGlobalLoad(ev, sentinel) {
				out = append(out, r)
			}
		}
	}
	return out
}

func isGlobalLoad(v ssa.Value, name string) bool {
	if u, ok := v.(*ssa.UnOp); ok && u.Op == token.MUL {
		if g, ok := u.X.(*ssa.Global); ok && g.Pkg != nil {
			return short(g.Pkg.Pkg.Path())+"."+g.Name() == name
		}
	}
	return false
}

// Guard is a (possibly compound) condition deciding whether a failing exit
// is taken. FailDNF lists the conjunctions (sorted literals joined by " && ")
// under which the failing exit is reached; PassEdges are the leaf edges of
// the condition tree that do NOT lead to the failing exit.
type Guard struct {
	Root      *ssa.BasicBlock
	FailDNF   []string
	PassEdges []Edge
	Ifs       []*ssa.If
}

func (g Guard) String() string { return strings.Join(g.FailDNF, " || ") }

func lastIf(b *ssa.BasicBlock) *ssa.If {
	if len(b.Instrs) == 0 {
		return nil
	}
	i, _ := b.Instrs[len(b.Instrs)-1].(*ssa.If)
	return i
}

func isCondBlock(b *ssa.BasicBlock) bool {
	return len(b.Preds) == 1 && lastIf(b) != nil && lastIf(b.Preds[0]) != nil &&
		(b.Comment == "cond.true" || b.Comment == "cond.false" || b.Comment == "binop.rhs" || b.Comment == "if.then" || b.Comment == "if.else")
}

// leadsTo reports whether block b is target or forwards to it through
// single-Jump blocks.
func leadsTo(b, target *ssa.BasicBlock) bool {
	for i := 0; i < 8; i++ {
		if b == target {
			return true
		}
		if len(b.Instrs) == 1 {
			if _, ok := b.Instrs[0].(*ssa.Jump); ok && len(b.Succs) == 1 {
				b = b.Succs[0]
				continue
			}
		}
		return false
	}
	return false
}

// guardsInto builds the guards deciding entry into block target.
func guardsInto(target *ssa.BasicBlock) []Guard {
	roots := map[*ssa.BasicBlock]bool{}
	chain := map[*ssa.BasicBlock]bool{}
	isCond := func(b *ssa.BasicBlock) bool {
		return len(b.Preds) == 1 && lastIf(b) != nil && lastIf(b.Preds[0]) != nil &&
			(b.Comment == "cond.true" || b.Comment == "cond.false" || b.Comment == "binop.rhs")
	}
	isBody := func(b *ssa.BasicBlock) bool {
		return len(b.Preds) == 1 && lastIf(b.Preds[0]) != nil && (b.Comment == "if.then" || b.Comment == "if.else")
	}
	for _, e := range edgesInto(target) {
		cur := e.From
		chain[cur] = true
		// phase 1: own compound condition
		for isCond(cur) {
			cur = cur.Preds[0]
			chain[cur] = true
		}
		committed := cur
		// phase 2: enclosing ifs (committed when an if.then/if.else body is reached);
		// preceding sibling guards are only traversed tentatively.
		var tentative []*ssa.BasicBlock
		for {
			if isBody(cur) {
				cur = cur.Preds[0]
				tentative = append(tentative, cur)
				for isCond(cur) {
					cur = cur.Preds[0]
					tentative = append(tentative, cur)
				}
				for _, t := range tentative {
					chain[t] = true
				}
				tentative = nil
				committed = cur
				continue
			}
			if cur.Comment == "if.done" && len(cur.Preds) == 1 && lastIf(cur.Preds[0]) != nil {
				cur = cur.Preds[0]
				tentative = append(tentative, cur)
				for isCond(cur) {
					cur = cur.Preds[0]
					tentative = append(tentative, cur)
				}
				continue
			}
			break
		}
		roots[committed] = true
	}
	var out []Guard
	for root := range roots {
		g := Guard{Root: root}
		var conjs [][]string
		var walk func(b *ssa.BasicBlock, lits []string)
		walk = func(b *ssa.BasicBlock, lits []string) {
			iff := lastIf(b)
			g.Ifs = append(g.Ifs, iff)
			for si, s := range b.Succs {
				// a predicate helper is expanded into the conditions it tests (predDNF): one variant per disjunct
				for _, variant := range predDNF(iff.Cond, si == 0, 0) {
					l := append(append([]string{}, lits...), variant...)
					switch {
					case leadsTo(s, target):
						conjs = append(conjs, l)
					case chain[s] && len(s.Preds) == 1 && s.Preds[0] == b && lastIf(s) != nil:
						walk(s, l)
					default:
						g.PassEdges = append(g.PassEdges, Edge{b, si})
					}
				}
			}
		}
		walk(root, nil)
		// absorption: drop literal ¬l from a conjunction when [l] alone is a disjunct
		single := map[string]bool{}
		for _, cj := range conjs {
			if len(cj) == 1 {
				single[cj[0]] = true
			}
		}
		for _, cj := range conjs {
			var keep []string
			for _, l := range cj {
				if len(cj) > 1 && single[negLit(l)] {
					continue
				}
				keep = append(keep, l)
			}
			sort.Strings(keep)
			g.FailDNF = append(g.FailDNF, strings.Join(keep, " && "))
		}
		sort.Strings(g.FailDNF)
		out = append(out, g)
	}
	sort.Slice(out, func(i, j int) bool { return out[i].String() < out[j].String() })
	return out
}

// negLit returns the normalised negation of a normalised literal.
func negLit(l string) string {
	for _, op := range []struct{ a, b string }{{" == ", " != "}, {" != ", " == "}, {" <= ", " > "}, {" > ", " <= "}, {" >= ", " < "}, {" < ", " >= "}} {
		if i := strings.Index(l, op.a); i > 0 && !strings.HasPrefix(l, "(") {
			return l[:i] + op.b + l[i+len(op.a):]
		}
	}
	if strings.HasPrefix(l, "!") {
		return l[1:]
	}
	return "!" + l
}

// sentinelGuards finds the guards that decide whether fn returns sentinel: the conditions under which fn itself
// returns it, and — so that moving a block of checks, unchanged, into a helper `if err := d.checkX(v); err != nil {
// return err }` changes no verdict — the conditions under which a directly called module function returns it, when
// that call's error is tested by fn (the guard is then passed on the call's success edges). The callee's conditions are
// rendered with its parameters replaced by the arguments of the call (one level of calls).
func sentinelGuards(fn *ssa.Function, sentinel string) []Guard {
	var out []Guard
	for _, r := range returnsOfGlobal(fn, sentinel) {
		out = append(out, guardsInto(r.Block())...)
	}
	if len(out) > 0 {
		return out
	}
	for _, call := range callsIn(fn) {
		if _, isDefer := call.(*ssa.Defer); isDefer {
			continue
		}
		h := call.Common().StaticCallee()
		if h == nil || h == fn || h.Blocks == nil || !inModule(fpkgPath(h)) || errValues(call) == nil {
			continue
		}
		if len(returnsOfGlobal(h, sentinel)) == 0 {
			continue
		}
		se, ok := SuccessEdges(call)
		fe, ok2 := FailEdges(call)
		if !ok || !ok2 || len(fe) == 0 {
			continue
		}
		args := call.Common().Args
		if len(args) != len(h.Params) {
			continue
		}
		old := vstrSubst
		sub := map[ssa.Value]string{}
		for k, v := range old {
			sub[k] = v
		}
		for i, p := range h.Params {
			sub[p] = vstr(args[i])
		}
		vstrSubst = sub
		var hg []Guard
		for _, r := range returnsOfGlobal(h, sentinel) {
			hg = append(hg, guardsInto(r.Block())...)
		}
		vstrSubst = old
		var ifs []*ssa.If
		if iff := lastIf(fe[0].From); iff != nil {
			ifs = append(ifs, iff)
		}
		if len(ifs) == 0 {
			continue
		}
		for _, g := range hg {
			out = append(out, Guard{Root: fe[0].From, FailDNF: g.FailDNF, PassEdges: se, Ifs: ifs})
		}
	}
	return out
}

// GuardSpec describes a guard by its failing sentinel and the (regex) set of
// normalised failing conjunctions it must consist of.
type GuardSpec struct {
	Sentinel string   // "storage/mkvs/db/api.ErrNotEarliest"
	Conds    []string // regexes, each must match exactly one failing conjunction and vice versa
	Meaning  string
}

// DominatedBySentinelGuard checks that (1) fn has the guard, (2) its failing
// conditions are exactly the expected ones, (3) every path from entry to any
// instruction of T leaves the guard through one of its passing edges.
func (c *Ctx) DominatedBySentinelGuard(rule string, fn *ssa.Function, g GuardSpec, T Ev) bool {
	return c.dominatedBySentinelGuard(rule, fn, g, T, false)
}

// EvaluatedBeforeSentinelGuard is the variant for guards evaluated inside a
// loop over the inputs (so an empty input bypasses them): the guard must
// exist with the expected conditions, and no guarded operation may be
// followed by an evaluation of the guard (check-then-act order).
func (c *Ctx) EvaluatedBeforeSentinelGuard(rule string, fn *ssa.Function, g GuardSpec, T Ev) bool {
	return c.dominatedBySentinelGuard(rule, fn, g, T, true)
}

func (c *Ctx) dominatedBySentinelGuard(rule string, fn *ssa.Function, g GuardSpec, T Ev, loopMode bool) bool {
	short := g.Sentinel[strings.LastIndex(g.Sentinel, ".")+1:]
	inst := fname(fn) + ":" + short + "⊢" + T.Name
	c.Analysed[fname(fn)] = true
	gs := sentinelGuards(fn, g.Sentinel)
	if len(gs) == 0 {
		c.Fail(rule, inst, c.P.Pos(fn.Pos()), "guard returning "+g.Sentinel+" ("+g.Meaning+") not found in "+fname(fn))
		return false
	}
	ok := true
	var got []string
	for _, x := range gs {
		got = append(got, x.FailDNF...)
	}
	matched := make([]bool, len(got))
	for _, want := range g.Conds {
		hit := false
		for i, x := range got {
			if !matched[i] && conjMatches(want, x) {
				matched[i] = true
				hit = true
				break
			}
		}
		if !hit {
			ok = false
			c.Fail(rule, inst+":cond", c.P.InstrPos(gs[0].Ifs[0]), "guard "+short+" ("+g.Meaning+") no longer fails on /"+want+"/; it now fails on {"+strings.Join(got, " || ")+"}")
		}
	}
	for i, m := range matched {
		if !m {
			ok = false
			c.Fail(rule, inst+":cond", c.P.InstrPos(gs[0].Ifs[0]), "guard "+short+" has an unexpected failing condition {"+got[i]+"} (expected only "+strings.Join(g.Conds, " ; ")+")")
		}
	}
	if T.Empty() {
		c.Fail(rule, inst, c.P.Pos(fn.Pos()), "guarded operations "+T.Name+" not found in "+fname(fn))
		return false
	}
	for _, x := range gs {
		if loopMode {
			for _, t := range T.Ins {
				if hit := Reach(fn, t, nil, func(i ssa.Instruction) bool { return i == ssa.Instruction(x.Ifs[0]) }, nil); hit != nil {
					ok = false
					c.Fail(rule, inst, c.P.InstrPos(t), "guard "+short+" ("+g.Meaning+") is evaluated after "+T.Name+" has already happened")
					break
				}
			}
			continue
		}
		cut := NewCut().AddEdges(x.PassEdges...)
		if hit := Reach(fn, nil, nil, anyOf(T.Ins), cut); hit != nil {
			ok = false
			c.Fail(rule, inst, c.P.InstrPos(hit), T.Name+" is reachable without passing guard "+short+" {"+x.String()+"} ("+g.Meaning+")")
		}
	}
	if ok {
		c.OK(rule, inst, c.P.InstrPos(gs[0].Ifs[0]), "all "+itoa(len(T.Ins))+" "+T.Name+" sites are dominated by guard "+short+" failing on {"+strings.Join(got, " || ")+"}")
	}
	return ok
}

// conjMatches: spec and got are " && "-joined literal lists; every spec
// literal (a regex) must match a distinct literal of got and vice versa.
func conjMatches(spec, got string) bool {
	sl := strings.Split(spec, " && ")
	gl := strings.Split(got, " && ")
	if len(sl) != len(gl) {
		return false
	}
	used := make([]bool, len(gl))
	for _, sp := range sl {
		re := regexp.MustCompile(sp)
		hit := false
		for i, g := range gl {
			if !used[i] && matchEither(re, g) {
				used[i] = true
				hit = true
				break
			}
		}
		if !hit {
			return false
		}
	}
	return true
}

func contains(s, sub string) bool { return strings.Contains(s, sub) }

// sentinelSet: the package-level error variables a function may return
// directly (short qualified names).
func sentinelSet(fn *ssa.Function) map[string]bool {
	out := map[string]bool{}
	// fn and the new helpers it calls (ip.go): what a helper returns, the family returns
	for _, f := range append([]*ssa.Function{fn}, helpersOf(fn)...) {
		for _, r := range Returns(f) {
			ev := retErrVal(r)
			if u, ok := ev.(*ssa.UnOp); ok && u.Op == token.MUL {
				if g, ok := u.X.(*ssa.Global); ok && g.Pkg != nil {
					out[short(g.Pkg.Pkg.Path())+"."+g.Name()] = true
				}
			}
		}
	}
	return out
}

func setDiff(a, b map[string]bool) []string {
	var out []string
	for k := range a {
		if !b[k] {
			out = append(out, "only-first:"+k)
		}
	}
	for k := range b {
		if !a[k] {
			out = append(out, "only-second:"+k)
		}
	}
	sort.Strings(out)
	return out
}

func joinKeys(m map[string]bool) string {
	var ks []string
	for k := range m {
		ks = append(ks, k[strings.LastIndex(k, ".")+1:])
	}
	sort.Strings(ks)
	return strings.Join(ks, ",")
}

func joinStr(s []string) string { return strings.Join(s, ", ") }

// HeldEdges returns every If edge of fn on which a condition whose
// normalised rendering matches re holds (both polarities of every If are
// considered: the true edge carries normCond(cond,true), the false edge
// normCond(cond,false)).
func HeldEdges(fn *ssa.Function, re string) []Edge {
	setIPContext(fn)
	rx := regexp.MustCompile(re)
	var out []Edge
	for _, b := range blocksIP(fn) {
		iff := lastIf(b)
		if iff == nil {
			continue
		}
		n := 0
		for idx, pol := range []bool{true, false} {
			if condHeldMatches(fn, b, iff.Cond, pol, rx) {
				out = append(out, Edge{b, idx})
				n++
			}
		}
		if n == 2 && os.Getenv("VERIF_DEBUG_BOTH") != "" {
			fmt.Fprintln(os.Stderr, "BOTH-POLARITIES", fname(fn), "/"+re+"/", normCond(iff.Cond, true))
		}
	}
	return out
}

// condHeldMatches: does the condition (with polarity pol) at the end of block b match rx? For a block of a new helper
// (ip.go) that fn's family calls from several places the parameters are rendered as the arguments of each of those
// call sites in turn and the condition must match for every one of them.
func condHeldMatches(fn *ssa.Function, b *ssa.BasicBlock, cond ssa.Value, pol bool, rx *regexp.Regexp) bool {
	return condHeldMatchesAny(fn, b, cond, pol, []*regexp.Regexp{rx})
}

func condHeldMatchesAny(fn *ssa.Function, b *ssa.BasicBlock, cond ssa.Value, pol bool, rxs []*regexp.Regexp) bool {
	one := func() bool {
		for _, rx := range rxs {
			if matchEither(rx, normCond(cond, pol)) {
				return true
			}
			if s, ok := normCondInlined(cond, pol); ok && matchEither(rx, s) {
				return true
			}
		}
		return dnfImplies(predDNF(cond, pol, 0), rxs)
	}
	h := b.Parent()
	if h == fn || !NewFns[h] || len(helperSites[h]) < 2 {
		return one()
	}
	n := 0
	for _, c := range helperSites[h] {
		if !inFamily(fn, c) || len(c.Common().Args) != len(h.Params) {
			continue
		}
		n++
		old := vstrSubst
		sub := map[ssa.Value]string{}
		for k, v := range old {
			sub[k] = v
		}
		for i, pa := range h.Params {
			sub[pa] = vstr(c.Common().Args[i])
		}
		vstrSubst = sub
		ok := one()
		vstrSubst = old
		if !ok {
			return false
		}
	}
	return n > 0
}

// DominatedByCond: every path from entry to an instruction of T takes an edge
// on which a condition matching re holds.
func (c *Ctx) DominatedByCond(rule string, fn *ssa.Function, condName, re string, T Ev, why string) bool {
	inst := fname(fn) + ":" + condName + "⊢" + T.Name
	c.Analysed[fname(fn)] = true
	es := HeldEdges(fn, re)
	if len(es) == 0 {
		c.Fail(rule, inst, c.P.Pos(fn.Pos()), "no branch on condition "+condName+" (/"+re+"/) found in "+fname(fn)+": "+why)
		return false
	}
	if T.Empty() {
		c.Fail(rule, inst, c.P.Pos(fn.Pos()), "guarded construct "+T.Name+" not found in "+fname(fn)+": "+why)
		return false
	}
	cut := NewCut().AddEdges(es...)
	if hit := Reach(fn, nil, nil, anyOf(T.Ins), cut); hit != nil {
		c.Fail(rule, inst, c.P.InstrPos(hit), T.Name+" is reachable without condition "+condName+" holding: "+why)
		return false
	}
	c.OK(rule, inst, c.P.InstrPos(T.Ins[0]), "every path to "+T.Name+" takes a branch where "+condName+" holds")
	return true
}

// SuccessRequiresCond: every success return of fn is reached through an edge
// on which a condition matching re holds.
func (c *Ctx) SuccessRequiresCond(rule string, fn *ssa.Function, condName, re, why string) bool {
	return c.SuccessRequiresEdges(rule, fn, condName, HeldEdges(fn, re), why)
}

// CallsOfParam selects the dynamic calls in fn whose callee value is the
// function-typed parameter with the given name.
func CallsOfParam(fn *ssa.Function, name, param string) Ev {
	ev := Ev{Name: name, Fn: fn}
	for _, c := range callsIn(fn) {
		if p, ok := c.Common().Value.(*ssa.Parameter); ok && pname(p) == param && !c.Common().IsInvoke() {
			ev.Ins = append(ev.Ins, c)
		}
	}
	return ev
}

// inCycle reports whether block b lies on a CFG cycle.
func inCycle(b *ssa.BasicBlock) bool {
	seen := map[*ssa.BasicBlock]bool{}
	var stack []*ssa.BasicBlock
	stack = append(stack, b.Succs...)
	for len(stack) > 0 {
		x := stack[len(stack)-1]
		stack = stack[:len(stack)-1]
		if x == b {
			return true
		}
		if seen[x] {
			continue
		}
		seen[x] = true
		stack = append(stack, x.Succs...)
	}
	return false
}

// HeldEdgesAcyclic is HeldEdges restricted to branches that are not inside a
// loop (evaluated at most once per call), so that "passes this edge" means
// "the condition held at its only evaluation".
func HeldEdgesAcyclic(fn *ssa.Function, re string) []Edge {
	var out []Edge
	for _, e := range HeldEdges(fn, re) {
		if !inCycle(e.From) {
			out = append(out, e)
		}
	}
	return out
}

// IfsMatching returns the If instructions whose condition (either polarity) matches re.
func IfsMatching(fn *ssa.Function, name, re string) Ev {
	rx := regexp.MustCompile(re)
	ev := Ev{Name: name, Fn: fn}
	for _, b := range blocksIP(fn) {
		iff := lastIf(b)
		if iff == nil {
			continue
		}
		if matchEither(rx, normCond(iff.Cond, true)) || matchEither(rx, normCond(iff.Cond, false)) {
			ev.Ins = append(ev.Ins, iff)
		}
	}
	return ev
}

// mirrorLit returns the literal with its top-level comparison mirrored
// ("a < b" -> "b > a"); "" if l is not a comparison.
func mirrorLit(l string) string {
	depth := 0
	for i := 0; i < len(l); i++ {
		switch l[i] {
		case '(', '[', '{':
			depth++
		case ')', ']', '}':
			depth--
		case ' ':
			if depth != 0 {
				continue
			}
			for _, op := range []struct{ a, b string }{{" == ", " == "}, {" != ", " != "}, {" <= ", " >= "}, {" >= ", " <= "}, {" < ", " > "}, {" > ", " < "}} {
				if strings.HasPrefix(l[i:], op.a) {
					return l[i+len(op.a):] + op.b + l[:i]
				}
			}
		}
	}
	return ""
}

func matchEither(rx *regexp.Regexp, lit string) bool {
	if rx.MatchString(lit) {
		return true
	}
	if m := mirrorLit(lit); m != "" && rx.MatchString(m) {
		return true
	}
	return false
}

// boolResultTargets returns the points at which result v of fn can take the value want: the returns themselves for
// values computed elsewhere, and for a phi the terminators of the predecessor blocks whose incoming value may be want
// (a constant !want contributes nothing; an incoming If edge listed in cut contributes nothing either).
func boolResultTargets(v ssa.Value, want bool, at ssa.Instruction, cut *Cut, rx *regexp.Regexp, seen map[ssa.Value]bool) []ssa.Instruction {
	if seen[v] {
		return nil
	}
	seen[v] = true
	if _, isConst := v.(*ssa.Const); !isConst && rx != nil && matchEither(rx, normCond(v, want)) {
		return nil // the value being `want` is the condition itself
	}
	switch x := v.(type) {
	case *ssa.Const:
		if x.Value != nil && x.Value.Kind() == constant.Bool && constant.BoolVal(x.Value) != want {
			return nil
		}
		return []ssa.Instruction{at}
	case *ssa.UnOp:
		if x.Op == token.NOT {
			return boolResultTargets(x.X, !want, at, cut, rx, seen)
		}
		// a result spilled into a variable because of a defer: every `return v, …` is a store into it
		if al, ok := x.X.(*ssa.Alloc); ok && x.Op == token.MUL {
			var out []ssa.Instruction
			n := 0
			if refs := al.Referrers(); refs != nil {
				for _, r := range *refs {
					if st, ok := r.(*ssa.Store); ok && st.Addr == ssa.Value(al) {
						n++
						out = append(out, boolResultTargets(st.Val, want, st, cut, rx, seen)...)
					}
				}
			}
			if n > 0 {
				return out
			}
		}
	case *ssa.Phi:
		var out []ssa.Instruction
		for i, e := range x.Edges {
			pred := x.Block().Preds[i]
			term := pred.Instrs[len(pred.Instrs)-1]
			if _, isIf := term.(*ssa.If); isIf {
				skip := true
				for si, s := range pred.Succs {
					if s == x.Block() && !cut.Edges[Edge{pred, si}] {
						skip = false
					}
				}
				if skip {
					continue
				}
			}
			out = append(out, boolResultTargets(e, want, term, cut, rx, seen)...)
		}
		return out
	}
	return []ssa.Instruction{at}
}

// ResultImpliesCond: whenever bool result k of fn is `val`, a condition matching re holds — every path from the entry
// to a return (or phi edge) on which the result may be val takes an edge on which the condition holds. Decided on the
// CFG, so `return a == 0 || f()`, `if a == 0 { return true }; return f()` and their mirrored/negated spellings agree.
func (c *Ctx) ResultImpliesCond(rule string, fn *ssa.Function, k int, val bool, inst, condName, re, okMsg, badMsg string) bool {
	c.Analysed[fname(fn)] = true
	held := HeldEdges(fn, re)
	rx := regexp.MustCompile(re)
	cut := NewCut().AddEdges(held...)
	var targets []ssa.Instruction
	nres := 0
	for _, r := range Returns(fn) {
		if k < len(r.Results) {
			targets = append(targets, boolResultTargets(r.Results[k], val, r, cut, rx, map[ssa.Value]bool{})...)
			nres++
		}
	}
	ok := nres > 0
	site := c.P.Pos(fn.Pos())
	for _, t := range targets {
		if Reach(fn, nil, nil, isInstr(t), cut) != nil {
			ok = false
			site = c.P.InstrPos(t)
		}
	}
	return c.Check(ok, rule, inst, site, okMsg+" (condition "+condName+"; "+itoa(len(targets))+" result points, "+itoa(len(held))+" edges)", badMsg)
}

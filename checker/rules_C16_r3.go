package main

import (
	"go/token"
	"go/types"
	"strings"

	"golang.org/x/tools/go/ssa"
)

// Round-3 rules of C16 (written after seeds C16/7..9 were missed and the side observations F43/F44).
func c16Round3(c *Ctx) {
	const ck = "storage/mkvs/checkpoint"
	// (a) restoreChunk classifies what it received by the digest of the WHOLE raw chunk: when decoding fails, the rest of
	// the stream is drained through the hashing reader before the digest is built. (Otherwise a chunk that is the one named
	// in the manifest but does not decode is reported as "corrupted in transit", the restorer never aborts and the node
	// fetches the same bytes for ever.)
	if fn := c.needFn("C16.cbor", ck+".restoreChunk"); fn != nil {
		c.Analysed[fname(fn)] = true
		build := CallsTo(fn, "hb.Build()", "common/crypto/hash.(*Builder).Build", "")
		var drains, fails []ssa.Instruction
		for _, call := range callsIn(fn) {
			if calleeName(call) == "io.Copy" {
				drains = append(drains, call)
			}
		}
		// the decode-failure path: a non-nil error stored into the variable that the later classification reads
		for _, b := range blocksIP(fn) {
			for _, in := range b.Instrs {
				st, ok := in.(*ssa.Store)
				if !ok || !isErrorType(st.Val.Type()) || isNilConst(st.Val) {
					continue
				}
				if _, isAlloc := st.Addr.(*ssa.Alloc); isAlloc {
					if call, ok := st.Val.(*ssa.Call); ok && calleeNameCommon(&call.Call) == "fmt.Errorf" {
						fails = append(fails, in)
					}
				}
			}
		}
		inst := fname(fn) + ":decode failure⇒rest of the chunk is hashed before the digest is compared"
		if build.Empty() || len(fails) == 0 {
			c.Fail("C16.cbor", inst, c.P.Pos(fn.Pos()), "the digest computation or the decode-failure path of restoreChunk was not found (unresolved anchor)")
		} else {
			ok := len(drains) > 0
			site := c.P.InstrPos(fails[0])
			for _, f := range fails {
				if Reach(fn, f, nil, anyOf(build.Ins), NewCut().AddInstr(drains...)) != nil {
					ok = false
					site = c.P.InstrPos(f)
				}
			}
			c.Check(ok, "C16.cbor", inst, site, "every path from a decode failure to the digest computation drains the stream (io.Copy through the tee reader)", "after a decode failure restoreChunk computes the digest without reading the rest of the chunk: the digest covers only the prefix, a genuine-but-undecodable chunk is reported as corrupted in transit instead of as a proof failure, the restore is never aborted and the same bytes are fetched again without end")
		}

		// (b) known finding F43: what restoreChunk accumulates before it can check anything is bounded. Every decoded entry
		// is appended to the proof; nothing limits their number or total size, and the digest is compared only after the
		// whole stream was read (a 1.5 MB chunk of repeated 0x40 bytes allocates 5 GiB before it is rejected).
		bounded := false
		for _, b := range fn.Blocks {
			ifi := lastIfOf(b)
			if ifi == nil {
				continue
			}
			s := vstr(ifi.Cond)
			if strings.Contains(s, "builtin.len(") && strings.Contains(s, ".Entries") {
				bounded = true
			}
			if bo, ok := ifi.Cond.(*ssa.BinOp); ok {
				if _, isK := constInt(bo.Y); isK && (bo.Op == token.GTR || bo.Op == token.GEQ || bo.Op == token.LSS || bo.Op == token.LEQ) && strings.Contains(s, "phi(") {
					bounded = true // a running counter/budget compared with a constant
				}
			}
		}
		c.Check(bounded, "C16.alloc", fname(fn)+":the entries accumulated before verification are bounded", c.P.Pos(fn.Pos()), "the decode loop tests the number or size of the accumulated entries", "restoreChunk appends every decoded entry and compares the digest only after the whole stream was read; nothing bounds the number of entries: a chunk of repeated empty byte strings compresses ~20x and costs 24 bytes per entry, so a 1.5 MB response allocates about 5 GiB before it is rejected")
	}

	// (c) evidence validation: the commitments' own ValidateBasic (which guarantees the optional header fields) has
	// succeeded for both commitments before any of those fields is dereferenced.
	if fn := c.needFn("C16.panic", "roothash/api.(*EquivocationExecutorEvidence).ValidateBasic"); fn != nil {
		c.Analysed[fname(fn)] = true
		vb := CallsTo(fn, "commit.ValidateBasic()", "roothash/api/commitment.(*ExecutorCommitment).ValidateBasic", "")
		var derefs []ssa.Instruction
		for _, call := range callsIn(fn) {
			if !strings.HasSuffix(calleeName(call), "hash.(*Hash).Equal") {
				continue
			}
			for _, a := range allArgs(call) {
				if s := vstr(a); strings.Contains(s, ".IORoot") || strings.Contains(s, ".StateRoot") || strings.Contains(s, ".MessagesHash") {
					derefs = append(derefs, call)
					break
				}
			}
		}
		inst := fname(fn) + ":both commitments validated before their optional header fields are dereferenced"
		if len(vb.Ins) < 2 || len(derefs) == 0 {
			// a loop over the two commitments has one call site
			if len(vb.Ins) == 0 || len(derefs) == 0 {
				c.Fail("C16.panic", inst, c.P.Pos(fn.Pos()), "the commitments' ValidateBasic calls or the comparisons of the optional roots were not found (unresolved anchor)")
				return
			}
		}
		ok := true
		site := c.P.InstrPos(derefs[0])
		// each ValidateBasic call separately must precede (success edge) every dereference
		for _, v := range vb.Ins {
			cut, _ := successCut(Ev{Name: "vb", Fn: fn, Ins: []ssa.Instruction{v}})
			if hit := Reach(fn, nil, nil, anyOf(derefs), cut); hit != nil {
				ok = false
				site = c.P.InstrPos(hit)
			}
		}
		if len(vb.Ins) < 2 {
			ok = false // one call site in a loop validates them one at a time, not both before the comparison
		}
		c.Check(ok, "C16.panic", inst, site, "IORoot/StateRoot/MessagesHash are compared only after ValidateBasic succeeded for commit A and for commit B", "the optional roots of the two commitments are dereferenced before both commitments' ValidateBasic has succeeded: evidence with a missing io_root/state_root/messages_hash makes the node panic in CheckTx of roothash.Evidence (any account can submit it)")
	}

	// (d) no arithmetic in a narrow integer type on a length read from the wire: the sum wraps around before it is
	// widened, the bounds test passes and the slice expression panics (key.go: uint16(DepthSize)+keyLen).
	n := 0
	for _, pk := range []string{"storage/mkvs/node", "storage/mkvs/syncer", "storage/mkvs/writelog", "storage/mkvs/checkpoint", "storage/mkvs/db/api"} {
		for _, fn := range c.P.FuncsInPkg(pk) {
			for _, b := range blocksIP(fn) {
				for _, in := range b.Instrs {
					bo, ok := in.(*ssa.BinOp)
					if !ok || (bo.Op != token.ADD && bo.Op != token.MUL && bo.Op != token.SHL && bo.Op != token.SUB) {
						continue
					}
					bt, ok := bo.Type().Underlying().(*types.Basic)
					if !ok {
						continue
					}
					switch bt.Kind() {
					case types.Uint8, types.Uint16, types.Uint32, types.Int8, types.Int16, types.Int32:
					default:
						continue
					}
					wx, wy := wireNarrow(bo.X), wireNarrow(bo.Y)
					if wx == nil && wy == nil {
						continue
					}
					n++
					c.Fail("C16.bounds", fname(fn)+":arithmetic on a wire length in "+bt.Name(), c.P.InstrPos(in), "a length/offset read from untrusted bytes is added/multiplied in "+bt.Name()+" before it is widened: the result wraps around for large declared lengths, the following bounds test passes and the slice expression panics (a 7-byte proof entry crashes the verifier)")
				}
			}
		}
	}
	if n == 0 {
		c.OK("C16.bounds", "storage/mkvs decoders:no narrow-integer arithmetic on wire lengths", "", "no +,-,*,<< in an 8/16/32-bit type on a value read with encoding/binary")
	}

	// (e) F44: the executor-commitment notifier is fed from CheckTx with the runtime id of an unverified transaction: it
	// must not create per-id state.
	if fn := c.needFn("C16.alloc", "consensus/cometbft/roothash.(*ServiceClient).DeliverExecutorCommitment"); fn != nil {
		c.Analysed[fname(fn)] = true
		var bad ssa.Instruction
		for _, b := range blocksIP(fn) {
			for _, in := range b.Instrs {
				switch x := in.(type) {
				case *ssa.MapUpdate:
					bad = in
				case ssa.CallInstruction:
					if nm := calleeName(x); strings.HasSuffix(nm, ".getRuntimeNotifiers") || strings.HasSuffix(nm, "pubsub.NewBroker") {
						bad = in
					}
				}
			}
		}
		site := c.P.Pos(fn.Pos())
		if bad != nil {
			site = c.P.InstrPos(bad)
		}
		c.Check(bad == nil, "C16.alloc", fname(fn)+":no per-runtime state is created for an unverified runtime id", site, "the notifier only looks up existing notifiers", "DeliverExecutorCommitment creates notifiers (brokers, goroutines) for the runtime id it is given; the id comes from a transaction that is only being checked, so every made-up id leaks three brokers and six goroutines on every node that sees the transaction")
	}
}

// wireNarrow: v is (a narrow conversion of) an integer read with encoding/binary.
func wireNarrow(v ssa.Value) ssa.Value {
	return wireIntIn16(v, 0)
}

func wireIntIn16(v ssa.Value, d int) ssa.Value {
	if d > 4 || v == nil {
		return nil
	}
	switch x := v.(type) {
	case *ssa.Call:
		n := calleeName(x)
		if strings.HasPrefix(n, "encoding/binary.") && (strings.HasSuffix(n, "Uint16") || strings.HasSuffix(n, "Uint32") || strings.HasSuffix(n, "Uint64")) {
			return x
		}
	case *ssa.Convert:
		return wireIntIn16(x.X, d+1)
	case *ssa.ChangeType:
		return wireIntIn16(x.X, d+1)
	}
	return nil
}

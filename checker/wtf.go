package main

import (
	"fmt"
	"go/constant"
	"go/token"
	"go/types"
	"sort"
	"strings"

	"golang.org/x/tools/go/ssa"
)

// WTF — write-then-fail analysis (DESIGN §3 C08.a).
//
// Slots of a function: its SSA parameters (receiver first) followed by its
// free variables. For every module function the analysis computes
//
//	Carrier(f) ⊆ slots : result #0 of f wraps/derives from that slot
//	                     (ctx.State(), NewMutableState(tree), NewStakeAccumulatorCache(ctx), ...)
//	W(f)       ⊆ slots : f may write consensus state through that slot
//	NSF(f)             : f may return an error that is not a storage failure
//	DF(f)      ⊆ slots : there is a path in f (or its callees) on which state is
//	                     written through that slot and afterwards a non-storage
//	                     error is returned, without the write being inside a
//	                     transaction context opened on that path.
//
// State writes are the mkvs.KeyValueTree mutators. A value derived from the
// result of (*Context).NewTransaction() is transactional: writes through it are
// rolled back unless Commit() is called, which counts as a write through the
// origin of the transaction's parent.
type originKind int

const (
	oSlot originKind = iota
	oTx
)

type origin struct {
	kind originKind
	slot int
	tx   *ssa.Call // NewTransaction call
}

type dfWitness struct {
	Write      ssa.Instruction // the dirtying call in this function
	Fail       ssa.Instruction // the failing return (or call whose DF is inherited)
	Callee     *ssa.Function   // when inherited from a callee
	calleeSlot int
	inner      *dfWitness   // for message subscribers: the specialised witness
	calleeWits []*dfWitness // witnesses of the (possibly specialised) callee for calleeSlot
	Why        string
}

type wtf struct {
	p           *Prog
	fns         []*ssa.Function
	carrier     map[*ssa.Function]map[int]bool
	W           map[*ssa.Function]map[int]bool
	WB          map[*ssa.Function]map[int]bool
	NSF         map[*ssa.Function]bool
	NSS         map[*ssa.Function]map[string]bool // names of non-storage error origins (sentinel names, or "*" for fresh/unknown)
	subs        map[string][]*ssa.Function        // message kind -> subscribed ExecuteMessage implementations
	storageOnly map[string]string                 // tabled: functions whose non-storage returns are unreachable in a consistent state
	DF          map[*ssa.Function]map[int][]*dfWitness
	impls       map[string][]*ssa.Function // "pkg.(Iface).Method" -> module implementations
	opaque      func(fn *ssa.Function) bool
	pubMemo     map[string]*fnSummary
	specMemo    map[string]*fnSummary

	origMemo map[ssa.Value][]origin
}

const (
	fnNewTx    = "consensus/cometbft/api.(*Context).NewTransaction"
	fnCtxCmt   = "consensus/cometbft/api.(*Context).Commit"
	fnUnavail  = "consensus/cometbft/api.UnavailableStateError"
	ifPublish  = "consensus/cometbft/api.(MessageDispatcher).Publish"
	kvtInsert  = "storage/mkvs.(KeyValueTree).Insert"
	kvtRemove  = "storage/mkvs.(KeyValueTree).Remove"
	kvtRemoveE = "storage/mkvs.(KeyValueTree).RemoveExisting"
)

func isKVWrite(name string) bool {
	switch name {
	case kvtInsert, kvtRemove, kvtRemoveE,
		"storage/mkvs.(Tree).Insert", "storage/mkvs.(Tree).Remove", "storage/mkvs.(Tree).RemoveExisting",
		"storage/mkvs.(OverlayTree).Insert", "storage/mkvs.(OverlayTree).Remove", "storage/mkvs.(OverlayTree).RemoveExisting":
		return true
	}
	return false
}

func nslots(fn *ssa.Function) int { return len(fn.Params) + len(fn.FreeVars) }

func slotName(fn *ssa.Function, i int) string {
	if i < len(fn.Params) {
		return pname(fn.Params[i])
	}
	j := i - len(fn.Params)
	if j < len(fn.FreeVars) {
		return "free:" + pname(fn.FreeVars[j])
	}
	return fmt.Sprint("slot", i)
}

func newWTF(p *Prog) *wtf {
	w := &wtf{p: p, carrier: map[*ssa.Function]map[int]bool{}, W: map[*ssa.Function]map[int]bool{}, WB: map[*ssa.Function]map[int]bool{}, NSF: map[*ssa.Function]bool{}, NSS: map[*ssa.Function]map[string]bool{}, subs: map[string][]*ssa.Function{}, storageOnly: map[string]string{},
		DF: map[*ssa.Function]map[int][]*dfWitness{}, impls: map[string][]*ssa.Function{}, origMemo: map[ssa.Value][]origin{}}
	for _, fn := range p.ModFuncs {
		if fn.Blocks == nil {
			continue
		}
		if fn.Origin() != nil && fn.Origin() != fn {
			continue
		}
		if fn.Synthetic != "" && fn.Parent() == nil {
			continue
		}
		w.fns = append(w.fns, fn)
	}
	// the mkvs / db / context layers are below the abstraction: their
	// internals are not analysed (the KeyValueTree mutators are the primitives).
	w.opaque = func(fn *ssa.Function) bool {
		pp := short(fpkgPath(fn))
		return strings.HasPrefix(pp, "storage/") || pp == "consensus/cometbft/api" || strings.HasPrefix(pp, "common/")
	}
	w.buildImpls()
	w.buildSubs()
	return w
}

// buildSubs resolves md.Subscribe(kind, subscriber) registrations.
func (w *wtf) buildSubs() {
	for _, fn := range w.fns {
		for _, c := range callsIn(fn) {
			if calleeName(c) != "consensus/cometbft/api.(MessageDispatcher).Subscribe" {
				continue
			}
			args := allArgs(c)
			if len(args) < 3 {
				continue
			}
			kind := kindKey(args[1])
			if kind == "" {
				continue
			}
			sub := args[2]
			if mi, ok := sub.(*ssa.MakeInterface); ok {
				sub = mi.X
			}
			ms := w.p.SSA.MethodSets.MethodSet(sub.Type())
			for i := 0; i < ms.Len(); i++ {
				if ms.At(i).Obj().Name() == "ExecuteMessage" {
					if f := w.p.SSA.MethodValue(ms.At(i)); f != nil && f.Blocks != nil {
						w.subs[kind] = appendUniqueFn(w.subs[kind], f)
					}
				}
			}
		}
	}
}

// buildImpls: CHA over module-defined interfaces restricted to module types.
func (w *wtf) buildImpls() {
	type im struct {
		key  string
		name string
		ifc  *types.Interface
	}
	var ifaces []im
	for _, pk := range w.p.Pkgs {
		sc := pk.Types.Scope()
		for _, n := range sc.Names() {
			tn, ok := sc.Lookup(n).(*types.TypeName)
			if !ok {
				continue
			}
			ifc, ok := tn.Type().Underlying().(*types.Interface)
			if !ok || ifc.NumMethods() == 0 {
				continue
			}
			ifaces = append(ifaces, im{short(pk.PkgPath) + ".(" + n + ")", n, ifc})
		}
	}
	var concrete []types.Type
	for _, pk := range w.p.Pkgs {
		sc := pk.Types.Scope()
		for _, n := range sc.Names() {
			tn, ok := sc.Lookup(n).(*types.TypeName)
			if !ok || tn.IsAlias() {
				continue
			}
			if _, isI := tn.Type().Underlying().(*types.Interface); isI {
				continue
			}
			if _, isN := tn.Type().(*types.Named); !isN {
				continue
			}
			if tn.Type().(*types.Named).TypeParams().Len() > 0 {
				continue
			}
			concrete = append(concrete, tn.Type(), types.NewPointer(tn.Type()))
		}
	}
	for _, it := range ifaces {
		for _, ct := range concrete {
			if !types.Implements(ct, it.ifc) {
				continue
			}
			ms := w.p.SSA.MethodSets.MethodSet(ct)
			for i := 0; i < it.ifc.NumMethods(); i++ {
				m := it.ifc.Method(i)
				sel := ms.Lookup(m.Pkg(), m.Name())
				if sel == nil {
					continue
				}
				fn := w.p.SSA.MethodValue(sel)
				if fn == nil || fn.Synthetic != "" {
					// promoted-method wrappers: the wrapped method is itself listed for its own type
					continue
				}
				// unwrap promoted-method wrappers to the declared method when possible
				key := it.key + "." + m.Name()
				w.impls[key] = appendUniqueFn(w.impls[key], fn)
			}
		}
	}
}

func appendUniqueFn(s []*ssa.Function, f *ssa.Function) []*ssa.Function {
	for _, x := range s {
		if x == f {
			return s
		}
	}
	return append(s, f)
}

// callees resolves a call to module functions with blocks: static callee,
// closure, or CHA implementations for module interface methods.
func (w *wtf) callees(c ssa.CallInstruction) (fns []*ssa.Function, closure *ssa.MakeClosure) {
	cc := c.Common()
	if cc.IsInvoke() {
		key := tfname(cc.Method)
		return w.impls[key], nil
	}
	switch v := cc.Value.(type) {
	case *ssa.Function:
		f := v
		if f.Origin() != nil {
			f = f.Origin()
		}
		return []*ssa.Function{f}, nil
	case *ssa.MakeClosure:
		if f, ok := v.Fn.(*ssa.Function); ok {
			return []*ssa.Function{f}, v
		}
	}
	return nil, nil
}

// argForSlot returns the caller-side value bound to callee slot i.
func argForSlot(c ssa.CallInstruction, callee *ssa.Function, closure *ssa.MakeClosure, i int) ssa.Value {
	args := allArgs(c)
	if c.Common().IsInvoke() {
		// args[0] is the interface value = receiver
	}
	if i < len(callee.Params) {
		if i < len(args) {
			return args[i]
		}
		return nil
	}
	j := i - len(callee.Params)
	if closure != nil && j < len(closure.Bindings) {
		return closure.Bindings[j]
	}
	return nil
}

// origins computes where a state-carrying value comes from.
func (w *wtf) origins(v ssa.Value) []origin {
	if o, ok := w.origMemo[v]; ok {
		return o
	}
	seen := map[ssa.Value]bool{}
	var out []origin
	add := func(o origin) {
		for _, x := range out {
			if x == o {
				return
			}
		}
		out = append(out, o)
	}
	var walk func(v ssa.Value, d int)
	walk = func(v ssa.Value, d int) {
		if v == nil || d > 40 || seen[v] {
			return
		}
		seen[v] = true
		switch v := v.(type) {
		case *ssa.Parameter:
			fn := v.Parent()
			for i, p := range fn.Params {
				if p == v {
					add(origin{kind: oSlot, slot: i})
				}
			}
		case *ssa.FreeVar:
			fn := v.Parent()
			for j, p := range fn.FreeVars {
				if p == v {
					add(origin{kind: oSlot, slot: len(fn.Params) + j})
				}
			}
		case *ssa.Call:
			name := calleeNameCommon(&v.Call)
			if name == fnNewTx {
				add(origin{kind: oTx, tx: v})
				return
			}
			fns, cl := w.callees(v)
			for _, g := range fns {
				for k := range w.carrier[g] {
					if a := argForSlot(v, g, cl, k); a != nil {
						walk(a, d+1)
					}
				}
			}
		case *ssa.Extract:
			walk(v.Tuple, d+1)
		case *ssa.Alloc:
			if refs := v.Referrers(); refs != nil {
				for _, r := range *refs {
					switch r := r.(type) {
					case *ssa.Store:
						if r.Addr == v {
							walk(r.Val, d+1)
						}
					case *ssa.FieldAddr:
						if frefs := r.Referrers(); frefs != nil {
							for _, fr := range *frefs {
								if st, ok := fr.(*ssa.Store); ok && st.Addr == r {
									walk(st.Val, d+1)
								}
							}
						}
					}
				}
			}
		case *ssa.UnOp:
			if al, ok := v.X.(*ssa.Alloc); ok && v.Op == token.MUL {
				// flow-sensitive: only the stores that reach this load
				if rs := reachingStoresOf(al, v); len(rs) > 0 {
					for _, st := range rs {
						walk(st.Val, d+1)
					}
					return
				}
			}
			walk(v.X, d+1)
		case *ssa.FieldAddr:
			walk(v.X, d+1)
		case *ssa.Field:
			walk(v.X, d+1)
		case *ssa.IndexAddr:
			walk(v.X, d+1)
		case *ssa.Index:
			walk(v.X, d+1)
		case *ssa.Lookup:
			walk(v.X, d+1)
		case *ssa.Phi:
			for _, e := range v.Edges {
				walk(e, d+1)
			}
		case *ssa.MakeInterface:
			walk(v.X, d+1)
		case *ssa.ChangeInterface:
			walk(v.X, d+1)
		case *ssa.ChangeType:
			walk(v.X, d+1)
		case *ssa.Convert:
			walk(v.X, d+1)
		case *ssa.TypeAssert:
			walk(v.X, d+1)
		case *ssa.MakeClosure:
			for _, b := range v.Bindings {
				walk(b, d+1)
			}
		}
	}
	walk(v, 0)
	w.origMemo[v] = out
	return out
}

// couldCarryState: only reference-like values can carry a state handle.
func couldCarryState(t types.Type) bool {
	switch u := t.Underlying().(type) {
	case *types.Pointer, *types.Interface, *types.Map, *types.Slice, *types.Signature, *types.Chan:
		return true
	case *types.Struct:
		for i := 0; i < u.NumFields(); i++ {
			if couldCarryState(u.Field(i).Type()) {
				return true
			}
		}
	case *types.Tuple:
		return u.Len() > 0 && couldCarryState(u.At(0).Type())
	}
	return false
}

func (w *wtf) run() {
	// 1. carriers (growing fixpoint)
	for changed := true; changed; {
		changed = false
		w.origMemo = map[ssa.Value][]origin{}
		for _, fn := range w.fns {
			res := fn.Signature.Results()
			if res.Len() == 0 || !couldCarryState(res.At(0).Type()) {
				continue
			}
			for _, r := range Returns(fn) {
				if len(r.Results) == 0 {
					continue
				}
				for _, o := range w.origins(r.Results[0]) {
					if o.kind == oSlot {
						if w.carrier[fn] == nil {
							w.carrier[fn] = map[int]bool{}
						}
						if !w.carrier[fn][o.slot] {
							w.carrier[fn][o.slot] = true
							changed = true
						}
					}
				}
			}
		}
	}
	w.origMemo = map[ssa.Value][]origin{}
	// 2.-4. NSF, W, DF: growing fixpoint of per-function summaries
	for iter := 0; iter < 50; iter++ {
		changed := false
		w.pubMemo = map[string]*fnSummary{}
		w.specMemo = map[string]*fnSummary{}
		for _, fn := range w.fns {
			sum := w.compute(fn, nil)
			if sum.NSF && !w.NSF[fn] {
				w.NSF[fn] = true
				changed = true
			}
			for k := range sum.NSS {
				if w.NSS[fn] == nil {
					w.NSS[fn] = map[string]bool{}
				}
				if !w.NSS[fn][k] {
					w.NSS[fn][k] = true
					changed = true
				}
			}
			if w.opaque(fn) {
				continue
			}
			for k := range sum.W {
				if w.W[fn] == nil {
					w.W[fn] = map[int]bool{}
				}
				if !w.W[fn][k] {
					w.W[fn][k] = true
					changed = true
				}
			}
			for k := range sum.WB {
				if w.WB[fn] == nil {
					w.WB[fn] = map[int]bool{}
				}
				if !w.WB[fn][k] {
					w.WB[fn][k] = true
					changed = true
				}
			}
			for k, wits := range sum.DF {
				if w.DF[fn] == nil {
					w.DF[fn] = map[int][]*dfWitness{}
				}
				for _, wit := range wits {
					if !hasWitness(w.DF[fn][k], wit) {
						w.DF[fn][k] = append(w.DF[fn][k], wit)
						changed = true
					}
				}
			}
		}
		if !changed {
			break
		}
	}
	w.pubMemo = map[string]*fnSummary{}
	w.specMemo = map[string]*fnSummary{}
}

// constCut: edges of g that are infeasible because call c passes boolean
// constants for parameters that g branches on directly.
func constCut(c ssa.CallInstruction, g *ssa.Function) (*Cut, string) {
	args := allArgs(c)
	cut := NewCut()
	key := ""
	for i, p := range g.Params {
		if i >= len(args) {
			break
		}
		k, ok := args[i].(*ssa.Const)
		if !ok || k.Value == nil || k.Value.Kind() != constant.Bool {
			continue
		}
		val := constant.BoolVal(k.Value)
		for _, b := range g.Blocks {
			iff := lastIf(b)
			if iff == nil {
				continue
			}
			cond := iff.Cond
			pol := true
			for {
				u, ok := cond.(*ssa.UnOp)
				if !ok || u.Op != token.NOT {
					break
				}
				cond = u.X
				pol = !pol
			}
			if cond != ssa.Value(p) {
				continue
			}
			// cond evaluates to val; the If takes edge 0 iff (val == pol)
			if val == pol {
				cut.AddEdges(Edge{b, 1})
			} else {
				cut.AddEdges(Edge{b, 0})
			}
			key += fmt.Sprintf("%d=%v;", i, val)
		}
	}
	if len(cut.Edges) == 0 {
		return nil, ""
	}
	return cut, key
}

// sumFor returns the summary of callee g as seen from call c.
func (w *wtf) sumFor(c ssa.CallInstruction, g *ssa.Function) (W map[int]bool, nss map[string]bool, df map[int][]*dfWitness) {
	if g.Blocks != nil && !w.opaque(g) {
		if cut, key := constCut(c, g); cut != nil {
			mk := fname(g) + "|" + key
			s, ok := w.specMemo[mk]
			if !ok {
				tmp := w.compute(g, cut)
				s = &tmp
				w.specMemo[mk] = s
			}
			return s.W, s.NSS, s.DF
		}
	}
	return w.W[g], w.NSS[g], w.DF[g]
}

// fnSummary is the (possibly specialised) effect summary of one function.
type fnSummary struct {
	W   map[int]bool
	WB  map[int]bool // slots through whose context the per-block context is mutated (never rolled back)
	NSF bool
	NSS map[string]bool
	DF  map[int][]*dfWitness
}

func (a *dfWitness) same(b *dfWitness) bool {
	return a.Write == b.Write && a.Fail == b.Fail && a.Callee == b.Callee && a.calleeSlot == b.calleeSlot && a.Why == b.Why
}

func hasWitness(l []*dfWitness, x *dfWitness) bool {
	for _, y := range l {
		if y.same(x) {
			return true
		}
	}
	return false
}

// kindKey identifies a message kind constant.
func kindKey(v ssa.Value) string {
	if mi, ok := v.(*ssa.MakeInterface); ok {
		v = mi.X
	}
	if k, ok := v.(*ssa.Const); ok && k.Value != nil {
		return typeStr(k.Type()) + "=" + k.Value.ExactString()
	}
	if u, ok := v.(*ssa.UnOp); ok && u.Op == token.MUL {
		if g, ok := u.X.(*ssa.Global); ok && g.Pkg != nil {
			return "global:" + short(g.Pkg.Pkg.Path()) + "." + g.Name()
		}
	}
	return ""
}

// publishKind extracts the constant message kind of a Publish call ("" if not constant).
func publishKind(c ssa.CallInstruction) string {
	args := allArgs(c)
	if len(args) < 3 {
		return ""
	}
	msg := args[2]
	var al *ssa.Alloc
	if u, ok := msg.(*ssa.UnOp); ok && u.Op == token.MUL {
		al, _ = u.X.(*ssa.Alloc)
	}
	if al == nil {
		return ""
	}
	kind := ""
	n := 0
	if refs := al.Referrers(); refs != nil {
		for _, r := range *refs {
			fa, ok := r.(*ssa.FieldAddr)
			if !ok || fieldName(fa.X.Type(), fa.Field) != "Kind" {
				continue
			}
			if frefs := fa.Referrers(); frefs != nil {
				for _, fr := range *frefs {
					if st, ok := fr.(*ssa.Store); ok && st.Addr == fa {
						n++
						kind = kindKey(st.Val)
					}
				}
			}
		}
	}
	if n != 1 {
		return ""
	}
	return kind
}

// kindCut prunes the `switch msg.Kind` of a subscriber for one kind.
func kindCut(fn *ssa.Function, kind string) *Cut {
	cut := NewCut()
	if kind == "" {
		return cut
	}
	for _, b := range fn.Blocks {
		iff := lastIf(b)
		if iff == nil {
			continue
		}
		bo, ok := iff.Cond.(*ssa.BinOp)
		if !ok || bo.Op != token.EQL {
			continue
		}
		var k string
		var other ssa.Value
		if kk := kindKey(bo.Y); kk != "" {
			k, other = kk, bo.X
		} else if kk := kindKey(bo.X); kk != "" {
			k, other = kk, bo.Y
		} else {
			continue
		}
		if !strings.HasSuffix(vstr(other), ".Kind") {
			continue
		}
		if k == kind {
			cut.AddEdges(Edge{b, 1})
		} else {
			cut.AddEdges(Edge{b, 0})
		}
	}
	return cut
}

// pubSummary merges the kind-specialised summaries of all message subscribers
// (slot 1 = ctx of ExecuteMessage is reported as slot 0 of the summary).
func (w *wtf) pubSummary(kind string) *fnSummary {
	if s, ok := w.pubMemo[kind]; ok {
		return s
	}
	out := &fnSummary{W: map[int]bool{}, WB: map[int]bool{}, NSS: map[string]bool{}, DF: map[int][]*dfWitness{}}
	w.pubMemo[kind] = out // guards recursion
	var writers, failers []*ssa.Function
	subs := w.subs[kind]
	if kind == "" || len(subs) == 0 {
		subs = w.impls["consensus/cometbft/api.(MessageSubscriber).ExecuteMessage"]
		out.NSS["consensus/cometbft/api.ErrNoSubscribers"] = true
	}
	for _, g := range subs {
		if g.Blocks == nil || w.opaque(g) {
			continue
		}
		sum := w.compute(g, kindCut(g, kind))
		for k := range sum.NSS {
			out.NSS[k] = true
		}
		if sum.W[1] {
			out.W[0] = true
			writers = append(writers, g)
		}
		if sum.WB[1] {
			out.WB[0] = true
		}
		if sum.NSF {
			failers = append(failers, g)
		}
		for _, wit := range sum.DF[1] {
			out.DF[0] = append(out.DF[0], &dfWitness{Write: wit.Write, Fail: wit.Fail, Callee: g, Why: "message subscriber " + fname(g) + " (kind " + kind + "): " + wit.Why, inner: wit})
		}
	}
	// one subscriber writes, a different one fails: the dispatcher reports failure with the write kept
	for _, wr := range writers {
		for _, fl := range failers {
			if wr != fl {
				out.DF[0] = append(out.DF[0], &dfWitness{Callee: wr, Why: "message kind " + kind + ": subscriber " + fname(wr) + " writes and subscriber " + fname(fl) + " may fail"})
			}
		}
	}
	out.NSF = len(out.NSS) > 0
	return out
}

// compute derives the summary of fn from the current global maps, on the CFG
// with the given edges removed.
func (w *wtf) compute(fn *ssa.Function, cut *Cut) fnSummary {
	sum := fnSummary{W: map[int]bool{}, WB: map[int]bool{}, NSS: map[string]bool{}, DF: map[int][]*dfWitness{}}
	if cut == nil {
		cut = NewCut()
	}
	in := map[*ssa.BasicBlock]dirtySet{}
	before := map[ssa.Instruction]dirtySet{}
	live := map[*ssa.BasicBlock]bool{}
	work := []*ssa.BasicBlock{fn.Blocks[0]}
	in[fn.Blocks[0]] = dirtySet{}
	inWork := map[*ssa.BasicBlock]bool{fn.Blocks[0]: true}
	opaque := w.opaque(fn)
	// RemoveExisting that found nothing (nil previous value) did not change state
	noopEdges := map[Edge]ssa.Instruction{}
	for _, c := range callsIn(fn) {
		if !strings.HasSuffix(calleeName(c), ".RemoveExisting") {
			continue
		}
		for _, v := range resultValues(c, 0) {
			es, _ := nilTestEdges(v, true)
			for _, e := range es {
				noopEdges[e] = c
			}
			// len(v) == 0 / v == nil through helper variables is not followed
		}
	}
	for len(work) > 0 {
		b := work[0]
		work = work[1:]
		inWork[b] = false
		live[b] = true
		cur := in[b].clone()
		for _, ins := range b.Instrs {
			switch x := ins.(type) {
			case ssa.CallInstruction:
				if _, isGo := x.(*ssa.Go); isGo {
					continue
				}
				before[ins] = cur.clone()
				if opaque {
					continue
				}
				for _, o := range w.writeOrigins(x) {
					if o.kind == oSlot {
						sum.W[o.slot] = true
						if _, ok := cur[o.slot]; !ok {
							cur[o.slot] = ins
						}
					}
				}
				for _, o := range w.blockCtxCallOrigins(x) {
					if !handlerLayer(fn) {
						break
					}
					sum.WB[o.slot] = true
					if _, ok := cur[o.slot]; !ok {
						cur[o.slot] = ins
					}
				}
			case *ssa.MapUpdate, *ssa.Store:
				// the per-block context (ctx.BlockContext()) is shared by all transactions of the block and is
				// not covered by any transaction overlay: mutating an object held in it is a write that no
				// failure rolls back
				if opaque {
					continue
				}
				for _, o := range w.blockCtxWriteOrigins(ins) {
					if o.kind == oSlot && handlerLayer(fn) {
						sum.WB[o.slot] = true
						if _, ok := cur[o.slot]; !ok {
							cur[o.slot] = ins
						}
					}
				}
			case *ssa.Return:
				before[ins] = cur.clone()
			}
		}
		for si, s := range b.Succs {
			if cut.Edges[Edge{b, si}] {
				continue
			}
			first := in[s] == nil
			if first {
				in[s] = dirtySet{}
			}
			out := cur
			if undo := noopEdges[Edge{b, si}]; undo != nil {
				out = cur.clone()
				for slot, by := range out {
					if by == undo {
						delete(out, slot)
					}
				}
			}
			if in[s].merge(out) || first {
				if !inWork[s] {
					inWork[s] = true
					work = append(work, s)
				}
			}
		}
	}
	addDF := func(slot int, wit *dfWitness) {
		if !hasWitness(sum.DF[slot], wit) {
			sum.DF[slot] = append(sum.DF[slot], wit)
		}
	}
	if errResultIndex(fn) >= 0 {
		for _, r := range Returns(fn) {
			if !live[r.Block()] {
				continue
			}
			ev := retErrVal(r)
			for _, o := range w.nsOrigins(ev, r) {
				if o.At != ssa.Instruction(r) && !live[o.At.Block()] {
					continue
				}
				sum.NSF = true
				sum.NSS[o.Name] = true
				if opaque {
					continue
				}
				st := before[o.At]
				if st == nil {
					st = before[ssa.Instruction(r)]
				}
				for slot, wr := range st {
					addDF(slot, &dfWitness{Write: wr, Fail: r, Why: o.What})
				}
			}
		}
	}
	if _, ok := w.storageOnly[fname(fn)]; ok {
		sum.NSF = false
		sum.NSS = map[string]bool{}
	}
	if opaque {
		return sum
	}
	for _, b := range fn.Blocks {
		if !live[b] {
			continue
		}
		for _, ins := range b.Instrs {
			c, ok := ins.(ssa.CallInstruction)
			if !ok {
				continue
			}
			if _, isGo := c.(*ssa.Go); isGo {
				continue
			}
			if calleeName(c) == ifPublish {
				ps := w.pubSummary(publishKind(c))
				for _, wit := range ps.DF[0] {
					args := allArgs(c)
					for _, o := range w.origins(args[1]) {
						if o.kind == oSlot {
							addDF(o.slot, &dfWitness{Write: c, Fail: c, Callee: wit.Callee, Why: wit.Why, inner: wit.inner})
						}
					}
				}
				continue
			}
			fns, cl := w.callees(c)
			for _, g := range fns {
				_, _, gDF := w.sumFor(c, g)
				for k, gws := range gDF {
					if len(gws) == 0 {
						continue
					}
					a := argForSlot(c, g, cl, k)
					if a == nil {
						continue
					}
					for _, o := range w.argOrigins(c, a) {
						if o.kind == oSlot {
							addDF(o.slot, &dfWitness{Write: c, Fail: c, Callee: g, calleeSlot: k, Why: "inherited", calleeWits: gws})
						}
					}
				}
			}
		}
	}
	return sum
}

// writeOrigins: the origins through which call c may write state (c's
// callee's W mapped to the caller; KeyValueTree mutators; Context.Commit;
// message publication).
func (w *wtf) writeOrigins(c ssa.CallInstruction) []origin {
	var out []origin
	name := calleeName(c)
	args := allArgs(c)
	switch {
	case isKVWrite(name):
		return w.origins(args[0])
	case name == fnCtxCmt:
		for _, o := range w.origins(args[0]) {
			if o.kind == oTx {
				// committing a transaction writes through its parent
				out = append(out, w.origins(allArgs(o.tx)[0])...)
			} else {
				out = append(out, o)
			}
		}
		return out
	case name == ifPublish:
		// message subscribers execute with the given context
		if len(args) > 1 && w.pubSummary(publishKind(c)).W[0] {
			out = append(out, w.origins(args[1])...)
		}
		return out
	}
	fns, cl := w.callees(c)
	for _, g := range fns {
		gW, _, _ := w.sumFor(c, g)
		for k := range gW {
			if a := argForSlot(c, g, cl, k); a != nil {
				out = append(out, w.argOrigins(c, a)...)
			}
		}
	}
	return out
}

const fnBlockCtx = "consensus/cometbft/api.(*Context).BlockContext"

// blockCtxCall: the ctx.BlockContext() call that v (a map, pointer or address) was obtained from, through
// Get(key), type assertions, field/element addressing and loads; nil if v does not come from the block context.
func blockCtxCall(v ssa.Value, d int) *ssa.Call {
	if d > 10 || v == nil {
		return nil
	}
	switch x := v.(type) {
	case *ssa.Call:
		if calleeName(x) == fnBlockCtx {
			return x
		}
		if strings.HasPrefix(calleeName(x), "consensus/cometbft/api.(*BlockContext).") {
			return blockCtxCall(allArgs(x)[0], d+1)
		}
	case *ssa.TypeAssert:
		return blockCtxCall(x.X, d+1)
	case *ssa.Extract:
		return blockCtxCall(x.Tuple, d+1)
	case *ssa.FieldAddr:
		return blockCtxCall(x.X, d+1)
	case *ssa.IndexAddr:
		return blockCtxCall(x.X, d+1)
	case *ssa.UnOp:
		return blockCtxCall(x.X, d+1)
	case *ssa.ChangeType:
		return blockCtxCall(x.X, d+1)
	case *ssa.MakeInterface:
		return blockCtxCall(x.X, d+1)
	case *ssa.Phi:
		for _, e := range x.Edges {
			if c := blockCtxCall(e, d+1); c != nil {
				return c
			}
		}
	}
	return nil
}

// handlerLayer: block-context writes are tracked in the applications (transaction and message handlers and what they
// call); the multiplexer's own block-context bookkeeping (provable events, system transactions, gas accountant) is
// the block's result by design.
func handlerLayer(fn *ssa.Function) bool {
	return strings.HasPrefix(short(fpkgPath(fn)), "consensus/cometbft/apps/")
}

// untx resolves transaction origins to the slots of their outermost parents.
func (w *wtf) untx(os []origin) []origin {
	var out []origin
	var resolve func(os []origin, d int)
	resolve = func(os []origin, d int) {
		for _, o := range os {
			if o.kind == oTx && d < 8 {
				resolve(w.origins(allArgs(o.tx)[0]), d+1)
			} else if o.kind == oSlot {
				out = append(out, o)
			}
		}
	}
	resolve(os, 0)
	return out
}

// blockCtxCallOrigins: the (de-transactionalised) origins through which call c's callees mutate the block context.
func (w *wtf) blockCtxCallOrigins(c ssa.CallInstruction) []origin {
	var out []origin
	if calleeName(c) == ifPublish {
		if args := allArgs(c); len(args) > 1 && w.pubSummary(publishKind(c)).WB[0] {
			out = append(out, w.untx(w.origins(args[1]))...)
		}
		return out
	}
	fns, cl := w.callees(c)
	for _, g := range fns {
		for k := range w.WB[g] {
			if a := argForSlot(c, g, cl, k); a != nil {
				out = append(out, w.untx(w.argOrigins(c, a))...)
			}
		}
	}
	return out
}

// blockCtxWriteOrigins: if ins stores into an object held in the block context, the origins of the context it was
// reached through — with transaction contexts resolved to their parents, since NewTransaction isolates state and
// events only.
func (w *wtf) blockCtxWriteOrigins(ins ssa.Instruction) []origin {
	var target ssa.Value
	switch x := ins.(type) {
	case *ssa.MapUpdate:
		target = x.Map
	case *ssa.Store:
		if _, local := x.Addr.(*ssa.Alloc); local {
			return nil
		}
		target = x.Addr
	}
	bc := blockCtxCall(target, 0)
	if bc == nil {
		return nil
	}
	return w.untx(w.origins(allArgs(bc)[0]))
}

// callNSF: may call c return a non-storage error?
func (w *wtf) callNSF(c ssa.CallInstruction) bool {
	name := calleeName(c)
	if name == fnUnavail {
		return false
	}
	if name == ifPublish {
		return w.pubSummary(publishKind(c)).NSF
	}
	cc := c.Common()
	if cc.IsInvoke() {
		// storage interfaces fail only with storage errors
		if strings.HasPrefix(name, "storage/mkvs") {
			return false
		}
		impls := w.impls[name]
		if len(impls) == 0 {
			return true
		}
		for _, g := range impls {
			if w.NSF[g] || g.Blocks == nil {
				return true
			}
		}
		return false
	}
	fns, _ := w.callees(c)
	if len(fns) == 0 {
		return true // dynamic / external: conservatively non-storage
	}
	for _, g := range fns {
		if g.Blocks == nil {
			// external function
			return true
		}
		if _, nss, _ := w.sumFor(c, g); len(nss) > 0 {
			return true
		}
	}
	return false
}

var errorIface = types.Universe.Lookup("error").Type().Underlying().(*types.Interface)

type nsOrigin struct {
	At   ssa.Instruction // the call producing the error, or the return itself for sentinels/fresh errors
	What string
	Name string // sentinel name ("pkg.ErrX") or "*" for fresh/unknown
}

// nsOrigins lists the non-storage origins of error value v (returned at ret).
func (w *wtf) nsOrigins(v ssa.Value, ret ssa.Instruction) []nsOrigin {
	var out []nsOrigin
	seen := map[ssa.Value]bool{}
	var walk func(v ssa.Value, d int)
	walk = func(v ssa.Value, d int) {
		if v == nil || d > 30 || seen[v] {
			return
		}
		seen[v] = true
		switch v := v.(type) {
		case *ssa.Const:
			return
		case *ssa.Phi:
			for _, e := range v.Edges {
				walk(e, d+1)
			}
		case *ssa.UnOp:
			if v.Op == token.MUL {
				if g, ok := v.X.(*ssa.Global); ok {
					if !excludedSentinel(v, ret, gname(g)) {
						out = append(out, nsOrigin{ret, "sentinel " + g.Name(), gname(g)})
					}
					return
				}
				if al, ok := v.X.(*ssa.Alloc); ok {
					if refs := al.Referrers(); refs != nil {
						for _, r := range *refs {
							if st, ok := r.(*ssa.Store); ok && st.Addr == al {
								walk(st.Val, d+1)
							}
						}
					}
					return
				}
			}
			out = append(out, nsOrigin{ret, "loaded error value", "*"})
		case *ssa.MakeInterface:
			out = append(out, nsOrigin{ret, "error value " + typeStr(v.X.Type()), "*"})
		case *ssa.Extract:
			walk(v.Tuple, d+1)
		case *ssa.Call:
			name := calleeNameCommon(&v.Call)
			switch name {
			case "fmt.Errorf":
				// wrapped errors: follow error-typed variadic elements when the format has %w
				wrapped := false
				if len(v.Call.Args) >= 2 {
					if k, ok := v.Call.Args[0].(*ssa.Const); ok && k.Value != nil && k.Value.Kind() == constant.String && strings.Contains(constant.StringVal(k.Value), "%w") {
						for _, el := range variadicElems(v.Call.Args[1]) {
							inner := el
							if mi, ok := inner.(*ssa.MakeInterface); ok {
								inner = mi.X
							}
							if ci, ok := inner.(*ssa.ChangeInterface); ok {
								inner = ci.X
							}
							if isErrorType(inner.Type()) || types.Implements(inner.Type(), errorIface) {
								wrapped = true
								walk(inner, d+1)
							}
						}
					}
				}
				if !wrapped {
					out = append(out, nsOrigin{ret, "fresh error", "*"})
				}
			case "errors.New":
				out = append(out, nsOrigin{ret, "fresh error", "*"})
			case "common/errors.WithContext":
				walk(v.Call.Args[0], d+1)
			case fnUnavail:
				return
			default:
				for _, nm := range w.callNSS(v) {
					if nm != "*" && excludedSentinel(errValOf(v), ret, nm) {
						continue
					}
					if storageGuarded(errValOf(v), ret) {
						continue
					}
					out = append(out, nsOrigin{v, "error of " + name + " [" + shortSentinel(nm) + "]", nm})
				}
			}
		case *ssa.Parameter:
			out = append(out, nsOrigin{ret, "error parameter", "*"})
		default:
			out = append(out, nsOrigin{ret, fmt.Sprintf("error value %T", v), "*"})
		}
	}
	walk(v, 0)
	return out
}

type dirtySet map[int]ssa.Instruction // slot -> first dirtying instruction

func (d dirtySet) clone() dirtySet {
	n := dirtySet{}
	for k, v := range d {
		n[k] = v
	}
	return n
}

func (d dirtySet) merge(o dirtySet) bool {
	ch := false
	for k, v := range o {
		if _, ok := d[k]; !ok {
			d[k] = v
			ch = true
		}
	}
	return ch
}

// leaf is one innermost write-then-fail witness with the call chain leading to it.
type wtfLeaf struct {
	Fn   *ssa.Function
	Slot int
	Wit  *dfWitness
	Text []string
}

// leaves enumerates the innermost witnesses reachable from DF(fn)[slot].
func (w *wtf) leaves(fn *ssa.Function, slot int) []wtfLeaf {
	var out []wtfLeaf
	seen := map[string]bool{}
	var rec func(fn *ssa.Function, slot int, wits []*dfWitness, prefix []string, depth int)
	rec = func(fn *ssa.Function, slot int, wits []*dfWitness, prefix []string, depth int) {
		for _, wit := range wits {
			if wit.Callee != nil && depth < 14 {
				if wit.Write == nil {
					out = append(out, wtfLeaf{wit.Callee, 1, wit, append(append([]string{}, prefix...), wit.Why)})
					continue
				}
				line := fmt.Sprintf("%s calls %s at %s", fname(fn), fname(wit.Callee), w.p.InstrPos(wit.Write))
				key := fmt.Sprintf("%p/%p/%d", wit.Write, wit.Callee, wit.calleeSlot)
				if seen[key] {
					continue
				}
				seen[key] = true
				if wit.inner != nil {
					rec(wit.Callee, 1, []*dfWitness{wit.inner}, append(append([]string{}, prefix...), line+" (message subscriber)"), depth+1)
					continue
				}
				next := wit.calleeWits
				if next == nil {
					next = w.DF[wit.Callee][wit.calleeSlot]
				}
				rec(wit.Callee, wit.calleeSlot, next, append(append([]string{}, prefix...), line), depth+1)
				continue
			}
			txt := fmt.Sprintf("%s: state written through [%s] at %s (%s), then %s returned at %s", fname(fn), slotName(fn, slot), w.p.InstrPos(wit.Write), callDesc(wit.Write), wit.Why, w.p.InstrPos(wit.Fail))
			out = append(out, wtfLeaf{fn, slot, wit, append(append([]string{}, prefix...), txt)})
		}
	}
	rec(fn, slot, w.DF[fn][slot], nil, 0)
	return out
}

func callDesc(in ssa.Instruction) string {
	if c, ok := in.(ssa.CallInstruction); ok {
		return calleeName(c)
	}
	return in.String()
}

func sortedSlots(m map[int][]*dfWitness) []int {
	var s []int
	for k := range m {
		s = append(s, k)
	}
	sort.Ints(s)
	return s
}

// reachingStoresOf returns the stores to local alloc al that may reach the
// load (backward walk over the CFG, stopping at the first store on each path).
func reachingStoresOf(al *ssa.Alloc, load ssa.Instruction) []*ssa.Store {
	var out []*ssa.Store
	seenB := map[*ssa.BasicBlock]bool{}
	var scan func(b *ssa.BasicBlock, from int)
	scan = func(b *ssa.BasicBlock, from int) {
		for i := from; i >= 0; i-- {
			if st, ok := b.Instrs[i].(*ssa.Store); ok && st.Addr == al {
				out = append(out, st)
				return
			}
		}
		for _, p := range b.Preds {
			if !seenB[p] {
				seenB[p] = true
				scan(p, len(p.Instrs)-1)
			}
		}
	}
	b := load.Block()
	idx := -1
	for i, in := range b.Instrs {
		if in == load {
			idx = i
		}
	}
	scan(b, idx-1)
	return out
}

func gname(g *ssa.Global) string {
	if g.Pkg == nil {
		return g.Name()
	}
	return short(g.Pkg.Pkg.Path()) + "." + g.Name()
}

func shortSentinel(n string) string {
	if i := strings.LastIndex(n, "."); i >= 0 {
		return n[i+1:]
	}
	return n
}

// errValOf returns the SSA value carrying the error result of call c.
func errValOf(c *ssa.Call) ssa.Value {
	vs := errValues(c)
	if len(vs) > 0 {
		return vs[0]
	}
	return c
}

// excludedSentinel: the return is dominated by a branch on which v != sentinel.
func excludedSentinel(v ssa.Value, ret ssa.Instruction, sentinel string) bool {
	for _, h := range heldCondVals(ret) {
		b, ok := h.Cond.(*ssa.BinOp)
		if !ok || (b.Op != token.EQL && b.Op != token.NEQ) {
			continue
		}
		var other ssa.Value
		switch {
		case sameErrVal(b.X, v):
			other = b.Y
		case sameErrVal(b.Y, v):
			other = b.X
		default:
			continue
		}
		if !isGlobalLoad(other, sentinel) {
			continue
		}
		if (b.Op == token.EQL && !h.Pol) || (b.Op == token.NEQ && h.Pol) {
			return true
		}
	}
	return false
}

func sameErrVal(a, b ssa.Value) bool {
	if a == b {
		return true
	}
	return sameLocalLoad(a, b) || sameLocalLoad(b, a)
}

// storageGuarded: the return is dominated by IsUnavailableStateError(v) being true.
func storageGuarded(v ssa.Value, ret ssa.Instruction) bool {
	for _, h := range heldCondVals(ret) {
		c, ok := h.Cond.(*ssa.Call)
		if !ok || !h.Pol {
			continue
		}
		if calleeNameCommon(&c.Call) == "consensus/cometbft/api.IsUnavailableStateError" && len(c.Call.Args) == 1 && sameErrVal(c.Call.Args[0], v) {
			return true
		}
	}
	return false
}

// callNSS: names of the non-storage errors call c may return.
func (w *wtf) callNSS(c ssa.CallInstruction) []string {
	name := calleeName(c)
	if name == fnUnavail {
		return nil
	}
	if name == ifPublish {
		ps := w.pubSummary(publishKind(c))
		return ps.nss()
	}
	cc := c.Common()
	if cc.IsInvoke() {
		if strings.HasPrefix(name, "storage/mkvs") {
			return nil
		}
		impls := w.impls[name]
		if len(impls) == 0 {
			return []string{"*"}
		}
		set := map[string]bool{}
		for _, g := range impls {
			if g.Blocks == nil {
				set["*"] = true
				continue
			}
			_, nss, _ := w.sumFor(c, g)
			for k := range nss {
				set[k] = true
			}
		}
		return keysOf(set)
	}
	fns, _ := w.callees(c)
	if len(fns) == 0 {
		return []string{"*"}
	}
	set := map[string]bool{}
	for _, g := range fns {
		if g.Blocks == nil {
			set["*"] = true
			continue
		}
		_, nss, _ := w.sumFor(c, g)
		for k := range nss {
			set[k] = true
		}
	}
	return keysOf(set)
}

func keysOf(m map[string]bool) []string {
	var out []string
	for k := range m {
		out = append(out, k)
	}
	sort.Strings(out)
	return out
}

func (s *fnSummary) nss() []string { return keysOf(s.NSS) }

// argOrigins: origins of argument a at call c. A variable captured by
// reference (the binding is the variable's cell) is resolved to the stores
// that reach the call, not to every store ever made to the cell.
func (w *wtf) argOrigins(c ssa.CallInstruction, a ssa.Value) []origin {
	if al, ok := a.(*ssa.Alloc); ok {
		if rs := reachingStoresOf(al, c); len(rs) > 0 {
			var out []origin
			for _, st := range rs {
				out = append(out, w.origins(st.Val)...)
			}
			return out
		}
	}
	return w.origins(a)
}

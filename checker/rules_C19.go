package main

import (
	"go/types"
	"sort"
	"strings"

	"golang.org/x/tools/go/ssa"
)

func init() { register("C19", rulesC19) }

const pkStateless = "consensus/cometbft/stateless"

// successOnlyVia: every success return of fn is reached through the success
// of one of the calls in ev (success edge, or the call's result returned
// directly in tail position).
func (c *Ctx) successOnlyVia(rule string, fn *ssa.Function, ev Ev, why string) bool {
	inst := fname(fn) + ":success⇒" + ev.Name + "✓"
	c.Analysed[fname(fn)] = true
	if ev.Empty() {
		c.Fail(rule, inst, c.P.Pos(fn.Pos()), ev.Name+" not found in "+fname(fn)+": "+why)
		return false
	}
	cut, notes := successCut(ev)
	for _, r := range Returns(fn) {
		cut.AddEdges(phiNonNilEdges(r)...)
	}
	if c.AssumeFalse != "" {
		cut.AddEdges(HeldEdges(fn, c.AssumeFalse)...)
	}
	hit := Reach(fn, nil, nil, anyOf(SuccessReturns(fn)), cut)
	return c.Check(hit == nil, rule, inst, c.P.Pos(fn.Pos()), "every success return passes "+ev.Name+"✓", "a success return of "+fname(fn)+" is reachable without "+ev.Name+" having succeeded "+strings.Join(notes, ";")+": "+why)
}

func rulesC19(c *Ctx) {
	c19Round5(c)
	c.Explain = append(c.Explain,
		"C19 (stateless nodes return provider data only if header-bound) — decided: (a) in package stateless every call on the untrusted provider is either a tabled pass-through the code documents as unverifiable, or its result can reach a success return (or the block broadcast) only through the success edge of its verifier, called with that result and a light block obtained from the light client; the provider is never asked for light blocks; (b) each verifier's success exits pass every binding comparison: block height/hash/time/state-root namespace, version, type, hash/meta header/last commit; results height + results hash for heights below the latest trusted one (the unverified branch is guarded by exactly lastTrusted <= lb.Height); parameters height + consensus hash + decoded parameters; transactions data hash; next validators height+1 and NextValidatorsHash; inclusion proofs verify against DataHash over the CBOR of the submitted transaction; merkle.Verify/VerifyTransaction answer success only through the CometBFT proof verification of the (hashed) item; verifyBlock reads every field of the block except the tabled Size; (c) every remote-backed tree in the light query factories is rooted at the StateRooter's result (success edge), and Core.StateRoot's hash comes from a verified header's AppHash or from the verified transaction list.",
		"NOT decided: CometBFT light-client verification itself, Merkle proof soundness (C04), completeness of CometBFT header hashing.")
	ix := c.P.BuildIndex()
	c19Round3(c)

	// ---- (a) provider calls
	verifierFor := map[string][]string{
		"GetBlock":          {pkStateless + ".verifyBlock"},
		"GetBlockResults":   {pkStateless + ".(*Core).verifyBlockResults"},
		"GetParameters":     {pkStateless + ".(*Core).verifyParameters"},
		"GetTransactions":   {pkStateless + ".verifyTransactions"},
		"GetValidators":     {pkStateless + ".(*Core).verifyNextValidators"},
		"SubmitTxWithProof": {pkStateless + ".verifyTransactionProof"},
	}
	nProv := 0
	for _, fn := range c.P.FuncsInPkg(pkStateless) {
		for _, call := range callsIn(fn) {
			cc := call.Common()
			if !cc.IsInvoke() || !strings.HasSuffix(vstr(cc.Value), ".provider") {
				continue
			}
			if !strings.HasPrefix(tfname(cc.Method), "consensus/api.(") {
				continue
			}
			nProv++
			m := cc.Method.Name()
			key := fname(fn) + " provider." + m
			c.Analysed[fname(fn)] = true
			if m == "GetLightBlock" || m == "GetLightBlockForState" {
				c.Fail("C19.bind", key, c.P.InstrPos(call), "light blocks (the trust anchor) are requested from the untrusted provider instead of the light client")
				continue
			}
			vs, ok := verifierFor[m]
			if !ok {
				if reason, tab := c.Tabled("stateless_passthru", key); tab {
					c.TabledOK("C19.bind", key, c.P.InstrPos(call), reason)
				} else {
					c.Fail("C19.bind", key, c.P.InstrPos(call), "provider data from "+m+" is used in "+fname(fn)+" without a verifier and the site is not a documented pass-through")
				}
				continue
			}
			ver := Ev{Name: strings.Join(vs, "|"), Fn: fn}
			for _, v := range vs {
				ver.Ins = append(ver.Ins, CallsTo(fn, "", v, "").Ins...)
			}
			if ver.Empty() {
				c.Fail("C19.bind", key, c.P.InstrPos(call), "result of provider."+m+" is not passed to its verifier "+ver.Name+" in "+fname(fn))
				continue
			}
			// the verifier is applied to this call's result, with a light-client light block
			resVals := resultValues(call, 0)
			okArg, okLB := false, false
			for _, vc := range ver.Calls() {
				for _, a := range allArgs(vc) {
					for _, rv := range resVals {
						if a == rv {
							okArg = true
						}
					}
					if strings.Contains(typeStr(a.Type()), "LightBlock") {
						s := vstr(a)
						if strings.Contains(s, pkStateless+".(*Core).lightBlock(") || strings.Contains(s, pkStateless+".(*Core).retryLightBlock(") {
							okLB = true
						}
					}
				}
			}
			if !okArg || !okLB {
				c.Fail("C19.bind", key, c.P.InstrPos(call), "verifier "+ver.Name+" is not applied to the provider's result with a light block from the light client (result passed: "+boolStr(okArg)+", light-client block: "+boolStr(okLB)+")")
				continue
			}
			// from the provider call's success, a success return / broadcast is reachable only via verifier✓
			cut, _ := successCut(ver)
			for _, r := range Returns(fn) {
				cut.AddEdges(phiNonNilEdges(r)...)
			}
			targets := SuccessReturns(fn)
			targets = append(targets, CallsTo(fn, "", "common/pubsub.(*Broker).Broadcast", "").Ins...)
			pe, found := SuccessEdges(call)
			var hit ssa.Instruction
			if found {
				hit = Reach(fn, nil, pe, anyOf(targets), cut)
			} else {
				hit = Reach(fn, call, nil, anyOf(targets), cut)
			}
			c.Check(hit == nil, "C19.bind", key, c.P.InstrPos(call), "result reaches the caller only through "+ver.Name+"✓", "data from provider."+m+" can be returned by "+fname(fn)+" without its verifier having succeeded")
		}
	}
	c.Floor("C19.bind", nProv, 12, "provider call sites in package stateless")
	// handleNewBlock: broadcast only verified blocks
	if fn := c.needFn("C19.bind", pkStateless+".(*Core).handleNewBlock"); fn != nil {
		vb := CallsTo(fn, "verifyBlock", pkStateless+".verifyBlock", "")
		bc := CallsTo(fn, "Broadcast", "common/pubsub.(*Broker).Broadcast", "")
		c.MustPrecede("C19.bind", fn, vb, bc, "new blocks are announced only after verification against the light block")
		c.MustPrecede("C19.bind", fn, vb, StoresTo(fn, "c.latestBlock=", pkStateless+".Core.latestBlock"), "latest block is cached only after verification")
		for _, call := range vb.Calls() {
			a := allArgs(call)
			c.Check(vstr(a[0]) == "param:blk" && strings.Contains(vstr(a[1]), "retryLightBlock("), "C19.bind", fname(fn)+":verifies-this-block", c.P.InstrPos(call), "", "handleNewBlock verifies something other than the received block against the light-client block")
		}
	}
	// lightBlock comes from the light client
	if fn := c.needFn("C19.bind", pkStateless+".(*Core).lightBlock"); fn != nil {
		vl := CallsTo(fn, "lightClient.VerifyLightBlockAt", "consensus/cometbft/light.(*Client).VerifyLightBlockAt", "")
		c.successOnlyVia("C19.bind", fn, vl, "trusted headers come only from light-client verification")
	}

	// ---- (b) verifiers
	req := func(fnName string, conds map[string]string) {
		fn := c.needFn("C19.verify", fnName)
		if fn == nil {
			return
		}
		var names []string
		for n := range conds {
			names = append(names, n)
		}
		sort.Strings(names)
		for _, n := range names {
			c.SuccessRequiresCond("C19.verify", fn, n, conds[n], "provider data is bound to the verified header")
		}
	}
	beq := func(a, b string) string { return `^bytes\.Equal\(` + a + `,` + b + `\)$` }
	const LB = `\*+param:lb\.SignedHeader\.Header\.`
	req(pkStateless+".verifyBlock", map[string]string{
		"blk.Height==lb.Height":        `^\*param:blk\.Height == ` + LB + `Height$`,
		"blk.Hash==header hash":        `^\*param:blk\.Hash == common/crypto/hash\.LoadFromHexBytes\(github\.com/cometbft/cometbft/types\.\(\*Header\)\.Hash\(\*+param:lb\.SignedHeader\.Header\)\)$`,
		"blk.Time==header time":        `^time\.\(Time\)\.UTC\(\*param:blk\.Time\) == time\.\(Time\)\.Truncate\(time\.\(Time\)\.UTC\(` + LB + `Time\),1000000000\)$`,
		"state root namespace is zero": `^\*param:blk\.StateRoot\.Namespace == nil$`,
		"state root version==height-1": `^\*param:blk\.StateRoot\.Version == \(uint64\(` + LB + `Height\) - 1\)$`,
		"state root type==State":       `^\*param:blk\.StateRoot\.Type == \d+$`,
		"state root hash==AppHash":     beq(`param:blk\.StateRoot\.Hash\[:\]`, LB+`AppHash`),
		"meta header==light header":    beq(`\*alloc:\*consensus/cometbft/api\.BlockMeta\.Header`, `github\.com/cometbft/cometbft/proto/tendermint/types\.\(\*Header\)\.Marshal\(github\.com/cometbft/cometbft/types\.\(\*Header\)\.ToProto\(\*+param:lb\.SignedHeader\.Header\)\)#0`),
		"last commit hash":             beq(`github\.com/cometbft/cometbft/types\.\(\*Commit\)\.Hash\(github\.com/cometbft/cometbft/types\.CommitFromProto\(.*\)#0\)`, LB+`LastCommitHash`),
		// the commit hash covers the signatures only; height and block id are stated by the verified header (F11)
		"last commit block id==header.LastBlockID":              `^github\.com/cometbft/cometbft/types\.\(BlockID\)\.Equals\(\*github\.com/cometbft/cometbft/types\.CommitFromProto\(.*\)#0\.BlockID,` + LB + `LastBlockID\)$`,
		"last commit height==height-1 (0 for the empty commit)": `^\*github\.com/cometbft/cometbft/types\.CommitFromProto\(.*\)#0\.Height == (phi\()?\(?` + LB + `Height - 1\)`,
	})
	req(pkStateless+".verifyBlockResults", map[string]string{
		"results.Height==lb.Height": `^\*param:results\.Height == ` + LB + `Height$`,
		"results hash":              beq(`.*Hash\(.*NewResults\(.*NewBlockResultsMeta\(param:results\)#0.*\)\)`, `param:resultsHash`),
	})
	req(pkStateless+".(*Core).verifyNextValidators", map[string]string{
		"validators.Height==lb.Height+1": `^\*param:validators\.Height == \(` + LB + `Height \+ 1\)$`,
		"set hash==NextValidatorsHash":   beq(`github\.com/cometbft/cometbft/types\.\(\*ValidatorSet\)\.Hash\(consensus/cometbft/light\.DecodeValidators\(param:validators\)#0\)`, `github\.com/cometbft/cometbft/libs/bytes\.\(HexBytes\)\.Bytes\(`+LB+`NextValidatorsHash\)`),
	})
	req(pkStateless+".(*Core).verifyParameters", map[string]string{
		"params.Height==lb.Height":   `^\*param:params\.Height == ` + LB + `Height$`,
		"consensus params hash":      beq(`github\.com/cometbft/cometbft/types\.\(ConsensusParams\)\.Hash\(github\.com/cometbft/cometbft/types\.ConsensusParamsFromProto\(.*\)\)`, LB+`ConsensusHash`),
		"decoded parameters binding": beq(`common/cbor\.Marshal\(.*ConsensusParameters\(.*\)#0\)`, `common/cbor\.Marshal\(\*param:params\.Parameters\)`),
	})
	req(pkStateless+".verifyTransactions", map[string]string{
		// the hashed value is a Data built in this function, however it is initialised (declared, literal, preallocated)
		"data hash": beq(`github\.com/cometbft/cometbft/types\.\(\*Data\)\.Hash\((&\(load\()?alloc:\*github\.com/cometbft/cometbft/types\.Data\)*`, LB+`DataHash`),
	})
	if fn := c.needFn("C19.verify", pkStateless+".verifyTransactions"); fn != nil {
		// ... and what it holds comes from the transactions that are being verified, nothing else
		var bad []string
		n := 0
		var check func(v ssa.Value, d int)
		check = func(v ssa.Value, d int) {
			if d > 6 {
				return
			}
			switch x := v.(type) {
			case *ssa.MakeSlice, *ssa.Const:
				return
			case *ssa.Phi:
				for _, e := range x.Edges {
					check(e, d+1)
				}
				return
			case *ssa.Slice:
				check(x.X, d+1)
				return
			case *ssa.Call:
				if b, ok := x.Call.Value.(*ssa.Builtin); ok && b.Name() == "append" {
					for _, a := range x.Call.Args {
						check(a, d+1)
					}
					return
				}
			}
			for _, r := range Roots(v) {
				switch {
				case r.Kind == "param" && r.Name == "txs", r.Kind == "const":
				case r.Kind == "alloc" && (strings.HasSuffix(r.Name, "types.Data") || strings.HasSuffix(r.Name, "types.Tx") || strings.HasPrefix(r.Name, "*[")):
				default:
					bad = append(bad, r.String())
				}
			}
		}
		for _, st := range StoresTo(fn, "", "github.com/cometbft/cometbft/types.Data.Txs").Ins {
			n++
			check(st.(*ssa.Store).Val, 0)
		}
		c.Check(n > 0 && len(bad) == 0, "C19.verify", fname(fn)+":hashed transactions are the given ones", c.P.Pos(fn.Pos()), "everything stored into the hashed Data.Txs derives from the transactions being verified", "the transaction list that is hashed against DataHash is not built from the transactions being verified only (stores="+itoa(n)+"; other origins: "+strings.Join(uniq(bad), ", ")+")")
	}
	if fn := c.needFn("C19.verify", pkStateless+".verifyTransactionProof"); fn != nil {
		vt := CallsTo(fn, "merkle.VerifyTransaction", "consensus/cometbft/crypto/merkle.VerifyTransaction", "")
		c.successOnlyVia("C19.verify", fn, vt, "an inclusion proof is accepted only if it verifies")
		for _, call := range vt.Calls() {
			a := allArgs(call)
			ok := vstr(a[0]) == "*param:proof.RawProof" && strings.HasSuffix(vstr(a[1]), "DataHash") && strings.Contains(vstr(a[1]), "param:lb") && vstr(a[2]) == "common/cbor.Marshal(param:tx)"
			c.Check(ok, "C19.verify", fname(fn)+":proof-args", c.P.InstrPos(call), "proof checked against lb.DataHash over cbor(tx)", "inclusion proof is not checked against the light block's DataHash over the submitted transaction's bytes: "+vstr(a[0])+" ; "+vstr(a[1])+" ; "+vstr(a[2]))
		}
	}
	// the unverified branch of Core.verifyBlockResults is exactly "lastTrusted <= lb.Height"
	if fn := c.needFn("C19.verify", pkStateless+".(*Core).verifyBlockResults"); fn != nil {
		es := HeldEdges(fn, `^consensus/cometbft/light\.\(\*Client\)\.LastTrustedHeight\(.*\)#0 <= \*+param:lb\.SignedHeader\.Header\.Height$`)
		tail := CallsTo(fn, "verifyBlockResults", pkStateless+".verifyBlockResults", "")
		cut, _ := successCut(tail)
		cut.AddEdges(es...)
		for _, r := range Returns(fn) {
			cut.AddEdges(phiNonNilEdges(r)...)
		}
		hit := Reach(fn, nil, nil, anyOf(SuccessReturns(fn)), cut)
		c.Check(len(es) > 0 && !tail.Empty() && hit == nil, "C19.verify", fname(fn)+":unverified-only-at-latest", c.P.Pos(fn.Pos()), "results are returned unverified only when lastTrustedHeight <= lb.Height, otherwise through the results-hash verifier", "block results can be returned without results-hash verification for a height below the latest trusted one (the skip condition is no longer exactly lastTrusted <= lb.Height, or a path bypasses the verifier)")
		// results hash source: light block at height+1
		if rh := c.needFn("C19.verify", pkStateless+".(*Core).fetchResultsHashFromLightBlock"); rh != nil {
			vl := CallsTo(rh, "lightClient.VerifyLightBlockAt", "consensus/cometbft/light.(*Client).VerifyLightBlockAt", "")
			c.successOnlyVia("C19.verify", rh, vl, "results hash comes from a verified header")
		}
		if fh := c.needFn("C19.verify", pkStateless+".(*Core).fetchResultsHash"); fh != nil {
			ok := false
			for _, call := range CallsTo(fh, "", pkStateless+".(*Core).fetchResultsHashFromLightBlock", "").Calls() {
				if vstr(allArgs(call)[2]) == "(param:height + 1)" {
					ok = true
				}
			}
			c.Check(ok, "C19.verify", fname(fh)+":height+1", c.P.Pos(fh.Pos()), "LastResultsHash is taken from header height+1", "results hash for height h is not taken from the header at h+1")
		}
	}
	// merkle proof helpers
	if fn := c.needFn("C19.verify", "consensus/cometbft/crypto/merkle.Verify"); fn != nil {
		pv := CallsTo(fn, "cmtmerkle.Proof.Verify", "github.com/cometbft/cometbft/crypto/merkle.(*Proof).Verify", "")
		c.successOnlyVia("C19.verify", fn, pv, "a proof is accepted only through CometBFT's proof verification of the item")
		for _, call := range pv.Calls() {
			a := allArgs(call)
			c.Check(vstr(a[1]) == "param:rootHash" && vstr(a[2]) == "param:item", "C19.verify", fname(fn)+":args", c.P.InstrPos(call), "verifies (rootHash,item)", "merkle.Verify does not verify the given item against the given root")
		}
	}
	if fn := c.needFn("C19.verify", "consensus/cometbft/crypto/merkle.VerifyTransaction"); fn != nil {
		v := CallsTo(fn, "Verify", "consensus/cometbft/crypto/merkle.Verify", "")
		c.successOnlyVia("C19.verify", fn, v, "transaction proofs go through Verify")
		for _, call := range v.Calls() {
			a := allArgs(call)
			c.Check(vstr(a[0]) == "param:proof" && vstr(a[1]) == "param:rootHash" && strings.Contains(vstr(a[2]), "hashTransaction(param:tx)"), "C19.verify", fname(fn)+":args", c.P.InstrPos(call), "verifies hash(tx) against root", "VerifyTransaction does not verify the hash of exactly the given transaction")
		}
	}
	// verifyBlock field coverage
	if fn := c.needFn("C19.fieldcov", pkStateless+".verifyBlock"); fn != nil {
		missing := uncoveredFields(fn, "blk", 2)
		var bad []string
		for _, m := range missing {
			if reason, ok := c.Tabled("c19_fieldcov", "verifyBlock "+m); ok {
				c.TabledOK("C19.fieldcov", "verifyBlock "+m, c.P.Pos(fn.Pos()), reason)
				continue
			}
			bad = append(bad, m)
		}
		c.Check(len(bad) == 0, "C19.fieldcov", "verifyBlock:all-fields-read", c.P.Pos(fn.Pos()), "every field of the provider's block is examined by the verifier", "field(s) of consensus/api.Block are returned to the caller but never examined by verifyBlock: "+strings.Join(bad, ", "))
	}

	// ---- (c) remote-backed state reads
	nQ := 0
	for _, s := range ix.Calls["storage/mkvs.NewWithRoot"] {
		call := s.In.(ssa.CallInstruction)
		a := allArgs(call)
		if isNilConst(a[0]) {
			continue // no remote syncer
		}
		pp := short(fpkgPath(s.Fn))
		if !strings.HasPrefix(pp, "consensus/cometbft/") {
			continue
		}
		nQ++
		rs := vstr(a[2])
		ok := strings.Contains(rs, ".rooter.StateRoot(") || strings.Contains(rs, ".StateRoot(")
		if ok {
			// through the success edge of StateRoot
			sr := Ev{Name: "rooter.StateRoot", Fn: s.Fn}
			for _, c2 := range callsIn(s.Fn) {
				if c2.Common().IsInvoke() && c2.Common().Method.Name() == "StateRoot" {
					sr.Ins = append(sr.Ins, c2)
				}
			}
			cut, _ := successCut(sr)
			ok = !sr.Empty() && Reach(s.Fn, nil, nil, isInstr(s.In), cut) == nil
		}
		c.Check(ok, "C19.state", fname(s.Fn)+":remote-tree-root", c.P.InstrPos(s.In), "remote-backed tree is rooted at the trusted StateRooter's result", "a tree reading through an untrusted syncer is rooted at {"+rs+"}, not at the (successfully obtained) trusted state root")
	}
	c.Floor("C19.state", nQ, 8, "remote-backed NewWithRoot sites under consensus/cometbft")
	if fn := c.needFn("C19.state", pkStateless+".(*Core).fetchStateRootFromLightBlock"); fn != nil {
		vl := CallsTo(fn, "lightClient.VerifyLightBlockAt", "consensus/cometbft/light.(*Client).VerifyLightBlockAt", "")
		c.successOnlyVia("C19.state", fn, vl, "state root from a verified header's AppHash")
	}
	if fn := c.needFn("C19.state", pkStateless+".(*Core).fetchStateRootFromMetaTx"); fn != nil {
		gt := CallsTo(fn, "c.GetTransactions", pkStateless+".(*Core).GetTransactions", "")
		c.successOnlyVia("C19.state", fn, gt, "the metadata transaction is taken from the verified transaction list")
	}
	if fn := c.needFn("C19.state", pkStateless+".(*Core).stateRoot"); fn != nil {
		put := Ev{Name: "stateRootCache.Put", Fn: fn}
		for _, call := range callsIn(fn) {
			if strings.HasSuffix(calleeName(call), ".Put") && strings.Contains(vstr(recvOfAny(call)), "stateRootCache") {
				put.Ins = append(put.Ins, call)
			}
		}
		fs := CallsTo(fn, "fetchStateRoot", pkStateless+".(*Core).fetchStateRoot", "")
		if !put.Empty() {
			c.MustPrecede("C19.state", fn, fs, put, "only successfully derived roots are cached")
		}
	}
	_ = types.Typ
}

func boolStr(b bool) string {
	if b {
		return "yes"
	}
	return "no"
}

func recvOfAny(c ssa.CallInstruction) ssa.Value {
	a := allArgs(c)
	if len(a) > 0 {
		return a[0]
	}
	return nil
}

// uncoveredFields lists fields (recursively to the given depth for embedded
// struct values) of the struct pointed to by the named parameter that are
// never read in fn.
func uncoveredFields(fn *ssa.Function, param string, depth int) []string {
	var p *ssa.Parameter
	for _, x := range fn.Params {
		if pname(x) == param {
			p = x
		}
	}
	if p == nil {
		return []string{"<param " + param + " not found>"}
	}
	read := map[string]bool{}
	var visit func(v ssa.Value, path string)
	visit = func(v ssa.Value, path string) {
		refs := v.Referrers()
		if refs == nil {
			return
		}
		for _, r := range *refs {
			switch x := r.(type) {
			case *ssa.FieldAddr:
				np := path + "." + fieldName(x.X.Type(), x.Field)
				read[np] = true
				visit(x, np)
			case *ssa.Field:
				np := path + "." + fieldName(x.X.Type(), x.Field)
				read[np] = true
				visit(x, np)
			case *ssa.UnOp:
				visit(x, path)
			case *ssa.Call:
				// handed to a new helper (ip.go): the helper's reads count
				if h := helperCallee(x); h != nil && len(x.Call.Args) == len(h.Params) {
					for i, a := range x.Call.Args {
						if a == v {
							visit(h.Params[i], path)
						}
					}
				}
			}
		}
	}
	visit(p, "")
	var missing []string
	var walk func(t types.Type, path string, d int)
	walk = func(t types.Type, path string, d int) {
		st, ok := derefType(t).Underlying().(*types.Struct)
		if !ok {
			return
		}
		for i := 0; i < st.NumFields(); i++ {
			f := st.Field(i)
			np := path + "." + f.Name()
			if !read[np] {
				missing = append(missing, strings.TrimPrefix(np, "."))
				continue
			}
			if _, isStruct := f.Type().Underlying().(*types.Struct); isStruct && d > 1 && namedOf(f.Type()) != "time.Time" {
				walk(f.Type(), np, d-1)
			}
		}
	}
	walk(p.Type(), "", depth)
	sort.Strings(missing)
	return missing
}

package main

import (
	"go/types"
	"sort"
	"strings"

	"golang.org/x/tools/go/ssa"
)

// Site is an instruction inside a module function.
type Site struct {
	Fn *ssa.Function
	In ssa.Instruction
}

// Index holds module-wide inverted indexes built in one pass.
type Index struct {
	Calls       map[string][]Site // callee short name -> call sites (static + invoke by interface method name)
	FuncRefs    map[string][]Site // function used as a value (not in call position)
	FieldStores map[string][]Site // "pkg.Type.Field" -> Store/MapUpdate instrs whose address is that field
	FieldAddrs  map[string][]Site // "pkg.Type.Field" -> FieldAddr / Field instructions (reads and writes)
	GlobalStore map[string][]Site // "pkg.Name" -> stores to the global
}

func (p *Prog) BuildIndex() *Index {
	ix := &Index{Calls: map[string][]Site{}, FuncRefs: map[string][]Site{}, FieldStores: map[string][]Site{}, FieldAddrs: map[string][]Site{}, GlobalStore: map[string][]Site{}}
	for _, fn := range p.ModFuncs {
		if fn.Origin() != nil && fn.Origin() != fn {
			continue
		}
		if fn.Synthetic != "" && fn.Parent() == nil && !strings.HasPrefix(fn.Synthetic, "package initializer") {
			continue // wrappers, thunks, bound-method closures: not source code
		}
		for _, b := range fn.Blocks {
			for _, in := range b.Instrs {
				if c, ok := in.(ssa.CallInstruction); ok {
					n := calleeName(c)
					if n != "" {
						ix.Calls[n] = append(ix.Calls[n], Site{fn, in})
					}
				}
				// function values
				for _, op := range in.Operands(nil) {
					if op == nil || *op == nil {
						continue
					}
					if f, ok := (*op).(*ssa.Function); ok {
						if c, isCall := in.(ssa.CallInstruction); isCall && c.Common().Value == f {
							continue
						}
						tgt := f
						if tgt.Origin() != nil {
							tgt = tgt.Origin()
						}
						// bound method closures / thunks: resolve to the method
						if f.Synthetic != "" && f.Object() != nil {
							if tf, ok := f.Object().(*types.Func); ok {
								ix.FuncRefs[tfname(tf)] = append(ix.FuncRefs[tfname(tf)], Site{fn, in})
								continue
							}
						}
						ix.FuncRefs[fname(tgt)] = append(ix.FuncRefs[fname(tgt)], Site{fn, in})
					}
				}
				switch x := in.(type) {
				case *ssa.FieldAddr:
					k := fieldKey(x.X.Type(), x.Field)
					ix.FieldAddrs[k] = append(ix.FieldAddrs[k], Site{fn, in})
				case *ssa.Field:
					k := fieldKey(x.X.Type(), x.Field)
					ix.FieldAddrs[k] = append(ix.FieldAddrs[k], Site{fn, in})
				case *ssa.Store:
					if fa, ok := x.Addr.(*ssa.FieldAddr); ok {
						k := fieldKey(fa.X.Type(), fa.Field)
						ix.FieldStores[k] = append(ix.FieldStores[k], Site{fn, in})
					}
					if g, ok := x.Addr.(*ssa.Global); ok && g.Pkg != nil {
						k := short(g.Pkg.Pkg.Path()) + "." + g.Name()
						ix.GlobalStore[k] = append(ix.GlobalStore[k], Site{fn, in})
					}
				case *ssa.MapUpdate:
					// m[k] = v where m is loaded from a field
					if k := fieldOfLoaded(x.Map); k != "" {
						ix.FieldStores[k] = append(ix.FieldStores[k], Site{fn, in})
					}
				}
			}
		}
	}
	return ix
}

// fieldKey: "pkg.Type.Field" for field idx of (pointer to) named struct type t.
func fieldKey(t types.Type, idx int) string {
	n := namedOf(t)
	if n == "" {
		n = typeStr(derefType(t))
	}
	return n + "." + fieldName(t, idx)
}

// fieldOfLoaded: if v is a load of a struct field (x.f), returns its key.
func fieldOfLoaded(v ssa.Value) string {
	switch x := v.(type) {
	case *ssa.UnOp:
		if fa, ok := x.X.(*ssa.FieldAddr); ok {
			return fieldKey(fa.X.Type(), fa.Field)
		}
	case *ssa.Field:
		return fieldKey(x.X.Type(), x.Field)
	}
	return ""
}

// sitesIn filters sites to those not in allowed functions; allowed entries
// may be exact function names or "pkg/" prefixes (package path prefix) or
// "fn$" to allow a function and its closures.
func allowedFn(fn *ssa.Function, allowed []string) bool {
	if allowedFn1(fn, allowed) {
		return true
	}
	// a new helper (ip.go) called only from allowed functions is part of them
	return len(NewFns) > 0 && allCallersAllowed(fn, allowed, 0)
}

func allowedFn1(fn *ssa.Function, allowed []string) bool {
	n := fname(fn)
	// closures inherit their outermost parent for allowance
	root := fn
	for root.Parent() != nil {
		root = root.Parent()
	}
	rn := fname(root)
	pp := short(fpkgPath(fn))
	for _, a := range allowed {
		if strings.HasSuffix(a, "/") {
			if strings.HasPrefix(pp+"/", a) {
				return true
			}
			continue
		}
		if strings.HasPrefix(a, "pkg:") {
			if pp == strings.TrimPrefix(a, "pkg:") {
				return true
			}
			continue
		}
		if a == n || a == rn {
			return true
		}
	}
	return false
}

// WhoMayCall checks that every call site (and function-value reference) of
// callee lies in an allowed function. Returns the number of sites seen.
func (c *Ctx) WhoMayCall(ix *Index, rule, callee string, allowed []string, why string) int {
	sites := append([]Site{}, ix.Calls[callee]...)
	refs := ix.FuncRefs[callee]
	n := 0
	callers := map[string]int{}
	for _, s := range sites {
		n++
		callers[fname(s.Fn)]++
		if !allowedFn(s.Fn, allowed) {
			c.Fail(rule, callee+"<-"+fname(s.Fn), c.P.InstrPos(s.In), "call of "+callee+" outside its allowed callers {"+strings.Join(allowed, ", ")+"}: "+why)
		}
	}
	for _, s := range refs {
		n++
		callers[fname(s.Fn)+"(value)"]++
		if !allowedFn(s.Fn, allowed) {
			c.Fail(rule, callee+"<-ref:"+fname(s.Fn), c.P.InstrPos(s.In), "function value of "+callee+" taken outside its allowed users {"+strings.Join(allowed, ", ")+"}: "+why)
		}
	}
	var cs []string
	for k, v := range callers {
		cs = append(cs, k+"×"+itoa(v))
	}
	sort.Strings(cs)
	c.OK(rule, callee, "", "callers: "+strings.Join(cs, ", ")+" ⊆ allowed")
	return n
}

// WhoMayStore checks stores to a struct field.
func (c *Ctx) WhoMayStore(ix *Index, rule, field string, allowed []string, why string) int {
	n := 0
	writers := map[string]int{}
	for _, s := range ix.FieldStores[field] {
		n++
		writers[fname(s.Fn)]++
		if !allowedFn(s.Fn, allowed) {
			c.Fail(rule, field+"<-"+fname(s.Fn), c.P.InstrPos(s.In), "store to "+field+" outside its allowed writers {"+strings.Join(allowed, ", ")+"}: "+why)
		}
	}
	var cs []string
	for k, v := range writers {
		cs = append(cs, k+"×"+itoa(v))
	}
	sort.Strings(cs)
	c.OK(rule, field, "", "writers: "+strings.Join(cs, ", ")+" ⊆ allowed")
	return n
}

func itoa(i int) string {
	if i == 0 {
		return "0"
	}
	neg := i < 0
	if neg {
		i = -i
	}
	var b []byte
	for i > 0 {
		b = append([]byte{byte('0' + i%10)}, b...)
		i /= 10
	}
	if neg {
		b = append([]byte{'-'}, b...)
	}
	return string(b)
}

// WhoMayStoreGlobal checks stores to a package-level variable.
func (c *Ctx) WhoMayStoreGlobal(ix *Index, rule, global string, allowed []string, why string) int {
	n := 0
	writers := map[string]int{}
	for _, s := range ix.GlobalStore[global] {
		n++
		writers[fname(s.Fn)]++
		if !allowedFn(s.Fn, allowed) {
			c.Fail(rule, global+"<-"+fname(s.Fn), c.P.InstrPos(s.In), "store to "+global+" outside its allowed writers {"+strings.Join(allowed, ", ")+"}: "+why)
		}
	}
	var cs []string
	for k, v := range writers {
		cs = append(cs, k+"×"+itoa(v))
	}
	sort.Strings(cs)
	c.OK(rule, global, "", "writers: "+strings.Join(cs, ", ")+" ⊆ allowed")
	return n
}

package main

import (
	"go/types"
	"sort"
	"strings"

	"golang.org/x/tools/go/ssa"
)

func init() { register("C02", rulesC02) }

// recvFieldsRead: fields of the receiver struct read (FieldAddr/Field on the receiver) in fn.
func recvFieldsRead(fn *ssa.Function) map[string]bool {
	out := map[string]bool{}
	if len(fn.Params) == 0 {
		return out
	}
	recv := fn.Params[0]
	var visit func(v ssa.Value)
	seen := map[ssa.Value]bool{}
	visit = func(v ssa.Value) {
		if seen[v] {
			return
		}
		seen[v] = true
		refs := v.Referrers()
		if refs == nil {
			return
		}
		for _, r := range *refs {
			switch x := r.(type) {
			case *ssa.FieldAddr:
				if x.X == v {
					// a store to the field address is a write, not a read
					isRead := false
					if frefs := x.Referrers(); frefs != nil {
						for _, fr := range *frefs {
							if st, ok := fr.(*ssa.Store); ok && st.Addr == x {
								continue
							}
							isRead = true
						}
					}
					if isRead {
						out[fieldName(x.X.Type(), x.Field)] = true
					}
				}
			case *ssa.Field:
				out[fieldName(x.X.Type(), x.Field)] = true
			case *ssa.UnOp:
				visit(x)
			}
		}
	}
	visit(recv)
	return out
}

// recvFieldsReadDeep also follows helper methods called on the same receiver.
func recvFieldsReadDeep(fn *ssa.Function, depth int) map[string]bool {
	g := recvFieldsRead(fn)
	if depth <= 0 || len(fn.Params) == 0 {
		return g
	}
	for _, call := range callsIn(fn) {
		if f := call.Common().StaticCallee(); f != nil && f.Blocks != nil && len(call.Common().Args) > 0 && call.Common().Args[0] == ssa.Value(fn.Params[0]) {
			for k := range recvFieldsReadDeep(f, depth-1) {
				g[k] = true
			}
		}
	}
	return g
}

func structFields(t types.Type) []string {
	var out []string
	if st, ok := derefType(t).Underlying().(*types.Struct); ok {
		for i := 0; i < st.NumFields(); i++ {
			out = append(out, st.Field(i).Name())
		}
	}
	return out
}

func setMinus(all []string, minus ...string) string {
	m := map[string]bool{}
	for _, x := range minus {
		m[x] = true
	}
	var out []string
	for _, a := range all {
		if !m[a] {
			out = append(out, a)
		}
	}
	sort.Strings(out)
	return strings.Join(out, ",")
}

func rulesC02(c *Ctx) {
	c.Explain = append(c.Explain,
		"C02 (root hash depends only on contents) — decided: (a) the node hash covers exactly the content fields: UpdateHash of internal and leaf nodes reads every struct field except the cached hash and the clean flag (and nothing else), with key and value lengths framed; the serialisers and Equal read the same field set, so nothing can be stored or compared but not hashed; (b) on commit a dirty node's hash is recomputed after its children were committed and before the node is stored and the pointer hash is taken; clean flags are only set in on-commit hooks; (c) the tree mutators always reach the structural update: Insert succeeds only through doInsert, Remove/RemoveExisting only through doRemove (or the documented 'already removed in this batch' fast path), and a write-log entry is classified as a removal by value == nil everywhere (an empty value is a value); the pending write log is cleared only after the database commit succeeded; (d) whenever insert/remove marks a pointer dirty it also withdraws it from the eviction list.",
		"NOT decided: canonical shape (split/collapse/label-merge correctness), equality of roots across histories, backends, cache sizes, replay or restore — value and shape dependent.")
	const nd = "storage/mkvs/node"
	// ---- (a) field coverage
	for _, t := range []struct {
		typ    string
		except []string
	}{{"InternalNode", []string{"Hash", "Clean"}}, {"LeafNode", []string{"Hash", "Clean"}}} {
		uh := c.needFn("C02.fieldcov", nd+".(*"+t.typ+").UpdateHash")
		if uh == nil {
			continue
		}
		all := structFields(uh.Params[0].Type())
		want := setMinus(all, t.except...)
		got := recvFieldsRead(uh)
		delete(got, "Hash")
		c.Check(strings.Join(keysOf(got), ",") == want, "C02.fieldcov", t.typ+".UpdateHash:hashes-content-fields", c.P.Pos(uh.Pos()), "hash covers exactly {"+want+"}", "the node hash covers {"+strings.Join(keysOf(got), ",")+"} but the content fields are {"+want+"}: a field that is stored/compared but not hashed lets two contents share a root; a hashed non-content field makes the root depend on history")
		for _, m := range []string{"MarshalBinary", "Equal"} {
			fn := c.P.Fn(nd + ".(*" + t.typ + ")." + m)
			if fn == nil {
				c.Undecided("C02.fieldcov", "anchor:"+t.typ+"."+m, "", "method not found")
				continue
			}
			c.Analysed[fname(fn)] = true
			g := recvFieldsReadDeep(fn, 4)
			delete(g, "Hash")
			delete(g, "Clean")
			var missing []string
			for _, w := range strings.Split(want, ",") {
				if !g[w] {
					missing = append(missing, w)
				}
			}
			var extra []string
			for k := range g {
				if !strings.Contains(","+want+",", ","+k+",") {
					extra = append(extra, k)
				}
			}
			sort.Strings(extra)
			c.Check(len(missing) == 0 && len(extra) == 0, "C02.fieldcov", t.typ+"."+m+":same-fields-as-hash", c.P.Pos(fn.Pos()), m+" handles exactly the hashed fields", t.typ+"."+m+" disagrees with the hash on the content fields (missing "+strings.Join(missing, ",")+"; extra "+strings.Join(extra, ",")+")")
		}
	}
	// hash framing: number of FromBytes segments
	for typ, n := range map[string]int{"InternalNode": 6, "LeafNode": 5} {
		fn := c.P.Fn(nd + ".(*" + typ + ").UpdateHash")
		if fn == nil {
			continue
		}
		for _, call := range CallsTo(fn, "", "common/crypto/hash.(*Hash).FromBytes", "").Calls() {
			els := variadicElems(allArgs(call)[1])
			c.Check(len(els) == n, "C02.fieldcov", typ+".UpdateHash:framed-segments", c.P.InstrPos(call), itoa(n)+" hashed segments (domain prefix, lengths, contents)", "the number of hashed segments of "+typ+" changed from "+itoa(n)+" to "+itoa(len(els))+": length framing / domain separation may be lost")
		}
	}
	// ---- (b) commit order
	if fn := c.needFn("C02.commit", "storage/mkvs.doCommit"); fn != nil {
		uh := union("UpdateHash", CallsTo(fn, "", nd+".(*InternalNode).UpdateHash", ""), CallsTo(fn, "", nd+".(*LeafNode).UpdateHash", ""))
		uh.Name, uh.Fn = "n.UpdateHash()", fn
		put := CallsTo(fn, "batch.PutNode", "storage/mkvs/db/api.(Batch).PutNode", "")
		c.MustPrecede("C02.commit", fn, uh, put, "a dirty node is stored only after its hash was recomputed")
		rec := CallsTo(fn, "doCommit(children)", "storage/mkvs.doCommit", "")
		iuh := CallsTo(fn, "InternalNode.UpdateHash", nd+".(*InternalNode).UpdateHash", "")
		c.NeverAfter("C02.commit", fn, rec, iuh, "children are committed (hashed) before the parent's hash is computed")
		// ptr.Hash = n.Hash after UpdateHash
		var hs []ssa.Instruction
		for _, st := range StoresTo(fn, "", nd+".Pointer.Hash").Ins {
			if strings.HasSuffix(vstr(st.(*ssa.Store).Val), ".Hash") {
				hs = append(hs, st)
			}
		}
		c.MustPrecede("C02.commit", fn, uh, Ev{Name: "ptr.Hash=n.Hash", Fn: fn, Ins: hs}, "the pointer hash is the recomputed node hash")
		// Clean flags only in OnCommit closures
		bad := 0
		for _, f := range []string{nd + ".Pointer.Clean", nd + ".InternalNode.Clean", nd + ".LeafNode.Clean"} {
			bad += len(StoresTo(fn, "", f).Ins)
		}
		c.Check(bad == 0, "C02.commit", "doCommit:clean-flags-only-on-commit", c.P.Pos(fn.Pos()), "clean flags are set only in on-commit hooks (after the database commit succeeded)", "doCommit sets a clean flag directly: a failed database commit would leave dirty data marked clean and never persisted")
	}
	// ---- (c) mutators
	ix := c.P.BuildIndex()
	rulesC02Round2(c, ix)
	c02Round4(c)
	pendingFallbackRule(c, "C02.dbptr")
	writeLogModeRule(c, "C02.mutate")
	remoteNodePresentRule(c, "C02.mutate")
	treeMutateRules(c, "C02.mutate")
	atomicRules(c, "C02.atomic", []string{"storage/mkvs.(*tree).doInsert", "storage/mkvs.(*tree).doRemove", "storage/mkvs.(*tree).Insert", "storage/mkvs.(*tree).RemoveExisting"})
	hopsRule(c, "C02.writelog")
	// removal marker is nil, not empty
	nilMarkerRule(c, "C02.mutate")
	// pending state cleared only after the durable commit
	if fn := c.needFn("C02.mutate", "storage/mkvs.(*tree).commitWithHooks"); fn != nil {
		bc := CallsTo(fn, "batch.Commit", "storage/mkvs/db/api.(Batch).Commit", "")
		clr := union("pending-reset", StoresTo(fn, "", "storage/mkvs.tree.pendingWriteLog"), StoresTo(fn, "", "storage/mkvs.tree.pendingRemovedNodes"))
		clr.Name, clr.Fn = "t.pendingWriteLog/pendingRemovedNodes=", fn
		c.MustPrecede("C02.mutate", fn, bc, clr, "pending changes are forgotten only once they are durable (a failed commit must be retryable with the same write log)")
	}
	c.WhoMayStore(ix, "C02.mutate", "storage/mkvs.tree.pendingWriteLog", []string{"storage/mkvs.(*tree).commitWithHooks", "storage/mkvs.New", "storage/mkvs.NewWithRoot", "storage/mkvs.(*tree).Close", "storage/mkvs.(*tree).Insert", "storage/mkvs.(*tree).RemoveExisting", "storage/mkvs.(*tree).Remove"}, "pending write log owners (mutators add entries, commit replaces the map)")
	dirtyRollbackRule(c, "C02.dirty")
}

func dirtyRollbackRule(c *Ctx, rule string) {
	const nd = "storage/mkvs/node"
	// ---- (d) dirty ⇒ rolled back from LRU
	for _, n := range []string{"storage/mkvs.(*tree).doInsert", "storage/mkvs.(*tree).doRemove"} {
		fn := c.needFn(rule, n)
		if fn == nil {
			continue
		}
		sd := CallsTo(fn, "ptr.SetDirty", nd+".(*Pointer).SetDirty", "")
		c.Floor(rule, len(sd.Ins), 2, "SetDirty sites in "+n)
		for _, call := range sd.Calls() {
			p := allArgs(call)[0]
			var rb []ssa.Instruction
			for _, r := range CallsTo(fn, "", "storage/mkvs.(*cache).rollbackNode", "").Calls() {
				if allArgs(r)[1] == p {
					rb = append(rb, r)
				}
			}
			cut := NewCut()
			for _, r := range rb {
				cut.AddInstr(r)
			}
			hit := Reach(fn, call, nil, func(i ssa.Instruction) bool { _, r := i.(*ssa.Return); return r }, cut)
			c.Check(len(rb) > 0 && hit == nil, rule, n+":SetDirty⇒rollbackNode@"+vstrShort(p), c.P.InstrPos(call), "a pointer marked dirty is withdrawn from the eviction list", "a pointer is marked dirty but not withdrawn from the eviction list: it can later be evicted while dirty (lost update / panic on eviction)")
		}
	}
}

// nilMarkerRule: a write-log / pending entry is a removal iff its value is nil; classifying by length turns an insert
// of the empty value into a removal (shared by C02 and C13: replaying a served write log must reproduce the root).
func nilMarkerRule(c *Ctx, rule string) {
		isEntryValue := func(v ssa.Value) bool {
			if u, ok := v.(*ssa.UnOp); ok {
				v = u.X
			}
			switch x := v.(type) {
			case *ssa.FieldAddr:
				k := fieldKey(x.X.Type(), x.Field)
				return k == "storage/mkvs/writelog.LogEntry.Value" || k == "storage/mkvs.pendingEntry.value"
			case *ssa.Field:
				k := fieldKey(x.X.Type(), x.Field)
				return k == "storage/mkvs/writelog.LogEntry.Value" || k == "storage/mkvs.pendingEntry.value"
			}
			return false
		}
		bad, n := 0, 0
		for _, fn := range c.P.ModFuncs {
			if fn.Blocks == nil || !strings.HasPrefix(short(fpkgPath(fn)), "storage/") {
				continue
			}
			for _, b := range blocksIP(fn) {
				for _, in := range b.Instrs {
					bo, ok := in.(*ssa.BinOp)
					if !ok {
						continue
					}
					if _, cmp := negOp[bo.Op]; !cmp {
						continue
					}
					for _, pair := range [][2]ssa.Value{{bo.X, bo.Y}, {bo.Y, bo.X}} {
						if isEntryValue(pair[0]) && isNilConst(pair[1]) {
							n++
						}
						if call, ok := pair[0].(*ssa.Call); ok && calleeNameCommon(&call.Call) == "builtin.len" && isEntryValue(call.Call.Args[0]) {
							if k, isK := constInt(pair[1]); isK && k <= 1 {
								bad++
								c.Fail(rule, fname(fn)+":removal-marker-is-nil", c.P.InstrPos(in), "a write-log/pending entry is classified by the length of its value instead of value==nil: an insert of an empty value would be treated as a removal (replaying the log yields a different root)")
							}
						}
					}
				}
			}
		}
		if bad == 0 {
			c.OK(rule, "writelog:removal-marker-is-nil", "", itoa(n)+" classifications of log/pending entries, all by nil-ness")
		}
		c.Floor(rule, n, 3, "nil-classifications of write-log/pending entries")
}

// treeMutateRules: an accepted Insert / RemoveExisting performs the structural update of the tree (shared by C02 — the
// root is a function of the contents — and C03 — a read returns the last written value).
func treeMutateRules(c *Ctx, rule string) {
	if fn := c.needFn(rule, "storage/mkvs.(*tree).Insert"); fn != nil {
		c.successOnlyVia(rule, fn, CallsTo(fn, "doInsert", "storage/mkvs.(*tree).doInsert", ""), "every accepted insert performs the structural update (no value-dependent shortcut)")
		c.OnAllSuccessExits(rule, fn, CallsTo(fn, "doInsert", "storage/mkvs.(*tree).doInsert", ""), CallsTo(fn, "setPendingRoot", "storage/mkvs.(*cache).setPendingRoot", ""), "the new root replaces the pending root")
	}
	if fn := c.needFn(rule, "storage/mkvs.(*tree).RemoveExisting"); fn != nil {
		dr := CallsTo(fn, "doRemove", "storage/mkvs.(*tree).doRemove", "")
		// fast path: only when the pending entry says the key was already removed (value == nil)
		es := HeldEdges(fn, `\.value == nil$`)
		cut, _ := successCut(dr)
		cut.AddEdges(es...)
		// a key longer than the maximum key length cannot have been inserted (Insert rejects it, C16.keylen)
		if maxLen, ok := c.ConstInt("storage/mkvs/node", "MaxKeyLength"); ok {
			cut.AddEdges(HeldEdges(fn, `^builtin\.len\(`+keyOrNormalised+`\) > `+itoa(int(maxLen))+`$`)...)
		}
		for _, r := range Returns(fn) {
			cut.AddEdges(phiNonNilEdges(r)...)
		}
		hit := Reach(fn, nil, nil, anyOf(SuccessReturns(fn)), cut)
		c.Check(!dr.Empty() && hit == nil, rule, fname(fn)+":success⇒doRemove✓∨already-removed", c.P.Pos(fn.Pos()), "a removal either performs the structural update, or the key is already removed in this batch (pending value == nil), or the key is longer than any key that can have been inserted", "RemoveExisting can succeed without the structural update on a path other than 'pending entry has a nil value' / 'key longer than MaxKeyLength'")
	}
}

package main

import (
	"go/token"
	"go/types"
	"sort"
	"strings"

	"golang.org/x/tools/go/ssa"
)

func init() { register("C03", rulesC03) }

// nilNormalised: parameter p of fn is replaced by a non-nil value when nil
// (an `if p == nil { p = ... }` at the top), i.e. the parameter itself is
// only used under/after a nil test whose nil side assigns a fresh value.
func nilNormalised(fn *ssa.Function, p *ssa.Parameter) bool {
	refs := p.Referrers()
	if refs == nil {
		return false
	}
	for _, r := range *refs {
		b, ok := r.(*ssa.BinOp)
		if !ok || (b.Op != token.EQL && b.Op != token.NEQ) {
			continue
		}
		if !(isNilConst(b.X) || isNilConst(b.Y)) {
			continue
		}
		// the comparison feeds an If, and p flows into a phi together with a non-nil value
		for _, r2 := range *refs {
			if phi, ok := r2.(*ssa.Phi); ok {
				for _, e := range phi.Edges {
					if e != ssa.Value(p) && !isNilConst(e) {
						return true
					}
				}
			}
		}
	}
	return false
}

// forwardsTo: parameter p is only passed on, unmodified, to calls of method
// `method` (interface or concrete) at the same argument position.
func forwardsOnly(fn *ssa.Function, p *ssa.Parameter, idx int, method string) bool {
	refs := p.Referrers()
	if refs == nil || len(*refs) == 0 {
		return false
	}
	for _, r := range *refs {
		switch x := r.(type) {
		case *ssa.DebugRef:
		case ssa.CallInstruction:
			n := calleeName(x)
			if !strings.HasSuffix(n, ")."+method) {
				return false
			}
			args := allArgs(x)
			if idx >= len(args) || args[idx] != ssa.Value(p) {
				return false
			}
		default:
			return false
		}
	}
	return true
}

func rulesC03(c *Ctx) {
	c.Explain = append(c.Explain,
		"C03 (tree and overlays behave as an ordered map) — decided: (a) all implementations of the key-value tree interface in storage/mkvs agree on argument normalisation: a nil value passed to Insert is normalised to the empty value by every implementation (or forwarded untouched to one that does), so that 'inserted with empty value' can never read back as 'absent' in one layer and 'present' in another (found and repaired a genuine defect in the overlay); (b) transaction-context discipline in all consumers: every context obtained from NewTransaction() is closed on every exit (deferred Close registered before anything can fail), Commit() is only ever invoked on a context that originates from NewTransaction() in the same function, at most once per path, and no state write through that context follows its Commit; (c) failure atomicity of the in-memory tree mutators (doInsert, doRemove, Insert, RemoveExisting): no result of a fallible call is stored into a cached node before its error is tested, no error is produced after a modification, and the only fallible calls after the first modification are re-dereferences of children that were dereferenced successfully before it (two genuine defects found and repaired); (d) in the tree iterator, when the seek key is at least as long as an internal node's path but sorts below it (so the whole subtree lies above the seek position), the node's own leaf, its left and its right child are all visited before the node is left without a result.",
		"NOT decided: get/iterate/seek answers after arbitrary operation histories, eviction, lazy loading, the remaining (key-bit and key-length) conditions of the iterator state machine — value- and history-dependent.")
	w := newWTF(c.P)
	w.run()

	// ---- (a) sibling normalisation of Insert's value argument
	impls := map[*ssa.Function]bool{}
	for _, key := range []string{"storage/mkvs.(KeyValueTree).Insert", "storage/mkvs.(Tree).Insert", "storage/mkvs.(OverlayTree).Insert"} {
		for _, f := range w.impls[key] {
			if f.Blocks != nil && f.Synthetic == "" {
				impls[f] = true
			}
		}
	}
	var names []string
	normal := map[string]string{}
	for f := range impls {
		n := fname(f)
		names = append(names, n)
		c.Analysed[n] = true
		// value parameter: last []byte parameter
		var vp *ssa.Parameter
		vi := -1
		for i, p := range f.Params {
			if sl, ok := p.Type().Underlying().(*types.Slice); ok {
				if bt, ok := sl.Elem().Underlying().(*types.Basic); ok && bt.Kind() == types.Byte {
					vp, vi = p, i
				}
			}
		}
		switch {
		case vp == nil:
			normal[n] = "no-value-param"
		case nilNormalised(f, vp):
			normal[n] = "normalises"
		case forwardsOnly(f, vp, vi, "Insert"):
			normal[n] = "forwards"
		default:
			normal[n] = "stores-as-is"
		}
	}
	sort.Strings(names)
	c.Floor("C03.sibling", len(names), 2, "implementations of KeyValueTree.Insert")
	anyNorm := false
	for _, n := range names {
		if normal[n] == "normalises" {
			anyNorm = true
		}
	}
	for _, n := range names {
		ok := !anyNorm || normal[n] == "normalises" || normal[n] == "forwards"
		fn := c.P.Fn(n)
		pos := ""
		if fn != nil {
			pos = c.P.Pos(fn.Pos())
		}
		c.Check(ok, "C03.sibling", n+":Insert(value=nil)", pos, "nil value handling: "+normal[n], "this implementation of Insert stores a nil value as is while a sibling normalises nil to the empty value: after Insert(k,nil) the key reads as absent through this layer but as present-with-empty-value once committed to the inner tree (a commit changes an answer)")
	}

	overlayDirtyRules(c, "C03.overlay")

	// eviction safety: a pointer marked dirty is withdrawn from the eviction list (shared with C02)
	dirtyRollbackRule(c, "C03.evict")
	// a failed Insert/Remove leaves the cached tree as it was (F18, F19)
	rulesC03Atomic(c)
	// iterator: a subtree that lies entirely above the seek key is not skipped into
	rulesC03Iter(c)
	rulesC03Round3(c)
	c03NilKey(c)
	// (The earlier obligation "useNode(ptr) precedes every fetch in derefNodePtr" was withdrawn after the F24 repair: the
	// nodes an operation holds are now protected by the in-use record, their LRU position is a matter of efficiency only,
	// and a change that drops the refresh no longer breaks the property — seed C03/5 is NEUTRALISED.)
	c03EvictRepaired(c)
	c03Round4(c)
	pendingFallbackRule(c, "C03.sibling")
	writeLogModeRule(c, "C03.mutate")
	remoteNodePresentRule(c, "C03.evict")
	childNodeReadRule(c, "C03.evict")

	// ---- (b) transaction-context discipline
	nTx := 0
	for _, fn := range c.P.ModFuncs {
		if fn.Blocks == nil || (fn.Origin() != nil && fn.Origin() != fn) {
			continue
		}
		for _, call := range callsIn(fn) {
			if calleeName(call) != fnNewTx {
				continue
			}
			if short(fpkgPath(fn)) == "consensus/cometbft/api" {
				continue
			}
			nTx++
			c.Analysed[fname(fn)] = true
			cv := call.Value()
			key := fname(fn) + ":NewTransaction"
			// closed on all exits: a Defer of Close whose receiver originates at this call, that every
			// path from the call to a return passes; or explicit Close calls on all paths.
			var closers []ssa.Instruction
			for _, c2 := range callsIn(fn) {
				if calleeName(c2) != "consensus/cometbft/api.(*Context).Close" {
					continue
				}
				for _, o := range w.argOrigins(c2, allArgs(c2)[0]) {
					if o.kind == oTx && o.tx == cv {
						closers = append(closers, c2)
					}
				}
			}
			cut := NewCut()
			for _, x := range closers {
				cut.AddInstr(x)
			}
			hit := Reach(fn, call, nil, func(i ssa.Instruction) bool { _, r := i.(*ssa.Return); return r }, cut)
			c.Check(len(closers) > 0 && hit == nil, "C03.txctx", key+"⇒Close", c.P.InstrPos(call), "the transaction context is closed on every exit", "a transaction context obtained here can leave the function without Close() (its overlay and pending events would leak into later processing)")
		}
	}
	c.Floor("C03.txctx", nTx, 10, "NewTransaction call sites")
	nCommit := 0
	for _, fn := range c.P.ModFuncs {
		if fn.Blocks == nil || (fn.Origin() != nil && fn.Origin() != fn) || short(fpkgPath(fn)) == "consensus/cometbft/api" {
			continue
		}
		commits := CallsTo(fn, "ctx.Commit", fnCtxCmt, "")
		for _, call := range commits.Calls() {
			nCommit++
			key := fname(fn) + ":Commit"
			os := w.argOrigins(call, allArgs(call)[0])
			allTx := len(os) > 0
			for _, o := range os {
				if o.kind != oTx {
					allTx = false
				}
			}
			if !allTx {
				if reason, ok := c.Tabled("c03_commit", fname(fn)); ok {
					c.TabledOK("C03.txctx", key, c.P.InstrPos(call), reason)
				} else {
					c.Fail("C03.txctx", key, c.P.InstrPos(call), "Commit() is called on a context that does not (only) originate from NewTransaction() in this function: on a non-transaction context Commit silently does nothing, on a caller's transaction it commits behind the caller's back")
				}
				continue
			}
			// at most once per path, and no write through this tx afterwards
			again := Reach(fn, call, nil, anyOf(commits.Ins), nil)
			var later ssa.Instruction
			for _, c2 := range callsIn(fn) {
				if c2 == call || Reach(fn, call, nil, isInstr(c2), nil) == nil {
					continue
				}
				for _, o := range w.writeOrigins(c2) {
					for _, mine := range os {
						if o.kind == oTx && o.tx == mine.tx && calleeName(c2) != fnCtxCmt {
							later = c2
						}
					}
				}
			}
			c.Check(again == nil && later == nil, "C03.txctx", key, c.P.InstrPos(call), "committed once, nothing written through the transaction afterwards", "a transaction context is committed twice on a path, or written through after its Commit (the write would be discarded by Close)")
		}
	}
	c.Floor("C03.txctx", nCommit, 10, "Commit call sites")
}

// overlayDirtyRules: the overlay's bookkeeping of which keys it shadows (shared by C02 and C03: applying the same
// operations directly or batched in an overlay must end with the same contents, hence the same root).
func overlayDirtyRules(c *Ctx, rule string) {
	// RemoveExisting of a key the overlay does not shadow yet: whenever the inner tree has the key — its value is not
	// nil, an *empty* value included — the key is recorded as dirty (round 5, seed C03/13: a length test let a present
	// key with an empty value keep shining through and never be removed at Commit).
	if fn := c.needFn(rule, "storage/mkvs.(*treeOverlay).RemoveExisting"); fn != nil {
		var marks []ssa.Instruction
		for _, b := range blocksIP(fn) {
			for _, in := range b.Instrs {
				if mu, ok := in.(*ssa.MapUpdate); ok && strings.HasSuffix(vstr(mu.Map), "param:o.dirty") {
					marks = append(marks, in)
				}
			}
		}
		present := HeldEdges(fn, `^\*param:o\.inner\.Get\(.*\)#0 != nil$`)
		var hit ssa.Instruction
		if len(present) > 0 {
			hit = Reach(fn, nil, present, func(i ssa.Instruction) bool { _, r := i.(*ssa.Return); return r }, NewCut().AddInstr(marks...))
		}
		c.Check(len(marks) > 0 && len(present) > 0 && hit == nil, rule, fname(fn)+":a key present in the inner tree is recorded as dirty", c.P.Pos(fn.Pos()), "every exit after the inner value was found non-nil has recorded the key as dirty", "RemoveExisting can return after finding the key in the inner tree (value not nil; it may be empty) without recording it as dirty, or no longer tests the inner value for nil: the key keeps shining through and is never removed")
	}
	// overlay bookkeeping: Insert and Remove always record the key as dirty; only Commit forgets dirtiness
	for _, m := range []string{"Insert", "Remove"} {
		fn := c.needFn(rule, "storage/mkvs.(*treeOverlay)."+m)
		if fn == nil {
			continue
		}
		var marks []ssa.Instruction
		for _, b := range blocksIP(fn) {
			for _, in := range b.Instrs {
				if mu, ok := in.(*ssa.MapUpdate); ok && strings.HasSuffix(vstr(mu.Map), "param:o.dirty") && vstr(mu.Value) != "false" { // a set: bool true or struct{}{}
					marks = append(marks, in)
				}
			}
		}
		cut := NewCut()
		for _, x := range marks {
			cut.AddInstr(x)
		}
		hit := Reach(fn, nil, nil, func(i ssa.Instruction) bool { _, r := i.(*ssa.Return); return r }, cut)
		c.Check(len(marks) > 0 && hit == nil, rule, fname(fn)+":always-marks-dirty", c.P.Pos(fn.Pos()), "every exit has recorded the key as dirty", "an exit of the overlay's "+m+" does not record the key as dirty: the inner tree's value would shine through (Get/iterate/Commit see the old value)")
	}
	{
		bad := 0
		for _, fn := range c.P.FuncsInPkg("storage/mkvs") {
			for _, call := range callsIn(fn) {
				if calleeName(call) == "builtin.delete" && strings.HasSuffix(vstr(allArgs(call)[0]), ".dirty") && fname(fn) != "storage/mkvs.(*treeOverlay).Commit" {
					bad++
					c.Fail(rule, "dirty-forgotten<-"+fname(fn), c.P.InstrPos(call), "the overlay's dirty mark of a key is dropped outside Commit")
				}
			}
		}
		if bad == 0 {
			c.OK(rule, "dirty-marks-only-cleared-by-Commit", "", "no delete(o.dirty, …) outside (*treeOverlay).Commit")
		}
	}

	// after a commit the overlay is a transparent view again: its dirty set and pending writes are reset
	if fn := c.needFn(rule, "storage/mkvs.(*treeOverlay).Commit"); fn != nil {
		var resets []ssa.Instruction
		for _, b := range blocksIP(fn) {
			for _, in := range b.Instrs {
				switch x := in.(type) {
				case *ssa.Store:
					if vstr(x.Addr) == "param:o.dirty" && strings.HasPrefix(vstr(x.Val), "make(map[string]") {
						resets = append(resets, in)
					}
				case ssa.CallInstruction:
					if calleeName(x) == "builtin.clear" && strings.HasSuffix(vstr(x.Common().Args[0]), "param:o.dirty") {
						resets = append(resets, in)
					}
				}
			}
		}
		clr := CallsTo(fn, "o.overlay.Clear", "github.com/tidwall/btree.(*Map).Clear", "")
		for _, ev := range []Ev{{Name: "dirty set reset", Fn: fn, Ins: resets}, clr} {
			ok := !ev.Empty() && Reach(fn, nil, nil, anyOf(SuccessReturns(fn)), NewCut().AddInstr(ev.Ins...)) == nil
			c.Check(ok, rule, fname(fn)+":success⇒"+ev.Name, c.P.Pos(fn.Pos()), "every success exit of the overlay commit has passed "+ev.Name, "the overlay's Commit can succeed without "+ev.Name+": keys it removed stay masked (and are removed again from the inner tree at the next commit) although the overlay has been applied")
		}
	}
	// the merged iterator exposes a key of the inner iterator only after the dirty-skip: either the key is not dirty
	// or the inner iterator is exhausted
	if fn := c.needFn(rule, "storage/mkvs.(*treeOverlayIterator).updateIteratorPosition"); fn != nil {
		var adopt []ssa.Instruction
		for _, b := range blocksIP(fn) {
			for _, in := range b.Instrs {
				if st, ok := in.(*ssa.Store); ok && (vstr(st.Addr) == "param:it.key" || vstr(st.Addr) == "param:it.value") && strings.Contains(vstr(st.Val), "param:it.inner.") {
					adopt = append(adopt, in)
				}
			}
		}
		c.GuardedByAny(rule, fn, "!dirty[inner.Key()] (or inner exhausted)", []string{`^!\*\*param:it\.tree\.dirty\[string\(\*param:it\.inner\.Key\(\)\)\](#1)?$`, `^!\*param:it\.inner\.Valid\(\)$`}, Ev{Name: "it.key/value = inner key/value", Fn: fn, Ins: adopt}, "an inner key that the overlay overwrote or removed must never be yielded with the inner tree's value")
	}

}

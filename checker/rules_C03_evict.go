package main

import (
	"strings"

	"golang.org/x/tools/go/ssa"
)

// c03EvictRepaired: the eviction rules as they stand after the repair of F15 and F24 (both were known findings pinned by
// two earlier obligations of the same names; the obligations now describe the repaired mechanism and fail on a tree that
// reverts it).
func c03EvictRepaired(c *Ctx) {
	const rule = "C03.evict"
	const pk = "storage/mkvs"
	deref := c.needFn(rule, pk+".(*cache).derefNodePtr")
	if deref == nil {
		return
	}
	c.Analysed[fname(deref)] = true

	// (1) F15: a node that derefNodePtr itself drops from the cache is a clean one (it can be fetched again), and after
	// the drop no exit answers "empty subtree" for it: a dirty node whose leaf is gone is an error, never (nil, nil).
	{
		drops := CallsTo(deref, "c.removeNode(ptr)", pk+".(*cache).removeNode", "")
		var empties []ssa.Instruction
		for _, r := range Returns(deref) {
			if len(r.Results) == 2 && isNilConst(r.Results[0]) && isNilConst(r.Results[1]) {
				empties = append(empties, r)
			}
		}
		inst := fname(deref) + ":a dropped node is re-fetched or an error, never 'empty'"
		cleanEdges := HeldEdges(deref, `^\*param:ptr\.Clean$`)
		ok := len(empties) > 0 && !drops.Empty()
		site := c.P.Pos(deref.Pos())
		// every drop happens under ptr.Clean
		if ok && Reach(deref, nil, nil, anyOf(drops.Ins), NewCut().AddEdges(cleanEdges...)) != nil {
			ok = false
			site = c.P.InstrPos(drops.Ins[0])
		}
		// after the drop, the only 'empty' answers are the ones for a pointer that is not clean (excluded by the guard
		// above) or has the empty hash (the empty subtree)
		if ok {
			cut := NewCut().AddEdges(HeldEdges(deref, `^!\*param:ptr\.Clean$`)...)
			cut.AddEdges(HeldEdges(deref, `^common/crypto/hash\.\(\*Hash\)\.IsEmpty\(param:ptr\.Hash\)$`)...)
			for _, d := range drops.Ins {
				if hit := Reach(deref, d, nil, anyOf(empties), cut); hit != nil {
					ok = false
					site = c.P.InstrPos(hit)
				}
			}
		}
		c.Check(ok, rule, inst, site, "derefNodePtr drops a cached node only when its pointer is clean, and then re-fetches it or reports an error", "derefNodePtr drops a cached node whose pointer may be dirty (an internal node whose embedded leaf was evicted) and can then answer (nil, nil): a locally modified subtree reads as empty and is lost at the next commit (F15)")
	}

	// (2) F15: the leaf stored with an internal node leaves the eviction queue when the node becomes dirty: rollbackNode
	// pins the LeafNode of an internal node on every path (before the early return for nodes that are not queued), and a
	// new (dirty) internal node pins the leaf it is created with.
	if fn := c.needFn(rule, pk+".(*cache).rollbackNode"); fn != nil {
		c.Analysed[fname(fn)] = true
		var rec []ssa.Instruction
		for _, call := range findCalls(fn, pk+".(*cache).rollbackNode") {
			if args := allArgs(call); len(args) == 2 && strings.HasSuffix(vstr(args[1]), ".LeafNode") {
				rec = append(rec, call)
			}
		}
		inst := fname(fn) + ":the leaf of an internal node is taken out of the eviction queue with it"
		if len(rec) == 0 {
			c.Fail(rule, inst, c.P.Pos(fn.Pos()), "rollbackNode does not roll back the LeafNode of an internal node: a clean leaf stored with a dirty internal node stays evictable, and once it is evicted the dirty node cannot be completed again (F15)")
		} else {
			cut := NewCut().AddInstr(rec...)
			cut.AddEdges(HeldEdges(fn, `^!\*param:ptr\.Node\.\(\*storage/mkvs/node\.InternalNode\)#1$`)...)
			cut.AddEdges(HeldEdges(fn, `\.LeafNode == nil$`)...)
			var rets []ssa.Instruction
			for _, r := range Returns(fn) {
				rets = append(rets, r)
			}
			hit := Reach(fn, nil, nil, anyOf(rets), cut)
			pos := c.P.InstrPos(rec[0])
			if hit != nil {
				pos = c.P.InstrPos(hit)
			}
			c.Check(hit == nil, rule, inst, pos, "every exit of rollbackNode for an internal node with a leaf has rolled the leaf back too", "rollbackNode can return for an internal node with a leaf without rolling the leaf back (e.g. after the early return for nodes not in the queue): the clean leaf of a dirty node stays evictable (F15)")
		}
	}
	if fn := c.needFn(rule, pk+".(*cache).newInternalNode"); fn != nil {
		c.Analysed[fname(fn)] = true
		var pin []ssa.Instruction
		for _, call := range findCalls(fn, pk+".(*cache).rollbackNode") {
			if args := allArgs(call); len(args) == 2 && vstr(args[1]) == "param:leafNode" {
				pin = append(pin, call)
			}
		}
		inst := fname(fn) + ":the leaf a new internal node is created with is taken out of the eviction queue"
		if len(pin) == 0 {
			c.Fail(rule, inst, c.P.Pos(fn.Pos()), "newInternalNode does not roll back its leafNode argument: an existing clean leaf that becomes the leaf of a new (dirty) internal node stays evictable (F15)")
		} else {
			cut := NewCut().AddInstr(pin...)
			cut.AddEdges(HeldEdges(fn, `^param:leafNode == nil$`)...)
			var rets []ssa.Instruction
			for _, r := range Returns(fn) {
				rets = append(rets, r)
			}
			hit := Reach(fn, nil, nil, anyOf(rets), cut)
			c.Check(hit == nil, rule, inst, c.P.InstrPos(pin[0]), "every exit with a non-nil leaf has rolled it back", "newInternalNode can return a node whose non-nil leaf was not rolled back (F15)")
		}
	}

	// (3) F24: the nodes an operation has dereferenced are not evicted under it. (a) derefNodePtr records the pointer as
	// in use before anything is fetched, cached or handed out; (b) both eviction loops remove a candidate only after
	// holdsInUse(candidate) was false; (c) the record is cleared only by beginOperation, which is called only where an
	// operation starts.
	{
		mark := Ev{Name: "c.markInUse(ptr)", Fn: deref}
		for _, call := range findCalls(deref, pk+".(*cache).markInUse") {
			if args := allArgs(call); len(args) == 2 && vstr(args[1]) == "param:ptr" {
				mark.Ins = append(mark.Ins, call)
			}
		}
		fetch := union("fetch", CallsTo(deref, "", "storage/mkvs/db/api.(NodeDB).GetNode", ""), CallsTo(deref, "", pk+".(*cache).remoteSync", ""), CallsTo(deref, "", pk+".(*cache).commitNode", ""), CallsTo(deref, "", pk+".(*cache).tryCommitNode", ""))
		var rets []ssa.Instruction
		for _, r := range Returns(deref) {
			if len(r.Results) == 2 && strings.Contains(vstr(r.Results[0]), "param:ptr.Node") {
				rets = append(rets, r)
			}
		}
		ok := !mark.Empty() && !fetch.Empty() && len(rets) > 0
		site := c.P.Pos(deref.Pos())
		if ok {
			cut := NewCut().AddInstr(mark.Ins...)
			if hit := Reach(deref, nil, nil, anyOf(append(append([]ssa.Instruction{}, fetch.Ins...), rets...)), cut); hit != nil {
				ok = false
				site = c.P.InstrPos(hit)
			}
		}
		c.Check(ok, rule, fname(deref)+":a fetched node is cached without evicting the path that leads to it", site, "the pointer is recorded as in use before anything is fetched, cached or handed out ("+itoa(len(fetch.Ins))+" fetch/cache sites, "+itoa(len(rets))+" hand-outs)", "derefNodePtr fetches, caches or hands out a node without first recording the pointer as held by the operation in progress: making room for a fetched node can evict the ancestors the operation still holds (node capacity smaller than a root-to-leaf path); the pending root ends up a dirty pointer without a node and the whole tree is lost (F24)")
	}
	for _, name := range []string{pk + ".(*cache).tryEvictInternal", pk + ".(*cache).tryEvictLeaf"} {
		fn := c.needFn(rule, name)
		if fn == nil {
			continue
		}
		rm := CallsTo(fn, "tryRemoveNode(candidate)", pk+".(*cache).tryRemoveNode", "")
		c.GuardedByAny(rule, fn, "!holdsInUse(candidate)", []string{`^!storage/mkvs\.\(\*cache\)\.holdsInUse\(param:c,`}, rm, "an eviction candidate whose cached subtree contains a node held by the operation in progress is skipped")
	}
	if fn := c.needFn(rule, pk+".(*cache).holdsInUse"); fn != nil {
		c.Analysed[fname(fn)] = true
		// the check descends: it calls itself on the children
		rec := findCalls(fn, pk+".(*cache).holdsInUse")
		c.Check(len(rec) > 0, rule, fname(fn)+":descends into the cached subtree", c.P.Pos(fn.Pos()), "holdsInUse looks at the children of an internal node", "holdsInUse no longer descends into the candidate's cached subtree: an ancestor of a held node is evicted and the held node is removed with it (F24)")
	}
	ix := c.P.BuildIndex()
	c.WhoMayCall(ix, rule, pk+".(*cache).beginOperation", []string{pk + ".(*cache).markPosition", pk + ".(*tree).commitWithHooks"}, "the record of held pointers is cleared only where a tree operation starts")
	c.WhoMayCall(ix, rule, pk+".(*cache).markPosition", []string{pk + ".(*tree).Insert", pk + ".(*tree).RemoveExisting", pk + ".(*tree).Get", pk + ".(*tree).SyncGet", pk + ".(*treeIterator).Next"}, "a new operation (which releases the nodes held by the previous one) starts only at the public entry points")
	// nothing else clears or replaces the record
	nClear := 0
	for _, fn := range c.P.FuncsInPkg(pk) {
		for _, call := range callsIn(fn) {
			if n := calleeName(call); n != "builtin.clear" && n != "builtin.delete" {
				continue
			}
			if args := allArgs(call); len(args) > 0 && strings.HasSuffix(vstr(args[0]), ".inUse") {
				nClear++
				c.Check(fname(fn) == pk+".(*cache).beginOperation", rule, fname(fn)+":clears the record of held pointers", c.P.InstrPos(call), "cleared by beginOperation", "the record of pointers held by the operation in progress is cleared outside beginOperation")
			}
		}
	}
	c.Floor(rule, nClear, 1, "places that clear cache.inUse")
	c.WhoMayStore(ix, rule, pk+".cache.inUse", []string{pk + ".newCache", pk + ".(*cache).close", pk + ".(*cache).markInUse"}, "the record of held pointers is created with the cache, dropped when it is closed and only grows through markInUse")
}

// childNodeReadRule (F34): outside the cache itself, the node behind a child pointer of an internal node (LeafNode, Left,
// Right) is obtained through derefNodePtr, never by reading the pointer's Node field: a child that exists but is not
// resident (evicted, or sent by a remote peer as a hash only) reads as nil there and is taken for a missing child —
// doRemove collapsed the node and the leaf's key disappeared. Shared by C03 (answers after eviction) and C04 (a reader
// behind an untrusted peer answers like a full replica or fails).
func childNodeReadRule(c *Ctx, rule string) {
	const pk = "storage/mkvs"
	n, bad := 0, 0
	for _, fn := range c.P.FuncsInPkg(pk) {
		name := fname(fn)
		if fn.Blocks == nil || strings.Contains(name, ".(*cache).") || strings.HasPrefix(name, pk+".holdsLocked") || strings.Contains(name, ".(*cache).remoteSync$") {
			continue
		}
		for _, b := range blocksIP(fn) {
			for _, in := range b.Instrs {
				u, ok := in.(*ssa.UnOp)
				if !ok {
					continue
				}
				fa, ok := u.X.(*ssa.FieldAddr)
				if !ok || fieldKey(fa.X.Type(), fa.Field) != "storage/mkvs/node.Pointer.Node" {
					continue
				}
				n++
				src := vstr(fa.X)
				if strings.HasSuffix(src, ".LeafNode") || strings.HasSuffix(src, ".Left") || strings.HasSuffix(src, ".Right") {
					bad++
					c.Fail(rule, name+":child node read without dereferencing", c.P.InstrPos(in), "the Node field of a child pointer ("+src+") is read directly: a child that is not resident (evicted, or received as a hash only) is taken for a missing one; it must be obtained through derefNodePtr (F34)")
				}
			}
		}
	}
	if bad == 0 {
		c.OK(rule, pk+":child nodes are obtained through derefNodePtr", "", itoa(n)+" reads of Pointer.Node outside the cache, none through a LeafNode/Left/Right field")
	}
	c.Floor(rule, n, 3, "reads of Pointer.Node in the tree operations")
}

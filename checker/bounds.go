package main

import (
	"bytes"
	"fmt"
	"go/ast"
	"go/constant"
	"go/token"
	"go/types"
	"os"
	"os/exec"
	"regexp"
	"sort"
	"strconv"
	"strings"

	"golang.org/x/tools/go/ssa"
)

// ---------------------------------------------------------------------------
// Linear expressions over SSA values:  const + Σ coef·sym
// A sym is an SSA integer value or the length of an SSA slice/string value.

type lsym struct {
	v     ssa.Value
	isLen bool
}

// canonSym: loads of the same parameter-rooted field path are one symbol (two
// reads of `proof.Entries` denote the same slice as long as the function does
// not store to that field; callees are assumed not to resize it under the
// decoder's feet). Everything else is identified by SSA value.
func (e *boundsEnv) canonSym(v ssa.Value, isLen bool) lsym {
	if u, ok := v.(*ssa.UnOp); ok && u.Op == token.MUL {
		if fa, ok := u.X.(*ssa.FieldAddr); ok {
			s := vstr(v)
			if strings.HasPrefix(s, "*param:") && !strings.Contains(s, "phi(") && !strings.Contains(s, "…") && !e.storesField(fa) {
				if e.canon == nil {
					e.canon = map[string]ssa.Value{}
				}
				if first, ok := e.canon[s]; ok {
					return lsym{first, isLen}
				}
				e.canon[s] = v
			}
		}
	}
	return lsym{v, isLen}
}

// storesField: fn contains a store to the same field of the same struct type.
func (e *boundsEnv) storesField(fa *ssa.FieldAddr) bool {
	key := fieldKey(fa.X.Type(), fa.Field)
	for _, b := range e.fn.Blocks {
		for _, in := range b.Instrs {
			if st, ok := in.(*ssa.Store); ok {
				if a, ok := st.Addr.(*ssa.FieldAddr); ok && fieldKey(a.X.Type(), a.Field) == key {
					return true
				}
			}
		}
	}
	return false
}

type lin struct {
	k int64
	t map[lsym]int64
}

func linConst(k int64) lin { return lin{k: k, t: map[lsym]int64{}} }
func linSym(s lsym) lin    { return lin{t: map[lsym]int64{s: 1}} }

func (a lin) add(b lin, sign int64) lin {
	r := lin{k: a.k + sign*b.k, t: map[lsym]int64{}}
	for s, c := range a.t {
		r.t[s] = c
	}
	for s, c := range b.t {
		r.t[s] += sign * c
		if r.t[s] == 0 {
			delete(r.t, s)
		}
	}
	return r
}

func (a lin) scale(m int64) lin {
	r := lin{k: a.k * m, t: map[lsym]int64{}}
	if m == 0 {
		return r
	}
	for s, c := range a.t {
		r.t[s] = c * m
	}
	return r
}

func (a lin) String() string {
	var parts []string
	for s, c := range a.t {
		n := vstrShort(s.v)
		if s.isLen {
			n = "len(" + n + ")"
		}
		parts = append(parts, fmt.Sprintf("%+d·%s", c, n))
	}
	sort.Strings(parts)
	return fmt.Sprintf("%d %s", a.k, strings.Join(parts, " "))
}

// bpath is one acyclic CFG path (entry … site block) as the set of edges taken.
type bpath struct {
	pred map[*ssa.BasicBlock]*ssa.BasicBlock // block -> predecessor on the path
	on   map[*ssa.BasicBlock]bool
}

type boundsEnv struct {
	assume []lin // facts under which eval may look through signed→unsigned conversions (nil: not allowed)
	c      *Ctx
	fn     *ssa.Function
	cyc    map[*ssa.BasicBlock]bool
	nonneg map[*ssa.Function]map[int]int // memo: 0 unknown, 1 yes, 2 no
	canon  map[string]ssa.Value
}

func isUnsignedT(t types.Type) bool {
	b, ok := t.Underlying().(*types.Basic)
	return ok && b.Info()&types.IsUnsigned != 0
}

func isIntT(t types.Type) bool {
	b, ok := t.Underlying().(*types.Basic)
	return ok && b.Info()&types.IsInteger != 0
}

// lenOf: length of a slice/string/array-pointer value as a linear expression.
func (e *boundsEnv) lenOf(v ssa.Value, p *bpath, d int) lin {
	if d > 12 {
		return linSym(e.canonSym(v, true))
	}
	switch x := v.(type) {
	case *ssa.Slice:
		var hi lin
		if x.High != nil {
			hi = e.eval(x.High, p, d+1)
		} else {
			hi = e.lenOf(x.X, p, d+1)
		}
		if x.Low != nil {
			return hi.add(e.eval(x.Low, p, d+1), -1)
		}
		return hi
	case *ssa.ChangeType:
		return e.lenOf(x.X, p, d+1)
	case *ssa.Convert:
		if _, isSl := x.X.Type().Underlying().(*types.Slice); isSl {
			return e.lenOf(x.X, p, d+1)
		}
	case *ssa.MakeSlice:
		return e.eval(x.Len, p, d+1)
	case *ssa.Phi:
		if p != nil && !e.cyc[x.Block()] {
			if pb := p.pred[x.Block()]; pb != nil {
				for i, q := range x.Block().Preds {
					if q == pb {
						return e.lenOf(x.Edges[i], p, d+1)
					}
				}
			}
		}
	case *ssa.Const:
		if x.Value != nil && x.Value.Kind() == constant.String {
			return linConst(int64(len(constant.StringVal(x.Value))))
		}
		if x.Value == nil {
			return linConst(0)
		}
	}
	// arrays and pointers to arrays have constant length
	t := v.Type().Underlying()
	if pt, ok := t.(*types.Pointer); ok {
		t = pt.Elem().Underlying()
	}
	if at, ok := t.(*types.Array); ok {
		return linConst(at.Len())
	}
	return linSym(e.canonSym(v, true))
}

// eval: integer SSA value as a linear expression under path p.
func (e *boundsEnv) eval(v ssa.Value, p *bpath, d int) lin {
	if d > 12 {
		return linSym(e.canonSym(v, false))
	}
	switch x := v.(type) {
	case *ssa.Const:
		if x.Value != nil && x.Value.Kind() == constant.Int {
			if k, ok := constant.Int64Val(x.Value); ok {
				return linConst(k)
			}
		}
	case *ssa.BinOp:
		switch x.Op {
		case token.ADD:
			return e.eval(x.X, p, d+1).add(e.eval(x.Y, p, d+1), 1)
		case token.SUB:
			// unsigned subtraction may wrap: keep opaque unless both sides are signed
			if !isUnsignedT(x.Type()) {
				return e.eval(x.X, p, d+1).add(e.eval(x.Y, p, d+1), -1)
			}
		case token.MUL:
			if k, ok := constInt(x.Y); ok {
				return e.eval(x.X, p, d+1).scale(k)
			}
			if k, ok := constInt(x.X); ok {
				return e.eval(x.Y, p, d+1).scale(k)
			}
		}
	case *ssa.Convert:
		// widening or same-width conversions between integer types keep the value when the
		// source is non-negative-typed or signed→signed widening (64-bit int assumed)
		if isIntT(x.X.Type()) && isIntT(x.Type()) {
			sb := x.X.Type().Underlying().(*types.Basic)
			db := x.Type().Underlying().(*types.Basic)
			if intBits(db) >= intBits(sb) && (isUnsignedT(x.X.Type()) && intBits(db) > intBits(sb) || isUnsignedT(x.X.Type()) == isUnsignedT(x.Type())) {
				return e.eval(x.X, p, d+1)
			}
			// signed → unsigned of at least the same width keeps the value when the operand is known to be
			// non-negative from the branch conditions already taken on this path (second pass, see ProveBounds)
			if intBits(db) >= intBits(sb) && !isUnsignedT(x.X.Type()) && isUnsignedT(x.Type()) && e.assume != nil {
				inner := e.eval(x.X, p, d+1)
				if e.proves(inner, e.assume) {
					return inner
				}
			}
		}
	case *ssa.ChangeType:
		return e.eval(x.X, p, d+1)
	case *ssa.Call:
		if calleeNameCommon(&x.Call) == "builtin.len" || calleeNameCommon(&x.Call) == "builtin.cap" {
			return e.lenOf(x.Call.Args[0], p, d+1)
		}
		if calleeNameCommon(&x.Call) == "builtin.min" || calleeNameCommon(&x.Call) == "builtin.max" {
			return linSym(e.canonSym(v, false))
		}
	case *ssa.Phi:
		if p != nil && !e.cyc[x.Block()] {
			if pb := p.pred[x.Block()]; pb != nil {
				for i, q := range x.Block().Preds {
					if q == pb {
						return e.eval(x.Edges[i], p, d+1)
					}
				}
			}
		}
	}
	return linSym(e.canonSym(v, false))
}

func intBits(b *types.Basic) int {
	switch b.Kind() {
	case types.Int8, types.Uint8:
		return 8
	case types.Int16, types.Uint16:
		return 16
	case types.Int32, types.Uint32:
		return 32
	}
	return 64
}

// symNonneg: the symbol cannot be negative.
func (e *boundsEnv) symNonneg(s lsym) bool {
	if s.isLen {
		return true
	}
	v := s.v
	if isUnsignedT(v.Type()) {
		return true
	}
	switch x := v.(type) {
	case *ssa.Convert:
		if isUnsignedT(x.X.Type()) && isIntT(x.X.Type()) {
			sb := x.X.Type().Underlying().(*types.Basic)
			db, ok := x.Type().Underlying().(*types.Basic)
			return ok && intBits(db) > intBits(sb)
		}
	case *ssa.Extract:
		if call, ok := x.Tuple.(*ssa.Call); ok {
			if f := call.Call.StaticCallee(); f != nil {
				return e.resultNonneg(f, x.Index, 0)
			}
		}
	case *ssa.Call:
		if f := x.Call.StaticCallee(); f != nil && f.Signature.Results().Len() == 1 {
			return e.resultNonneg(f, 0, 0)
		}
	}
	return false
}

// resultNonneg: every return of f yields a non-negative value in result idx.
func (e *boundsEnv) resultNonneg(f *ssa.Function, idx int, d int) bool {
	if f.Blocks == nil || d > 4 {
		return false
	}
	if e.nonneg[f] == nil {
		e.nonneg[f] = map[int]int{}
	}
	switch e.nonneg[f][idx] {
	case 1:
		return true
	case 2:
		return false
	}
	e.nonneg[f][idx] = 2 // recursion guard: assume no
	sub := &boundsEnv{c: e.c, fn: f, cyc: cyclicBlocks(f), nonneg: e.nonneg}
	ok := true
	for _, r := range Returns(f) {
		if idx >= len(r.Results) {
			ok = false
			break
		}
		l := sub.eval(r.Results[idx], nil, 0)
		if !sub.trivNonneg(l) {
			ok = false
			break
		}
	}
	if ok {
		e.nonneg[f][idx] = 1
	}
	return ok
}

// trivNonneg: const >= 0 and every term has a non-negative coefficient on a non-negative symbol.
func (e *boundsEnv) trivNonneg(l lin) bool {
	if l.k < 0 {
		return false
	}
	for s, c := range l.t {
		if c < 0 || !e.symNonneg(s) {
			return false
		}
	}
	return true
}

func cyclicBlocks(fn *ssa.Function) map[*ssa.BasicBlock]bool {
	out := map[*ssa.BasicBlock]bool{}
	for _, b := range fn.Blocks {
		if inCycle(b) {
			out[b] = true
		}
	}
	return out
}

// factsOn: the linear facts (each `lin >= 0`) established by the branch
// conditions taken along the path.
func (e *boundsEnv) factsOn(p *bpath) []lin {
	var out []lin
	for b, pb := range p.pred {
		if pb == nil {
			continue
		}
		iff := lastIf(pb)
		if iff == nil {
			continue
		}
		pol := pb.Succs[0] == b
		if pb.Succs[0] == pb.Succs[1] {
			continue
		}
		cond := iff.Cond
		for {
			u, ok := cond.(*ssa.UnOp)
			if !ok || u.Op != token.NOT {
				break
			}
			cond, pol = u.X, !pol
		}
		bo, ok := cond.(*ssa.BinOp)
		if !ok || !isIntT(bo.X.Type()) {
			continue
		}
		// a condition inside a loop speaks about that iteration's values: only usable when its operands are loop-invariant opaque symbols, which eval guarantees by not resolving loop phis
		x, y := e.eval(bo.X, p, 0), e.eval(bo.Y, p, 0)
		op := bo.Op
		if !pol {
			op = negOp[op]
		}
		switch op {
		case token.LSS: // x < y  ⇒ y - x - 1 >= 0
			out = append(out, y.add(x, -1).add(linConst(1), -1))
		case token.LEQ:
			out = append(out, y.add(x, -1))
		case token.GTR:
			out = append(out, x.add(y, -1).add(linConst(1), -1))
		case token.GEQ:
			out = append(out, x.add(y, -1))
		case token.EQL:
			out = append(out, x.add(y, -1), y.add(x, -1))
		}
	}
	return out
}

// proves: goal >= 0 follows from the facts (each >= 0) and sign knowledge,
// using goal - (sum of up to three facts) trivially non-negative.
func (e *boundsEnv) proves(goal lin, facts []lin) bool {
	if e.trivNonneg(goal) {
		return true
	}
	for i := range facts {
		g1 := goal.add(facts[i], -1)
		if e.trivNonneg(g1) {
			return true
		}
		for j := i; j < len(facts); j++ {
			g2 := g1.add(facts[j], -1)
			if e.trivNonneg(g2) {
				return true
			}
			for k := j; k < len(facts); k++ {
				if e.trivNonneg(g2.add(facts[k], -1)) {
					return true
				}
			}
		}
	}
	return false
}

// goalsFor: the obligations (each lin >= 0) of a bounds site under a path.
func (e *boundsEnv) goalsFor(in ssa.Instruction, need int64, p *bpath) (goals []lin, names []string, ok bool) {
	switch x := in.(type) {
	case *ssa.Slice:
		ln := e.lenOf(x.X, p, 0)
		lo := linConst(0)
		if x.Low != nil {
			lo = e.eval(x.Low, p, 0)
		}
		hi := ln
		if x.High != nil {
			hi = e.eval(x.High, p, 0)
			goals = append(goals, ln.add(hi, -1))
			names = append(names, "high <= len")
		}
		goals = append(goals, hi.add(lo, -1), lo)
		names = append(names, "low <= high", "low >= 0")
		return goals, names, true
	case *ssa.IndexAddr:
		ln := e.lenOf(x.X, p, 0)
		i := e.eval(x.Index, p, 0)
		return []lin{ln.add(i, -1).add(linConst(1), -1), i}, []string{"index < len", "index >= 0"}, true
	case *ssa.Index:
		ln := e.lenOf(x.X, p, 0)
		i := e.eval(x.Index, p, 0)
		return []lin{ln.add(i, -1).add(linConst(1), -1), i}, []string{"index < len", "index >= 0"}, true
	case *ssa.Lookup:
		if _, isStr := x.X.Type().Underlying().(*types.Basic); isStr {
			ln := e.lenOf(x.X, p, 0)
			i := e.eval(x.Index, p, 0)
			return []lin{ln.add(i, -1).add(linConst(1), -1), i}, []string{"index < len", "index >= 0"}, true
		}
	case ssa.CallInstruction:
		if need > 0 {
			a := x.Common().Args
			if len(a) > 0 {
				arg := a[len(a)-1]
				if x.Common().IsInvoke() {
					arg = a[0]
				} else if len(a) >= 2 {
					arg = a[1] // (ByteOrder recv, b)
				}
				ln := e.lenOf(arg, p, 0)
				return []lin{ln.add(linConst(need), -1)}, []string{"len(arg) >= " + strconv.FormatInt(need, 10)}, true
			}
		}
	}
	return nil, nil, false
}

// ProveBounds: on every acyclic path from the entry of fn to the site, the
// branch conditions taken imply the site's obligations. Returns "" when
// proven, otherwise the reason.
func (e *boundsEnv) ProveBounds(in ssa.Instruction, need int64) string {
	target := in.Block()
	const maxPaths = 20000
	n := 0
	fail := ""
	p := &bpath{pred: map[*ssa.BasicBlock]*ssa.BasicBlock{}, on: map[*ssa.BasicBlock]bool{}}
	// blocks that can reach the target (prune)
	canReach := map[*ssa.BasicBlock]bool{target: true}
	for changed := true; changed; {
		changed = false
		for _, b := range e.fn.Blocks {
			if canReach[b] {
				continue
			}
			for _, s := range b.Succs {
				if canReach[s] {
					canReach[b] = true
					changed = true
					break
				}
			}
		}
	}
	var dfs func(b *ssa.BasicBlock) bool
	dfs = func(b *ssa.BasicBlock) bool {
		if b == target {
			n++
			if n > maxPaths {
				fail = "more than " + strconv.Itoa(maxPaths) + " paths"
				return false
			}
			goals, names, ok := e.goalsFor(in, need, p)
			if !ok {
				fail = "unsupported site kind"
				return false
			}
			facts := e.factsOn(p)
			// second pass: with the first-pass facts known, conversions of provably non-negative values to an
			// unsigned type are transparent (a comparison made in uint64 "so that it cannot overflow")
			e.assume = facts
			if f2 := e.factsOn(p); len(f2) > 0 {
				facts = append(append([]lin{}, facts...), f2...)
				if g2, _, ok2 := e.goalsFor(in, need, p); ok2 && len(g2) == len(goals) {
					goals = g2
				}
			}
			e.assume = nil
			for gi, g := range goals {
				if !e.proves(g, facts) {
					fail = "cannot show " + names[gi] + " (need " + g.String() + " >= 0) on a path"
					return false
				}
			}
			return true
		}
		for _, s := range b.Succs {
			if p.on[s] || !canReach[s] {
				continue
			}
			p.on[s] = true
			p.pred[s] = b
			ok := dfs(s)
			delete(p.pred, s)
			p.on[s] = false
			if !ok {
				return false
			}
		}
		return true
	}
	entry := e.fn.Blocks[0]
	p.on[entry] = true
	p.pred[entry] = nil
	if !dfs(entry) {
		return fail
	}
	if n == 0 {
		return "site unreachable?"
	}
	return ""
}

// ---------------------------------------------------------------------------
// Compiler-side: which bounds checks did the prove pass NOT eliminate.

type bceSite struct {
	file      string // relative to <repo>/go
	line, col int
	kind      string // IsInBounds | IsSliceInBounds
}

var bceRe = regexp.MustCompile(`^(\S+\.go):(\d+):(\d+): Found (IsInBounds|IsSliceInBounds)`)

func runBCE(repoGo string, pkgs []string) ([]bceSite, error) {
	args := []string{"build", "-gcflags=-d=ssa/check_bce/debug=1"}
	for _, p := range pkgs {
		args = append(args, "./"+p+"/")
	}
	gobin := "go"
	if _, err := os.Stat("/opt/veriftools/go1.26.8/bin/go"); err == nil {
		gobin = "/opt/veriftools/go1.26.8/bin/go" // the toolchain the module requires (also first on PATH under bin/env.sh)
	}
	cmd := exec.Command(gobin, args...)
	cmd.Dir = repoGo
	cmd.Env = append(os.Environ(), "GOFLAGS=-mod=mod", "GOPROXY=off", "GOSUMDB=off", "GOTOOLCHAIN=local", "GOWORK=off")
	var buf bytes.Buffer
	cmd.Stdout, cmd.Stderr = &buf, &buf
	err := cmd.Run()
	var out []bceSite
	seen := map[string]bool{}
	for _, ln := range strings.Split(buf.String(), "\n") {
		m := bceRe.FindStringSubmatch(strings.TrimSpace(ln))
		if m == nil {
			continue
		}
		if strings.HasPrefix(m[1], "/") || strings.HasPrefix(m[1], "<") {
			continue // standard library / module cache / autogenerated
		}
		if seen[ln] {
			continue
		}
		seen[ln] = true
		l, _ := strconv.Atoi(m[2])
		cl, _ := strconv.Atoi(m[3])
		out = append(out, bceSite{m[1], l, cl, m[4]})
	}
	if err != nil && len(out) == 0 {
		return nil, fmt.Errorf("go build for bounds-check report failed: %v: %s", err, firstLines(buf.String(), 5))
	}
	return out, nil
}

func firstLines(s string, n int) string {
	ls := strings.Split(s, "\n")
	if len(ls) > n {
		ls = ls[:n]
	}
	return strings.Join(ls, " | ")
}

// c16Bounds: rule (e).
func c16Bounds(c *Ctx, decs []*ssa.Function) {
	sites, err := runBCE(c.P.RepoGo, c16Pkgs)
	if err != nil {
		c.Undecided("C16.bounds", "compiler bounds-check report", "", err.Error())
		return
	}
	c.Extra["bce_unproven_sites_in_decoder_packages"] = len(sites)
	c.Floor("C16.bounds", len(sites), 30, "bounds checks the compiler could not eliminate in the decoder packages")
	// index decoder functions by file
	type fnRange struct {
		fn       *ssa.Function
		pos, end token.Pos
	}
	byFile := map[string][]fnRange{}
	for _, fn := range decs {
		syn := fn.Syntax()
		if syn == nil {
			continue
		}
		f := c.P.Fset.Position(syn.Pos()).Filename
		f = strings.TrimPrefix(f, c.P.RepoGo+"/")
		byFile[f] = append(byFile[f], fnRange{fn, syn.Pos(), syn.End()})
	}
	nonneg := map[*ssa.Function]map[int]int{}
	counts := map[string]int{}
	nIn, nProved := 0, 0
	for _, s := range sites {
		var best *fnRange
		for i := range byFile[s.file] {
			r := &byFile[s.file][i]
			ps, pe := c.P.Fset.Position(r.pos), c.P.Fset.Position(r.end)
			inside := (s.line > ps.Line || (s.line == ps.Line && s.col >= ps.Column)) && (s.line < pe.Line || (s.line == pe.Line && s.col <= pe.Column))
			if inside && (best == nil || r.pos > best.pos) {
				best = r
			}
		}
		if best == nil {
			continue // not lexically inside a decoder function
		}
		fn := best.fn
		// locate the AST node and the SSA instruction at that position
		var node ast.Node
		need := int64(0)
		ast.Inspect(fn.Syntax(), func(n ast.Node) bool {
			if n == nil {
				return false
			}
			var at token.Pos
			switch x := n.(type) {
			case *ast.IndexExpr:
				at = x.Lbrack
			case *ast.SliceExpr:
				at = x.Lbrack
			case *ast.CallExpr:
				at = x.Lparen
			default:
				return true
			}
			pp := c.P.Fset.Position(at)
			if pp.Line == s.line && pp.Column == s.col {
				node = n
			}
			return true
		})
		if node == nil {
			continue // attributed to an inlined callee's internals at this line
		}
		var ins ssa.Instruction
		var at token.Pos
		desc := ""
		switch x := node.(type) {
		case *ast.IndexExpr:
			at, desc = x.Lbrack, c.P.exprStringAliased(fn, x)
		case *ast.SliceExpr:
			at, desc = x.Lbrack, c.P.exprStringAliased(fn, x)
		case *ast.CallExpr:
			at, desc = x.Lparen, c.P.exprStringAliased(fn, x)
		}
		for _, b := range fn.Blocks {
			for _, in := range b.Instrs {
				if in.Pos() != at {
					continue
				}
				switch y := in.(type) {
				case *ssa.Slice, *ssa.IndexAddr, *ssa.Index, *ssa.Lookup:
					if _, isCall := node.(*ast.CallExpr); !isCall {
						ins = in
					}
				case ssa.CallInstruction:
					if _, isCall := node.(*ast.CallExpr); isCall {
						n := calleeName(y)
						switch {
						case strings.HasSuffix(n, "Uint16") && strings.HasPrefix(n, "encoding/binary."):
							need, ins = 2, in
						case strings.HasSuffix(n, "Uint32") && strings.HasPrefix(n, "encoding/binary."):
							need, ins = 4, in
						case strings.HasSuffix(n, "Uint64") && strings.HasPrefix(n, "encoding/binary."):
							need, ins = 8, in
						}
					}
				}
			}
		}
		if _, isCall := node.(*ast.CallExpr); isCall && ins == nil {
			continue // an inlined call that is not a fixed-width read: the callee's own body is reported at its own position
		}
		nIn++
		c.Analysed[fname(fn)] = true
		key := fname(fn) + " " + desc
		counts[key]++
		if counts[key] > 1 {
			key += " #" + itoa(counts[key])
		}
		site := "go/" + s.file + ":" + itoa(s.line)
		if ins == nil {
			if reason, ok := c.Tabled("c16_bounds", key); ok {
				c.TabledOK("C16.bounds", key, site, reason)
			} else {
				c.Fail("C16.bounds", key, site, "bounds check not eliminated by the compiler and no SSA instruction found for it to check its guards")
			}
			continue
		}
		env := &boundsEnv{c: c, fn: fn, cyc: cyclicBlocks(fn), nonneg: nonneg}
		why := env.ProveBounds(ins, need)
		if why == "" {
			nProved++
			c.OK("C16.bounds", key, site, "not proven by the compiler; proven from the dominating length guards on every path")
			continue
		}
		if reason, ok := c.Tabled("c16_bounds", key); ok {
			c.TabledOK("C16.bounds", key, site, reason)
			continue
		}
		c.Fail("C16.bounds", key, site, "index/slice/fixed-width read in a decoder is not proven in range by the compiler, nor by the length guards on every path ("+why+"), nor reviewed: input bytes can crash the node")
	}
	c.Extra["bounds_sites_in_decoder_functions"] = nIn
	c.Extra["bounds_sites_proved_by_guards"] = nProved
	c.Floor("C16.bounds", nIn, 8, "unproven bounds sites inside decoder functions")
}

package main

import (
	"strings"

	"golang.org/x/tools/go/ssa"
)

// Round-2 C02 rules.

// c02CacheLock — a tree operation holds the cache lock from entry to return.
// Commit hashes the dirty nodes and, in the batch's on-commit hooks, marks exactly those nodes clean. That is only
// right if nothing modifies the tree in between: every operation of the tree takes the cache lock on entry and releases
// it by a deferred Unlock, and nowhere in the package is the lock released (or re-taken) in the middle of an operation.
func c02CacheLock(c *Ctx, rule string) {
	nLock := 0
	for _, fn := range c.P.FuncsInPkg("storage/mkvs") {
		var locks, unlocks, defUnlocks []ssa.Instruction
		var walk func(f *ssa.Function)
		walk = func(f *ssa.Function) {
			for _, b := range f.Blocks {
				for _, in := range b.Instrs {
					call, ok := in.(ssa.CallInstruction)
					if !ok {
						continue
					}
					n := calleeName(call)
					if n != "sync.(*Mutex).Lock" && n != "sync.(*Mutex).Unlock" {
						continue
					}
					if r := recvOf(call); r == nil || !strings.HasSuffix(vstr(r), ".cache.Mutex") && !strings.Contains(vstr(r), ".cache") {
						continue
					}
					_, isDefer := in.(*ssa.Defer)
					switch {
					case n == "sync.(*Mutex).Lock":
						locks = append(locks, in)
					case isDefer:
						defUnlocks = append(defUnlocks, in)
					default:
						unlocks = append(unlocks, in)
					}
				}
			}
			for _, a := range f.AnonFuncs {
				walk(a)
			}
		}
		if fn.Parent() != nil {
			continue
		}
		walk(fn)
		if len(locks)+len(unlocks)+len(defUnlocks) == 0 {
			continue
		}
		nLock++
		c.Analysed[fname(fn)] = true
		inst := fname(fn) + ":cache lock held from entry to return"
		ok := len(locks) == 1 && len(defUnlocks) == 1 && len(unlocks) == 0
		site := c.P.Pos(fn.Pos())
		if len(unlocks) > 0 {
			site = c.P.InstrPos(unlocks[0])
		}
		c.Check(ok, rule, inst, site, "one Lock at entry, released by a deferred Unlock only", "the tree's cache lock is released (or taken again) in the middle of an operation ("+itoa(len(locks))+" Lock, "+itoa(len(unlocks))+" plain Unlock, "+itoa(len(defUnlocks))+" deferred Unlock): a concurrent Insert/Remove can run between hashing and the on-commit hooks that mark the hashed nodes clean, and its change is then never hashed — later commits keep returning the old root")
	}
	c.Floor(rule, nLock, 8, "tree operations that take the cache lock")
}

// c02DbPtrUndo — database pointers assigned by a batch that does not commit are undone (F23, pathbadger).
func c02DbPtrUndo(c *Ctx, ix *Index, rule string) {
	const pk = "storage/mkvs/db/pathbadger"
	isDBI := func(addr ssa.Value) bool {
		fa, ok := addr.(*ssa.FieldAddr)
		return ok && fieldKey(fa.X.Type(), fa.Field) == "storage/mkvs/node.Pointer.DBInternal"
	}
	// (a) who assigns a non-nil database pointer to an in-memory pointer
	for _, fn := range c.P.FuncsInPkg(pk) {
		for _, b := range blocksIP(fn) {
			for _, in := range b.Instrs {
				st, ok := in.(*ssa.Store)
				if !ok || !isDBI(st.Addr) || isNilConst(st.Val) {
					continue
				}
				key := fname(fn) + ":assigns Pointer.DBInternal"
				switch fname(fn) {
				case pk + ".(*badgerBatch).refreshDbPtr":
					// the assignment is recorded for undo on every path to a return
					var recs []ssa.Instruction
					for _, b2 := range fn.Blocks {
						for _, in2 := range b2.Instrs {
							if s2, ok := in2.(*ssa.Store); ok && strings.HasSuffix(vstr(s2.Addr), ".assignedPtrs") && strings.Contains(vstr(s2.Val), "builtin.append(") {
								recs = append(recs, in2)
							}
						}
					}
					hit := Reach(fn, in, nil, func(i ssa.Instruction) bool { _, r := i.(*ssa.Return); return r }, NewCut().AddInstr(recs...))
					c.Check(len(recs) > 0 && hit == nil, rule, key+"⇒recorded for undo", c.P.InstrPos(in), "every path from the assignment to a return records the pointer (and its previous value) in the batch", "refreshDbPtr assigns a database pointer to an in-memory pointer without recording it in the batch: when the batch is not committed the pointer keeps an index that the next batch assigns again, and nodes overwrite each other in the database")
				case pk + ".(*badgerBatch).Reset":
					c.OK(rule, key+" (restoring the previous value)", c.P.InstrPos(in), "undo of the batch's assignments")
				default:
					if reason, ok := c.Tabled("c02_dbptr", fname(fn)); ok {
						c.TabledOK(rule, key, c.P.InstrPos(in), reason)
					} else {
						c.Fail(rule, key, c.P.InstrPos(in), "a database pointer is assigned to an in-memory pointer outside refreshDbPtr: it is not undone when the batch does not commit")
					}
				}
			}
		}
	}
	// (b) Reset undoes the recorded assignments before forgetting them; Commit forgets them only on its success paths
	if fn := c.needFn(rule, pk+".(*badgerBatch).Reset"); fn != nil {
		var undo, forget []ssa.Instruction
		for _, b := range blocksIP(fn) {
			for _, in := range b.Instrs {
				st, ok := in.(*ssa.Store)
				if !ok {
					continue
				}
				if isDBI(st.Addr) && strings.Contains(vstr(st.Addr), ".assignedPtrs[") {
					undo = append(undo, in)
				}
				if strings.HasSuffix(vstr(st.Addr), "param:ba.assignedPtrs") && isNilConst(st.Val) {
					forget = append(forget, in)
				}
			}
		}
		ok := len(undo) > 0 && len(forget) > 0
		if ok {
			// the loop over the recorded pointers lies before the list is cleared
			for _, f := range forget {
				if Reach(fn, f, nil, anyOf(undo), nil) != nil {
					ok = false
				}
			}
		}
		c.Check(ok, rule, fname(fn)+":recorded assignments are undone before the list is cleared", c.P.Pos(fn.Pos()), "Reset restores Pointer.DBInternal of every recorded pointer, then clears the list", "Reset no longer restores the database pointers that the (uncommitted) batch assigned")
	}
	if fn := c.needFn(rule, pk+".(*badgerBatch).Commit"); fn != nil {
		var forget []ssa.Instruction
		for _, b := range blocksIP(fn) {
			for _, in := range b.Instrs {
				if st, ok := in.(*ssa.Store); ok && strings.HasSuffix(vstr(st.Addr), "param:ba.assignedPtrs") && isNilConst(st.Val) {
					forget = append(forget, in)
				}
			}
		}
		// after forgetting the assignments no error may be returned
		bad := false
		for _, f := range forget {
			for _, r := range Returns(fn) {
				ev := retErrVal(r)
				if ev == nil || isNilConst(ev) {
					continue
				}
				if Reach(fn, f, nil, isInstr(r), nil) != nil {
					if call, ok := ev.(*ssa.Call); ok && calleeName(call) == "storage/mkvs/db/api.(*BaseBatch).Commit" {
						continue // runs the on-commit hooks; always nil
					}
					bad = true
				}
			}
		}
		c.Check(len(forget) > 0 && !bad, rule, fname(fn)+":assignments are kept only on the success paths", c.P.Pos(fn.Pos()), "the list of assigned pointers is dropped only where nothing can fail any more", "Commit drops the list of assigned pointers on a path that can still fail: the failure would leave stale database pointers behind")
	}
}

// c02EmbeddedLeaf — reader/writer agreement for the optional embedded leaf of a pathbadger internal node.
// nodeToDb appends the embedded leaf (marshalled key, then the value) iff the node has one; the smallest such
// encoding (empty key, empty value) is the two length bytes. nodeFromDb must therefore decode a leaf iff any byte is
// left after the fixed part: its guard compares len(value) with exactly the offset the leaf is decoded from.
func c02EmbeddedLeaf(c *Ctx, rule string) {
	fn := c.needFn(rule, "storage/mkvs/db/pathbadger.nodeFromDb")
	if fn == nil {
		return
	}
	c.Analysed[fname(fn)] = true
	inst := fname(fn) + ":embedded leaf decoded iff any byte remains"
	// the leaf decode: SizedUnmarshalBinary on a LeafNode's Key with argument value[pos:]
	var leafCall ssa.CallInstruction
	var low ssa.Value
	for _, call := range callsIn(fn) {
		if calleeName(call) != "storage/mkvs/node.(*Key).SizedUnmarshalBinary" {
			continue
		}
		args := allArgs(call)
		if len(args) < 2 || !strings.Contains(vstr(args[0]), "node.LeafNode)).Key") {
			continue
		}
		if sl, ok := args[1].(*ssa.Slice); ok && sl.Low != nil && strings.HasPrefix(vstr(sl.X), "param:value") {
			// the leaf case proper has its own (first) decode at offset 1; the embedded one is the one with a computed offset
			if _, isConst := sl.Low.(*ssa.Const); isConst {
				continue
			}
			leafCall, low = call, sl.Low
		}
	}
	if leafCall == nil {
		c.Fail(rule, inst, c.P.Pos(fn.Pos()), "the decode of the embedded leaf (LeafNode.Key.SizedUnmarshalBinary(value[pos:])) was not found in nodeFromDb")
		return
	}
	ok := false
	detail := ""
	L := vstr(low)
	accept := map[string]bool{
		"builtin.len(param:value) > " + L:  true,
		L + " < builtin.len(param:value)":  true,
		"builtin.len(param:value) != " + L: true,
		L + " != builtin.len(param:value)": true,
	}
	// alternative spelling: len(value[pos:]) > 0 / != 0
	accept["builtin.len(param:value["+L+":]) > 0"] = true
	accept["builtin.len(param:value["+L+":]) != 0"] = true
	for _, h := range heldCondVals(leafCall) {
		cands := []string{normCond(h.Cond, h.Pol)}
		if s2, isInl := normCondInlined(h.Cond, h.Pol); isInl {
			cands = append(cands, s2) // the test may live in a predicate helper
		}
		for _, s := range cands {
			if accept[s] {
				ok = true
			} else if strings.Contains(s, "builtin.len(param:value") {
				detail = "guard found: " + s
			}
		}
	}
	c.Check(ok, rule, inst, c.P.InstrPos(leafCall), "the embedded leaf is decoded under `len(value) > pos` for the very offset it is decoded from", "the guard of the embedded-leaf decode is not `any byte left after the fixed part` ("+detail+"): the writer appends a leaf of as little as two bytes (empty key, empty value), which this reader then drops silently; the node is re-hashed without it at the next modification and the root no longer reflects the contents")
}

func rulesC02Round2(c *Ctx, ix *Index) {
	c02CacheLock(c, "C02.lock")
	c02DbPtrUndo(c, ix, "C02.dbptr")
	c02EmbeddedLeaf(c, "C02.codec")
	overlayDirtyRules(c, "C02.overlay")
}

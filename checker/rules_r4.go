package main

import (
	"go/token"
	"go/types"
	"regexp"
	"sort"
	"strings"

	"golang.org/x/tools/go/ssa"
)

// Round-4 rules (written after seeds C10r4/10..12 and C16r4/11..12 were missed).

// c10Round4: three structural necessary conditions of "block processing never fails".
func c10Round4(c *Ctx, g *CG) {
	c10GovernanceModel(c, g)
	c10ProposalIDs(c)
	c10DistributionChange(c)
	// (a) seed C10r4/10: what governance EndBlock takes out of the governance deposits pool for a closing proposal is the
	// amount recorded in that proposal (the amount that was put into the pool for it at submission). Any other amount
	// (e.g. the current MinProposalDeposit parameter, which a passed change-parameters proposal can raise) can exceed what
	// the pool holds: quantity.Move fails, EndBlock returns the error and every node panics at the epoch transition.
	if fn := c.needFn("C10.settle", "consensus/cometbft/apps/governance.(*Application).EndBlock"); fn != nil {
		c.Analysed[fname(fn)] = true
		n := 0
		for _, call := range callsIn(fn) {
			nm := calleeName(call)
			if nm != "consensus/cometbft/apps/staking/state.(*MutableState).TransferFromGovernanceDeposits" && nm != "consensus/cometbft/apps/staking/state.(*MutableState).DiscardGovernanceDeposit" {
				continue
			}
			n++
			args := allArgs(call)
			amount := args[len(args)-1]
			inst := fname(fn) + ":" + nm[strings.LastIndex(nm, ".")+1:] + " settles the proposal's recorded deposit"
			ok := false
			if fa, isFA := amount.(*ssa.FieldAddr); isFA && fieldName(fa.X.Type(), fa.Field) == "Deposit" && namedOf(derefType(fa.X.Type())) == "governance/api.Proposal" {
				ok = true
			}
			if loadsField(amount, "Deposit") {
				ok = true
			}
			c.Check(ok, "C10.settle", inst, c.P.InstrPos(call), "the amount is the Deposit field of the proposal being closed", "the amount taken out of the governance deposits pool for a closing proposal is "+vstr(amount)+", not the deposit recorded in the proposal: when it exceeds what was deposited (the minimum deposit parameter was raised while the proposal was open) the move fails, EndBlock returns the error and the chain halts at the epoch transition")
		}
		c.Floor("C10.settle", n, 2, "deposit settlements in governance EndBlock")
	}

	// (b) seed C10r4/11: in the multiplexer's EndBlock the block metadata (state root, provable events root) proposed
	// for the block is validated against the state after EVERYTHING that EndBlock does to the block context — nothing
	// that receives the block context runs after validateSystemTxs. The proposer builds the metadata after the whole
	// EndBlock (prepareSystemTxs); a step moved behind the validation (the upgrade handlers, the provable events) makes
	// every other validator reject an honest proposal in the block where that step changes state.
	if fn := c.needFn("C10.order", "consensus/cometbft/abci.(*abciMux).EndBlock"); fn != nil {
		c.Analysed[fname(fn)] = true
		val := CallsTo(fn, "validateSystemTxs", "consensus/cometbft/abci.(*abciMux).validateSystemTxs", "")
		var ctxv ssa.Value
		for _, call := range callsIn(fn) {
			if calleeName(call) == "consensus/cometbft/abci.(*applicationState).NewContext" {
				ctxv = call.Value()
			}
		}
		inst := fname(fn) + ":nothing touches the block context after validateSystemTxs"
		if val.Empty() || ctxv == nil {
			c.Fail("C10.order", inst, c.P.Pos(fn.Pos()), "validateSystemTxs call or the EndBlock context not found (unresolved anchor)")
		} else {
			var late []ssa.Instruction
			var names []string
			for _, call := range callsIn(fn) {
				if _, isDefer := call.(*ssa.Defer); isDefer {
					continue
				}
				// calls that are handed the context (methods of the context itself — GetEvents, LastHeight — only read it)
				isCtx := func(a ssa.Value) bool {
					if mi, ok := a.(*ssa.MakeInterface); ok {
						a = mi.X
					}
					return a == ctxv
				}
				args := call.Common().Args
				if !call.Common().IsInvoke() && call.Common().Signature().Recv() != nil && len(args) > 0 {
					args = args[1:] // the receiver
				}
				uses := false
				for _, a := range args {
					if isCtx(a) {
						uses = true
					}
				}
				if uses {
					names = append(names, calleeName(call))
					late = append(late, call)
				}
			}
			ok := len(late) >= 3
			if !ok {
				c.Undecided("C10.order", inst+":anchors", c.P.Pos(fn.Pos()), "only "+itoa(len(late))+" calls handed the EndBlock context found (expected the applications' EndBlock, the upgrade handlers and the provable events)")
			}
			site := c.P.InstrPos(val.Ins[0])
			what := ""
			for _, v := range val.Ins {
				if hit := Reach(fn, v, nil, anyOf(late), nil); hit != nil {
					ok = false
					site = c.P.InstrPos(hit)
					what = callDesc(hit)
				}
			}
			c.Check(ok, "C10.order", inst, site, "none of the "+itoa(len(late))+" calls that are handed the EndBlock context ("+strings.Join(names, ", ")+") is reachable after validateSystemTxs", what+" runs on the block context after the proposed block metadata was validated: the proposer computes the metadata after the whole EndBlock, so in a block where this step changes state or events every other node computes a different root, rejects the honest proposal (or panics in EndBlock) and the chain halts")
		}
	}

	// (c) seed C10r4/12: the number of validators the persisted fees are divided by is the number of entries of the
	// last commit — the same list whose entries are then paid one share each. A divisor taken from anywhere else (the
	// scheduler's current set, which changes two heights before the commit info does) can be smaller than the number of
	// voters: the payouts exceed the fees, quantity.Move fails and BeginBlock halts the chain.
	if fn := c.needFn("C10.divisor", "consensus/cometbft/apps/staking.(*Application).BeginBlock"); fn != nil {
		c.Analysed[fname(fn)] = true
		n := 0
		for _, call := range callsIn(fn) {
			callee := call.Common().StaticCallee()
			if callee == nil {
				continue
			}
			for i, p := range callee.Params {
				if pname(p) != "numEligibleValidators" {
					continue
				}
				n++
				args := allArgs(call)
				a := args[i]
				ok := false
				if lc, isCall := a.(*ssa.Call); isCall {
					if b, isB := lc.Call.Value.(*ssa.Builtin); isB && b.Name() == "len" && len(lc.Call.Args) == 1 && loadsField(lc.Call.Args[0], "Votes") {
						ok = true
					}
				}
				c.Check(ok, "C10.divisor", fname(fn)+":"+callee.Name()+" numEligibleValidators = len(last commit votes)", c.P.InstrPos(call), "the divisor is the length of the Votes list of the last commit info", "the number of validators the fees are divided by is "+vstr(a)+", not the number of entries of the last commit: with more voters than that (the elected set shrank; the commit info follows two heights later) the per-voter payouts exceed the persisted fees, the move fails and BeginBlock halts the chain")
			}
		}
		c.Floor("C10.divisor", n, 2, "calls taking numEligibleValidators in staking BeginBlock")
	}
}

// aliasesValue: v is (a reslice / conversion / merge of) the value p — it shares p's backing memory.
func aliasesValue(v, p ssa.Value, seen map[ssa.Value]bool) bool {
	if v == p {
		return true
	}
	if seen[v] {
		return false
	}
	seen[v] = true
	switch x := v.(type) {
	case *ssa.Slice:
		return aliasesValue(x.X, p, seen)
	case *ssa.ChangeType:
		return aliasesValue(x.X, p, seen)
	case *ssa.Convert:
		if _, isSlice := x.X.Type().Underlying().(*types.Slice); isSlice {
			if _, toSlice := x.Type().Underlying().(*types.Slice); toSlice {
				return aliasesValue(x.X, p, seen)
			}
		}
	case *ssa.Phi:
		for _, e := range x.Edges {
			if aliasesValue(e, p, seen) {
				return true
			}
		}
	case *ssa.UnOp:
		// a local variable holding the slice
		if al, ok := x.X.(*ssa.Alloc); ok {
			if refs := al.Referrers(); refs != nil {
				for _, r := range *refs {
					if st, ok := r.(*ssa.Store); ok && st.Addr == ssa.Value(al) && aliasesValue(st.Val, p, seen) {
						return true
					}
				}
			}
		}
	}
	return false
}

// c16Round4:
func c16Round4(c *Ctx) {
	// (a) seed C16r4/12: the hand-written decoders of tree nodes and keys leave nothing in the decoded object that
	// shares memory with the input: every store into the receiver stores a value that is not a reslice of `data`. The
	// callers decode from buffers that are only valid for the call (badger's item.Value callback, reused read buffers);
	// a retained reslice changes under the decoded node afterwards: its label no longer matches its hash and lookups take
	// wrong branches ("corrupts subsequent processing").
	n := 0
	var fns []*ssa.Function
	for _, pp := range []string{"storage/mkvs/node", "storage/mkvs/syncer", "storage/mkvs/writelog", "storage/mkvs/checkpoint", "common/crypto/hash"} {
		fns = append(fns, c.P.FuncsInPkg(pp)...)
	}
	for _, fn := range fns {
		if fn.Signature.Recv() == nil || (fn.Name() != "UnmarshalBinary" && fn.Name() != "SizedUnmarshalBinary") || len(fn.Params) != 2 {
			continue
		}
		data := fn.Params[1]
		if _, isSlice := data.Type().Underlying().(*types.Slice); !isSlice {
			continue
		}
		n++
		c.Analysed[fname(fn)] = true
		ok := true
		site := c.P.Pos(fn.Pos())
		for _, b := range blocksIP(fn) {
			for _, in := range b.Instrs {
				st, isStore := in.(*ssa.Store)
				if !isStore {
					continue
				}
				if _, local := st.Addr.(*ssa.Alloc); local {
					continue
				}
				if aliasesValue(st.Val, data, map[ssa.Value]bool{}) {
					ok = false
					site = c.P.InstrPos(st)
				}
			}
		}
		c.Check(ok, "C16.own", fname(fn)+":the decoded object does not share memory with the input", site, "no store outside local variables stores a reslice of the input", "the decoder stores a reslice of its input into the decoded object: the callers' buffers are only valid for the duration of the call (badger value callbacks, reused read buffers), so a successfully decoded node changes afterwards — its label/key no longer matches the hash computed at decode time and lookups take wrong branches")
	}
	c.Floor("C16.own", n, 6, "hand-written binary decoders (node, key, hash)")

	// (b) seed C16r4/11: the check-transaction results a runtime returns are accepted only when there is exactly one per
	// transaction of the batch. The consumers (transaction pool) index the batch by the position of the result; a
	// response with more results than transactions panics there with an index out of range.
	if fn := c.needFn("C16.frames", "runtime/host.(*richRuntime).CheckTx"); fn != nil {
		c16BodyKinds(c)
		c16CheckTxMeta(c)
		c16Snapshots(c)
		c.SuccessRequiresCond("C16.frames", fn, "len(results) == len(batch)", `^builtin\.len\(.*RuntimeCheckTxBatchResponse\.Results\) == builtin\.len\(param:batch\)$`, "a runtime response with a different number of results than transactions must be rejected: the transaction pool indexes the batch by result position and panics (index out of range) on a surplus result")
	}
}

// c10GovernanceModel (F52): Runtime.StakingAddress answers (nil, false) for the consensus-layer governance model, which
// is a legal model of a runtime in the genesis document. On the Begin/EndBlock fatal cone "no address" is treated as
// impossible and returned as an error, which halts every node; so every call there is made only for runtimes whose
// model is not the consensus one (the key manager and the roothash applications skip such runtimes first).
func c10GovernanceModel(c *Ctx, g *CG) {
	const rule = "C10.govmodel"
	var entries []*ssa.Function
	for _, key := range []string{
		"consensus/cometbft/api.(Application).BeginBlock", "consensus/cometbft/api.(Application).EndBlock",
		"consensus/cometbft/api.(Extension).BeginBlock", "consensus/cometbft/api.(Extension).EndBlock",
	} {
		for _, f := range g.impls[key] {
			if f.Blocks != nil && strings.HasPrefix(short(fpkgPath(f)), "consensus/cometbft/apps/") {
				entries = appendUniqueFn(entries, f)
			}
		}
	}
	cone, _ := g.FatalCone(entries, outsideConeUniverse)
	n := 0
	for _, f := range cone {
		if f.Blocks == nil {
			continue
		}
		ev := CallsTo(f, "rt.StakingAddress()", "registry/api.(*Runtime).StakingAddress", "")
		if ev.Empty() {
			continue
		}
		n++
		// the other accepted form: "no address" is not turned into an error (nothing that makes an error is reachable
		// from the !ok branch before the next call)
		benign := true
		for _, in := range ev.Ins {
			call := in.(ssa.CallInstruction)
			edges, found := BoolEdges(call, 1, false)
			if !found {
				benign = false
				break
			}
			mk := func(x ssa.Instruction) bool {
				if cc, ok := x.(*ssa.Call); ok {
					nm := calleeNameCommon(&cc.Call)
					return nm == "fmt.Errorf" || nm == "errors.New"
				}
				if r, ok := x.(*ssa.Return); ok {
					if e := retErrVal(r); e != nil && !isNilConst(e) {
						if _, isPhi := e.(*ssa.Phi); !isPhi {
							return true
						}
					}
				}
				return false
			}
			if len(edges) > 0 && Reach(f, nil, edges, mk, NewCut().AddInstr(in)) != nil {
				benign = false
			}
		}
		if benign {
			c.Analysed[fname(f)] = true
			c.OK(rule, fname(f)+":governance model != consensus⊢rt.StakingAddress()", c.P.InstrPos(ev.Ins[0]), "a missing staking address is not turned into an error")
			continue
		}
		c.DominatedByCond(rule, f, "governance model != consensus", `\.GovernanceModel != 3$`, ev, "a runtime with consensus-layer governance (legal in the genesis document) has no staking address; on the Begin/EndBlock fatal cone the missing address is returned as an error and halts the chain (F52), so such runtimes are skipped before the address is asked for")
	}
	c.Floor(rule, n, 2, "functions on the Begin/EndBlock fatal cone that ask for a runtime's staking address")
}

// c16BodyKinds (F56/F57; the rule every other call site already follows): a runtime host protocol frame (protocol.Body)
// received from the runtime is a union of optional message bodies, all pointers. Which one is set is decided by the
// peer, so a body field of a received frame is dereferenced only where it was tested non-nil; otherwise a well-formed
// frame of another kind (e.g. Empty) crashes the node with a nil dereference.
func c16BodyKinds(c *Ctx) {
	const rule = "C16.frames"
	n, nfn := 0, 0
	for _, fn := range c.P.ModFuncs {
		if fn.Blocks == nil {
			continue
		}
		type site struct {
			ptr ssa.Value
			at  ssa.Instruction
			fld string
		}
		var sites []site
		for _, b := range blocksIP(fn) {
			for _, in := range b.Instrs {
				var ptr ssa.Value
				switch x := in.(type) {
				case *ssa.FieldAddr:
					ptr = x.X
				case *ssa.UnOp:
					if x.Op != token.MUL {
						continue
					}
					if _, isPtrToStruct := derefType(x.X.Type()).Underlying().(*types.Struct); !isPtrToStruct {
						continue
					}
					ptr = x.X
				default:
					continue
				}
				fld := bodyFieldOf(ptr)
				if fld == "" {
					continue
				}
				sites = append(sites, site{ptr, in, fld})
			}
		}
		if len(sites) == 0 {
			continue
		}
		nfn++
		c.Analysed[fname(fn)] = true
		for _, s := range sites {
			n++
			ptr := s.ptr
			cut := nonNilCut(fn, func(subj ssa.Value) bool { return sameValue(subj, ptr, 0) })
			// a predicate method of the owning struct whose answer true implies the field is set
			if u, ok := ptr.(*ssa.UnOp); ok {
				if fa, ok := u.X.(*ssa.FieldAddr); ok {
					for _, b := range fn.Blocks {
						iff := lastIfOf(b)
						if iff == nil {
							continue
						}
						cond, pol := stripNot(iff.Cond, true)
						call, ok := cond.(*ssa.Call)
						if !ok || len(call.Call.Args) == 0 || !sameValue(call.Call.Args[0], fa.X, 0) {
							continue
						}
						if predicateImpliesNonNil(call.Call.StaticCallee(), s.fld) {
							if pol {
								cut.AddEdges(Edge{b, 0})
							} else {
								cut.AddEdges(Edge{b, 1})
							}
						}
					}
				}
			}
			inst := fname(fn) + ":" + s.fld + " tested non-nil before it is dereferenced"
			if len(cut.Edges) > 0 && Reach(fn, nil, nil, isInstr(s.at), cut) == nil {
				c.OK(rule, inst, c.P.InstrPos(s.at), "every path to the dereference takes the non-nil branch of a test of the same field")
				continue
			}
			if guardedByCallers(c, fn, s.ptr) {
				c.OK(rule, inst, c.P.InstrPos(s.at), "the frame is a parameter and every caller passes it only where the same field was tested non-nil")
				continue
			}
			if reason, ok := c.Tabled("c16_body_kinds", fname(fn)+" "+s.fld); ok {
				c.TabledOK(rule, inst, c.P.InstrPos(s.at), reason)
				continue
			}
			c.Fail(rule, inst, c.P.InstrPos(s.at), "the "+s.fld+" body of a protocol frame is dereferenced on a path on which it was not tested non-nil: the peer decides which body a frame carries, and a well-formed frame of another kind makes this a nil pointer dereference that crashes the node")
		}
	}
	c.Extra["protocol_body_dereferences"] = n
	c.Floor(rule, nfn, 10, "functions that dereference a body of a protocol frame")
}

// bodyFieldOf: ptr is (a load of) a pointer-typed field of a runtime/host/protocol.Body; the field's name, or "".
func bodyFieldOf(ptr ssa.Value) string {
	wire := func(t types.Type, idx int) bool {
		if !strings.HasPrefix(namedOf(derefType(t)), "runtime/host/protocol.") {
			return false
		}
		st, ok := derefType(t).Underlying().(*types.Struct)
		return ok && idx < st.NumFields() && strings.Contains(st.Tag(idx), "json:")
	}
	switch x := ptr.(type) {
	case *ssa.UnOp:
		if fa, ok := x.X.(*ssa.FieldAddr); ok && x.Op == token.MUL && wire(fa.X.Type(), fa.Field) {
			if _, isPtr := x.Type().Underlying().(*types.Pointer); isPtr {
				return fieldName(fa.X.Type(), fa.Field)
			}
		}
	case *ssa.Field:
		if wire(x.X.Type(), x.Field) {
			if _, isPtr := x.Type().Underlying().(*types.Pointer); isPtr {
				return fieldName(x.X.Type(), x.Field)
			}
		}
	}
	return ""
}

// predicateImpliesNonNil: callee is a module function with a single bool result whose value true implies that the named
// field of (the struct behind) its first parameter is non-nil (e.g. Features.HasScheduleControl).
func predicateImpliesNonNil(callee *ssa.Function, field string) bool {
	if callee == nil || callee.Blocks == nil || len(callee.Params) == 0 || callee.Signature.Results().Len() != 1 {
		return false
	}
	if b, ok := callee.Signature.Results().At(0).Type().Underlying().(*types.Basic); !ok || b.Kind() != types.Bool {
		return false
	}
	par := callee.Params[0]
	isField := func(subj ssa.Value) bool {
		u, ok := subj.(*ssa.UnOp)
		if !ok {
			return false
		}
		fa, ok := u.X.(*ssa.FieldAddr)
		return ok && fa.X == ssa.Value(par) && fieldName(fa.X.Type(), fa.Field) == field
	}
	cut := nonNilCut(callee, isField)
	rx := regexp.MustCompile(`^\*param:` + regexp.QuoteMeta(pname(par)) + `\.` + regexp.QuoteMeta(field) + ` != nil$`)
	n := 0
	for _, r := range Returns(callee) {
		for _, t := range boolResultTargets(r.Results[0], true, r, cut, rx, map[ssa.Value]bool{}) {
			if Reach(callee, nil, nil, isInstr(t), cut) != nil {
				return false
			}
		}
		n++
	}
	return n > 0
}

// nonNilCut: the edges of fn on which a nil test of a value structurally equal to ptr says "non-nil".
func nonNilCut(fn *ssa.Function, same func(ssa.Value) bool) *Cut {
	cut := NewCut()
	for _, b := range fn.Blocks {
		iff := lastIfOf(b)
		if iff == nil {
			continue
		}
		bo, ok := iff.Cond.(*ssa.BinOp)
		if !ok || (bo.Op != token.EQL && bo.Op != token.NEQ) {
			continue
		}
		var subj ssa.Value
		if isNilConst(bo.Y) {
			subj = bo.X
		} else if isNilConst(bo.X) {
			subj = bo.Y
		} else {
			continue
		}
		if !same(subj) {
			continue
		}
		if bo.Op == token.NEQ {
			cut.AddEdges(Edge{b, 0})
		} else {
			cut.AddEdges(Edge{b, 1})
		}
	}
	return cut
}

var staticCallersCache map[*ssa.Function][]ssa.CallInstruction

// guardedByCallers: ptr is a load of field F of a frame that is parameter k of fn; fn has static callers in the module
// and each passes, as argument k, a frame whose field F was tested non-nil on every path to the call.
func guardedByCallers(c *Ctx, fn *ssa.Function, ptr ssa.Value) bool {
	u, ok := ptr.(*ssa.UnOp)
	if !ok {
		return false
	}
	fa, ok := u.X.(*ssa.FieldAddr)
	if !ok {
		return false
	}
	par, ok := fa.X.(*ssa.Parameter)
	if !ok {
		return false
	}
	k := -1
	for i, p := range fn.Params {
		if p == par {
			k = i
		}
	}
	if k < 0 {
		return false
	}
	if staticCallersCache == nil {
		staticCallersCache = map[*ssa.Function][]ssa.CallInstruction{}
		for _, f := range c.P.ModFuncs {
			if f.Blocks == nil {
				continue
			}
			for _, call := range callsIn(f) {
				if callee := call.Common().StaticCallee(); callee != nil {
					staticCallersCache[callee] = append(staticCallersCache[callee], call)
				}
			}
		}
	}
	callers := staticCallersCache[fn]
	if len(callers) == 0 {
		return false
	}
	for _, call := range callers {
		args := call.Common().Args
		if k >= len(args) {
			return false
		}
		a := args[k]
		caller := call.Parent()
		cut := nonNilCut(caller, func(subj ssa.Value) bool {
			su, ok := subj.(*ssa.UnOp)
			if !ok {
				return false
			}
			sfa, ok := su.X.(*ssa.FieldAddr)
			return ok && sfa.Field == fa.Field && sameValue(sfa.X, a, 0)
		})
		if len(cut.Edges) == 0 || Reach(caller, nil, nil, isInstr(call), cut) != nil {
			return false
		}
	}
	return true
}

// c16CheckTxMeta (F57): CheckTxResult.Meta is optional on the wire and is dereferenced for every transaction that
// checkTxBatch puts on its list of accepted ones; so a position enters that list only on paths on which the result's
// metadata was tested non-nil (or the result was turned into an error, or it was not a success to begin with).
func c16CheckTxMeta(c *Ctx) {
	fn := c.needFn("C16.frames", "runtime/txpool.(*txPool).checkTxBatch")
	if fn == nil {
		return
	}
	c.Analysed[fname(fn)] = true
	const resT = "runtime/host/protocol.CheckTxResult"
	var targets []ssa.Instruction
	cut := NewCut()
	for _, b := range blocksIP(fn) {
		for _, in := range b.Instrs {
			switch x := in.(type) {
			case *ssa.Call:
				if bi, ok := x.Call.Value.(*ssa.Builtin); ok && bi.Name() == "append" {
					if sl, ok := x.Type().Underlying().(*types.Slice); ok {
						if bt, ok := sl.Elem().Underlying().(*types.Basic); ok && bt.Kind() == types.Int {
							targets = append(targets, in)
						}
					}
				}
			case *ssa.Store:
				if fa, ok := x.Addr.(*ssa.FieldAddr); ok && namedOf(derefType(fa.X.Type())) == resT && fieldName(fa.X.Type(), fa.Field) == "Error" {
					cut.AddInstr(in)
				}
			}
		}
		iff := lastIfOf(b)
		if iff == nil {
			continue
		}
		cond, pol := stripNot(iff.Cond, true)
		switch x := cond.(type) {
		case *ssa.Call:
			if calleeNameCommon(&x.Call) == "runtime/host/protocol.(*CheckTxResult).IsSuccess" {
				// the edge on which the result is not a success
				if pol {
					cut.AddEdges(Edge{b, 1})
				} else {
					cut.AddEdges(Edge{b, 0})
				}
			}
		case *ssa.BinOp:
			var subj ssa.Value
			if isNilConst(x.Y) {
				subj = x.X
			} else if isNilConst(x.X) {
				subj = x.Y
			}
			if subj == nil || !loadsField(subj, "Meta") {
				continue
			}
			if u, ok := subj.(*ssa.UnOp); ok {
				if fa, ok := u.X.(*ssa.FieldAddr); !ok || namedOf(derefType(fa.X.Type())) != resT {
					continue
				}
			}
			nonNilIdx := 0
			if x.Op == token.EQL {
				nonNilIdx = 1
			}
			if !pol {
				nonNilIdx = 1 - nonNilIdx
			}
			cut.AddEdges(Edge{b, nonNilIdx})
		}
	}
	inst := fname(fn) + ":accepted ⇒ the check result's metadata was tested non-nil"
	if len(targets) == 0 {
		c.Fail("C16.frames", inst, c.P.Pos(fn.Pos()), "the list of accepted batch positions was not found in checkTxBatch (unresolved anchor)")
		return
	}
	hit := Reach(fn, nil, nil, anyOf(targets), cut)
	site := c.P.InstrPos(targets[0])
	if hit != nil {
		site = c.P.InstrPos(hit)
	}
	c.Check(hit == nil, "C16.frames", inst, site, "every path on which a position is recorded as accepted tests Meta != nil, or stores an error into the result, or is a path for results that are not a success", "a batch position is recorded as accepted on a path on which the result's optional metadata was never tested: checkTxBatch then dereferences a nil Meta for it — a runtime that answers a check with a successful result without metadata crashes the transaction check worker")
}

// c16Snapshots (F53–F55): the state-sync entry points of the multiplexer take snapshot metadata and chunks from
// untrusted peers.
func c16Snapshots(c *Ctx) {
	const rule = "C16.snapshot"
	const pk = "consensus/cometbft/abci"
	if fn := c.needFn(rule, pk+".(*abciMux).ApplySnapshotChunk"); fn != nil {
		c.Analysed[fname(fn)] = true
		// (a) F53: when RestoreChunk fails and the restore does not go on (the chunk is neither "already restored" nor
		// "corrupted, fetch again"), the multipart insert that OfferSnapshot started is aborted before the answer is
		// returned; otherwise the next snapshot offered cannot be restored and state sync is given up.
		var restore ssa.CallInstruction
		var aborts []ssa.Instruction
		for _, call := range callsIn(fn) {
			switch calleeName(call) {
			case "storage/mkvs/checkpoint.(Restorer).RestoreChunk", "iface:storage/mkvs/checkpoint.(Restorer).RestoreChunk":
				restore = call
			case "storage/mkvs/db/api.(NodeDB).AbortMultipartInsert", "iface:storage/mkvs/db/api.(NodeDB).AbortMultipartInsert":
				aborts = append(aborts, call)
			}
		}
		inst := fname(fn) + ":RestoreChunk failed and the restore is over ⇒ AbortMultipartInsert"
		if restore == nil {
			for _, call := range callsIn(fn) {
				if strings.HasSuffix(calleeName(call), ".RestoreChunk") {
					restore = call
				}
				if strings.HasSuffix(calleeName(call), ".AbortMultipartInsert") {
					aborts = append(aborts, call)
				}
			}
		}
		if restore == nil {
			c.Fail(rule, inst, c.P.Pos(fn.Pos()), "RestoreChunk call not found (unresolved anchor)")
		} else {
			fail, found := FailEdges(restore)
			cut := NewCut().AddInstr(aborts...)
			cut.AddEdges(HeldEdges(fn, `^call:.*errors\.Is\(.*RestoreChunk\(.*\)#1,\*global:storage/mkvs/checkpoint\.(ErrChunkAlreadyRestored|ErrChunkCorrupted)\)$`)...)
			isRet := func(in ssa.Instruction) bool { _, ok := in.(*ssa.Return); return ok }
			var hit ssa.Instruction
			if found && len(fail) > 0 {
				hit = Reach(fn, nil, fail, isRet, cut)
			}
			site := c.P.InstrPos(restore)
			if hit != nil {
				site = c.P.InstrPos(hit)
			}
			c.Check(found && len(fail) > 0 && len(aborts) > 0 && hit == nil, rule, inst, site, "every path from a RestoreChunk failure to a return aborts the multipart insert, except where the error is ErrChunkAlreadyRestored or ErrChunkCorrupted (the restore goes on)", "ApplySnapshotChunk answers a RestoreChunk failure that ends the restore without aborting the multipart insert that OfferSnapshot started: the node database keeps it open, the next snapshot offered fails StartMultipartInsert and is answered with ABORT — one peer with a bad chunk makes the node give up state sync")
		}
		// (b) F55: the current checkpoint is nil when no restore is in progress; it is dereferenced only where tested.
		var cur ssa.Value
		for _, call := range callsIn(fn) {
			if strings.HasSuffix(calleeName(call), ".GetCurrentCheckpoint") {
				cur = call.Value()
			}
		}
		inst = fname(fn) + ":the current checkpoint is tested non-nil before it is dereferenced"
		if cur == nil {
			c.Fail(rule, inst, c.P.Pos(fn.Pos()), "GetCurrentCheckpoint call not found (unresolved anchor)")
		} else {
			cut := nonNilCut(fn, func(s ssa.Value) bool { return s == cur })
			var derefs []ssa.Instruction
			for _, b := range blocksIP(fn) {
				for _, in := range b.Instrs {
					if fa, ok := in.(*ssa.FieldAddr); ok && fa.X == cur {
						derefs = append(derefs, in)
					}
				}
			}
			var hit ssa.Instruction
			if len(derefs) > 0 {
				hit = Reach(fn, nil, nil, anyOf(derefs), cut)
			}
			site := c.P.Pos(fn.Pos())
			if hit != nil {
				site = c.P.InstrPos(hit)
			}
			c.Check(len(derefs) > 0 && hit == nil, rule, inst, site, "all "+itoa(len(derefs))+" dereferences are behind the non-nil branch of a test", "the checkpoint returned by GetCurrentCheckpoint is dereferenced on a path on which it was not tested: it is nil when no restore is in progress (a chunk applied after the restorer aborted itself), and the node panics instead of answering ABORT")
		}
	}
	// (c) F54: the multipart insert is started only for a root whose version is the snapshot height and whose type is the
	// state root type — of the untrusted metadata, only the hash would otherwise be compared with trusted data.
	if fn := c.needFn(rule, pk+".(*abciMux).OfferSnapshot"); fn != nil {
		var start []ssa.Instruction
		for _, call := range callsIn(fn) {
			if strings.HasSuffix(calleeName(call), ".StartMultipartInsert") {
				start = append(start, call)
			}
		}
		ev := Ev{Name: "StartMultipartInsert", Fn: fn, Ins: start}
		c.DominatedByCond(rule, fn, "root version == snapshot height", `\.Root\.Version == .*\.Snapshot\.Height$`, ev, "the root version in the (untrusted) checkpoint metadata must be the height of the offered snapshot: otherwise the state is restored and finalized under a version that is not the consensus height (or, for version 0, StartMultipartInsert fails and state sync is aborted instead of the snapshot being rejected)")
		c.DominatedByCond(rule, fn, "root type == state root", `\.Root\.Type == 1$`, ev, "the root type in the (untrusted) checkpoint metadata must be the state root type")
		c.DominatedByCond(rule, fn, "root hash == trusted app hash", `^common/crypto/hash\.\(\*Hash\)\.Equal\((.*Metadata\.Root\.Hash,.*|.*,.*Metadata\.Root\.Hash)\)$`, ev, "the root hash in the (untrusted) checkpoint metadata must be the trusted application hash")
	}
}

// c19ResultFields (known finding F58): of a transaction result obtained from the provider, the stateless node hands on
// only what the verified results hash covers. The covered set is read from CometBFT itself (the fields that
// types.deterministicResponseDeliverTx copies into what is hashed); every other field of a ResponseDeliverTx that the
// stateless result paths read (directly or through its getter) is content the provider can alter unnoticed.
func c19ResultFields(c *Ctx) {
	const rule = "C19.rescov"
	const resT = "github.com/cometbft/cometbft/abci/types.ResponseDeliverTx"
	var det *ssa.Function
	if pkg := c.P.SSA.ImportedPackage("github.com/cometbft/cometbft/types"); pkg != nil {
		det = pkg.Func("deterministicResponseDeliverTx")
	}
	if det == nil || det.Blocks == nil {
		c.Undecided(rule, "hashed fields", "", "CometBFT's deterministicResponseDeliverTx was not found in the loaded program (the set of hashed result fields cannot be derived)")
		return
	}
	isRes := func(t types.Type) bool {
		n, ok := derefType(t).(*types.Named)
		return ok && n.Obj().Pkg() != nil && n.Obj().Pkg().Path()+"."+n.Obj().Name() == resT
	}
	fieldsRead := func(fn *ssa.Function) map[string]ssa.Instruction {
		out := map[string]ssa.Instruction{}
		for _, b := range blocksIP(fn) {
			for _, in := range b.Instrs {
				switch x := in.(type) {
				case *ssa.FieldAddr:
					if isRes(x.X.Type()) {
						// a store into a freshly built value is not a read
						stored := false
						if refs := x.Referrers(); refs != nil {
							for _, r := range *refs {
								if st, ok := r.(*ssa.Store); ok && st.Addr == ssa.Value(x) {
									stored = true
								}
							}
						}
						if !stored {
							out[fieldName(x.X.Type(), x.Field)] = in
						}
					}
				case *ssa.Field:
					if isRes(x.X.Type()) {
						out[fieldName(x.X.Type(), x.Field)] = in
					}
				case ssa.CallInstruction:
					if callee := x.Common().StaticCallee(); callee != nil && callee.Signature.Recv() != nil && isRes(callee.Signature.Recv().Type()) && strings.HasPrefix(callee.Name(), "Get") {
						out[strings.TrimPrefix(callee.Name(), "Get")] = in
					}
				}
			}
		}
		return out
	}
	hashed := map[string]bool{}
	for f := range fieldsRead(det) {
		hashed[f] = true
	}
	c.Check(len(hashed) >= 2 && hashed["Code"] && hashed["Data"], rule, "hashed fields of a transaction result", "", "CometBFT hashes {"+joinKeys(hashed)+"}", "the set of result fields CometBFT hashes could not be derived from deterministicResponseDeliverTx")
	// the stateless result paths: what turns verified provider results into what callers get
	readers := []string{
		"consensus/cometbft/full.TransactionResultsFromCometBFT",
		"consensus/cometbft/api.NewBlockResultsMeta",
		"consensus/cometbft/stateless.verifyBlockResults",
		"consensus/cometbft/stateless.(*Core).verifyBlockResults",
		"consensus/cometbft/stateless.(*Core).GetTransactionsWithResults",
	}
	for _, f := range c.P.FuncsInPkg("consensus/cometbft/stateless") {
		readers = append(readers, fname(f))
	}
	seen := map[string]bool{}
	n := 0
	for _, rn := range readers {
		if seen[rn] {
			continue
		}
		seen[rn] = true
		fn := c.P.Fn(rn)
		if fn == nil || fn.Blocks == nil {
			continue
		}
		fr := fieldsRead(fn)
		if len(fr) == 0 {
			continue
		}
		c.Analysed[fname(fn)] = true
		var names []string
		for f := range fr {
			names = append(names, f)
		}
		sort.Strings(names)
		for _, f := range names {
			n++
			inst := fname(fn) + ":result field " + f + " is covered by the results hash"
			c.Check(hashed[f], rule, inst, c.P.InstrPos(fr[f]), "covered (CometBFT hashes it)", "the stateless result path reads field "+f+" of a provider's transaction result, which the results hash in the next header does not cover (CometBFT hashes only {"+joinKeys(hashed)+"}): the provider can alter it and the altered value is handed to the caller as verified")
		}
	}
	c.Floor(rule, n, 4, "result fields read on the stateless result paths")
}

// c10VRFProofWriters: the beacon's BeginBlock extracts the VRF output of every stored proof with UnsafeToHash, which
// panics for a malformed proof; so proofs enter the VRF state only where their verification has succeeded.
func c10VRFProofWriters(c *Ctx) {
	const rule = "C10.panics"
	n := 0
	for _, fn := range c.P.ModFuncs {
		if fn.Blocks == nil || !strings.HasPrefix(short(fpkgPath(fn)), "consensus/cometbft/apps/beacon") {
			continue
		}
		var ups []ssa.Instruction
		for _, b := range blocksIP(fn) {
			for _, in := range b.Instrs {
				mu, ok := in.(*ssa.MapUpdate)
				if !ok {
					continue
				}
				mt, ok := mu.Map.Type().Underlying().(*types.Map)
				if !ok || namedOf(derefType(mt.Elem())) != "common/crypto/signature.Proof" {
					continue
				}
				ups = append(ups, in)
			}
		}
		if len(ups) == 0 {
			continue
		}
		n++
		c.DominatedByCond(rule, fn, "proof.Verify(alpha) ok", `^common/crypto/signature\.\(\*Proof\)\.Verify\(.*\)#0$`, Ev{Name: "store into the VRF proof map", Fn: fn, Ins: ups}, "a VRF proof is stored only after it verified: the next epoch transition extracts its output with UnsafeToHash, which panics (in BeginBlock, on every node) for a proof that does not decode")
	}
	c.Floor(rule, n, 1, "functions that store VRF proofs")
}

// errPathNilDerefs: call sites `v, err := f(...)` of module functions where f returns a nil v with every non-nil error
// it makes itself, and v is dereferenced on a path on which err is known to be non-nil (the failure edge of the error
// test, or an arm of a switch on err that compares it with a non-nil sentinel).
func errPathNilDerefs(g *CG, fn *ssa.Function) []ssa.Instruction {
	var out []ssa.Instruction
	for _, call := range callsIn(fn) {
		cv := call.Value()
		if cv == nil {
			continue
		}
		tup, ok := cv.Type().(*types.Tuple)
		if !ok || tup.Len() != 2 || !isErrorType(tup.At(1).Type()) {
			continue
		}
		if _, isPtr := tup.At(0).Type().Underlying().(*types.Pointer); !isPtr {
			continue
		}
		var impls []*ssa.Function
		if call.Common().IsInvoke() {
			impls = g.impls[tfname(call.Common().Method)]
		} else if callee := call.Common().StaticCallee(); callee != nil {
			impls = []*ssa.Function{callee}
		}
		if len(impls) == 0 {
			continue
		}
		nilOnErr := true
		for _, f := range impls {
			if f.Blocks == nil {
				nilOnErr = false
				break
			}
			for _, r := range Returns(f) {
				if r.Block() == f.Recover {
					continue // the synthetic exit after a recovered panic re-reads the spilled results
				}
				if len(r.Results) != 2 {
					nilOnErr = false
					continue
				}
				if isNilConst(unspill(r.Results[1])) {
					continue
				}
				if !isNilConst(unspill(r.Results[0])) {
					nilOnErr = false
				}
			}
		}
		if !nilOnErr {
			continue
		}
		var val, errv ssa.Value
		if refs := cv.Referrers(); refs != nil {
			for _, r := range *refs {
				if ex, ok := r.(*ssa.Extract); ok {
					if ex.Index == 0 {
						val = ex
					} else {
						errv = ex
					}
				}
			}
		}
		if val == nil || errv == nil {
			continue
		}
		// edges on which err is known non-nil
		var bad, nilEdges []Edge
		for _, b := range fn.Blocks {
			iff := lastIfOf(b)
			if iff == nil {
				continue
			}
			bo, ok := iff.Cond.(*ssa.BinOp)
			if !ok || (bo.Op != token.EQL && bo.Op != token.NEQ) {
				continue
			}
			var other ssa.Value
			if bo.X == errv {
				other = bo.Y
			} else if bo.Y == errv {
				other = bo.X
			} else {
				continue
			}
			if isNilConst(other) {
				if bo.Op == token.NEQ {
					bad = append(bad, Edge{b, 0})
					nilEdges = append(nilEdges, Edge{b, 1})
				} else {
					bad = append(bad, Edge{b, 1})
					nilEdges = append(nilEdges, Edge{b, 0})
				}
				continue
			}
			// err == <sentinel>: a load of a package-level error variable
			if u, ok := other.(*ssa.UnOp); ok {
				if _, isG := u.X.(*ssa.Global); isG {
					if bo.Op == token.EQL {
						bad = append(bad, Edge{b, 0})
					} else {
						bad = append(bad, Edge{b, 1})
					}
				}
			}
		}
		// on the not-equal edge of a sentinel test err may still be nil: only the equal edge is an error path
		if len(bad) == 0 {
			continue
		}
		var derefs []ssa.Instruction
		if refs := val.Referrers(); refs != nil {
			for _, r := range *refs {
				switch x := r.(type) {
				case *ssa.FieldAddr:
					if x.X == val {
						derefs = append(derefs, x)
					}
				case *ssa.UnOp:
					if x.Op == token.MUL && x.X == val {
						derefs = append(derefs, x)
					}
				}
			}
		}
		if len(derefs) == 0 {
			continue
		}
		// reachable from an error edge without passing an edge on which err is nil again (loops) — start at each
		// bad edge; the opposite edges of the same tests are not taken by construction.
		for _, e := range bad {
			// do not walk through the success edge of any test of the same err, nor through the non-nil edge of a
			// test of the value itself
			v := val
			cut := nonNilCut(fn, func(subj ssa.Value) bool { return subj == v })
			for _, e2 := range nilEdges {
				cut.AddEdges(e2)
			}
			if hit := ReachPS(fn, []Edge{e}, anyOf(derefs), cut); hit != nil {
				out = append(out, hit)
				break
			}
		}
	}
	return out
}

// c10ErrPathNil: on the block-execution cone no result pointer is dereferenced on the error path of the call that
// returned it (where the callee returns nil together with its errors): the dereference panics exactly when the error
// occurs — in a branch that exists to handle the error.
func c10ErrPathNil(c *Ctx, g *CG, cone []*ssa.Function) {
	n, nd := 0, 0
	for _, f := range cone {
		if f.Blocks == nil || !inModule(fpkgPath(f)) {
			continue
		}
		n++
		for _, hit := range errPathNilDerefs(g, f) {
			nd++
			key := fname(f) + ":" + vstr(hit.(ssa.Value))
			c.Fail("C10.nilerr", key, c.P.InstrPos(hit), "a pointer result is dereferenced on the error path of the call that returned it, and the callee returns nil with its errors: the handler of the error panics with a nil dereference instead of handling it")
		}
	}
	c.Check(true, "C10.nilerr", "functions on the block-execution cone scanned for dereferences of a nil result on the error path", "", itoa(n)+" functions, "+itoa(nd)+" findings", "")
	c.Floor("C10.nilerr", n, 500, "functions on the cone")
}

// c10ProposalIDs (F61): a submitted proposal is stored under "largest genesis identifier + 1" without looking whether
// that identifier is taken, so the genesis sanity check must not let an iteration of its loop over the proposals
// complete without having tested the identifier against the maximum (the counter would wrap to an existing proposal)
// and against the identifiers seen so far.
func c10ProposalIDs(c *Ctx) {
	const rule = "C10.support"
	// (F63) the counter is advanced only where its current value was compared with the maximum: a wrapped counter hands
	// out identifiers of existing proposals (the replaced proposal stays in the active index twice, is closed twice and
	// the deposits pool cannot cover the last closing proposal).
	if fn := c.needFn(rule, "consensus/cometbft/apps/governance.(*Application).submitProposal"); fn != nil {
		ev := CallsTo(fn, "SetNextProposalIdentifier(id+1)", "consensus/cometbft/apps/governance/state.(*MutableState).SetNextProposalIdentifier", "")
		c.DominatedByCond(rule, fn, "next identifier != 2^64-1", `NextProposalIdentifier\(.*\)#0 != 18446744073709551615$`, ev, "the proposal identifier counter is incremented without a wrap-around check: at 2^64-1 (reachable from a legal genesis document with a large identifier) it wraps to 0 and the next submitted proposal replaces proposal 0 — closed twice, the governance deposits pool runs dry and EndBlock halts the chain (F63)")
	}
	fn := c.needFn(rule, "governance/api.SanityCheckProposals")
	if fn == nil {
		return
	}
	c.Analysed[fname(fn)] = true
	var hdr []Edge
	for _, b := range fn.Blocks {
		iff := lastIfOf(b)
		if iff == nil {
			continue
		}
		if regexp.MustCompile(`< builtin\.len\(param:proposals\)$`).MatchString(normCond(iff.Cond, true)) {
			hdr = append(hdr, Edge{b, 0})
		}
	}
	inst := fname(fn) + ":every proposal's identifier is tested against the maximum and against the ones seen"
	if len(hdr) != 1 {
		c.Fail(rule, inst, c.P.Pos(fn.Pos()), "the loop over the proposals was not found (unresolved anchor)")
		return
	}
	head := hdr[0].From
	backToHead := func(in ssa.Instruction) bool { return in.Block() == head && in == head.Instrs[0] }
	okMax := HeldEdges(fn, `\.ID != 18446744073709551615$`)
	var okSeen []Edge
	for _, b := range fn.Blocks {
		iff := lastIfOf(b)
		if iff == nil {
			continue
		}
		cond, pol := stripNot(iff.Cond, true)
		ex, ok := cond.(*ssa.Extract)
		if !ok || ex.Index != 1 {
			continue
		}
		if lk, ok := ex.Tuple.(*ssa.Lookup); ok && lk.CommaOk && loadsField(lk.Index, "ID") {
			// the edge on which the identifier was NOT seen before
			if pol {
				okSeen = append(okSeen, Edge{b, 1})
			} else {
				okSeen = append(okSeen, Edge{b, 0})
			}
		}
	}
	bad := ""
	if len(okMax) == 0 || Reach(fn, nil, hdr, backToHead, NewCut().AddEdges(okMax...)) != nil {
		bad = "an iteration can complete without the identifier having been compared with the maximum (the next-identifier counter wraps to an existing proposal)"
	}
	if len(okSeen) == 0 || Reach(fn, nil, hdr, backToHead, NewCut().AddEdges(okSeen...)) != nil {
		if bad != "" {
			bad += "; "
		}
		bad += "an iteration can complete without the identifier having been looked up among the ones seen so far (duplicate identifiers)"
	}
	c.Check(bad == "", rule, inst, c.P.Pos(fn.Pos()), "no iteration of the loop completes without both tests", "SanityCheckProposals accepts proposals whose identifiers collide with the next identifier or with each other: "+bad+" — a transaction-submitted proposal then replaces a stored one, and when that was a passed upgrade proposal governance BeginBlock fails at the next epoch transition (F61)")
}


// c10DistributionChange (F62): the genesis document is rejected when the total supply cannot be converted to voting
// power under its distribution, which is what bounds every escrow balance the election converts. A parameter change
// that sets the distribution is accepted only after the same conversion of the current total supply succeeded.
func c10DistributionChange(c *Ctx) {
	const rule = "C10.support"
	fn := c.needFn(rule, "consensus/cometbft/apps/scheduler.(*Application).changeParameters")
	if fn == nil {
		return
	}
	c.Analysed[fname(fn)] = true
	cut := NewCut()
	n := 0
	for _, call := range callsIn(fn) {
		if calleeName(call) != "scheduler/api.VotingPowerFromStake" {
			continue
		}
		a := allArgs(call)
		if len(a) < 1 || !strings.Contains(vstr(a[0]), ".TotalSupply(") {
			continue
		}
		if es, ok := SuccessEdges(call); ok {
			cut.AddEdges(es...)
			n++
		}
	}
	cut.AddEdges(HeldEdges(fn, `ConsensusParameterChanges\.VotingPowerDistribution == nil$`)...)
	cut.AddEdges(HeldEdges(fn, `^[^!].*\.DebugBypassStake$`)...)
	cut.AddEdges(HeldEdges(fn, `\.Module != "scheduler"$`)...)
	var hit ssa.Instruction
	for _, r := range SuccessReturns(fn) {
		if h := Reach(fn, nil, nil, isInstr(r), cut); h != nil {
			hit = h
		}
	}
	site := c.P.Pos(fn.Pos())
	if hit != nil {
		site = c.P.InstrPos(hit)
	}
	c.Check(n > 0 && hit == nil, rule, fname(fn)+":a change of the voting power distribution is accepted only if the total supply converts under it", site, "every accepting path either leaves the distribution alone or passes the success edge of VotingPowerFromStake(total supply)", "a ChangeParameters proposal can set the voting power distribution without the total supply having been converted under it: with an escrow balance that converts only under the old distribution (sqrt → linear) the next validator election fails and the scheduler's BeginBlock halts the chain (F62)")
}

// c05Round4 (written after seeds C05r4/10..12 were missed).
func c05Round4(c *Ctx) {
	// (a) seed 11 was reported by C09 only: the fee a failed transaction paid stays in the block's fee accumulator, so
	// its debit must not be rolled back with the transaction.
	deliverContextRule(c, "C05.pair")
	c05LoadedAccounts(c)
	const sp = "consensus/cometbft/apps/staking/state"
	// (b) the ledger accessor hands out an account only for an address that is valid, i.e. well-formed and NOT one of
	// the reserved pool addresses: the pools are separate records, and an "account" for a pool address that a handler
	// credits and stores would be a second copy of the pool (counted twice) under a ledger key.
	if fn := c.needFn("C05.ledger", sp+".(*ImmutableState).Account"); fn != nil {
		c.SuccessRequiresCond("C05.ledger", fn, "address.IsValid()", `^staking/api\.\(Address\)\.IsValid\(param:address\)$`, "the staking ledger has no entry for the reserved pool addresses (common pool, fee accumulator, governance deposits): an account handed out for one of them and written back by a transfer or escrow handler duplicates the pool's balance in the ledger and loses the amount credited to it")
	}
	// (c) account records are never removed: an account is more than its balances — the escrow pools' total shares
	// are what the delegations into it are counted against, and a removed record reads back as zero shares.
	n, bad := 0, 0
	for _, fn := range c.P.FuncsInPkg(sp) {
		for _, call := range callsIn(fn) {
			if !strings.HasSuffix(calleeName(call), ".Remove") {
				continue
			}
			args := allArgs(call)
			if len(args) < 3 {
				continue
			}
			n++
			if strings.Contains(vstr(args[2]), "*global:"+sp+".accountKeyFmt") {
				bad++
				c.Fail("C05.ledger", fname(fn)+":account records are never removed", c.P.InstrPos(call), "an account record is removed from the ledger: whatever the removed record still carried (escrow pool total shares with outstanding delegations, a nonce) reads back as zero — delegations into the pool then exceed its total shares and new deposits are priced 1:1")
			}
		}
	}
	if bad == 0 {
		c.OK("C05.ledger", sp+":account records are never removed", "", itoa(n)+" removals in the staking state package, none of an account record")
	}
	c.Floor("C05.ledger", n, 5, "state removals in the staking state package (delegations, debonding queue, …)")
}


// c01Round4 (written after seeds C01r4/10..12 were missed by C01).
func c01Round4(c *Ctx, ix *Index) {
	// (a) seed 11 was reported by C09 only: whether a transaction is accepted must be a function of its bytes and the
	// state — decodeTx returns a transaction only through the signature check, not through anything the node remembers.
	if fn := c.needFn("C01.nondet", fnDecodeTx); fn != nil {
		open := CallsTo(fn, "sigTx.Open", fnSTOpen, "")
		c.SuccessRequiresEdges("C01.nondet", fn, "SignedTransaction.Open✓", mustSuccessEdges(open), "a transaction is accepted only if its signature verified on this node now (not because a node-local cache says it once did): replicas with different caches would otherwise disagree on the same block")
	}
	// (b) seed 10: the applications ask the node for the epoch of a *height* through ApplicationQueryState.GetEpoch,
	// which reads the node's own database at that version. Only the heights every replica still has are asked for: the
	// context's current or last height — never a height taken from block content (evidence, transactions), which a
	// pruning replica may no longer have while an archive replica does.
	n := 0
	ownHeight := func(h ssa.Value) bool {
		call, ok := h.(*ssa.Call)
		if !ok {
			return false
		}
		n := calleeNameCommon(&call.Call)
		return n == "consensus/cometbft/api.(*Context).CurrentHeight" || n == "consensus/cometbft/api.(*Context).LastHeight"
	}
	for _, fn := range c.P.ModFuncs {
		if fn.Blocks == nil || !strings.HasPrefix(short(fpkgPath(fn)), "consensus/cometbft/apps/") {
			continue
		}
		for _, call := range callsIn(fn) {
			nm := calleeName(call)
			if nm != "consensus/cometbft/api.(ApplicationQueryState).GetEpoch" && nm != "consensus/cometbft/api.(ApplicationState).GetEpoch" {
				continue
			}
			n++
			args := call.Common().Args
			h := args[len(args)-1]
			c.Analysed[fname(fn)] = true
			c.Check(ownHeight(h), "C01.local", fname(fn)+":GetEpoch is asked for the context's own height", c.P.InstrPos(call), "the height is ctx.CurrentHeight()/ctx.LastHeight()", "the application asks the node for the epoch at height "+vstr(h)+", which is not the height of its own context: the answer is read from the node's database at that version, which a replica that has pruned it cannot give (it fails the block) while a replica that keeps everything can — replicas disagree on the block")
		}
	}
	c.Floor("C01.local", n, 6, "GetEpoch(height) calls in the applications")
	// (c) seed 12: the cached results of the proposal being prepared are what the proposer later hands out for the
	// block it proposed; they change only by being set as a whole, consumed in order, reset, or extended with the
	// results of the system transactions that PrepareProposal appends — never filtered after execution (the executed
	// transactions' effects are in the proposal's state whether or not their results are kept).
	const f = "consensus/cometbft/abci.proposalState.resultsDeliverTx"
	c.WhoMayStore(ix, "C01.cache", f, []string{
		"consensus/cometbft/abci.(*proposalState).setResults", "consensus/cometbft/abci.(*proposalState).reset",
		"consensus/cometbft/abci.(*abciMux).DeliverTx", "consensus/cometbft/abci.(*abciMux).PrepareProposal",
	}, "the cached transaction results of a proposal are written only where they are set as a whole, consumed in order, reset or extended by the system transactions")
	if fn := c.needFn("C01.cache", "consensus/cometbft/abci.(*abciMux).PrepareProposal"); fn != nil {
		ok, nst := true, 0
		site := c.P.Pos(fn.Pos())
		for _, s := range ix.FieldStores[f] {
			if s.Fn != fn && !inHelpers(fn, s.Fn) { // a new helper of PrepareProposal is part of it (ip.go)
				continue
			}
			nst++
			st := s.In.(*ssa.Store)
			grows := false
			if call, isCall := st.Val.(*ssa.Call); isCall {
				if b, isB := call.Call.Value.(*ssa.Builtin); isB && b.Name() == "append" && len(call.Call.Args) > 0 && loadsField(call.Call.Args[0], "resultsDeliverTx") {
					grows = true
				}
			}
			if !grows {
				ok = false
				site = c.P.InstrPos(st)
			}
		}
		c.Check(ok && nst > 0, "C01.cache", fname(fn)+":the cached results only grow (system transaction results appended)", site, "every store in PrepareProposal appends to the current results", "PrepareProposal replaces the cached results of the executed proposal by something other than the current results plus appended ones: the proposer's block (and the state root in its metadata, computed after executing every transaction) no longer corresponds to the transaction list it proposes, and every other validator rejects it")
	}
}

// c09Round4 (written after seeds C09r4/11 and 12 were missed by C09).
func c09Round4(c *Ctx) {
	// (a) seed 12 was reported by C01 only.
	resetProposalRule(c, "C09.exec")
	// (b) seed 11: nothing that carries a signer's nonce is kept in the per-block context. The block context lives
	// across all transactions of a block; a copy of an account put there in BeginBlock and written back in EndBlock
	// undoes the nonce advances of that account's transactions in the block, and the same signed bytes execute again.
	n := 0
	bad := 0
	for _, fn := range c.P.ModFuncs {
		if fn.Blocks == nil {
			continue
		}
		for _, call := range callsIn(fn) {
			if calleeName(call) != "consensus/cometbft/api.(*BlockContext).Set" {
				continue
			}
			n++
			args := allArgs(call)
			v := args[len(args)-1]
			if mi, ok := v.(*ssa.MakeInterface); ok {
				v = mi.X
			}
			if carriesLedger(v.Type(), 0) {
				bad++
				c.Fail("C09.nonce", fname(fn)+":no account state is kept in the block context", c.P.InstrPos(call), "a value of type "+typeStr(v.Type())+" (it contains a staking account) is stored in the per-block context: a copy taken before the block's transactions and written back after them undoes their nonce advances (and balance changes) — the same signed transaction can then be executed again")
			}
		}
	}
	if bad == 0 {
		c.OK("C09.nonce", "block context:no account state is kept in the block context", "", itoa(n)+" BlockContext.Set call sites, none stores a value containing a staking account")
	}
	c.Floor("C09.nonce", n, 1, "BlockContext.Set call sites")
}

// carriesLedger: the type is, points to or contains a staking account (general or escrow).
func carriesLedger(t types.Type, d int) bool {
	if d > 4 {
		return false
	}
	switch n := namedOf(derefType(t)); n {
	case "staking/api.Account", "staking/api.GeneralAccount", "staking/api.EscrowAccount":
		return true
	}
	switch u := derefType(t).Underlying().(type) {
	case *types.Struct:
		for i := 0; i < u.NumFields(); i++ {
			if carriesLedger(u.Field(i).Type(), d+1) {
				return true
			}
		}
	case *types.Slice:
		return carriesLedger(u.Elem(), d+1)
	case *types.Map:
		return carriesLedger(u.Elem(), d+1)
	}
	return false
}

// guardAtoms: the conditions of the branch edges that lead (through unconditional jumps only) into the block of an
// instruction — for `if a || b { X }` the atoms of X are {a, b}, whether the disjunction is written as one test or as
// two tests with the same body, so an inventory keyed by atoms does not depend on that spelling.
func guardAtoms(in ssa.Instruction) []string {
	seen := map[*ssa.BasicBlock]bool{}
	atoms := map[string]bool{}
	var walk func(b *ssa.BasicBlock, d int)
	walk = func(b *ssa.BasicBlock, d int) {
		if seen[b] || d > 6 {
			return
		}
		seen[b] = true
		if len(b.Preds) == 0 {
			atoms["(unconditional)"] = true
			return
		}
		for _, p := range b.Preds {
			iff := lastIfOf(p)
			if iff == nil {
				walk(p, d+1)
				continue
			}
			for si, s := range p.Succs {
				if s == b {
					atoms[normCond(iff.Cond, si == 0)] = true
				}
			}
		}
	}
	walk(in.Block(), 0)
	var out []string
	for a := range atoms {
		out = append(out, a)
	}
	sort.Strings(out)
	return out
}

// c05LoadedAccounts (F64): outside genesis, every account that is stored was loaded from the ledger first — SetAccount
// replaces the whole record, so a freshly built account destroys the balances, shares and nonce stored under the
// address (anybody can transfer or escrow to any address beforehand).
func c05LoadedAccounts(c *Ctx) {
	const rule = "C05.pair"
	const set = "consensus/cometbft/apps/staking/state.(*MutableState).SetAccount"
	n, bad := 0, 0
	for _, fn := range c.P.ModFuncs {
		if fn.Blocks == nil {
			continue
		}
		pp := short(fpkgPath(fn))
		if strings.HasPrefix(pp, "oasis-test-runner") || strings.HasSuffix(pp, "/tests") || strings.Contains(fname(fn), "InitChain") || strings.Contains(fname(fn), "enesis") {
			continue
		}
		for _, call := range callsIn(fn) {
			if calleeName(call) != set {
				continue
			}
			n++
			args := allArgs(call)
			acct := args[len(args)-1]
			ok := false
			for _, r := range Roots(acct) {
				if r.Kind == "param" {
					ok = true // a helper storing its caller's account (checked at the caller)
				}
				if strings.Contains(r.Name, ".Account(") || strings.Contains(r.Name, "Account)") || strings.Contains(r.String(), ").Account(") {
					ok = true
				}
			}
			if strings.Contains(vstr(acct), ").Account(") {
				ok = true
			}
			if !ok {
				if reason, tabled := c.Tabled("c05_loaded", fname(fn)); tabled {
					c.TabledOK(rule, fname(fn)+":the stored account was loaded from the ledger", c.P.InstrPos(call), reason)
					continue
				}
			}
			if !ok {
				bad++
				c.Fail(rule, fname(fn)+":the stored account was loaded from the ledger", c.P.InstrPos(call), "SetAccount stores an account that was not obtained from the ledger ("+vstr(acct)+"): the record under the address is replaced as a whole, so balances, escrow pool shares and the nonce already stored there are destroyed while the total supply and the delegations into the pools stay")
			}
		}
	}
	// the accumulator cache's accounts map is filled only with what Account() returned
	nmu, okmu := 0, true
	for _, fn := range c.P.FuncsInPkg("consensus/cometbft/apps/staking/state") {
		for _, b := range blocksIP(fn) {
			for _, in := range b.Instrs {
				mu, isMU := in.(*ssa.MapUpdate)
				if !isMU || !loadsField(mu.Map, "accounts") {
					continue
				}
				nmu++
				if !strings.Contains(vstr(mu.Value), ").Account(") {
					okmu = false
					c.Fail(rule, fname(fn)+":the accumulator cache holds only loaded accounts", c.P.InstrPos(in), "the stake accumulator cache stores an account that is not the result of state.Account: Commit writes its accounts back as whole records")
				}
			}
		}
	}
	if okmu {
		c.Check(nmu > 0, rule, "staking/state:the accumulator cache holds only loaded accounts", "", itoa(nmu)+" map update(s) of the cache, each stores the result of state.Account", "no update of the accumulator cache's accounts map was found (unresolved anchor)")
	}
	if bad == 0 {
		c.OK(rule, "every account stored outside genesis was loaded from the ledger", "", itoa(n)+" SetAccount call sites")
	}
	c.Floor(rule, n, 15, "SetAccount call sites outside genesis")
}

// c10GasMultipliers (F65): UseGas panics for a negative multiplier, and a panic in transaction execution stops block
// production for as long as the transaction stays in the mempools. A multiplier computed from an unsigned quantity
// converted to int (an epoch difference, a count from the wire) can be negative or wrap in a product, so every such
// conversion feeding a multiplier is dominated by a comparison that bounds the converted value.
func c10GasMultipliers(c *Ctx, cone []*ssa.Function) {
	const rule = "C10.usub"
	n, nconv := 0, 0
	for _, f := range cone {
		if f.Blocks == nil || !inModule(fpkgPath(f)) {
			continue
		}
		for _, call := range callsIn(f) {
			if !strings.HasSuffix(calleeName(call), "GasAccountant).UseGas") {
				continue
			}
			n++
			m := call.Common().Args[0]
			var convs []*ssa.Convert
			var walk func(v ssa.Value, d int)
			walk = func(v ssa.Value, d int) {
				if d > 6 {
					return
				}
				switch x := v.(type) {
				case *ssa.BinOp:
					walk(x.X, d+1)
					walk(x.Y, d+1)
				case *ssa.Convert:
					from, ok1 := x.X.Type().Underlying().(*types.Basic)
					to, ok2 := x.Type().Underlying().(*types.Basic)
					if ok1 && ok2 && from.Info()&types.IsUnsigned != 0 && to.Info()&types.IsInteger != 0 && to.Info()&types.IsUnsigned == 0 {
						convs = append(convs, x)
					} else {
						walk(x.X, d+1)
					}
				case *ssa.Phi:
					for _, e := range x.Edges {
						walk(e, d+1)
					}
				}
			}
			walk(m, 0)
			for _, cv := range convs {
				nconv++
				bounded := false
				for _, h := range heldCondVals(call) {
					bo, ok := h.Cond.(*ssa.BinOp)
					if !ok {
						continue
					}
					switch bo.Op {
					case token.LSS, token.LEQ, token.GTR, token.GEQ:
						// the converted value (possibly under the same widening conversion) is one operand
						for _, op := range []ssa.Value{bo.X, bo.Y} {
							for k := 0; k < 2; k++ {
								if cv2, isConv := op.(*ssa.Convert); isConv {
									op = cv2.X
								}
								if ct, isCT := op.(*ssa.ChangeType); isCT {
									op = ct.X
								}
							}
							if sameValue(op, cv.X, 0) {
								bounded = true
							}
						}
					}
				}
				c.Check(bounded, rule, fname(f)+":the unsigned value converted for a gas multiplier is bounded", c.P.InstrPos(call), "a comparison of the converted value dominates the call", "the gas multiplier is computed from "+vstr(cv.X)+" converted to a signed integer without a dominating bound on it: a large value (bounded only by a consensus parameter that has no upper limit) makes the multiplier negative and UseGas panics during transaction execution — proposers then build an empty invalid block for as long as the transaction stays in the mempools")
			}
		}
	}
	c.Floor(rule, n, 20, "UseGas call sites on the cone")
	c.Extra["gas_multiplier_conversions"] = nconv
}

// c02Round4 (written after seeds C02r4/10..12 were missed).
func c02Round4(c *Ctx) {
	const pk = "storage/mkvs"
	// (a) seed 10: in doRemove the decision to collapse a node into its single remaining child is taken on dereferences
	// made AFTER the recursive removal — a child looked at before the recursion may be the very leaf that was removed,
	// and a stale non-nil answer keeps a single-child internal node (same contents, different root hash).
	if fn := c.needFn("C02.mutate", pk+".(*tree).doRemove"); fn != nil {
		c.Analysed[fname(fn)] = true
		var rec, derefs []ssa.CallInstruction
		for _, call := range callsIn(fn) {
			switch calleeName(call) {
			case pk + ".(*tree).doRemove":
				rec = append(rec, call)
			case pk + ".(*cache).derefNodePtr":
				derefs = append(derefs, call)
			}
		}
		ok, n := true, 0
		site := c.P.Pos(fn.Pos())
		for _, r := range rec {
			for _, b := range fn.Blocks {
				iff := lastIfOf(b)
				if iff == nil || Reach(fn, r, nil, isInstr(iff), nil) == nil {
					continue
				}
				bo, isBO := iff.Cond.(*ssa.BinOp)
				if !isBO {
					continue
				}
				for _, opnd := range []ssa.Value{bo.X, bo.Y} {
					ex, isEx := opnd.(*ssa.Extract)
					if !isEx || ex.Index != 0 {
						continue
					}
					d, isCall := ex.Tuple.(*ssa.Call)
					if !isCall || calleeNameCommon(&d.Call) != pk+".(*cache).derefNodePtr" {
						continue
					}
					n++
					// the dereference must not lie before the recursive call
					if Reach(fn, d, nil, isInstr(r), nil) != nil && Reach(fn, r, nil, isInstr(d), nil) == nil {
						ok = false
						site = c.P.InstrPos(iff)
					}
				}
			}
		}
		c.Check(ok && n >= 3 && len(rec) > 0 && len(derefs) >= 4, "C02.mutate", fname(fn)+":the collapse decision uses children dereferenced after the recursive removal", site, itoa(n)+" nil tests after the recursion, each on a dereference made after it", "after the recursive removal doRemove tests a child that was dereferenced BEFORE the recursion: when the removed key was that very child (the node's own leaf) the stale answer is non-nil, the node is not collapsed into its single remaining subtree and the tree keeps a single-child internal node — the same contents hash to a different root")
	}
	// (b) seed 11: whatever derefNodePtr hands out is pinned — every success with a non-nil pointer passes
	// markInUse(ptr), also when the node was already cached (a cached ancestor held by a running operation is otherwise
	// evicted by a child fetch, committed as a dead node, and its subtree silently drops out of the root).
	if fn := c.needFn("C02.mutate", pk+".(*cache).derefNodePtr"); fn != nil {
		c.Analysed[fname(fn)] = true
		cut := NewCut()
		for _, call := range callsIn(fn) {
			if calleeName(call) == pk+".(*cache).markInUse" {
				if a := allArgs(call); len(a) == 2 && vstr(a[1]) == "param:ptr" {
					cut.AddInstr(call)
				}
			}
		}
		cut.AddEdges(HeldEdges(fn, `^param:ptr == nil$`)...)
		var hit ssa.Instruction
		for _, r := range SuccessReturns(fn) {
			if h := Reach(fn, nil, nil, isInstr(r), cut); h != nil {
				hit = h
			}
		}
		site := c.P.Pos(fn.Pos())
		if hit != nil {
			site = c.P.InstrPos(hit)
		}
		c.Check(len(cut.Instrs) > 0 && hit == nil, "C02.mutate", fname(fn)+":every node handed out is pinned (markInUse)", site, "every success return for a non-nil pointer passes markInUse(ptr)", "derefNodePtr can return a node without marking it in use: with a cache smaller than the path an ancestor held by a running Insert/Remove is evicted by a child fetch, the operation marks a pointer with a nil node dirty, commit hashes it as a dead node and the subtree drops out of the root — the root then depends on the cache capacity")
	}
	// (c) seed 12: pathbadger resolves a node of a root that is still pending (sequence number != 0) in that root's
	// pending keyspace first; the finalized keyspace is consulted for it only after the pending lookup. (The first
	// root committed for a version writes its nodes straight into the finalized keyspace under (version, index), the
	// same indices a second fork uses for its own, different nodes; fetched nodes are not hash-checked.)
	if fn := c.needFn("C02.dbptr", "storage/mkvs/db/pathbadger.(*badgerNodeDB).GetNode"); fn != nil {
		c.Analysed[fname(fn)] = true
		var fin, pend []ssa.Instruction
		for _, call := range callsIn(fn) {
			if !strings.HasSuffix(calleeName(call), "badger/v4.(*Txn).Get") {
				continue
			}
			a := allArgs(call)
			s := vstr(a[len(a)-1])
			switch {
			case strings.Contains(s, "pendingNodeKeyFmt"):
				pend = append(pend, call)
			case strings.Contains(s, "finalizedNodeKeyFmt") && !strings.Contains(s, "rootNode"):
				fin = append(fin, call)
			}
		}
		cut := NewCut().AddInstr(pend...)
		cut.AddEdges(HeldEdges(fn, `getPendingRootSeqNo\(.*\)#0 == 0$`)...)
		// only lookups after the sequence number is known are of interest
		var seq ssa.Instruction
		for _, call := range callsIn(fn) {
			if strings.HasSuffix(calleeName(call), ".getPendingRootSeqNo") {
				seq = call
			}
		}
		var hit ssa.Instruction
		if seq != nil {
			for _, f := range fin {
				if Reach(fn, seq, nil, isInstr(f), nil) == nil {
					continue
				}
				if h := Reach(fn, seq, nil, isInstr(f), cut); h != nil {
					hit = h
				}
			}
		}
		site := c.P.Pos(fn.Pos())
		if hit != nil {
			site = c.P.InstrPos(hit)
		}
		c.Check(seq != nil && len(pend) > 0 && len(fin) > 0 && hit == nil, "C02.dbptr", fname(fn)+":a pending root's nodes are looked up in its pending keyspace first", site, "every finalized-keyspace lookup after the sequence number is known is for sequence number 0 or follows the pending lookup", "GetNode reads the finalized keyspace for a root that is still pending before (or instead of) that root's own pending keyspace: a second fork's pointer (version, index) resolves to the first fork's node, which is accepted without a hash check — the tree opened at one fork's root has the other fork's contents")
	}
}

// c04IterErr (F66): a tree iterator stops at the first node it cannot obtain (a remote peer that errors or sends a bad
// proof, an evicted node that cannot be fetched) and reports that through Err(); Valid() just turns false. Every
// function that walks an iterator and then reports success must have looked at Err() — otherwise a truncated listing
// is handed out as complete.
func c04IterErr(c *Ctx) {
	const rule = "C04.errdrop"
	n := 0
	for _, fn := range c.P.ModFuncs {
		if fn.Blocks == nil || fn.Parent() != nil {
			continue
		}
		pp := short(fpkgPath(fn))
		if strings.HasPrefix(pp, "oasis-test-runner") || strings.HasSuffix(pp, "/tests") || strings.HasPrefix(pp, "oasis-node/cmd/debug") {
			continue
		}
		var iters []ssa.Value
		for _, call := range callsIn(fn) {
			v := call.Value()
			if v == nil || namedOf(v.Type()) != "storage/mkvs.Iterator" {
				continue
			}
			iters = append(iters, v)
		}
		if len(iters) == 0 {
			continue
		}
		// functions with an error result only (the others cannot report it anyway and are listed separately)
		if errResultIndex(fn) < 0 {
			continue
		}
		for _, it := range iters {
			var valid, errs, moves []ssa.Instruction
			for _, call := range callsIn(fn) {
				if !call.Common().IsInvoke() || !sameValue(call.Common().Value, it, 0) {
					continue
				}
				switch call.Common().Method.Name() {
				case "Valid":
					valid = append(valid, call)
				case "Err":
					errs = append(errs, call)
				case "Seek", "Next", "Rewind":
					moves = append(moves, call)
				}
			}
			if len(valid) == 0 {
				continue // handed to someone else
			}
			n++
			c.Analysed[fname(fn)] = true
			inst := fname(fn) + ":success after walking an iterator only via its Err()"
			var hit ssa.Instruction
			for _, r := range Returns(fn) {
				// a return that reports success outright (nil error), reachable after a Valid() call without passing Err()
				if r.Block() == fn.Recover || !isNilConst(retErrVal(r)) {
					continue
				}
				// errors arise in Seek/Next; Valid() answering true means the last move succeeded
				cut := NewCut().AddInstr(errs...)
				for _, v := range valid {
					if es, ok := BoolEdges(v.(ssa.CallInstruction), 0, true); ok {
						cut.AddEdges(es...)
					}
				}
				for _, m := range moves {
					if h := Reach(fn, m, nil, isInstr(r), cut); h != nil {
						hit = h
					}
				}
			}
			if hit == nil {
				c.OK(rule, inst, c.P.Pos(fn.Pos()), "every success return after the walk passes Err()")
				continue
			}
			if reason, ok := c.Tabled("c04_itererr", fname(fn)); ok {
				c.TabledOK(rule, inst, c.P.InstrPos(hit), reason)
				continue
			}
			c.Fail(rule, inst, c.P.InstrPos(hit), "the function walks a tree iterator and can report success without having looked at the iterator's Err(): when the walk stops early (a remote peer errors or sends a bad proof mid-iteration, a node cannot be fetched) the truncated result is returned as complete with a nil error")
		}
	}
	c.Floor(rule, n, 20, "functions that walk a tree iterator and return an error")
}

// retainsNodeObject: the type is, points to or contains a tree node object (node.Node, *node.InternalNode, *node.LeafNode).
// Pointers to node.Pointer are the tree's handles and are not node objects.
func retainsNodeObject(t types.Type, d int, seen map[types.Type]bool) string {
	if d > 6 || seen[t] {
		return ""
	}
	seen[t] = true
	switch n := namedOf(derefType(t)); n {
	case "storage/mkvs/node.Node", "storage/mkvs/node.InternalNode", "storage/mkvs/node.LeafNode":
		return n
	case "storage/mkvs/node.Pointer":
		return ""
	}
	switch u := derefType(t).Underlying().(type) {
	case *types.Struct:
		if nm := namedOf(derefType(t)); nm != "" && !strings.HasPrefix(nm, "storage/mkvs") {
			return ""
		}
		for i := 0; i < u.NumFields(); i++ {
			if r := retainsNodeObject(u.Field(i).Type(), d+1, seen); r != "" {
				return u.Field(i).Name() + "→" + r
			}
		}
	case *types.Slice:
		return retainsNodeObject(u.Elem(), d+1, seen)
	case *types.Array:
		return retainsNodeObject(u.Elem(), d+1, seen)
	case *types.Map:
		return retainsNodeObject(u.Elem(), d+1, seen)
	}
	return ""
}

// c04Round4 (written after seeds C04r4/10..12 were missed).
func c04Round4(c *Ctx) {
	// (a) seeds 11 and 12: node objects belong to the tree's cache, which cuts the children off an evicted node and may
	// drop it altogether. What outlives one step of a walk — the proof builder and the iterator's position stack — keeps
	// copies (serialised bytes, hashes, keys) or pointer handles, never node objects: a retained object is read later
	// with its children gone (a proof that no longer hashes to the root; an iteration that silently skips a subtree).
	for _, tn := range []string{"storage/mkvs/syncer.ProofBuilder", "storage/mkvs/syncer.proofNode", "storage/mkvs.treeIterator", "storage/mkvs.pathAtom"} {
		i := strings.LastIndex(tn, ".")
		pk := c.P.Pkg(tn[:i])
		inst := tn + ":keeps no tree node objects"
		if pk == nil || pk.Types.Scope().Lookup(tn[i+1:]) == nil {
			c.Fail("C04.merge", inst, "", "type not found (unresolved anchor)")
			continue
		}
		obj := pk.Types.Scope().Lookup(tn[i+1:])
		seen := map[types.Type]bool{}
		bad := ""
		if st, ok := obj.Type().Underlying().(*types.Struct); ok {
			for k := 0; k < st.NumFields(); k++ {
				f := st.Field(k)
				if f.Name() == "tree" {
					continue // the iterator's owner
				}
				if r := retainsNodeObject(f.Type(), 0, seen); r != "" {
					bad = f.Name() + "→" + r
				}
			}
		}
		c.Check(bad == "", "C04.merge", inst, c.P.Pos(obj.Pos()), "no field holds a node.Node / *InternalNode / *LeafNode", "the type retains a tree node object ("+bad+"): the cache cuts the children off evicted nodes, so what is read from the retained object later is not what was verified/visited — a produced proof no longer hashes to the root, an iteration skips a subtree without an error")
	}
	// (b) seed 10: a lookup proof contains every node on the path from the root: in doGet, once the node was obtained,
	// nothing but "no proof builder" or "nil pointer" lies between it and Include.
	if fn := c.needFn("C04.verify", "storage/mkvs.(*tree).doGet"); fn != nil {
		c.Analysed[fname(fn)] = true
		var deref ssa.CallInstruction
		var incl []ssa.Instruction
		for _, call := range callsIn(fn) {
			switch calleeName(call) {
			case "storage/mkvs.(*cache).derefNodePtr":
				if deref == nil {
					deref = call
				}
			case "storage/mkvs/syncer.(*ProofBuilder).Include":
				a := allArgs(call)
				if deref != nil && len(a) == 2 && strings.Contains(vstr(a[1]), "derefNodePtr(") && !strings.Contains(vstr(a[1]), ".Left") && !strings.Contains(vstr(a[1]), ".Right") {
					incl = append(incl, call)
				}
			}
		}
		inst := fname(fn) + ":every node obtained on the path is included in the proof"
		if deref == nil || len(incl) == 0 {
			c.Fail("C04.verify", inst, c.P.Pos(fn.Pos()), "derefNodePtr or Include(node) not found in doGet (unresolved anchor)")
		} else {
			start, _ := SuccessEdges(deref)
			cut := NewCut().AddInstr(incl...)
			cut.AddEdges(HeldEdges(fn, `\.proofBuilder == nil$`)...)
			cut.AddEdges(HeldEdges(fn, `^param:ptr == nil$`)...)
			stop := func(in ssa.Instruction) bool {
				if _, ok := in.(*ssa.Return); ok {
					return true
				}
				if call, ok := in.(ssa.CallInstruction); ok {
					return calleeName(call) == "storage/mkvs.(*tree).doGet"
				}
				return false
			}
			hit := Reach(fn, nil, start, stop, cut)
			site := c.P.InstrPos(incl[0])
			if hit != nil {
				site = c.P.InstrPos(hit)
			}
			c.Check(len(start) > 0 && hit == nil, "C04.verify", inst, site, "after the node was obtained every path to a return or to the descent passes Include(node), unless there is no proof builder or the pointer is nil", "doGet can go on (return or descend) after obtaining a node without including it in the proof being built although a proof builder is present: nodes on the path are missing from the lookup proof, which then verifies against the root but determines neither the value nor the absence of the key")
		}
	}
}

// c03Round4 (written after seeds C03r4/10..12 were missed by C03).
func c03Round4(c *Ctx) {
	const pk = "storage/mkvs"
	// (a) seed 10: the pending write log (what Get consults first) is written only after the structural operation
	// succeeded — an entry written before a removal that then fails says "removed" for a key that is still in the tree.
	for _, pair := range [][2]string{{pk + ".(*tree).RemoveExisting", pk + ".(*tree).doRemove"}, {pk + ".(*tree).Insert", pk + ".(*tree).doInsert"}} {
		fn := c.needFn("C03.mutate", pair[0])
		if fn == nil {
			continue
		}
		c.Analysed[fname(fn)] = true
		var ops []ssa.Instruction
		for _, call := range callsIn(fn) {
			if calleeName(call) == pair[1] {
				ops = append(ops, call)
			}
		}
		var writes []ssa.Instruction
		for _, b := range blocksIP(fn) {
			for _, in := range b.Instrs {
				switch x := in.(type) {
				case *ssa.MapUpdate:
					if loadsField(x.Map, "pendingWriteLog") {
						writes = append(writes, in)
					}
				case *ssa.Store:
					if fa, ok := x.Addr.(*ssa.FieldAddr); ok && namedOf(derefType(fa.X.Type())) == pk+".pendingEntry" {
						if _, local := fa.X.(*ssa.Alloc); !local {
							writes = append(writes, in)
						}
					}
				}
			}
		}
		ok := len(ops) > 0 && len(writes) > 0
		site := c.P.Pos(fn.Pos())
		for _, w := range writes {
			if Reach(fn, w, nil, anyOf(ops), nil) != nil {
				ok = false
				site = c.P.InstrPos(w)
			}
		}
		c.Check(ok, "C03.mutate", fname(fn)+":the pending write log is written only after the structural operation", site, itoa(len(writes))+" write(s), none before "+pair[1][strings.LastIndex(pair[1], ".")+1:], "the pending write log is written before "+pair[1]+" runs: when the operation fails (cancelled context, node database error) the entry stays, Get answers from it (\"removed\"/new value) while iteration and commit still see the old tree, and later removals of the key short-circuit")
	}
	// (b) seed 11: doGet hands out a leaf's value only where the whole key was compared (the descent follows branching
	// bits only; compressed labels above the leaf are not compared on the way down).
	if fn := c.needFn("C03.sibling", pk+".(*tree).doGet"); fn != nil {
		ev := Ev{Name: "return leaf.Value", Fn: fn}
		for _, r := range Returns(fn) {
			if len(r.Results) == 2 && loadsField(unspill(r.Results[0]), "Value") {
				ev.Ins = append(ev.Ins, r)
			}
		}
		c.DominatedByCond("C03.sibling", fn, "leaf.Key.Equal(key)", `^storage/mkvs/node\.\(Key\)\.Equal\(.*\.Key,param:key\)$`, ev, "a lookup returns a leaf's value only if the leaf's whole key equals the key asked for: the descent checks branching bits only, so a partial comparison takes an absent key for a live one")
	}
	// (c) seed 12 was reported by C02.codec only: pathbadger decodes the embedded leaf of an internal node iff any byte
	// remains (the empty key with an empty value is two bytes).
	c02EmbeddedLeaf(c, "C03.sibling")
}

// c06Round4 (written after seeds C06r4/10 and 11 were missed by C06).
func c06Round4(c *Ctx, ix *Index) {
	// (a) seed 11 was reported by C02.dbptr only: a failed batch commit undoes the database pointers it assigned (the
	// same tree re-committed into the next version would otherwise write its nodes under the previous version's keys,
	// which finalization of that version overwrites or deletes).
	c02DbPtrUndo(c, ix, "C06.sync")
	// (b) seed 10: pathbadger Finalize copies the pending nodes of a finalized root into the finalized keyspace unless
	// THAT root's sequence number is zero — the decision is per root type, from finalizedSeqNos[type]; nothing else
	// lets an iteration of the copy loop skip (a flag shared by all root types lets the last root visited decide for
	// the others, and the winning fork's staged nodes are deleted with the pending set without having been copied).
	fn := c.needFn("C06.discard", "storage/mkvs/db/pathbadger.(*badgerNodeDB).Finalize")
	if fn == nil {
		return
	}
	c.Analysed[fname(fn)] = true
	// the copy: batch.Set(finalizedNodeKeyFmt…) whose value comes from a pending-node Get
	var copies []ssa.Instruction
	for _, call := range callsIn(fn) {
		if strings.HasSuffix(calleeName(call), "badger/v4.(*WriteBatch).Set") {
			a := allArgs(call)
			if len(a) >= 2 && strings.Contains(vstr(a[1]), "finalizedNodeKeyFmt") {
				copies = append(copies, call)
			}
		}
	}
	inst := fname(fn) + ":the copy of a finalized root's pending nodes is skipped only for sequence number zero"
	if len(copies) == 0 {
		c.Fail("C06.discard", inst, c.P.Pos(fn.Pos()), "the copy into the finalized keyspace was not found in Finalize (unresolved anchor)")
		return
	}
	// the enclosing loop over the root types: the Next whose value (#2) the inner copy loop ranges over
	var outerNext *ssa.Next
	var innerRange ssa.Instruction
	for _, bb := range fn.Blocks {
		for _, in := range bb.Instrs {
			rg, ok := in.(*ssa.Range)
			if !ok {
				continue
			}
			ex, ok := rg.X.(*ssa.Extract)
			if !ok || ex.Index != 2 {
				continue
			}
			nx, ok := ex.Tuple.(*ssa.Next)
			if !ok || !rg.Block().Dominates(copies[0].Block()) {
				continue
			}
			outerNext, innerRange = nx, rg
		}
	}
	if outerNext == nil {
		c.Fail("C06.discard", inst, c.P.InstrPos(copies[0]), "the loop over the root types around the copy was not found (unresolved anchor)")
		return
	}
	var body []Edge
	for _, bb := range fn.Blocks {
		if iff := lastIfOf(bb); iff != nil {
			if ex, ok := iff.Cond.(*ssa.Extract); ok && ex.Tuple == ssa.Value(outerNext) && ex.Index == 0 {
				body = append(body, Edge{bb, 0})
			}
		}
	}
	cut := NewCut().AddInstr(innerRange)
	cut.AddEdges(HeldEdges(fn, `^make\(map\[byte\]uint16\)\[.*\] == 0$`)...)
	hit := Reach(fn, nil, body, isInstr(outerNext), cut)
	site := c.P.InstrPos(copies[0])
	if hit != nil {
		site = c.P.InstrPos(innerRange)
	}
	c.Check(len(body) > 0 && hit == nil, "C06.discard", inst, site, "an iteration of the loop over the root types reaches the next one only through the copy loop or through `sequence number of this type == 0`", "an iteration of the copy loop can be skipped for a reason other than that root type's own sequence number being zero: with several root types finalized in one version the staged nodes of a winning fork are not copied before the pending set is deleted, and the finalized root has missing nodes")
}

// round-4 rules written after the seeds of C07, C11, C12 and C13 (10..12) were missed.

func keyFmtGlobals(fn *ssa.Function, out map[string]bool) {
	for _, b := range blocksIP(fn) {
		for _, in := range b.Instrs {
			for _, op := range in.Operands(nil) {
				if op == nil || *op == nil {
					continue
				}
				if g, ok := (*op).(*ssa.Global); ok && strings.HasSuffix(g.Name(), "KeyFmt") {
					out[g.Name()] = true
				}
			}
		}
	}
	for _, an := range fn.AnonFuncs {
		keyFmtGlobals(an, out)
	}
}

func c07Round4(c *Ctx, ix *Index) {
	// seeds 10 and 11 were reported by C06 only: both are about what a crash between two writes (or a restart) leaves.
	c.WithRules(map[string]string{"C06.*": "C07.recover"}, func() {
		c06Round3(c)
		c06SeqNoRules(c, ix)
	})
	// seed 12: pathbadger's clean-up of an unfinished multipart restore (which also runs at start-up) touches only
	// what the restore log lists — keys of the restore log itself and the node keys decoded from it. It has no guard
	// "the version was finalized meanwhile" (badger's has), so anything else it deleted by prefix — the root records of
	// the version — would be deleted for a restore whose Finalize had already committed before the crash.
	if fn := c.needFn("C07.recover", "storage/mkvs/db/pathbadger.(*badgerNodeDB).cleanMultipartLocked"); fn != nil {
		c.Analysed[fname(fn)] = true
		gl := map[string]bool{}
		keyFmtGlobals(fn, gl)
		allowed := map[string]bool{"multipartRestoreNodeLogKeyFmt": true, "finalizedNodeKeyFmt": true, "pendingNodeKeyFmt": true}
		var extra []string
		for g := range gl {
			if !allowed[g] {
				extra = append(extra, g)
			}
		}
		sort.Strings(extra)
		c.Check(len(gl) >= 2 && len(extra) == 0, "C07.recover", fname(fn)+":the clean-up deletes only what the restore log lists", c.P.Pos(fn.Pos()), "key formats used: {"+joinKeys(gl)+"}", "the multipart clean-up (also run at start-up) uses key format(s) "+strings.Join(extra, ", ")+" besides the restore log and the node keys decoded from it: records deleted by prefix are deleted also when the restored version was already finalized before the crash (this clean-up has no such guard) — a finalized version without its root")
	}
}

func c11Round4(c *Ctx) {
	const pk = "consensus/cometbft/apps/roothash"
	// seed 10: re-arming a round timeout to the same height is a no-op, and otherwise the old queue entry is cleared
	// before the new one is scheduled (the queue is keyed by height and runtime: schedule-then-clear for the same height
	// deletes the entry just written while NextTimeout still names it, and the round waits for ever).
	if fn := c.needFn("C11.reset", pk+".rearmRoundTimeout"); fn != nil {
		clear := CallsTo(fn, "ClearRoundTimeout", pk+"/state.(*MutableState).ClearRoundTimeout", "")
		sched := CallsTo(fn, "ScheduleRoundTimeout", pk+"/state.(*MutableState).ScheduleRoundTimeout", "")
		both := Ev{Name: "Clear/ScheduleRoundTimeout", Fn: fn, Ins: append(append([]ssa.Instruction{}, clear.Ins...), sched.Ins...)}
		c.DominatedByCond("C11.reset", fn, "prevTimeout != nextTimeout", `^param:nextTimeout != param:prevTimeout$|^param:prevTimeout != param:nextTimeout$`, both, "the timeout queue is touched only when the timeout height changes")
		ok := !clear.Empty() && !sched.Empty()
		for _, s := range sched.Ins {
			if Reach(fn, s, nil, anyOf(clear.Ins), nil) != nil {
				ok = false
			}
		}
		c.Check(ok, "C11.reset", fname(fn)+":the old timeout is cleared before the new one is scheduled", c.P.Pos(fn.Pos()), "no ClearRoundTimeout is reachable after ScheduleRoundTimeout", "rearmRoundTimeout schedules the new timeout before clearing the old one: for equal heights the entry just written is deleted, NextTimeout still names that height, the timer never fires and the round never ends by timeout")
	}
	// seed 11: roothash switches the runtimes over to their committees whenever the scheduler elected — on an epoch
	// transition AND on a re-election within the epoch (after slashing): BeginBlock returns without onCommitteeChanged
	// only where the scheduler's ElectedEvent was looked for and is absent.
	if fn := c.needFn("C11.admit", pk+".(*Application).BeginBlock"); fn != nil {
		c.Analysed[fname(fn)] = true
		occ := CallsTo(fn, "onCommitteeChanged", pk+".(*Application).onCommitteeChanged", "")
		cut := NewCut().AddInstr(occ.Ins...)
		held := HeldEdges(fn, `^!consensus/cometbft/api\.\(\*Context\)\.HasEvent\(.*ElectedEvent.*\)$`)
		cut.AddEdges(held...)
		isRet := func(in ssa.Instruction) bool { _, ok := in.(*ssa.Return); return ok }
		hit := Reach(fn, nil, nil, isRet, cut)
		site := c.P.Pos(fn.Pos())
		if hit != nil {
			site = c.P.InstrPos(hit)
		}
		c.Check(!occ.Empty() && len(held) > 0 && hit == nil, "C11.admit", fname(fn)+":committees are refreshed whenever the scheduler elected", site, "BeginBlock returns without onCommitteeChanged only where HasEvent(ElectedEvent) is false", "roothash BeginBlock can return without refreshing the runtimes' committees although the scheduler elected in this block (a re-election within the epoch, e.g. after slashing): the stale committee and pool stay, and a node that lost its seat still proposes and votes — a state root is accepted on the word of non-members")
	}
	// seed 12: each commitment of an ExecutorCommit transaction is handed to the pool as its own object: the pool keeps
	// the pointer (the scheduler's commitment), so the variable whose address is passed is allocated per iteration.
	if fn := c.needFn("C11.admit", pk+".(*Application).executorCommit"); fn != nil {
		c.Analysed[fname(fn)] = true
		n := 0
		ok := true
		site := c.P.Pos(fn.Pos())
		for _, call := range callsIn(fn) {
			if calleeName(call) != "roothash/api/commitment.(*Pool).AddVerifiedExecutorCommitment" {
				continue
			}
			n++
			a := allArgs(call)
			al, isAlloc := a[len(a)-1].(*ssa.Alloc)
			if !isAlloc || !inCycle(al.Block()) {
				ok = false
				site = c.P.InstrPos(call)
			}
		}
		c.Check(ok && n > 0, "C11.admit", fname(fn)+":every commitment handed to the pool is its own object", site, "the pointer passed to AddVerifiedExecutorCommitment is a variable allocated inside the loop", "the commitments of one transaction are handed to the pool through one variable that outlives the loop iteration: the pool keeps the pointer to the scheduler's commitment, which the next commitment of the same transaction overwrites before the state is stored — the block is built from a header the votes did not agree on")
	}
}

func c12Round4(c *Ctx) {
	const pk = "storage/mkvs/checkpoint"
	// seed 10: what writeChunk hashes is what it has written: the destination writer itself is one of the MultiWriter's
	// targets (a buffer in between is flushed after the digest was built; a deferred flush drops the write error, and the
	// checkpoint lists a digest for a chunk that is not on disk).
	if fn := c.needFn("C12.determinism", pk+".writeChunk"); fn != nil {
		c.Analysed[fname(fn)] = true
		ok := false
		site := c.P.Pos(fn.Pos())
		for _, call := range callsIn(fn) {
			if calleeName(call) != "io.MultiWriter" {
				continue
			}
			site = c.P.InstrPos(call)
			for _, el := range variadicElems(call.Common().Args[0]) {
				v := el
				if mi, isMI := v.(*ssa.MakeInterface); isMI {
					v = mi.X
				}
				if p, isP := v.(*ssa.Parameter); isP && pname(p) == "w" {
					ok = true
				}
			}
		}
		c.Check(ok, "C12.determinism", fname(fn)+":the chunk bytes go to the destination and to the digest in the same write", site, "the destination writer is a direct target of the MultiWriter that also feeds the digest", "writeChunk no longer writes to its destination in the same call that feeds the digest (a buffer or wrapper sits in between): bytes are hashed before they are written, a write error surfacing in a later flush is not part of the result, and the checkpoint metadata lists the digest of a chunk that is not (completely) on disk")
	}
	// seed 11: a chunk file is served whole.
	if fn := c.needFn("C12.restore", pk+".(*fileCreator).GetCheckpointChunk"); fn != nil {
		cp := CallsTo(fn, "io.Copy(w, f)", "io.Copy", "")
		c.successOnlyVia("C12.restore", fn, cp, "a chunk is served by copying the whole file (a limited or partial copy serves bytes whose digest is not the one in the metadata, and the restorer rejects the chunk for ever)")
	}
}

func c13Round4(c *Ctx, ix *Index) {
	// seed 11: pathbadger's per-version sequence numbers are only ever handed out, never handed back.
	c.WithRules(map[string]string{"C06.*": "C13.resolve"}, func() { c06SeqNoRules(c, ix) })
	n := 0
	for _, fn := range c.P.FuncsInPkg("storage/mkvs/db/pathbadger") {
		for _, b := range blocksIP(fn) {
			for _, in := range b.Instrs {
				mu, ok := in.(*ssa.MapUpdate)
				if !ok {
					continue
				}
				mt, ok := mu.Map.Type().Underlying().(*types.Map)
				if !ok {
					continue
				}
				kb, ok1 := mt.Key().Underlying().(*types.Basic)
				vb, ok2 := mt.Elem().Underlying().(*types.Basic)
				if !ok1 || !ok2 || kb.Kind() != types.Uint8 || vb.Kind() != types.Uint16 {
					continue
				}
				if !strings.Contains(vstr(mu.Map), "NextPendingRootSeq") {
					continue
				}
				n++
				grows := false
				if bo, isBO := mu.Value.(*ssa.BinOp); isBO && bo.Op == token.ADD {
					grows = true
				}
				c.Check(grows && fname(fn) == "storage/mkvs/db/pathbadger.(*metadata).reserveRootSeqNo", "C13.resolve", fname(fn)+":sequence numbers of a version are only handed out", c.P.InstrPos(in), "the counter is incremented by the reservation", "a per-version sequence number counter is written other than by incrementing it in reserveRootSeqNo: a number handed back while a later one is in use is given out again, the new root's pending nodes overwrite a committed root's, and a write log served later resolves to the other fork's leaves")
			}
		}
	}
	c.Floor("C13.resolve", n, 1, "updates of the per-version sequence number counters")
	// seed 12: when streaming a write log from badger, a value that cannot be read is an error: the closure that
	// resolves an inserted leaf returns what GetNode returned (a nil value is the encoding of a removal).
	nc := 0
	if fn := c.needFn("C13.writelog", "storage/mkvs/db/badger.(*badgerNodeDB).GetWriteLog"); fn != nil {
		var visit func(f *ssa.Function)
		visit = func(f *ssa.Function) {
			res := f.Signature.Results()
			if res.Len() == 2 && namedOf(derefType(res.At(0).Type())) == "storage/mkvs/node.LeafNode" {
				nc++
				c.Analysed[fname(f)] = true
				ok := true
				site := c.P.Pos(f.Pos())
				for _, r := range Returns(f) {
					if r.Block() == f.Recover {
						continue
					}
					v := unspill(r.Results[0])
					if isNilConst(v) {
						continue
					}
					if !strings.Contains(vstr(v), ".GetNode(") {
						ok = false
						site = c.P.InstrPos(r)
					}
				}
				c.Check(ok, "C13.writelog", fname(f)+":the leaf of a write log entry is the one read from the database", site, "every non-nil leaf returned comes from GetNode", "the closure that resolves an inserted leaf of a stored write log can return a leaf that was not read from the database (an empty one for a missing node): a nil value encodes a removal, so an unreadable insertion is streamed as a removal and the receiver applies a different transition than the announced one")
			}
			for _, an := range f.AnonFuncs {
				visit(an)
			}
		}
		visit(fn)
	}
	c.Floor("C13.writelog", nc, 1, "leaf resolvers in badger GetWriteLog")
	// seed 10: the "root already exists" shortcut of badger's Commit writes nothing (the write log of an end root is
	// stored once, with the commit that created it; a second log under another start root gives the hop search siblings).
	if fn := c.needFn("C13.hops", "storage/mkvs/db/badger.(*badgerBatch).Commit"); fn != nil {
		c.Analysed[fname(fn)] = true
		start := HeldEdges(fn, `\.Roots\[.*\] != nil$`)
		cut := NewCut().AddEdges(HeldEdges(fn, `^[^!].*\.chunk$`)...)
		wr := func(in ssa.Instruction) bool {
			call, ok := in.(ssa.CallInstruction)
			if !ok {
				return false
			}
			n := calleeName(call)
			return strings.HasSuffix(n, "badger/v4.(*WriteBatch).Set") || strings.HasSuffix(n, "badger/v4.(*Txn).Set") || strings.HasSuffix(n, "badger/v4.(*WriteBatch).Flush") || strings.HasSuffix(n, "badger/v4.(*Txn).CommitAt")
		}
		var hit ssa.Instruction
		if len(start) > 0 {
			hit = Reach(fn, nil, start, wr, cut)
		}
		site := c.P.Pos(fn.Pos())
		if hit != nil {
			site = c.P.InstrPos(hit)
		}
		c.Check(len(start) > 0 && hit == nil, "C13.hops", fname(fn)+":committing a root that already exists writes nothing", site, "no database write is reachable on the root-exists path (outside chunk import)", "badger's Commit writes to the database on the path where the root already exists: a second write log stored for the same end root under another start root gives the multi-hop search sibling paths, and a served two-hop log can combine hops of different paths — it does not reproduce the announced end root")
	}
}

// round-4 rules written after seeds C14r4/11, C18r4/11, C18r4/12 and C20r4/12 were missed.

// c14SortComparators: a comparator handed to sort.Slice/SliceStable is called with positions of the slice being
// sorted, which the sort permutes as it goes: the comparator indexes nothing but that very slice with its two
// parameters (a parallel slice prepared beforehand is not permuted with it and goes out of step after the first swap).
func c14SortComparators(c *Ctx) {
	const rule = "C14.order"
	n := 0
	for _, fn := range c.P.ModFuncs {
		if fn.Blocks == nil || !strings.HasPrefix(short(fpkgPath(fn)), "consensus/cometbft/apps/") {
			continue
		}
		for _, call := range callsIn(fn) {
			nm := calleeName(call)
			if nm != "sort.Slice" && nm != "sort.SliceStable" {
				continue
			}
			args := call.Common().Args
			sorted := args[0]
			if mi, ok := sorted.(*ssa.MakeInterface); ok {
				sorted = mi.X
			}
			mc, ok := args[1].(*ssa.MakeClosure)
			if !ok {
				continue
			}
			less := mc.Fn.(*ssa.Function)
			if len(less.Params) != 2 {
				continue
			}
			n++
			c.Analysed[fname(less)] = true
			bad := ""
			site := c.P.InstrPos(call)
			for _, b := range less.Blocks {
				for _, in := range b.Instrs {
					var x, idx ssa.Value
					switch v := in.(type) {
					case *ssa.IndexAddr:
						x, idx = v.X, v.Index
					case *ssa.Index:
						x, idx = v.X, v.Index
					default:
						continue
					}
					if idx != ssa.Value(less.Params[0]) && idx != ssa.Value(less.Params[1]) {
						continue
					}
					// the indexed slice must be the captured variable bound to the sorted slice
					okSlice := false
					if ld, isLoad := x.(*ssa.UnOp); isLoad {
						if fv, isFV := ld.X.(*ssa.FreeVar); isFV {
							for k, b := range mc.Bindings {
								if less.FreeVars[k] == fv {
									// the binding is the address of the local that holds the sorted slice
									if sl, isLd := sorted.(*ssa.UnOp); isLd && sl.X == b {
										okSlice = true
									}
									if b == sorted {
										okSlice = true
									}
								}
							}
						}
					}
					if fv, isFV := x.(*ssa.FreeVar); isFV {
						for k, b := range mc.Bindings {
							if less.FreeVars[k] == fv && b == sorted {
								okSlice = true
							}
						}
					}
					if !okSlice {
						bad = vstr(x)
						site = c.P.InstrPos(in)
					}
				}
			}
			c.Check(bad == "", rule, fname(less)+":the comparator indexes only the slice being sorted", site, "every use of the comparator's positions indexes the sorted slice", "the comparator indexes "+bad+" with the positions it is given, which is not the slice being sorted: the sort permutes only its own slice, so after the first swap the comparator compares the wrong elements — the result is deterministic but not in the intended order (e.g. validators are no longer picked in descending stake order)")
		}
	}
	c.Floor(rule, n, 3, "sort.Slice/SliceStable comparators in the consensus applications")
}

func c18Round4(c *Ctx) {
	const pk = "common/sgx/pcs"
	// seed 11: TCB info is accepted only for the TEE type it was issued for: on the SGX arm the identifier is "SGX", on
	// the TDX arm "TDX" (SGX collateral for a TDX quote skips every TDX module and component check).
	if fn := c.needFn("C18.must", pk+".(*TCBInfo).validate"); fn != nil {
		c.Analysed[fname(fn)] = true
		for _, pr := range [][3]string{{"0", "SGX", "SGX"}, {"129", "TDX", "TDX"}} {
			start := HeldEdges(fn, `^param:teeType == `+pr[0]+`$`)
			cut := NewCut().AddEdges(HeldEdges(fn, `\.ID == "`+pr[1]+`"$`)...)
			var hit ssa.Instruction
			if len(start) > 0 {
				hit = Reach(fn, nil, start, anyOf(SuccessReturns(fn)), cut)
			}
			c.Check(len(start) > 0 && len(cut.Edges) > 0 && hit == nil, "C18.must", fname(fn)+":TEE type "+pr[2]+"⇒TCB info identifier "+pr[1], c.P.Pos(fn.Pos()), "success on this TEE type's arm passes the identifier test", "TCB info validation can succeed for a "+pr[2]+" quote without the TCB info identifier having been compared with \""+pr[1]+"\": collateral issued for the other TEE type is accepted (SGX TCB info for a TDX quote skips all TDX module and component checks)")
		}
	}
	// seed 12: the policy used when none is configured does not allow TDX: nothing that Quote.Verify builds for a nil
	// policy (itself or through a constructor it calls) sets the TDX part of a QuotePolicy.
	if fn := c.needFn("C18.must", pk+".(*Quote).Verify"); fn != nil {
		c.Analysed[fname(fn)] = true
		fns := []*ssa.Function{fn}
		for _, call := range callsIn(fn) {
			if callee := call.Common().StaticCallee(); callee != nil && callee.Blocks != nil && inModule(fpkgPath(callee)) {
				res := callee.Signature.Results()
				if res.Len() >= 1 && namedOf(derefType(res.At(0).Type())) == pk+".QuotePolicy" {
					fns = append(fns, callee)
				}
			}
		}
		bad := ""
		site := c.P.Pos(fn.Pos())
		for _, f := range fns {
			for _, b := range f.Blocks {
				for _, in := range b.Instrs {
					st, ok := in.(*ssa.Store)
					if !ok {
						continue
					}
					if fa, ok := st.Addr.(*ssa.FieldAddr); ok && namedOf(derefType(fa.X.Type())) == pk+".QuotePolicy" && fieldName(fa.X.Type(), fa.Field) == "TDX" && !isNilConst(st.Val) {
						bad = fname(f)
						site = c.P.InstrPos(in)
					}
				}
			}
		}
		c.Check(bad == "", "C18.must", fname(fn)+":the default policy (none configured) does not allow TDX", site, "neither Verify nor a policy constructor it calls sets QuotePolicy.TDX", "the quote policy built for a nil policy sets its TDX part (in "+bad+"): with no PCS policy in effect a TDX quote is accepted although the policy does not allow the TDX TEE type")
	}
}

func c20Round4(c *Ctx) {
	// seed 12: mainQueue.Add moves the sender's queue forward to the sender's state sequence number BEFORE it adds the
	// transaction (and before the capacity trim inside add): transactions that expired silently are gone first, so they
	// neither count against the capacity nor stay schedulable when the add is rejected.
	if fn := c.needFn("C20.ready", "runtime/txpool.(*mainQueue).Add"); fn != nil {
		c.Analysed[fname(fn)] = true
		fwd := CallsTo(fn, "scheduler.forward", "runtime/txpool.(*mainQueueScheduler).forward", "")
		add := CallsTo(fn, "scheduler.add", "runtime/txpool.(*mainQueueScheduler).add", "")
		var hit ssa.Instruction
		if !add.Empty() {
			hit = Reach(fn, nil, nil, anyOf(add.Ins), NewCut().AddInstr(fwd.Ins...))
		}
		c.Check(!fwd.Empty() && !add.Empty() && hit == nil, "C20.ready", fname(fn)+":the sender's queue is forwarded before the transaction is added", c.P.Pos(fn.Pos()), "every path to scheduler.add passes scheduler.forward", "mainQueue.Add adds (and trims to capacity) before it forwards the sender's queue to the reported state sequence number: silently expired transactions still count against the capacity (a valid transaction is evicted or the new one rejected as underpriced) and stay pooled and schedulable when the add is rejected")
	}
}

// c14VRFFallback (F67): the validator shuffle uses the submitted VRF proofs only when they can fill the minimum
// validator set. Only MaxValidatorsPerEntity nodes of an entity can be elected and nodes without a proof are dropped,
// so the number compared with MinValidators counts a node only under the per-entity cap; counting every node with a
// proof lets the election fail ("insufficient validators", a chain halt) although the entropy fallback would succeed.
func c14VRFFallback(c *Ctx) {
	fn := c.needFn("C14.entropy", "consensus/cometbft/apps/scheduler.shuffleValidators")
	if fn == nil {
		return
	}
	c.Analysed[fname(fn)] = true
	inst := fname(fn) + ":the proofs counted against MinValidators are electable ones (per-entity cap)"
	var counter ssa.Value
	for _, b := range fn.Blocks {
		iff := lastIfOf(b)
		if iff == nil {
			continue
		}
		bo, ok := iff.Cond.(*ssa.BinOp)
		if !ok {
			continue
		}
		for _, pr := range [][2]ssa.Value{{bo.X, bo.Y}, {bo.Y, bo.X}} {
			if loadsField(pr[1], "MinValidators") {
				counter = pr[0]
			}
		}
	}
	if counter == nil {
		c.Fail("C14.entropy", inst, c.P.Pos(fn.Pos()), "the comparison with MinValidators was not found in shuffleValidators (unresolved anchor)")
		return
	}
	ok, n := true, 0
	for _, leaf := range phiLeaves(counter, map[ssa.Value]bool{}) {
		add, isAdd := leaf.(*ssa.BinOp)
		if !isAdd || add.Op != token.ADD {
			continue
		}
		n++
		capped := false
		for _, h := range heldCondVals(add) {
			if strings.Contains(vstr(h.Cond), "MaxValidatorsPerEntity") {
				capped = true
			}
		}
		if !capped {
			ok = false
		}
	}
	c.Check(ok && n > 0, "C14.entropy", inst, c.P.Pos(fn.Pos()), "the counter is incremented only under a test against MaxValidatorsPerEntity", "the number of proofs compared with MinValidators counts every node with a proof, not the nodes that can be elected (at most MaxValidatorsPerEntity per entity): when one entity's nodes submitted the proofs the entropy fallback is not taken, too few validators are elected and the election fails — the scheduler's BeginBlock halts the chain although eligible validators exist")
}

// c15RewardOrder (seed C15r4/12): a reward with commission first raises the pool balance by the non-commission part
// (all existing shares gain) and only then deposits the commission at the new price: the entity's commission shares
// must not take part in the very reward they are the commission of. In both reward functions no move of reward into
// the active pool balance is reachable after the commission Deposit.
func c15RewardOrder(c *Ctx) {
	const sp = "consensus/cometbft/apps/staking/state"
	n := 0
	for _, name := range []string{sp + ".(*MutableState).AddRewardSingleAttenuated", sp + ".(*MutableState).AddRewards"} {
		fn := c.needFn("C15.order", name)
		if fn == nil {
			continue
		}
		c.Analysed[fname(fn)] = true
		var deps, moves []ssa.Instruction
		for _, call := range callsIn(fn) {
			switch calleeName(call) {
			case "staking/api.(*SharePool).Deposit":
				deps = append(deps, call)
			case "common/quantity.Move":
				a := allArgs(call)
				if len(a) == 3 {
					if fa, ok := a[0].(*ssa.FieldAddr); ok && fieldName(fa.X.Type(), fa.Field) == "Balance" && namedOf(derefType(fa.X.Type())) == "staking/api.SharePool" {
						moves = append(moves, call)
					}
				}
			}
		}
		n++
		ok := len(deps) > 0 && len(moves) > 0
		site := c.P.Pos(fn.Pos())
		for _, d := range deps {
			// within one iteration: do not walk the loop back edge into the next entity's reward
			cut := NewCut()
			for _, b := range fn.Blocks {
				for si, s := range b.Succs {
					if s.Dominates(b) && s != b {
						cut.AddEdges(Edge{b, si})
					}
				}
			}
			if hit := Reach(fn, d, nil, anyOf(moves), cut); hit != nil {
				ok = false
				site = c.P.InstrPos(hit)
			}
		}
		c.Check(ok, "C15.order", fname(fn)+":the reward is added to the pool before the commission is deposited", site, "no move into the pool balance is reachable after the commission Deposit (within one reward)", "the commission is deposited (shares minted at the current price) before the non-commission part of the reward is added to the pool balance: the commission shares are minted at the pre-reward price and then take part in the reward — the entity gets more, every other delegator less than its share of the reward")
	}
	c.Floor("C15.order", n, 2, "reward functions with commission")
}

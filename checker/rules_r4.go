package main

import (
	"go/types"
	"strings"

	"golang.org/x/tools/go/ssa"
)

// Round-4 rules (written after seeds C10r4/10..12 and C16r4/11..12 were missed).

// c10Round4: three structural necessary conditions of "block processing never fails".
func c10Round4(c *Ctx) {
	// (a) seed C10r4/10: what governance EndBlock takes out of the governance deposits pool for a closing proposal is the
	// amount recorded in that proposal (the amount that was put into the pool for it at submission). Any other amount
	// (e.g. the current MinProposalDeposit parameter, which a passed change-parameters proposal can raise) can exceed what
	// the pool holds: quantity.Move fails, EndBlock returns the error and every node panics at the epoch transition.
	if fn := c.needFn("C10.settle", "consensus/cometbft/apps/governance.(*Application).EndBlock"); fn != nil {
		c.Analysed[fname(fn)] = true
		n := 0
		for _, call := range callsIn(fn) {
			nm := calleeName(call)
			if nm != "consensus/cometbft/apps/staking/state.(*MutableState).TransferFromGovernanceDeposits" && nm != "consensus/cometbft/apps/staking/state.(*MutableState).DiscardGovernanceDeposit" {
				continue
			}
			n++
			args := allArgs(call)
			amount := args[len(args)-1]
			inst := fname(fn) + ":" + nm[strings.LastIndex(nm, ".")+1:] + " settles the proposal's recorded deposit"
			ok := false
			if fa, isFA := amount.(*ssa.FieldAddr); isFA && fieldName(fa.X.Type(), fa.Field) == "Deposit" && namedOf(derefType(fa.X.Type())) == "governance/api.Proposal" {
				ok = true
			}
			if loadsField(amount, "Deposit") {
				ok = true
			}
			c.Check(ok, "C10.settle", inst, c.P.InstrPos(call), "the amount is the Deposit field of the proposal being closed", "the amount taken out of the governance deposits pool for a closing proposal is "+vstr(amount)+", not the deposit recorded in the proposal: when it exceeds what was deposited (the minimum deposit parameter was raised while the proposal was open) the move fails, EndBlock returns the error and the chain halts at the epoch transition")
		}
		c.Floor("C10.settle", n, 2, "deposit settlements in governance EndBlock")
	}

	// (b) seed C10r4/11: in the multiplexer's EndBlock the block metadata (state root, provable events root) proposed
	// for the block is validated against the state after EVERYTHING that EndBlock does to the block context — nothing
	// that receives the block context runs after validateSystemTxs. The proposer builds the metadata after the whole
	// EndBlock (prepareSystemTxs); a step moved behind the validation (the upgrade handlers, the provable events) makes
	// every other validator reject an honest proposal in the block where that step changes state.
	if fn := c.needFn("C10.order", "consensus/cometbft/abci.(*abciMux).EndBlock"); fn != nil {
		c.Analysed[fname(fn)] = true
		val := CallsTo(fn, "validateSystemTxs", "consensus/cometbft/abci.(*abciMux).validateSystemTxs", "")
		var ctxv ssa.Value
		for _, call := range callsIn(fn) {
			if calleeName(call) == "consensus/cometbft/abci.(*applicationState).NewContext" {
				ctxv = call.Value()
			}
		}
		inst := fname(fn) + ":nothing touches the block context after validateSystemTxs"
		if val.Empty() || ctxv == nil {
			c.Fail("C10.order", inst, c.P.Pos(fn.Pos()), "validateSystemTxs call or the EndBlock context not found (unresolved anchor)")
		} else {
			var late []ssa.Instruction
			var names []string
			for _, call := range callsIn(fn) {
				if _, isDefer := call.(*ssa.Defer); isDefer {
					continue
				}
				// calls that are handed the context (methods of the context itself — GetEvents, LastHeight — only read it)
				isCtx := func(a ssa.Value) bool {
					if mi, ok := a.(*ssa.MakeInterface); ok {
						a = mi.X
					}
					return a == ctxv
				}
				args := call.Common().Args
				if !call.Common().IsInvoke() && call.Common().Signature().Recv() != nil && len(args) > 0 {
					args = args[1:] // the receiver
				}
				uses := false
				for _, a := range args {
					if isCtx(a) {
						uses = true
					}
				}
				if uses {
					names = append(names, calleeName(call))
					late = append(late, call)
				}
			}
			ok := len(late) >= 3
			if !ok {
				c.Undecided("C10.order", inst+":anchors", c.P.Pos(fn.Pos()), "only "+itoa(len(late))+" calls handed the EndBlock context found (expected the applications' EndBlock, the upgrade handlers and the provable events)")
			}
			site := c.P.InstrPos(val.Ins[0])
			what := ""
			for _, v := range val.Ins {
				if hit := Reach(fn, v, nil, anyOf(late), nil); hit != nil {
					ok = false
					site = c.P.InstrPos(hit)
					what = callDesc(hit)
				}
			}
			c.Check(ok, "C10.order", inst, site, "none of the "+itoa(len(late))+" calls that are handed the EndBlock context ("+strings.Join(names, ", ")+") is reachable after validateSystemTxs", what+" runs on the block context after the proposed block metadata was validated: the proposer computes the metadata after the whole EndBlock, so in a block where this step changes state or events every other node computes a different root, rejects the honest proposal (or panics in EndBlock) and the chain halts")
		}
	}

	// (c) seed C10r4/12: the number of validators the persisted fees are divided by is the number of entries of the
	// last commit — the same list whose entries are then paid one share each. A divisor taken from anywhere else (the
	// scheduler's current set, which changes two heights before the commit info does) can be smaller than the number of
	// voters: the payouts exceed the fees, quantity.Move fails and BeginBlock halts the chain.
	if fn := c.needFn("C10.divisor", "consensus/cometbft/apps/staking.(*Application).BeginBlock"); fn != nil {
		c.Analysed[fname(fn)] = true
		n := 0
		for _, call := range callsIn(fn) {
			callee := call.Common().StaticCallee()
			if callee == nil {
				continue
			}
			for i, p := range callee.Params {
				if pname(p) != "numEligibleValidators" {
					continue
				}
				n++
				args := allArgs(call)
				a := args[i]
				ok := false
				if lc, isCall := a.(*ssa.Call); isCall {
					if b, isB := lc.Call.Value.(*ssa.Builtin); isB && b.Name() == "len" && len(lc.Call.Args) == 1 && loadsField(lc.Call.Args[0], "Votes") {
						ok = true
					}
				}
				c.Check(ok, "C10.divisor", fname(fn)+":"+callee.Name()+" numEligibleValidators = len(last commit votes)", c.P.InstrPos(call), "the divisor is the length of the Votes list of the last commit info", "the number of validators the fees are divided by is "+vstr(a)+", not the number of entries of the last commit: with more voters than that (the elected set shrank; the commit info follows two heights later) the per-voter payouts exceed the persisted fees, the move fails and BeginBlock halts the chain")
			}
		}
		c.Floor("C10.divisor", n, 2, "calls taking numEligibleValidators in staking BeginBlock")
	}
}

// aliasesValue: v is (a reslice / conversion / merge of) the value p — it shares p's backing memory.
func aliasesValue(v, p ssa.Value, seen map[ssa.Value]bool) bool {
	if v == p {
		return true
	}
	if seen[v] {
		return false
	}
	seen[v] = true
	switch x := v.(type) {
	case *ssa.Slice:
		return aliasesValue(x.X, p, seen)
	case *ssa.ChangeType:
		return aliasesValue(x.X, p, seen)
	case *ssa.Convert:
		if _, isSlice := x.X.Type().Underlying().(*types.Slice); isSlice {
			if _, toSlice := x.Type().Underlying().(*types.Slice); toSlice {
				return aliasesValue(x.X, p, seen)
			}
		}
	case *ssa.Phi:
		for _, e := range x.Edges {
			if aliasesValue(e, p, seen) {
				return true
			}
		}
	case *ssa.UnOp:
		// a local variable holding the slice
		if al, ok := x.X.(*ssa.Alloc); ok {
			if refs := al.Referrers(); refs != nil {
				for _, r := range *refs {
					if st, ok := r.(*ssa.Store); ok && st.Addr == ssa.Value(al) && aliasesValue(st.Val, p, seen) {
						return true
					}
				}
			}
		}
	}
	return false
}

// c16Round4:
func c16Round4(c *Ctx) {
	// (a) seed C16r4/12: the hand-written decoders of tree nodes and keys leave nothing in the decoded object that
	// shares memory with the input: every store into the receiver stores a value that is not a reslice of `data`. The
	// callers decode from buffers that are only valid for the call (badger's item.Value callback, reused read buffers);
	// a retained reslice changes under the decoded node afterwards: its label no longer matches its hash and lookups take
	// wrong branches ("corrupts subsequent processing").
	n := 0
	var fns []*ssa.Function
	for _, pp := range []string{"storage/mkvs/node", "storage/mkvs/syncer", "storage/mkvs/writelog", "storage/mkvs/checkpoint", "common/crypto/hash"} {
		fns = append(fns, c.P.FuncsInPkg(pp)...)
	}
	for _, fn := range fns {
		if fn.Signature.Recv() == nil || (fn.Name() != "UnmarshalBinary" && fn.Name() != "SizedUnmarshalBinary") || len(fn.Params) != 2 {
			continue
		}
		data := fn.Params[1]
		if _, isSlice := data.Type().Underlying().(*types.Slice); !isSlice {
			continue
		}
		n++
		c.Analysed[fname(fn)] = true
		ok := true
		site := c.P.Pos(fn.Pos())
		for _, b := range fn.Blocks {
			for _, in := range b.Instrs {
				st, isStore := in.(*ssa.Store)
				if !isStore {
					continue
				}
				if _, local := st.Addr.(*ssa.Alloc); local {
					continue
				}
				if aliasesValue(st.Val, data, map[ssa.Value]bool{}) {
					ok = false
					site = c.P.InstrPos(st)
				}
			}
		}
		c.Check(ok, "C16.own", fname(fn)+":the decoded object does not share memory with the input", site, "no store outside local variables stores a reslice of the input", "the decoder stores a reslice of its input into the decoded object: the callers' buffers are only valid for the duration of the call (badger value callbacks, reused read buffers), so a successfully decoded node changes afterwards — its label/key no longer matches the hash computed at decode time and lookups take wrong branches")
	}
	c.Floor("C16.own", n, 6, "hand-written binary decoders (node, key, hash)")

	// (b) seed C16r4/11: the check-transaction results a runtime returns are accepted only when there is exactly one per
	// transaction of the batch. The consumers (transaction pool) index the batch by the position of the result; a
	// response with more results than transactions panics there with an index out of range.
	if fn := c.needFn("C16.frames", "runtime/host.(*richRuntime).CheckTx"); fn != nil {
		c.SuccessRequiresCond("C16.frames", fn, "len(results) == len(batch)", `^builtin\.len\(.*RuntimeCheckTxBatchResponse\.Results\) == builtin\.len\(param:batch\)$`, "a runtime response with a different number of results than transactions must be rejected: the transaction pool indexes the batch by result position and panics (index out of range) on a surplus result")
	}
}

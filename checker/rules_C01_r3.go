package main

import (
	"sort"
	"strings"

	"golang.org/x/tools/go/ssa"
)

// Round-3 rules of C01 (written after seeds C01/7..9 were missed).
//
// All three seeds made replicated execution read node-local memory that is not a function of the committed state and
// the block: a client-side cache fed by events (7), a memo in the application state object shared by CheckTx /
// simulation and delivery (8), a field of an application object that survives a discarded proposal (9).
func c01Round3(c *Ctx, cone []*ssa.Function) {
	// (a) node-local objects are not written by the functions that execute blocks. Every store, on the ABCI cone, into a
	// field of an application object (apps/*.Application and the objects they embed), the application state object or
	// the mux must be a reviewed row of tables/c01_localstate.tsv (block-scoped bookkeeping that is reset per block or
	// decided by consensus), keyed by field and function.
	const tblName = "c01_localstate"
	tbl := c.Table(tblName)
	type hit struct {
		key, pos string
	}
	var hits []hit
	n := 0
	for _, fn := range cone {
		if fn.Blocks == nil {
			continue
		}
		name := fname(fn)
		for _, b := range blocksIP(fn) {
			for _, in := range b.Instrs {
				var addr ssa.Value
				switch x := in.(type) {
				case *ssa.Store:
					addr = x.Addr
				case *ssa.MapUpdate:
					if u, ok := x.Map.(*ssa.UnOp); ok {
						addr = u.X
					}
				}
				if gl := globalRoot(addr); gl != nil && gl.Pkg != nil && strings.Contains(gl.Pkg.Pkg.Path(), "oasis-core/go/") {
					// package-level variables are node-local memory as well
					n++
					hits = append(hits, hit{"global " + short(gl.Pkg.Pkg.Path()) + "." + gl.Name() + "<-" + name, c.P.InstrPos(in)})
					continue
				}
				fa, ok := addr.(*ssa.FieldAddr)
				if !ok {
					continue
				}
				fk := fieldKey(fa.X.Type(), fa.Field)
				if !nodeLocalOwner(fk) {
					continue
				}
				// a store into an object the function has just allocated itself is construction, not mutation
				if al, ok := fa.X.(*ssa.Alloc); ok && al.Heap {
					continue
				}
				n++
				hits = append(hits, hit{fk + "<-" + name, c.P.InstrPos(in)})
			}
		}
	}
	sort.Slice(hits, func(i, j int) bool { return hits[i].key < hits[j].key })
	seen := map[string]bool{}
	for _, h := range hits {
		if seen[h.key] {
			continue
		}
		seen[h.key] = true
		if reason, ok := c.Tabled(tblName, h.key); ok {
			c.TabledOK("C01.local", "node-local field written on the ABCI cone:"+h.key, h.pos, reason)
		} else {
			c.Fail("C01.local", "node-local field written on the ABCI cone:"+h.key, h.pos, "a function that executes blocks stores into a field of a node-local object (application object, application state, mux): the value survives discarded proposals, restarts differently and is shared with CheckTx/simulation, so later block execution that reads it is no longer a function of the committed state and the block (replicas diverge)")
		}
	}
	for k := range tbl {
		if !seen[k] {
			c.Undecided("C01.local", "stale table row:"+k, "", "tables/c01_localstate.tsv lists a store that no longer exists on the cone")
		}
	}

	// (b) the epoch the applications see is read from the consensus state at the asked height: the beacon service
	// client's GetEpoch / GetFutureEpoch (the applications' time source, also called with a background context from
	// BeginBlock) succeed only through a state query at that height.
	for _, m := range []string{"GetEpoch", "GetFutureEpoch"} {
		fn := c.needFn("C01.local", "consensus/cometbft/beacon.(*ServiceClient)."+m)
		if fn == nil {
			continue
		}
		q := Ev{Name: "querier.QueryAt(ctx, height)", Fn: fn}
		for _, call := range callsIn(fn) {
			if strings.HasSuffix(calleeName(call), ".QueryAt") {
				if args := call.Common().Args; len(args) >= 2 && vstr(args[len(args)-1]) == "param:height" {
					q.Ins = append(q.Ins, call)
				}
			}
		}
		c.successOnlyVia("C01.local", fn, q, "the applications' time source answers from the consensus state at the asked height, never from the client's event-fed cache (which lags on some replicas and is empty after a restart)")
	}
	// and the application state hands the question on unchanged: GetEpoch succeeds only through the time source
	if fn := c.needFn("C01.local", "consensus/cometbft/abci.(*applicationState).GetEpoch"); fn != nil {
		ts := Ev{Name: "timeSource.GetEpoch(ctx, blockHeight)", Fn: fn}
		for _, call := range callsIn(fn) {
			if strings.HasSuffix(calleeName(call), ".GetEpoch") {
				if args := call.Common().Args; len(args) >= 2 && vstr(args[len(args)-1]) == "param:blockHeight" {
					ts.Ins = append(ts.Ins, call)
				}
			}
		}
		c.successOnlyVia("C01.local", fn, ts, "the epoch for a height is asked of the time source every time (a remembered answer from a CheckTx/simulation context is the epoch before the block's own BeginBlock)")
	}
}

// nodeLocalOwner: the struct that owns the field is an application object, the application state or the mux.
func nodeLocalOwner(fieldKey string) bool {
	i := strings.LastIndex(fieldKey, ".")
	if i < 0 {
		return false
	}
	owner := fieldKey[:i]
	switch {
	case strings.HasPrefix(owner, "consensus/cometbft/apps/") && strings.HasSuffix(owner, ".Application"):
		return true
	case owner == "consensus/cometbft/abci.applicationState", owner == "consensus/cometbft/abci.abciMux":
		return true
	}
	return false
}

// globalRoot: the package-level variable an address is (a part of), or nil.
func globalRoot(addr ssa.Value) *ssa.Global {
	for d := 0; d < 6 && addr != nil; d++ {
		switch x := addr.(type) {
		case *ssa.Global:
			return x
		case *ssa.FieldAddr:
			addr = x.X
		case *ssa.IndexAddr:
			addr = x.X
		case *ssa.UnOp:
			// a map or pointer loaded from a global: writes through it change what the global refers to
			if g, ok := x.X.(*ssa.Global); ok {
				return g
			}
			return nil
		default:
			return nil
		}
	}
	return nil
}

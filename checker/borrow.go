package main

import (
	"go/token"
	"go/types"
	"strings"

	"golang.org/x/tools/go/ssa"
)

// Borrowed buffers. badger hands the bytes of a value to the callback of
// (*Item).Value only for the duration of the callback (they point into the
// memtable / value log); a key obtained with Item.Key() is reused when the
// iterator advances. Anything that is to outlive the callback must be copied.
//
// borrowEscape follows the aliases of a borrowed []byte inside a function
// (sub-slices, phis, conversions between slice types, append with the buffer
// as its first operand, locals) and into module callees (parameter → the same
// analysis, memoised; a callee that returns an alias makes the call's result
// an alias). It reports the first place where an alias is kept: a store into a
// field, a captured variable, a global, an element; a map update; a channel
// send; a closure capture; a return (for the root).
type borrowState struct {
	p     *Prog
	g     *CG
	memo  map[borrowKey]*borrowRes
	depth int
}

type borrowKey struct {
	fn  *ssa.Function
	par int
}

type borrowRes struct {
	escape  ssa.Instruction // where an alias is kept (nil: nowhere)
	why     string
	returns bool // some result aliases the parameter
	busy    bool
}

func newBorrow(p *Prog) *borrowState {
	return &borrowState{p: p, g: p.CallGraph(), memo: map[borrowKey]*borrowRes{}}
}

func isByteSlice(t types.Type) bool {
	s, ok := t.Underlying().(*types.Slice)
	if !ok {
		return false
	}
	b, ok := s.Elem().Underlying().(*types.Basic)
	return ok && b.Kind() == types.Byte
}

// param analyses parameter par of fn (index into fn.Params).
func (b *borrowState) param(fn *ssa.Function, par int) *borrowRes {
	k := borrowKey{fn, par}
	if r, ok := b.memo[k]; ok {
		return r // a cycle is answered optimistically; the entry is completed by the outer call
	}
	r := &borrowRes{busy: true}
	b.memo[k] = r
	if fn.Blocks == nil || par >= len(fn.Params) {
		r.busy = false
		return r
	}
	b.from(fn, fn.Params[par], r)
	r.busy = false
	return r
}

func (b *borrowState) from(fn *ssa.Function, root ssa.Value, r *borrowRes) {
	seen := map[ssa.Value]bool{}
	work := []ssa.Value{root}
	keep := func(in ssa.Instruction, why string) {
		if r.escape == nil {
			r.escape, r.why = in, why
		}
	}
	for len(work) > 0 && r.escape == nil {
		x := work[len(work)-1]
		work = work[:len(work)-1]
		if x == nil || seen[x] || x.Referrers() == nil {
			continue
		}
		seen[x] = true
		for _, ref := range *x.Referrers() {
			switch y := ref.(type) {
			case *ssa.Slice:
				if y.X == x {
					work = append(work, y)
				}
			case *ssa.Phi:
				work = append(work, y)
			case *ssa.ChangeType:
				work = append(work, y)
			case *ssa.Convert:
				// []byte → string copies; slice-to-slice conversions alias
				if isByteSlice(y.Type()) {
					work = append(work, y)
				}
			case *ssa.SliceToArrayPointer:
				work = append(work, y)
			case *ssa.MakeInterface:
				work = append(work, y)
			case *ssa.Store:
				if y.Val != x {
					continue // a write into the buffer, not a retention
				}
				switch a := y.Addr.(type) {
				case *ssa.Alloc:
					if a.Heap {
						// a variable captured by a closure or otherwise address-taken
						if capturedOrEscaping(a) {
							keep(y, "stored in a variable that outlives the callback ("+a.Comment+")")
							continue
						}
					}
					for _, l := range *a.Referrers() {
						if u, ok := l.(*ssa.UnOp); ok && u.Op == token.MUL {
							work = append(work, u)
						}
					}
				case *ssa.IndexAddr:
					if al, ok := a.X.(*ssa.Alloc); ok && strings.Contains(al.Comment, "varargs") {
						// an element of a call-site variadic slice: follow the slice to the call
						for _, l := range *al.Referrers() {
							if sl, ok := l.(*ssa.Slice); ok {
								work = append(work, sl)
							}
						}
						continue
					}
					keep(y, "stored as an element of a slice/array")
				case *ssa.FieldAddr:
					keep(y, "stored in field "+namedOf(a.X.Type())+"."+fieldName(a.X.Type(), a.Field))
				case *ssa.UnOp, *ssa.FreeVar, *ssa.Global, *ssa.Parameter:
					keep(y, "stored through "+vstr(a))
				default:
					keep(y, "stored through "+vstr(y.Addr))
				}
			case *ssa.MapUpdate:
				if y.Key == x || y.Value == x {
					keep(y, "kept in a map")
				}
			case *ssa.Send:
				if y.X == x {
					keep(y, "sent on a channel")
				}
			case *ssa.MakeClosure:
				keep(y, "captured by a closure")
			case *ssa.Return:
				if !isErrorType(x.Type()) {
					r.returns = true
				}
			case *ssa.Extract, *ssa.Index, *ssa.IndexAddr, *ssa.Lookup, *ssa.BinOp, *ssa.UnOp, *ssa.DebugRef, *ssa.Range, *ssa.TypeAssert, *ssa.If:
				if ta, ok := y.(*ssa.TypeAssert); ok && isByteSlice(ta.AssertedType) {
					work = append(work, ta)
				}
				// reads
			case ssa.CallInstruction:
				b.call(fn, y, x, &work, keep)
			}
		}
	}
}

// capturedOrEscaping: the heap variable is bound into a closure, or its address
// is passed on (anything but loads and stores to it).
func capturedOrEscaping(a *ssa.Alloc) bool {
	for _, r := range *a.Referrers() {
		switch y := r.(type) {
		case *ssa.Store:
			if y.Addr != a {
				return true
			}
		case *ssa.UnOp, *ssa.DebugRef:
		default:
			return true
		}
	}
	return false
}

func (b *borrowState) call(fn *ssa.Function, call ssa.CallInstruction, x ssa.Value, work *[]ssa.Value, keep func(ssa.Instruction, string)) {
	cc := call.Common()
	args := allArgs(call)
	if _, isGo := call.(*ssa.Go); isGo {
		for _, a := range args {
			if a == x {
				keep(call, "passed to a goroutine")
			}
		}
		return
	}
	if bi, ok := cc.Value.(*ssa.Builtin); ok {
		switch bi.Name() {
		case "append":
			if len(args) > 0 && args[0] == x {
				if v := call.Value(); v != nil {
					*work = append(*work, v) // append(buf, …) may return buf's array
				}
			}
			// append(dst, buf...) copies the bytes
		}
		return
	}
	var callees []*ssa.Function
	if cc.IsInvoke() {
		callees = b.g.impls[tfname(cc.Method)]
	} else if f := cc.StaticCallee(); f != nil {
		callees = []*ssa.Function{f}
	} else {
		// a dynamic call of a function value: not followed
		for _, a := range args {
			if a == x {
				keep(call, "passed to a function value that is not resolved statically")
			}
		}
		return
	}
	for _, f := range callees {
		if f.Origin() != nil && f.Blocks == nil {
			f = f.Origin()
		}
		if !inModule(fpkgPath(f)) || f.Blocks == nil {
			// outside the module: the standard library and the decoders used here
			// (encoding/binary, cbor) do not retain their input; the two that do are
			// treated as returning an alias.
			switch fs := f.String(); {
			case fs == "bytes.NewReader" || fs == "bytes.NewBuffer":
				keep(call, "wrapped by "+fs+" (the reader keeps the slice)")
			case strings.HasPrefix(fs, "(*github.com/dgraph-io/badger/v4.WriteBatch).") || strings.HasPrefix(fs, "(*github.com/dgraph-io/badger/v4.Txn).Set") || strings.HasPrefix(fs, "(*github.com/dgraph-io/badger/v4.Txn).Delete") || fs == "github.com/dgraph-io/badger/v4.NewEntry":
				for i, a := range args {
					if a == x && i > 0 {
						keep(call, "queued in "+fs+" (badger keeps the slice until the batch/transaction is written)")
					}
				}
			}
			continue
		}
		off := 0
		if cc.IsInvoke() {
			// args[0] is the interface value; the implementation's Params[0] is the receiver
			off = 0
		}
		for i, a := range args {
			if a != x {
				continue
			}
			pi := i + off
			if pi >= len(f.Params) {
				// variadic tail
				pi = len(f.Params) - 1
			}
			sub := b.param(f, pi)
			if sub.escape != nil {
				keep(call, "passed to "+fname(f)+", where it is "+sub.why+" ("+b.p.InstrPos(sub.escape)+")")
			}
			if sub.returns || sub.busy {
				if v := call.Value(); v != nil && v.Referrers() != nil {
					if _, ok := v.Type().(*types.Tuple); ok {
						for _, rr := range *v.Referrers() {
							if ex, ok := rr.(*ssa.Extract); ok && (isByteSlice(ex.Type()) || types.IsInterface(ex.Type()) && !isErrorType(ex.Type())) {
								*work = append(*work, ex)
							}
						}
					} else if isByteSlice(v.Type()) || types.IsInterface(v.Type()) && !isErrorType(v.Type()) {
						*work = append(*work, v)
					}
				}
			}
		}
	}
}

package main

import (
	"strings"

	"golang.org/x/tools/go/ssa"
)

// ERRDROP: an error result that is neither tested for nil, nor returned on
// every path, nor handed on (stored, sent, passed as argument, captured) is
// "dropped on some path". Used for layers where every failure of a lower
// layer must surface (remote-backed tree reads, node database writes).
//
// A call is OK when one of the following holds for its error value(s):
//   - it is compared with nil in a branch condition (any If)            [checked]
//   - it escapes as data: stored to memory, sent, passed to a call,
//     captured by a closure, used in a phi that itself is OK            [handed on]
//   - every path from the call reaches a Return that carries the value  [returned]
//   - the result is explicitly discarded with `_ =` / not bound at all and the
//     site is tabled (expected: cleanup paths)
type errDropSite struct {
	Call   ssa.CallInstruction
	Reason string
}

func errHandled(v ssa.Value, call ssa.CallInstruction, depth int, seen map[ssa.Value]bool) (handled bool, why string) {
	if depth > 6 || seen[v] {
		return true, "cycle"
	}
	seen[v] = true
	refs := v.Referrers()
	if refs == nil || len(*refs) == 0 {
		return false, "error value is never used"
	}
	onlyCondReturns := true
	used := false
	var condRets []*ssa.Return
	for _, r := range *refs {
		switch r := r.(type) {
		case *ssa.DebugRef:
			continue
		case *ssa.BinOp:
			used = true
			return true, "nil-tested"
		case *ssa.Return:
			used = true
			condRets = append(condRets, r)
		case *ssa.Phi:
			used = true
			if h, _ := errHandled(r, call, depth+1, seen); h {
				return true, "phi"
			}
		case *ssa.Store:
			used = true
			if r.Val == v {
				// stored to a local alloc: follow loads; stored elsewhere: handed on
				if al, ok := r.Addr.(*ssa.Alloc); ok {
					for _, lv := range throughLocals(v) {
						if h, _ := errHandled(lv, call, depth+1, seen); h {
							return true, "via local"
						}
					}
					// captured by closure / address taken elsewhere?
					if arefs := al.Referrers(); arefs != nil {
						for _, ar := range *arefs {
							switch ar.(type) {
							case *ssa.MakeClosure, *ssa.Call, *ssa.Defer, *ssa.Go:
								return true, "captured"
							}
						}
					}
					// named result spilled for defer: loads at returns
					onlyCondReturns = false
					continue
				}
				return true, "stored"
			}
		case *ssa.MakeInterface, *ssa.ChangeInterface, *ssa.TypeAssert:
			used = true
			if h, _ := errHandled(r.(ssa.Value), call, depth+1, seen); h {
				return true, "converted"
			}
		case *ssa.Extract:
			used = true
		default:
			// call argument, send, map update, closure capture, panic ...
			used = true
			return true, "handed on"
		}
	}
	if !used {
		return false, "error value is never used"
	}
	if len(condRets) > 0 && onlyCondReturns {
		// returned on some paths only? check that from the call every path to any
		// exit goes through one of these returns.
		fn := call.Parent()
		cut := NewCut()
		for _, r := range condRets {
			cut.AddInstr(r)
		}
		other := Reach(fn, call, nil, func(i ssa.Instruction) bool {
			_, isRet := i.(*ssa.Return)
			return isRet
		}, cut)
		if other == nil {
			return true, "returned on all paths"
		}
		return false, "error is returned on some paths only and never tested: on the other paths it is dropped"
	}
	return false, "error value is not tested, returned or handed on"
}

// ErrDrop runs the rule over the given functions (with their closures).
// Calls are selected by callee predicate; exceptions by table
// "errdrop" keyed "<function> <callee>".
func (c *Ctx) ErrDrop(rule string, fns []*ssa.Function, calleeOK func(name string, call ssa.CallInstruction) bool) (checked int) {
	for _, fn := range fns {
		all := append([]*ssa.Function{fn}, anonFuncs(fn)...)
		for _, f := range all {
			c.Analysed[fname(f)] = true
			for _, call := range callsIn(f) {
				if _, isDefer := call.(*ssa.Defer); isDefer {
					continue
				}
				if _, isGo := call.(*ssa.Go); isGo {
					continue
				}
				res := call.Common().Signature().Results()
				if res.Len() == 0 || !isErrorType(res.At(res.Len()-1).Type()) {
					continue
				}
				cn := calleeName(call)
				if cn == "" {
					cn = "dynamic:" + vstrShort(call.Common().Value)
				}
				if !calleeOK(cn, call) {
					continue
				}
				checked++
				evs := errValues(call)
				key := fname(f) + " " + cn
				if len(evs) == 0 {
					// result tuple never extracted / value unused
					if reason, ok := c.Tabled("errdrop", key); ok {
						c.TabledOK(rule, key, c.P.InstrPos(call), reason)
						continue
					}
					c.Fail(rule, key, c.P.InstrPos(call), "error result of "+cn+" is discarded in "+fname(f))
					continue
				}
				handled, why := false, ""
				for _, ev := range evs[:1] {
					handled, why = errHandled(ev, call, 0, map[ssa.Value]bool{})
				}
				if handled {
					continue
				}
				if reason, ok := c.Tabled("errdrop", key); ok {
					c.TabledOK(rule, key, c.P.InstrPos(call), reason)
					continue
				}
				c.Fail(rule, key, c.P.InstrPos(call), "error of "+cn+" in "+fname(f)+": "+why)
			}
		}
	}
	return
}

func vstrShort(v ssa.Value) string {
	s := vstr(v)
	if len(s) > 60 {
		s = s[:60]
	}
	return strings.ReplaceAll(s, " ", "")
}

package main

import (
	"strings"

	"golang.org/x/tools/go/ssa"
)

// Round-2 C16 rules.

func rulesC16Round2(c *Ctx) {
	c16KeyLength(c, c.P.BuildIndex())
	c16VerifyNoPanic(c)
	c16Round3(c)
	c16Round4(c)
	remoteProofVersionRule(c, "C16.panic")
	c16Round5(c)
	// ---- no allocation sized by an integer read from the wire before that integer has been bounded
	// A 32/64-bit length read from untrusted bytes that sizes an allocation must first be compared with something (the
	// remaining input, a configured maximum): four bytes must not make the node allocate gigabytes. 16-bit lengths are
	// bounded by their type.
	nAlloc := 0
	scope := append(append([]string{}, c16Pkgs...), "common/cbor", "p2p/rpc")
	for _, pk := range scope {
		for _, f := range c.P.FuncsInPkg(pk) {
			for _, b := range f.Blocks {
				for _, in := range b.Instrs {
					ms, ok := in.(*ssa.MakeSlice)
					if !ok {
						continue
					}
					if _, isK := ms.Len.(*ssa.Const); isK {
						continue
					}
					wire := wireIntIn(ms.Len, 0)
					if wire == nil {
						continue
					}
					nAlloc++
					c.Analysed[fname(f)] = true
					key := fname(f) + ":allocation sized by " + vstrShort(wire)
					ws := vstr(wire)
					guarded := false
					for _, h := range heldCondVals(in) {
						if _, isBO := h.Cond.(*ssa.BinOp); isBO && strings.Contains(vstr(h.Cond), ws) {
							guarded = true
						}
					}
					if guarded {
						c.OK("C16.alloc", key, c.P.InstrPos(in), "the wire length is compared with a bound on every path to the allocation")
						continue
					}
					c.Fail("C16.alloc", key, c.P.InstrPos(in), "a buffer is allocated with a 32/64-bit length taken from untrusted bytes before that length has been compared with anything: a few bytes from a peer or a runtime make the node allocate up to gigabytes")
				}
			}
		}
	}
	c.Extra["wire_sized_allocations"] = nAlloc
	if nAlloc == 0 {
		c.OK("C16.alloc", "no allocation sized by an unbounded wire integer", "", "no make([]T, n) with n read as a 32/64-bit integer from the input in "+strings.Join(scope, ", "))
	}

	// ---- host protocol: a response can always be handed over without the caller
	// The frame handler delivers a response by sending on the per-request channel without selecting on anything else;
	// the caller may already be gone (its context expired while the request was still queued). The channels stored in
	// pendingRequests must therefore have room for one value.
	nCh := 0
	for _, f := range c.P.FuncsInPkg("runtime/host/protocol") {
		for _, b := range f.Blocks {
			for _, in := range b.Instrs {
				mu, ok := in.(*ssa.MapUpdate)
				if !ok || !strings.HasSuffix(vstr(mu.Map), ".pendingRequests") {
					continue
				}
				val := mu.Value
				for {
					if ct, isCT := val.(*ssa.ChangeType); isCT {
						val = ct.X
						continue
					}
					break
				}
				mc, ok := val.(*ssa.MakeChan)
				if !ok {
					continue
				}
				nCh++
				c.Analysed[fname(f)] = true
				k, isK := constInt(mc.Size)
				c.Check(isK && k >= 1, "C16.hang", fname(f)+":response channel has room for the response", c.P.InstrPos(mc), "the channel registered for the response is buffered", "the per-request response channel is unbuffered while the frame handler sends on it without a select: a well-formed response for a request whose caller has given up blocks the connection's reader for ever (no further message is processed, Close hangs) — input from the untrusted runtime hangs the host")
			}
		}
	}
	c.Floor("C16.hang", nCh, 1, "response channels registered in pendingRequests")

	// ---- transaction fields decoded from untrusted bytes never reach a panicking division
	// Methods of the decoded transaction types (consensus/api/transaction) are called on attacker-chosen values during
	// CheckTx, which has no recover: a Quo whose error is turned into a panic must have a divisor that was tested
	// non-zero (shared machinery with C10.divguard).
	nDiv := 0
	for _, f := range c.P.FuncsInPkg("consensus/api/transaction") {
		for _, call := range callsIn(f) {
			if calleeName(call) != "common/quantity.(*Quantity).Quo" {
				continue
			}
			nDiv++
			c.Analysed[fname(f)] = true
			d := allArgs(call)[1]
			key := fname(f) + ":Quo by " + vstrShort(d)
			ok, by := zeroGuarded(d, call)
			if !ok {
				if src := quantitySource(d); src != nil {
					ok, by = zeroGuarded(src, call)
				}
			}
			if !ok && nonZeroConstQuantity(c.P, d, 0) {
				ok, by = true, "non-zero constant"
			}
			c.Check(ok, "C16.panic", key, c.P.InstrPos(call), "the divisor is checked non-zero: "+by, "a quantity decoded from an untrusted transaction is divided by a value that is not tested non-zero and the division error is turned into a panic: a signed transaction with that field zero crashes the node in CheckTx")
		}
	}
	c.Floor("C16.panic", nDiv, 1, "divisions in the transaction types")
}

// c16KeyLength — keys whose bit length does not fit node.Depth never enter the tree (F33).
func c16KeyLength(c *Ctx, ix *Index) {
	const rule = "C16.keylen"
	maxLen, ok := c.ConstInt("storage/mkvs/node", "MaxKeyLength")
	if !ok {
		c.Fail(rule, "storage/mkvs/node.MaxKeyLength", "", "no maximum key length is defined: the bit length of a key (len*8) is kept in a 16-bit Depth and wraps around for keys of 8192 bytes or more")
		return
	}
	c.Check(maxLen*8 <= 65535, rule, "storage/mkvs/node.MaxKeyLength:fits Depth", "", "MaxKeyLength*8 fits the 16-bit depth type", "MaxKeyLength*8 does not fit the 16-bit depth type")
	if fn := c.needFn(rule, "storage/mkvs.(*tree).Insert"); fn != nil {
		do := CallsTo(fn, "doInsert", "storage/mkvs.(*tree).doInsert", "")
		c.GuardedByAny(rule, fn, "len(key) <= MaxKeyLength", []string{`^builtin\.len\(`+keyOrNormalised+`\) <= ` + itoa(int(maxLen)) + `$`}, do, "a key that is too long for the depth type is rejected before the tree is touched: keys arrive unbounded in write logs from storage peers, and a wrapped bit length indexes out of range in doInsert")
	}
	c.WhoMayCall(ix, rule, "storage/mkvs.(*tree).doInsert", []string{"storage/mkvs.(*tree).Insert", "storage/mkvs.(*tree).doInsert"}, "insertions enter the tree only through Insert, which bounds the key length")
	// the iterator: seek keys arrive from remote peers (SyncIterate, SyncGetPrefixes) and reach Key.AppendBit, which
	// slices by the wrapped bit length (F36)
	if fn := c.needFn(rule, "storage/mkvs.(*treeIterator).Seek"); fn != nil {
		do := CallsTo(fn, "doNext", "storage/mkvs.(*treeIterator).doNext", "")
		c.GuardedByAny(rule, fn, "len(key) <= MaxKeyLength", []string{`^builtin\.len\(`+keyOrNormalised+`\) <= ` + itoa(int(maxLen)) + `$`}, do, "a seek key that is too long for the depth type is rejected before the iterator descends: seek keys arrive from storage peers, and a wrapped bit length slices out of range in Key.AppendBit")
	}
	// doNext is entered with a caller-supplied key only through Seek (Next resumes with the iterator's own position)
	c.WhoMayCall(ix, rule, "storage/mkvs.(*treeIterator).doNext", []string{"storage/mkvs.(*treeIterator).Seek", "storage/mkvs.(*treeIterator).Next", "storage/mkvs.(*treeIterator).doNext", "storage/mkvs.(*treeIterator).doNext$1"}, "the iterator descends only from Seek (bounded key) or Next (its own position)")

	// remoteSync dereferences the pointer it is given: every caller has established that it is not nil (F37:
	// PrefetchPrefixes on a locally emptied tree passed the nil pending root)
	nRS := 0
	for _, fn := range c.P.FuncsInPkg("storage/mkvs") {
		for _, call := range findCalls(fn, "storage/mkvs.(*cache).remoteSync") {
			nRS++
			args := allArgs(call)
			ptr := args[2]
			ok := false
			want := vstr(ptr) + " != nil"
			for _, h := range heldCondVals(call) {
				if normCond(h.Cond, h.Pol) == want {
					ok = true
				}
			}
			c.Check(ok, "C16.panic", fname(fn)+":remoteSync(ptr) only with ptr != nil", c.P.InstrPos(call), "the pointer handed to remoteSync was tested non-nil on every path ("+want+")", "remoteSync is called with a pointer that may be nil (it reads ptr.Hash): PrefetchPrefixes on a remote tree whose keys were all removed locally panics")
		}
	}
	c.Floor("C16.panic", nRS, 2, "remoteSync call sites")
}

// wireIntIn: the 32/64-bit integer read from a byte slice (encoding/binary UintN call) that v is derived from by
// conversions and arithmetic; nil if none.
func wireIntIn(v ssa.Value, d int) ssa.Value {
	if d > 6 || v == nil {
		return nil
	}
	switch x := v.(type) {
	case *ssa.Call:
		n := calleeName(x)
		if strings.HasPrefix(n, "encoding/binary.") && (strings.HasSuffix(n, "Uint32") || strings.HasSuffix(n, "Uint64")) {
			return x
		}
	case *ssa.Convert:
		return wireIntIn(x.X, d+1)
	case *ssa.ChangeType:
		return wireIntIn(x.X, d+1)
	case *ssa.BinOp:
		if w := wireIntIn(x.X, d+1); w != nil {
			return w
		}
		return wireIntIn(x.Y, d+1)
	case *ssa.Phi:
		for _, e := range x.Edges {
			if w := wireIntIn(e, d+1); w != nil {
				return w
			}
		}
	}
	return nil
}

// keyOrNormalised matches the key parameter itself or the key after the nil→empty normalisation at the head of the
// mutators (a phi of the parameter and an empty slice): the length test bounds the value that is passed on either way.
const keyOrNormalised = `(param:key|phi\([^()]*param:key[^()]*\))`

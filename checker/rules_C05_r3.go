package main

import (
	"strings"

	"golang.org/x/tools/go/ssa"
)

// Round-3 rules of C05 (written after seeds C05/7..9 were missed).
func c05Round3(c *Ctx) {
	const stPkg = "consensus/cometbft/apps/staking/state"
	// (f) SetDebondingDelegation merges into the record of the same (delegator, escrow, end epoch); the record is
	// removed only when the caller passes nil. Removing it on any property of the *passed* delegation (e.g. zero shares)
	// drops the shares already recorded under the key while the debonding pool's total keeps them.
	if fn := c.needFn("C05.shares", stPkg+".(*MutableState).SetDebondingDelegation"); fn != nil {
		rm := CallsTo(fn, "ms.Remove", "storage/mkvs.(KeyValueTree).Remove", "")
		if rm.Empty() {
			rm = CallsTo(fn, "ms.Remove", "consensus/cometbft/api.(*mkvsWrapper).Remove", "")
		}
		if rm.Empty() {
			for _, call := range callsIn(fn) {
				if strings.HasSuffix(calleeName(call), ").Remove") {
					rm.Ins = append(rm.Ins, call)
				}
			}
			rm.Name, rm.Fn = "ms.Remove", fn
		}
		c.DominatedByCond("C05.shares", fn, "d == nil", `^param:d == nil$`, rm, "the merged debonding record is deleted only on an explicit nil descriptor")
	}

	// (g) genesis: each global ledger slot is written by exactly one place of the InitChain flow. The total supply is
	// accumulated from the genesis document while the slots are written; a second writer of a slot overwrites what the
	// first one accounted for (or is overwritten by it) and the stored slots no longer add up to the stored total.
	if init := c.needFn("C05.ledger", "consensus/cometbft/apps/staking.(*Application).InitChain"); init != nil {
		seen := map[*ssa.Function]bool{}
		var flow []*ssa.Function
		var walk func(f *ssa.Function)
		walk = func(f *ssa.Function) {
			if f == nil || seen[f] || f.Blocks == nil {
				return
			}
			seen[f] = true
			flow = append(flow, f)
			for _, call := range callsIn(f) {
				if cal := call.Common().StaticCallee(); cal != nil && cal.Pkg == init.Pkg {
					walk(cal)
				}
			}
			for _, a := range f.AnonFuncs {
				walk(a)
			}
		}
		walk(init)
		for _, setter := range []struct {
			name string
			min  int
		}{{"SetCommonPool", 1}, {"SetTotalSupply", 1}, {"SetGovernanceDeposits", 1}, {"SetLastBlockFees", 0}} {
			var sites []ssa.Instruction
			for _, f := range flow {
				c.Analysed[fname(f)] = true
				for _, call := range findCalls(f, stPkg+".(*MutableState)."+setter.name) {
					sites = append(sites, call)
				}
			}
			pos := c.P.Pos(init.Pos())
			if len(sites) > 0 {
				pos = c.P.InstrPos(sites[len(sites)-1])
			}
			c.Check(len(sites) >= setter.min && len(sites) <= 1, "C05.ledger", "staking InitChain flow:"+setter.name+" written once", pos,
				itoa(len(sites))+" call site(s) in "+itoa(len(flow))+" functions of the InitChain flow",
				"the InitChain flow writes the "+strings.TrimPrefix(setter.name, "Set")+" slot "+itoa(len(sites))+" times (expected "+itoa(setter.min)+"..1): the later write replaces what the earlier one accounted into the total supply")
		}
	}

	// (h) no stale account copies (shared with C15.debond)
	staleAccountCopies(c, "C05.pair")
}

package main

import (
	"sort"
	"strings"

	"golang.org/x/tools/go/ssa"
)

// CG is a light-weight module call graph: static calls, closures created in
// a function (they may be called by it or by its callees), function values
// referenced as data (callbacks), and interface invocations resolved by CHA
// over module-defined interfaces and module types.
type CG struct {
	p     *Prog
	impls map[string][]*ssa.Function
	succ  map[*ssa.Function][]cgEdge
}

type cgEdge struct {
	To   *ssa.Function
	Site ssa.Instruction
	Kind string // call | invoke | closure | funcvalue
}

func (p *Prog) CallGraph() *CG {
	if p.cg != nil {
		return p.cg
	}
	w := newWTF(p) // reuse CHA tables
	g := &CG{p: p, impls: w.impls, succ: map[*ssa.Function][]cgEdge{}}
	for _, fn := range p.ModFuncs {
		if fn.Blocks == nil {
			continue
		}
		if fn.Origin() != nil && fn.Origin() != fn {
			continue
		}
		seen := map[*ssa.Function]bool{}
		add := func(to *ssa.Function, site ssa.Instruction, kind string) {
			if to == nil {
				return
			}
			if to.Origin() != nil {
				to = to.Origin()
			}
			if seen[to] {
				return
			}
			seen[to] = true
			g.succ[fn] = append(g.succ[fn], cgEdge{to, site, kind})
		}
		for _, b := range fn.Blocks {
			for _, in := range b.Instrs {
				if c, ok := in.(ssa.CallInstruction); ok {
					cc := c.Common()
					if cc.IsInvoke() {
						for _, impl := range g.impls[tfname(cc.Method)] {
							add(impl, in, "invoke")
						}
					} else if f := cc.StaticCallee(); f != nil {
						add(f, in, "call")
					}
				}
				for _, op := range in.Operands(nil) {
					if op == nil || *op == nil {
						continue
					}
					switch v := (*op).(type) {
					case *ssa.MakeClosure:
						if f, ok := v.Fn.(*ssa.Function); ok {
							add(f, in, "closure")
						}
					case *ssa.Function:
						if c, isCall := in.(ssa.CallInstruction); isCall && c.Common().Value == v {
							continue
						}
						add(v, in, "funcvalue")
					}
				}
			}
		}
	}
	p.cg = g
	return g
}

// Cone returns the module functions reachable from entries, not descending
// into functions for which skip returns true. parent[f] is the edge through
// which f was first reached (for shortest call chains).
func (g *CG) Cone(entries []*ssa.Function, skip func(*ssa.Function) bool) (cone []*ssa.Function, parent map[*ssa.Function]*cgFrom) {
	parent = map[*ssa.Function]*cgFrom{}
	seen := map[*ssa.Function]bool{}
	var queue []*ssa.Function
	for _, e := range entries {
		if e == nil || seen[e] {
			continue
		}
		seen[e] = true
		queue = append(queue, e)
	}
	for len(queue) > 0 {
		f := queue[0]
		queue = queue[1:]
		cone = append(cone, f)
		for _, e := range g.succ[f] {
			if seen[e.To] || !inModule(fpkgPath(e.To)) {
				continue
			}
			if skip != nil && skip(e.To) {
				continue
			}
			seen[e.To] = true
			parent[e.To] = &cgFrom{f, e.Site}
			queue = append(queue, e.To)
		}
	}
	sort.Slice(cone, func(i, j int) bool { return fname(cone[i]) < fname(cone[j]) })
	return
}

type cgFrom struct {
	Fn   *ssa.Function
	Site ssa.Instruction
}

// Chain renders the call chain from an entry to f.
func (g *CG) Chain(parent map[*ssa.Function]*cgFrom, f *ssa.Function) string {
	var parts []string
	for i := 0; f != nil && i < 30; i++ {
		parts = append([]string{fname(f)}, parts...)
		p := parent[f]
		if p == nil {
			break
		}
		f = p.Fn
	}
	if len(parts) > 6 {
		parts = append(append([]string{}, parts[:2]...), append([]string{"…"}, parts[len(parts)-3:]...)...)
	}
	return strings.Join(parts, " → ")
}

// skipEffectFree: packages whose functions are treated as effect-free leaves
// (logging, metrics, formatting, pub-sub delivery to external subscribers).
func skipEffectFree(fn *ssa.Function) bool {
	pp := short(fpkgPath(fn))
	for _, pre := range []string{"common/logging", "common/pubsub", "common/prettyprint", "common/service", "common/metrics"} {
		if pp == pre || strings.HasPrefix(pp, pre+"/") {
			return true
		}
	}
	return false
}

// coneUniverse: packages that can be on the consensus execution cone. Interface
// calls are resolved by CHA over the whole module, which also finds
// implementations that a consensus node never wires into block execution
// (remote read syncers, stateless/light clients, service clients, p2p,
// workers); they are cut here. The node database and the tree implementation
// below the KeyValueTree interface are decided by C02/C06/C07, not here.
func outsideConeUniverse(fn *ssa.Function) bool {
	pp := short(fpkgPath(fn))
	for _, pre := range []string{"p2p", "worker", "consensus/cometbft/stateless", "consensus/cometbft/light", "consensus/cometbft/full",
		"oasis-node", "oasis-test-runner", "oasis-net-runner", "storage", "runtime/host", "runtime/bundle", "runtime/registry", "sentry", "ias", "control",
		"consensus/cometbft/beacon", "consensus/cometbft/registry", "consensus/cometbft/staking", "consensus/cometbft/roothash", "consensus/cometbft/scheduler",
		"consensus/cometbft/governance", "consensus/cometbft/vault", "consensus/cometbft/keymanager", "consensus/cometbft/consensus", "consensus/cometbft/db"} {
		if pp == pre || strings.HasPrefix(pp, pre+"/") {
			return true
		}
	}
	return skipEffectFree(fn)
}

// abciEntries: the consensus execution entry points (DESIGN C01 E_abci).
func abciEntries(p *Prog, g *CG) []*ssa.Function {
	var out []*ssa.Function
	for _, key := range []string{
		"consensus/cometbft/api.(Application).InitChain", "consensus/cometbft/api.(Application).BeginBlock",
		"consensus/cometbft/api.(Application).ExecuteTx", "consensus/cometbft/api.(Application).EndBlock",
		"consensus/cometbft/api.(Extension).InitChain", "consensus/cometbft/api.(Extension).BeginBlock",
		"consensus/cometbft/api.(Extension).ExecuteTx", "consensus/cometbft/api.(Extension).EndBlock",
		"consensus/cometbft/api.(MessageSubscriber).ExecuteMessage",
		"consensus/cometbft/api.(TransactionAuthHandler).AuthenticateTx", "consensus/cometbft/api.(TransactionAuthHandler).PostExecuteTx",
	} {
		for _, f := range g.impls[key] {
			if f.Blocks != nil && strings.HasPrefix(short(fpkgPath(f)), "consensus/cometbft/apps/") {
				out = appendUniqueFn(out, f)
			}
		}
	}
	for _, n := range []string{"InitChain", "BeginBlock", "DeliverTx", "EndBlock", "Commit", "PrepareProposal", "ProcessProposal", "FinalizeBlock"} {
		if f := p.Fn("consensus/cometbft/abci.(*abciMux)." + n); f != nil {
			out = appendUniqueFn(out, f)
		}
	}
	return out
}

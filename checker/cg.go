package main

// CG is filled in by cg.go (call graph); placeholder until built.
type CG struct{}

package main

import (
	"go/constant"
	"regexp"
	"sort"
	"strings"

	"golang.org/x/tools/go/ssa"
)

func init() { register("C17", rulesC17) }

const (
	pkRegApp   = "consensus/cometbft/apps/registry"
	pkRegState = "consensus/cometbft/apps/registry/state"
	fnVerifyRN = "registry/api.VerifyRegisterNodeArgs"
	fnSetNode  = pkRegState + ".(*MutableState).SetNode"
	fnRmNode   = pkRegState + ".(*MutableState).RemoveNode"
)

// errorfReturnBlocks: blocks returning fmt.Errorf whose format constant matches re.
func errorfReturnBlocks(fn *ssa.Function, re string) []*ssa.BasicBlock {
	rx := regexp.MustCompile(re)
	var out []*ssa.BasicBlock
	for _, r := range Returns(fn) {
		ev := retErrVal(r)
		call, ok := ev.(*ssa.Call)
		if !ok || calleeNameCommon(&call.Call) != "fmt.Errorf" {
			continue
		}
		if k, ok := call.Call.Args[0].(*ssa.Const); ok && k.Value != nil && k.Value.Kind() == constant.String && rx.MatchString(constant.StringVal(k.Value)) {
			out = append(out, r.Block())
		}
	}
	return out
}

// keyPaths: field paths (relative to the named parameter/local root matched by rootRe)
// of the values whose address flows into keyformat.Encode of the given key format
// in calls of KeyValueTree method `method`.
func keyPaths(fn *ssa.Function, method, keyfmtGlobal string, rootRe *regexp.Regexp) map[string][]ssa.Instruction {
	out := map[string][]ssa.Instruction{}
	for _, call := range callsIn(fn) {
		if calleeName(call) != "storage/mkvs.(KeyValueTree)."+method {
			continue
		}
		args := allArgs(call)
		if len(args) < 3 {
			continue
		}
		enc, ok := args[2].(*ssa.Call)
		if !ok || calleeNameCommon(&enc.Call) != "common/keyformat.(*KeyFormat).Encode" {
			continue
		}
		if !strings.Contains(vstr(enc.Call.Args[0]), "global:"+keyfmtGlobal) {
			continue
		}
		for _, el := range variadicElems(enc.Call.Args[1]) {
			s := vstr(el)
			if m := rootRe.FindStringSubmatch(s); m != nil {
				out[m[1]] = append(out[m[1]], call)
			}
		}
	}
	return out
}

func pathSet(m map[string][]ssa.Instruction) string {
	var ks []string
	for k := range m {
		ks = append(ks, k)
	}
	sort.Strings(ks)
	return strings.Join(ks, ",")
}

func rulesC17(c *Ctx) {
	c17Round5(c)
	c.Explain = append(c.Explain,
		"C17 (registry authority and key uniqueness) — decided: (a) the set of node sub-keys is the same at every place it matters: checked for uniqueness (VerifyRegisterNodeArgs), required to have signed the descriptor (each IsSignedBy true + IsOnlySignedBy), indexed on SetNode, un-indexed for the replaced descriptor on SetNode, and un-indexed on RemoveNode; SetNode and RemoveNode handle the same key formats; in SetNode every removal of an old key index entry precedes every insertion of a new one (so a node exchanging keys among its own slots cannot clobber a fresh entry); the duplicate-key rejection fires exactly when another node owns the key; (b) every registry state write in the transaction handlers is dominated by the signer-equals-owner comparison (or InitChain); (c) the previous owner's stake claim is removed exactly when the staking address changes; entity records and their stake claim are added/removed together; (d) RemoveEntity is dominated by the has-nodes and has-runtimes guards.",
		"NOT decided: index consistency over arbitrary histories beyond the ordering/agreement clauses, claim thresholds, expiry handling.")
	ix := c.P.BuildIndex()
	c17Round3(c)
	_ = ix

	// ---- (a) sub-key agreement
	var uniq, signed, expected string
	if fn := c.needFn("C17.keys", fnVerifyRN); fn != nil {
		// (1) subKeys literal
		lit := map[string]bool{}
		for _, b := range blocksIP(fn) {
			for _, in := range b.Instrs {
				st, ok := in.(*ssa.Store)
				if !ok {
					continue
				}
				fa, ok := st.Addr.(*ssa.FieldAddr)
				if !ok || fieldName(fa.X.Type(), fa.Field) != "id" || !strings.Contains(typeStr(derefType(fa.X.Type())), "nodeSubKey") {
					continue
				}
				s := vstr(st.Val)
				if i := strings.Index(s, "node.Node."); i >= 0 {
					lit[s[i+len("node.Node."):]] = true
				} else {
					lit["?"+s] = true
				}
			}
		}
		uniq = strings.Join(keysOf(lit), ",")
		// (2) IsSignedBy
		sg := map[string]bool{}
		for _, call := range CallsTo(fn, "", "common/crypto/signature.(*MultiSigned).IsSignedBy", "").Calls() {
			s := vstr(allArgs(call)[1])
			if i := strings.Index(s, "node.Node."); i >= 0 {
				p := s[i+len("node.Node."):]
				sg[p] = true
				c.SuccessRequiresEdges("C17.keys", fn, "IsSignedBy(n."+p+")", mustBoolEdges(call, true), "the descriptor must be signed by every key it declares")
			}
		}
		signed = strings.Join(keysOf(sg), ",")
		// expectedSigners appends + IsOnlySignedBy
		ex := map[string]bool{}
		for _, call := range callsIn(fn) {
			if calleeName(call) != "builtin.append" {
				continue
			}
			args := allArgs(call)
			if !strings.Contains(typeStr(args[0].Type()), "signature.PublicKey") {
				continue
			}
			for _, el := range variadicElems(args[1]) {
				s := vstr(el)
				if i := strings.Index(s, "node.Node."); i >= 0 {
					ex[s[i+len("node.Node."):]] = true
				}
			}
		}
		expected = strings.Join(keysOf(ex), ",")
		only := CallsTo(fn, "IsOnlySignedBy", "common/crypto/signature.(*MultiSigned).IsOnlySignedBy", "")
		if only.Empty() {
			c.Fail("C17.keys", fnVerifyRN+":IsOnlySignedBy", c.P.Pos(fn.Pos()), "the closing check that no other key signed the descriptor is gone")
		} else {
			c.SuccessRequiresEdges("C17.keys", fn, "IsOnlySignedBy(expectedSigners)", mustBoolEdges(only.Calls()[0], true), "no extra signatures")
		}
		c.Check(signed == expected, "C17.keys", fnVerifyRN+":signed==expectedSigners", c.P.Pos(fn.Pos()), "keys required to sign = keys accepted as signers = {"+signed+"}", "keys required to sign {"+signed+"} differ from the accepted signer list {"+expected+"}")
		wantSigned := uniq
		if wantSigned != "" {
			wantSigned = "ID," + wantSigned
			parts := strings.Split(wantSigned, ",")
			sort.Strings(parts)
			wantSigned = strings.Join(parts, ",")
		}
		c.Check(signed == wantSigned, "C17.keys", fnVerifyRN+":signed==uniqueness-checked+ID", c.P.Pos(fn.Pos()), "every uniqueness-checked sub-key must also sign: {"+uniq+"}", "sub-keys checked for uniqueness {"+uniq+"} and keys required to sign {"+signed+"} disagree")
		// open + entity membership
		open := CallsTo(fn, "sigNode.Open", "common/node.(*MultiSignedNode).Open", "")
		c.successOnlyVia("C17.keys", fn, open, "the descriptor's signatures must verify")
		c.SuccessRequiresCond("C17.keys", fn, "entity.HasNode(n.ID) (unless sanity check)", `^common/entity\.\(\*Entity\)\.HasNode\(param:entity,.*node\.Node\.ID\)$|^param:isSanityCheck$`, "a node registers only if its entity lists it")
		// duplicate-key guard: exactly (other node owns the key)
		blocks := errorfReturnBlocks(fn, `duplicate node`)
		if len(blocks) != 1 {
			c.Fail("C17.keys", fnVerifyRN+":duplicate-key-guard", c.P.Pos(fn.Pos()), "the duplicate sub-key rejection was not found exactly once")
		} else {
			gs := guardsInto(blocks[0])
			var dnf []string
			for _, g := range gs {
				dnf = append(dnf, g.FailDNF...)
			}
			ok := len(dnf) == 1 && conjMatches(`NodeBySubKey\(.*\)#0 != nil$ && NodeBySubKey\(.*\)#0\.ID != .*node\.Node\.ID$`, dnf[0])
			c.Check(ok, "C17.keys", fnVerifyRN+":duplicate-key-guard", c.P.InstrPos(blocks[0].Instrs[0]), "a sub-key is rejected exactly when a different registered node owns it", "the duplicate sub-key rejection no longer fires exactly when another registered node owns the key; it fires on {"+strings.Join(dnf, " || ")+"}")
		}
	}
	rxNode := regexp.MustCompile(`^&?\(?\*?param:node\.([A-Za-z0-9_.]+)\)?$|^param:node\.([A-Za-z0-9_.]+)$`)
	rxExisting := regexp.MustCompile(`^&?\(?\*?param:existingNode\.([A-Za-z0-9_.]+)\)?$|^param:existingNode\.([A-Za-z0-9_.]+)$`)
	_ = rxNode
	pathOf := func(prefix string) *regexp.Regexp {
		return regexp.MustCompile(`^(?:&\()?\*?param:` + prefix + `\.([A-Za-z0-9_.]+)\)?$`)
	}
	_ = rxExisting
	var insSet, rmOldSet, rmSet string
	if fn := c.needFn("C17.keys", fnSetNode); fn != nil {
		ins := keyPaths(fn, "Insert", pkRegState+".keyMapKeyFmt", pathOf("node"))
		rmOld := keyPaths(fn, "Remove", pkRegState+".keyMapKeyFmt", pathOf("existingNode"))
		insSet, rmOldSet = pathSet(ins), pathSet(rmOld)
		c.Check(insSet == rmOldSet, "C17.keys", fnSetNode+":indexed==unindexed-on-update", c.P.Pos(fn.Pos()), "keys indexed for the new descriptor = keys un-indexed for the replaced one = {"+insSet+"}", "SetNode indexes {"+insSet+"} but un-indexes {"+rmOldSet+"} of the replaced descriptor: a stale or missing key index entry results")
		// each removal of an old key is under the "changed" guard for the same key
		for p, calls := range rmOld {
			for _, call := range calls {
				okG := false
				for _, h := range heldCondVals(call) {
					s := vstr(h.Cond)
					if !h.Pol && strings.Contains(s, "param:existingNode."+p) && strings.Contains(s, "param:node."+p) && strings.Contains(s, ".Equal(") {
						okG = true
					}
				}
				c.Check(okG, "C17.keys", fnSetNode+":unindex-only-if-changed:"+p, c.P.InstrPos(call), "old "+p+" entry removed only when the key changed", "the old "+p+" index entry is removed without comparing it with the new "+p)
			}
		}
		// remove-before-insert ordering
		var insI, rmI []ssa.Instruction
		for _, cs := range ins {
			insI = append(insI, cs...)
		}
		for _, cs := range rmOld {
			rmI = append(rmI, cs...)
		}
		c.NeverAfter("C17.keys", fn, Ev{Name: "Remove(keyMap[existingNode.*])", Fn: fn, Ins: rmI}, Ev{Name: "Insert(keyMap[node.*])", Fn: fn, Ins: insI},
			"a node may move a key from one slot to another (e.g. new P2P key = old TLS key): removing an old entry after inserting a new one deletes the entry just written, and the node is no longer found under its current key")
	}
	if fn := c.needFn("C17.keys", fnRmNode); fn != nil {
		rm := keyPaths(fn, "Remove", pkRegState+".keyMapKeyFmt", pathOf("node"))
		rmSet = pathSet(rm)
		c.Check(rmSet == insSet, "C17.keys", fnRmNode+":unindexed==indexed", c.P.Pos(fn.Pos()), "RemoveNode un-indexes exactly the keys SetNode indexes", "RemoveNode un-indexes {"+rmSet+"} but SetNode indexes {"+insSet+"}")
	}
	c.Check(uniq != "" && uniq == insSet, "C17.keys", "uniqueness-checked==indexed", "", "sub-keys checked for uniqueness = sub-keys indexed = {"+uniq+"}", "sub-keys checked for uniqueness {"+uniq+"} differ from the sub-keys indexed by SetNode {"+insSet+"}: a key could be indexed for two nodes or never be findable")
	// key formats written by SetNode vs removed by RemoveNode
	{
		setF, rmF := keyFormatsOf(c, fnSetNode, "Insert"), keyFormatsOf(c, fnRmNode, "Remove")
		missing := []string{}
		for f := range setF {
			if !rmF[f] {
				missing = append(missing, f)
			}
		}
		sort.Strings(missing)
		c.Check(len(setF) >= 4 && len(missing) == 0, "C17.keys", "SetNode.formats⊆RemoveNode.formats", "", "every key format written by SetNode {"+strings.Join(keysOf(setF), ",")+"} is removed by RemoveNode", "key formats written by SetNode but not removed by RemoveNode: "+strings.Join(missing, ","))
	}

	// ---- (b) authority
	type auth struct{ fn, cond, condName, why string }
	writesOf := func(fn *ssa.Function) Ev {
		ev := Ev{Name: "registry/staking state writes", Fn: fn}
		for _, call := range callsIn(fn) {
			n := calleeName(call)
			if strings.HasPrefix(n, pkRegState+".(*MutableState).Set") || strings.HasPrefix(n, pkRegState+".(*MutableState).Remove") ||
				n == "consensus/cometbft/apps/staking/state.AddStakeClaim" || n == "consensus/cometbft/apps/staking/state.RemoveStakeClaim" ||
				strings.HasPrefix(n, "consensus/cometbft/apps/staking/state.(*StakeAccumulatorCache).") && (strings.HasSuffix(n, ".AddStakeClaim") || strings.HasSuffix(n, ".Commit")) {
				ev.Ins = append(ev.Ins, call)
			}
		}
		return ev
	}
	for _, a := range []auth{
		{pkRegApp + ".(*Application).registerEntity", `^common/crypto/signature\.\(PublicKey\)\.Equal\(\*param:sigEnt\.Signed\.Signature\.PublicKey,consensus/cometbft/api\.\(\*Context\)\.TxSigner\(param:ctx\)\)$|^consensus/cometbft/api\.\(\*Context\)\.IsInitChain\(param:ctx\)$`, "signer==entity key ∨ InitChain", "an entity record changes only with the entity's own key"},
		{pkRegApp + ".(*Application).registerNode", `^common/crypto/signature\.\(PublicKey\)\.Equal\(consensus/cometbft/api\.\(\*Context\)\.TxSigner\(param:ctx\),\*registry/api\.VerifyRegisterNodeArgs\(.*\)#0\.ID\)$|^consensus/cometbft/api\.\(\*Context\)\.IsInitChain\(param:ctx\)$`, "signer==node ID ∨ InitChain", "a node record changes only with the node's identity key"},
		{pkRegApp + ".(*Application).unfreezeNode", `^common/crypto/signature\.\(PublicKey\)\.Equal\(consensus/cometbft/api\.\(\*Context\)\.TxSigner\(param:ctx\),\*.*Node\(.*\)#0\.EntityID\)$`, "signer==node's entity", "only the owning entity unfreezes a node"},
	} {
		fn := c.needFn("C17.auth", a.fn)
		if fn == nil {
			continue
		}
		w := writesOf(fn)
		c.DominatedByCond("C17.auth", fn, a.condName, a.cond, w, a.why)
	}
	if fn := c.needFn("C17.auth", pkRegApp+".(*Application).registerNode"); fn != nil {
		v := CallsTo(fn, "VerifyRegisterNodeArgs", fnVerifyRN, "")
		c.MustPrecede("C17.auth", fn, v, writesOf(fn), "node records are written only for verified descriptors")
	}
	if fn := c.needFn("C17.auth", pkRegApp+".(*Application).registerRuntime"); fn != nil {
		w := writesOf(fn)
		c.DominatedByCond("C17.auth", fn, "caller==governing address ∨ InitChain", `^staking/api\.\(Address\)\.Equal\(consensus/cometbft/api\.\(\*Context\)\.CallerAddress\(.*\),\*registry/api\.\(\*Runtime\)\.StakingAddress\(phi\(.*\)\)#0\)$|^consensus/cometbft/api\.\(\*Context\)\.IsInitChain\(.*\)$`, w, "a runtime record changes only with its governing entity or runtime")
		// the record whose authority is checked (and against which the update is verified) is the stored one,
		// active or suspended, whenever one exists
		for _, call := range callsIn(fn) {
			nm := calleeName(call)
			var subj ssa.Value
			what := ""
			switch nm {
			case "registry/api.(*Runtime).StakingAddress":
				// only the call feeding the comparison with the caller's address
				isAuth := false
				if v := call.Value(); v != nil && v.Referrers() != nil {
					for _, r := range *v.Referrers() {
						if ex, ok := r.(*ssa.Extract); ok && ex.Index == 0 && ex.Referrers() != nil {
							for _, rr := range *ex.Referrers() {
								if u, ok := rr.(*ssa.UnOp); ok && u.Referrers() != nil {
									for _, r3 := range *u.Referrers() {
										if eq, ok := r3.(ssa.CallInstruction); ok && calleeName(eq) == "staking/api.(Address).Equal" && strings.Contains(vstr(allArgs(eq)[0]), "CallerAddress(") {
											isAuth = true
										}
									}
								}
							}
						}
					}
				}
				if !isAuth {
					continue
				}
				subj, what = allArgs(call)[0], "authority check"
			case "registry/api.VerifyRuntimeUpdate":
				subj, what = allArgs(call)[1], "update verification"
			default:
				continue
			}
			rs := strings.Join(rootStrs(subj), " | ")
			ok := strings.Contains(rs, ".(*ImmutableState).Runtime(") && strings.Contains(rs, ".(*ImmutableState).SuspendedRuntime(")
			if what == "authority check" {
				ok = ok && strings.Contains(rs, "param:rt")
			}
			c.Check(ok, "C17.auth", fname(fn)+":"+what+" uses the stored record (active or suspended)", c.P.InstrPos(call), "the runtime consulted comes from state.Runtime or state.SuspendedRuntime (the submitted descriptor only when neither exists)", "the "+what+" of registerRuntime does not consult the stored record of a "+map[bool]string{true: "suspended", false: "registered"}[strings.Contains(rs, ".(*ImmutableState).Runtime(")]+" runtime (provenance: "+rs+"): such a runtime can be re-registered by someone who does not govern it")
		}
	}
	if fn := c.needFn("C17.auth", pkRegApp+".(*Application).deregisterEntity"); fn != nil {
		for _, call := range CallsTo(fn, "", pkRegState+".(*MutableState).RemoveEntity", "").Calls() {
			s := vstr(allArgs(call)[2])
			c.Check(s == "consensus/cometbft/api.(*Context).TxSigner(param:ctx)", "C17.auth", fname(fn)+":removes-signer's-entity", c.P.InstrPos(call), "the entity removed is the transaction signer's", "deregisterEntity removes entity {"+s+"} rather than the signer's own")
		}
		// (d) removal guards
		rm := CallsTo(fn, "state.RemoveEntity", pkRegState+".(*MutableState).RemoveEntity", "")
		c.DominatedBySentinelGuard("C17.remove", fn, GuardSpec{"registry/api.ErrEntityHasNodes", []string{`^` + regexp.QuoteMeta(pkRegState) + `\.\(\*ImmutableState\)\.HasEntityNodes\(\*param:state\.ImmutableState,param:ctx,consensus/cometbft/api\.\(\*Context\)\.TxSigner\(param:ctx\)\)#0$`}, "an entity that still owns registered nodes cannot be removed"}, rm)
		c.DominatedBySentinelGuard("C17.remove", fn, GuardSpec{"registry/api.ErrEntityHasRuntimes", []string{`^` + regexp.QuoteMeta(pkRegState) + `\.\(\*ImmutableState\)\.HasEntityRuntimes\(\*param:state\.ImmutableState,param:ctx,consensus/cometbft/api\.\(\*Context\)\.TxSigner\(param:ctx\)\)#0$`}, "an entity that still owns runtimes cannot be removed"}, rm)
		// claims mirror records
		rc := CallsTo(fn, "RemoveStakeClaim", "consensus/cometbft/apps/staking/state.RemoveStakeClaim", "")
		c.Check(!rc.Empty(), "C17.claims", fname(fn)+":RemoveEntity↔RemoveStakeClaim", c.P.Pos(fn.Pos()), "entity claim removed with the record", "the entity's stake claim is no longer removed when the entity is removed")
	}

	// ---- (b') node updates keep identity, owner and consensus key, whatever the node's state
	if fn := c.needFn("C17.update", "registry/api.VerifyNodeUpdate"); fn != nil {
		for _, f := range []struct{ name, re string }{
			{"node ID unchanged", `^common/crypto/signature\.\(PublicKey\)\.Equal\(\*param:currentNode\.ID,\*param:newNode\.ID\)$`},
			{"entity ID unchanged", `^common/crypto/signature\.\(PublicKey\)\.Equal\(\*param:currentNode\.EntityID,\*param:newNode\.EntityID\)$`},
			{"consensus ID unchanged", `^common/crypto/signature\.\(PublicKey\)\.Equal\(\*param:currentNode\.Consensus\.ID,\*param:newNode\.Consensus\.ID\)$`},
		} {
			c.SuccessRequiresCond("C17.update", fn, f.name, f.re, "an update of a registered node (expired or not) cannot move it to another entity or change its identity keys")
		}
	}
	if fn := c.needFn("C17.update", pkRegApp+".(*Application).registerNode"); fn != nil {
		vu := CallsTo(fn, "VerifyNodeUpdate", "registry/api.VerifyNodeUpdate", "")
		okV := len(vu.Calls()) == 1
		if okV {
			a := allArgs(vu.Calls()[0])
			okV = strings.Contains(vstr(a[2]), ".Node(") && strings.Contains(vstr(a[3]), "VerifyRegisterNodeArgs(")
		}
		c.Check(okV, "C17.update", fname(fn)+":VerifyNodeUpdate(stored node, verified new node)", c.P.Pos(fn.Pos()), "the update is verified against the stored node record", "VerifyNodeUpdate is not applied to (the stored node, the verified new descriptor)")
		// an existing node is overwritten only after the update was verified
		if !vu.Empty() {
			// existingNode is assigned once: after `existingNode != nil` held, its `== nil` edges are infeasible
			ex := HeldEdges(fn, `^consensus/cometbft/apps/registry/state\.\(\*ImmutableState\)\.Node\(.*\)#0 != nil$`)
			set := CallsTo(fn, "SetNode", pkRegState+".(*MutableState).SetNode", "")
			cut, _ := successCut(vu)
			cut.AddEdges(HeldEdges(fn, `^consensus/cometbft/apps/registry/state\.\(\*ImmutableState\)\.Node\(.*\)#0 == nil$`)...)
			ok := len(ex) > 0 && !set.Empty() && Reach(fn, nil, ex, anyOf(set.Ins), cut) == nil
			c.Check(ok, "C17.update", fname(fn)+":existing node⇒SetNode only after VerifyNodeUpdate✓", c.P.Pos(fn.Pos()), "when a node record already exists it is overwritten only after the update was verified", "an existing node record can be overwritten without VerifyNodeUpdate having succeeded")
		}
	}

	// ---- (c) claims
	if fn := c.needFn("C17.claims", pkRegApp+".(*Application).registerEntity"); fn != nil {
		add := CallsTo(fn, "AddStakeClaim", "consensus/cometbft/apps/staking/state.AddStakeClaim", "")
		set := CallsTo(fn, "SetEntity", pkRegState+".(*MutableState).SetEntity", "")
		bypass := HeldEdges(fn, `^[^!].*DebugBypassStake$`)
		cut, _ := successCut(add)
		cut.AddEdges(bypass...)
		hit := Reach(fn, nil, nil, anyOf(set.Ins), cut)
		c.Check(!set.Empty() && !add.Empty() && hit == nil, "C17.claims", fname(fn)+":SetEntity⇐AddStakeClaim✓", c.P.Pos(fn.Pos()), "an entity record is written only after its stake claim was added (unless stake is bypassed)", "an entity record can be written without its stake claim having been added")
	}
	if fn := c.needFn("C17.claims", pkRegApp+".(*Application).registerRuntime"); fn != nil {
		for _, an := range anonFuncs(fn) {
			rmc := CallsTo(an, "RemoveStakeClaim(previous owner)", "consensus/cometbft/apps/staking/state.RemoveStakeClaim", "")
			if rmc.Empty() {
				continue
			}
			// the skip condition is equality of the STAKING ADDRESSES of the old and new descriptor
			es := HeldEdges(an, `^\*registry/api\.\(\*Runtime\)\.StakingAddress\(.*existingRt.*\)#0 != \*.*rtAddress$|^\*.*rtAddress != \*registry/api\.\(\*Runtime\)\.StakingAddress\(.*existingRt.*\)#0$`)
			ok := len(es) > 0 && Reach(an, nil, nil, anyOf(rmc.Ins), NewCut().AddEdges(es...)) == nil
			c.Check(ok, "C17.claims", fname(fn)+":previous-owner-claim-removed-iff-address-changes", c.P.InstrPos(rmc.Ins[0]), "the previous owner's claim is dropped exactly when the runtime's staking address changes", "the previous owner's stake claim is not removed on the condition 'staking address changed' (e.g. an entity→runtime governance hand-over keeps the same EntityID but changes the address)")
		}
		add := CallsTo(fn, "AddStakeClaim", "consensus/cometbft/apps/staking/state.AddStakeClaim", "")
		set := CallsTo(fn, "SetRuntime", pkRegState+".(*MutableState).SetRuntime", "")
		cut, _ := successCut(add)
		cut.AddEdges(HeldEdges(fn, `^[^!].*DebugBypassStake$`)...)
		cut.AddEdges(HeldEdges(fn, `^!registry/api\.\(\*Runtime\)\.StakingAddress\(.*\)#1$`)...)
		hit := Reach(fn, nil, nil, anyOf(set.Ins), cut)
		c.Check(!set.Empty() && !add.Empty() && hit == nil, "C17.claims", fname(fn)+":SetRuntime⇐AddStakeClaim✓", c.P.Pos(fn.Pos()), "a runtime record is written only after its stake claim was added (unless bypassed / consensus-governed)", "a runtime record can be written without its stake claim having been added")
	}
	// WHO: record setters/removers
	c.WhoMayCall(ix, "C17.who", pkRegState+".(*MutableState).SetEntity", []string{pkRegApp + ".(*Application).registerEntity", pkRegState + "/interop/", "upgrade/migrations.(*dummyMigrationHandler).ConsensusUpgrade"}, "entity records change only through registration (the dummy migration is a test-only upgrade handler)")
	c.WhoMayCall(ix, "C17.who", pkRegState+".(*MutableState).RemoveEntity", []string{pkRegApp + ".(*Application).deregisterEntity"}, "entity records are removed only through deregistration")
	c.WhoMayCall(ix, "C17.who", fnSetNode, []string{pkRegApp + ".(*Application).registerNode", pkRegState + "/interop/"}, "node records change only through registration")
	c.WhoMayCall(ix, "C17.who", fnRmNode, []string{pkRegApp + ".(*Application).onRegistryEpochChanged"}, "node records are removed only at epoch transitions")
	c.WhoMayCall(ix, "C17.who", pkRegState+".(*MutableState).SetRuntime", []string{pkRegApp + ".(*Application).registerRuntime", pkRegState + "/interop/"}, "runtime records change only through registration")
}

func mustBoolEdges(call ssa.CallInstruction, want bool) []Edge {
	es, _ := BoolEdges(call, 0, want)
	return es
}

// keyFormatsOf: key format globals used in Insert/Remove calls of fn.
func keyFormatsOf(c *Ctx, fnName, method string) map[string]bool {
	out := map[string]bool{}
	fn := c.P.Fn(fnName)
	if fn == nil {
		return out
	}
	rx := regexp.MustCompile(`global:` + regexp.QuoteMeta(pkRegState) + `\.([A-Za-z0-9_]+KeyFmt)`)
	for _, call := range callsIn(fn) {
		if calleeName(call) != "storage/mkvs.(KeyValueTree)."+method {
			continue
		}
		if m := rx.FindStringSubmatch(vstr(allArgs(call)[2])); m != nil {
			out[m[1]] = true
		}
	}
	return out
}

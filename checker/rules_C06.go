package main

import (
	"go/token"
	"go/types"
	"golang.org/x/tools/go/ssa"
	"strings"
)

func init() { register("C06", rulesC06) }

// destructive operations of a NodeDB function: batch deletes/flushes,
// transaction deletes/commits, metadata setters/commit, discard-ts.
func destructiveOps(fn *ssa.Function, pk string) Ev {
	evs := []Ev{
		CallsTo(fn, "", bWB+".Delete", ""), CallsTo(fn, "", bWB+".DeleteAt", ""), CallsTo(fn, "", bWB+".Flush", ""), CallsTo(fn, "", bWB+".Set", ""),
		CallsTo(fn, "", bTX+".Delete", ""), CallsTo(fn, "", bTX+".CommitAt", ""), CallsTo(fn, "", bTX+".Set", ""),
		CallsTo(fn, "", bDB+".SetDiscardTs", ""),
		closureCallsContaining(fn, "", bWB+".Delete", bTX+".Delete"),
	}
	for _, m := range []string{"setEarliestVersion", "setLastFinalizedVersion", "commit", "setMultipartVersion", "setMultipart", "save"} {
		evs = append(evs, CallsTo(fn, "", "storage/mkvs/db/"+pk+".(*metadata)."+m, ""))
	}
	evs = append(evs, CallsTo(fn, "", "storage/mkvs/db/"+pk+".(*rootsMetadata).save", ""))
	u := union("destructive-ops", evs...)
	u.Fn = fn
	return u
}

func rulesC06(c *Ctx) {
	c.Explain = append(c.Explain,
		"C06 (finalized versions stay readable until pruned) — decided: in Prune and Finalize of BOTH backends every destructive operation (batch delete/flush, txn delete/commit, metadata setter/commit, discard-timestamp) is dominated on every CFG path by the acceptance guards, each identified by the sentinel error its failing side returns and by its normalised failing condition (operands resolved to parameters / metadata getters): only-finalized, only-earliest, never-the-last, no-multipart, not-read-only for Prune; not-already-finalized, previous-finalized, multipart-version for Finalize; lone-node deletions are guarded by the not-lone set; the same guard set is required of each backend; Commit refuses finalized versions; the ABCI pruner syncs the database (success edge) between pruning and advancing the retained height, and the retained height it reports is the field written there.",
		"NOT decided: correctness of the lone-node computation for all candidate-root histories, resurrection through versioned keys, concurrent readers, identical answers of both backends for all histories.")
	c06Discard(c)
	c06Inherited(c)
	c06Round2(c, c.P.BuildIndex())
	c06Round3(c)
	c06Round4(c, c.P.BuildIndex())
	pendingFallbackRule(c, "C06.guard")
	c06Round5(c)
	c06Borrowed(c)
	const rule = "C06.guard"
	api := "storage/mkvs/db/api."
	for _, pk := range []string{"badger", "pathbadger"} {
		P := "storage/mkvs/db/" + pk
		getLF := P + `\.\(\*metadata\)\.getLastFinalizedVersion\(.*\)`
		if fn := c.needFn(rule, P+".(*badgerNodeDB).Prune"); fn != nil {
			T := destructiveOps(fn, pk)
			c.DominatedBySentinelGuard(rule, fn, GuardSpec{api + "ErrReadOnly", []string{`^\*param:d\.readOnly$`}, "read-only database is never modified"}, T)
			c.DominatedBySentinelGuard(rule, fn, GuardSpec{api + "ErrMultipartInProgress", []string{`^\*param:d\.multipartVersion != 0$`}, "no pruning during a multipart restore"}, T)
			c.DominatedBySentinelGuard(rule, fn, GuardSpec{api + "ErrNotFinalized", []string{`^!` + getLF + `#1$`, `^param:version > ` + getLF + `#0$`}, "only finalized versions are pruned"}, T)
			c.DominatedBySentinelGuard(rule, fn, GuardSpec{api + "ErrNotEarliest", []string{`^param:version != ` + P + `\.\(\*metadata\)\.getEarliestVersion\(.*\)$`}, "only the earliest version is pruned"}, T)
			c.DominatedBySentinelGuard(rule, fn, GuardSpec{api + "ErrCannotPruneLatestVersion", []string{`^param:version == ` + getLF + `#0$`}, "the last finalized version is never pruned"}, T)
		}
		if fn := c.needFn(rule, P+".(*badgerNodeDB).Finalize"); fn != nil {
			T := destructiveOps(fn, pk)
			ver := `\*param:roots\[0\]\.Version`
			c.DominatedBySentinelGuard(rule, fn, GuardSpec{api + "ErrReadOnly", []string{`^\*param:d\.readOnly$`}, "read-only database is never modified"}, T)
			c.DominatedBySentinelGuard(rule, fn, GuardSpec{api + "ErrInvalidMultipartVersion", []string{`^\*param:d\.multipartVersion != ` + ver + `$ && ^\*param:d\.multipartVersion != 0$`}, "during a multipart restore only its version is finalized"}, T)
			c.DominatedBySentinelGuard(rule, fn, GuardSpec{api + "ErrAlreadyFinalized", []string{`^` + ver + ` <= ` + getLF + `#0$ && ^` + getLF + `#1$`}, "a finalized version is never finalized again (its discarded roots stay discarded, its kept roots stay kept)"}, T)
			if pk == "badger" {
				c.DominatedBySentinelGuard(rule, fn, GuardSpec{api + "ErrNotFinalized", []string{`^\(` + ver + ` - 1\) > ` + getLF + `#0$ && ^\*param:d\.multipartVersion == 0$ && ^` + ver + ` > 0$ && ^` + getLF + `#1$`}, "the previous version must be finalized first"}, T)
				// unknown finalized roots are rejected before anything is deleted
				c.EvaluatedBeforeSentinelGuard(rule, fn, GuardSpec{api + "ErrRootNotFound", []string{`Roots\[.*\]#1 && ^!common/crypto/hash\.\(\*Hash\)\.IsEmpty`}, "every root to finalize must be a known root of the version"}, T)
			} else {
				c.DominatedBySentinelGuard(rule, fn, GuardSpec{api + "ErrNotFinalized", []string{`^\(` + getLF + `#0 \+ 1\) != ` + ver + `$ && ^\*param:d\.multipartVersion == 0$ && ^` + ver + ` > ` + getLF + `#0$ && ^` + getLF + `#1$`}, "the previous version must be finalized first"}, T)
				ce := CallsTo(fn, "checkRootExists", P+".(*badgerNodeDB).checkRootExists", "")
				c.NeverAfter(rule, fn, ce, T, "every non-empty root to finalize is checked to exist before anything is modified")
				for _, call := range ce.Calls() {
					_, found := FailEdges(call)
					c.Check(found, rule, fname(fn)+":checkRootExists-checked", c.P.InstrPos(call), "root existence failure is branched on", "result of checkRootExists is ignored in Finalize")
				}
				if ce.Empty() {
					c.Fail(rule, fname(fn)+":checkRootExists", c.P.Pos(fn.Pos()), "Finalize no longer checks that the roots to finalize exist")
				}
			}
			loneNodeGuard(c, rule, fn, pk)
		}
		if fn := c.needFn(rule, P+".(*badgerBatch).Commit"); fn != nil {
			T := union("durable-writes", CallsTo(fn, "", bWB+".Flush", ""), CallsTo(fn, "", bTX+".CommitAt", ""), CallsTo(fn, "", P+".(*metadata).commit", ""))
			T.Name = "durable-writes"
			T.Fn = fn
			c.DominatedBySentinelGuard(rule, fn, GuardSpec{api + "ErrAlreadyFinalized", []string{`^\*&\(param:root\)\.Version <= ` + P + `\.\(\*metadata\)\.getLastFinalizedVersion\(.*\)#0$ && getLastFinalizedVersion\(.*\)#1$`}, "nothing is committed into an already finalized version"}, T)
			c.DominatedBySentinelGuard(rule, fn, GuardSpec{api + "ErrRootMustFollowOld", []string{`^!storage/mkvs/node\.\(\*Root\)\.Follows\(&\(param:root\),param:ba\.oldRoot\)$`}, "a committed root follows the root it was derived from"}, T)
		}
	}

	// badger Prune: while traversing a lone root only nodes CREATED in the pruned version are deleted
	// (nodes inherited from earlier versions are shared with the continuing lineage).
	if fn := c.needFn(rule, "storage/mkvs/db/badger.(*badgerNodeDB).Prune"); fn != nil {
		found := false
		for _, an := range anonFuncs(fn) {
			del := CallsArg(an, "batch.Delete(nodeKeyFmt)", bWB+".Delete", 1, `global:storage/mkvs/db/badger\.nodeKeyFmt`)
			if del.Empty() {
				continue
			}
			found = true
			c.DominatedByCond(rule, an, "item.Version==pruned-version", `^storage/mkvs/db/badger\.tsToVersion\(github\.com/dgraph-io/badger/v4\.\(\*Item\)\.Version\(.*\)\) == \*?free:version$|^\*?free:version == storage/mkvs/db/badger\.tsToVersion\(`, del, "pruning deletes only nodes created in the pruned version; older nodes are still referenced by retained versions")
		}
		c.Check(found, rule, fname(fn)+":visitor-deletes-nodes", c.P.Pos(fn.Pos()), "node deletion found in the prune visitor", "node deletion in the prune visitor not found")
		// Node keys of this backend are content-addressed (hash only): a node created in the pruned version can
		// be referenced by a lone root AND by a continuing root of the same version (e.g. an I/O leaf equal to a
		// state leaf). As in Finalize (not-lone set), the deletion must be protected by a negative membership test
		// in a set of nodes still in use; "created in this version" alone does not protect them (F13).
		for _, an := range anonFuncs(fn) {
			del := CallsArg(an, "batch.Delete(nodeKeyFmt)", bWB+".Delete", 1, `global:storage/mkvs/db/badger\.nodeKeyFmt`)
			for _, d := range del.Ins {
				ok := false
				for _, h := range heldCondVals(d) {
					l := lookupOf(h.Cond)
					if l == nil || h.Pol {
						continue
					}
					if _, isMap := l.X.Type().Underlying().(*types.Map); isMap {
						ok = true
					}
				}
				c.Check(ok, "C06.prune-shared", fname(fn)+":lone-root node deletion protected against nodes shared with continuing roots", c.P.InstrPos(d), "node deletion is dominated by a negative lookup in a still-in-use set", "while pruning a lone root, a content-addressed node created in the pruned version is deleted without any check that a continuing root of the same version also references it: the continuing lineage loses the node")
			}
		}
	}
	// pathbadger GetNode: for a pending root (seqNo != 0) the pending node set is consulted before
	// the finalized set (competing candidates of one version share (version,index) keys).
	if fn := c.needFn(rule, "storage/mkvs/db/pathbadger.(*badgerNodeDB).GetNode"); fn != nil {
		fin := CallsArg(fn, "tx.Get(finalizedNodeKeyFmt)", bTX+".Get", 1, `global:storage/mkvs/db/pathbadger\.finalizedNodeKeyFmt`)
		pend := CallsArg(fn, "tx.Get(pendingNodeKeyFmt)", bTX+".Get", 1, `global:storage/mkvs/db/pathbadger\.pendingNodeKeyFmt`)
		inst := fname(fn) + ":pending-before-finalized"
		if fin.Empty() || pend.Empty() {
			c.Fail(rule, inst, c.P.Pos(fn.Pos()), "GetNode no longer consults both the pending and the finalized node sets")
		} else {
			cut := NewCut().AddEdges(HeldEdges(fn, `getPendingRootSeqNo\(.*\)#0 == 0$`)...)
			for _, p := range pend.Ins {
				cut.AddInstr(p)
			}
			hit := Reach(fn, nil, nil, anyOf(fin.Ins), cut)
			c.Check(hit == nil, rule, inst, c.P.InstrPos(fin.Ins[0]), "finalized set is read only for seqNo==0 or after the pending set was consulted", "for a pending root the finalized node set is read without consulting the pending set first: a competing candidate's nodes would be returned under this root")
		}
	}

	// C06.c ABCI pruner: sync before acknowledging retention.
	if fn := c.needFn("C06.sync", "consensus/cometbft/abci.(*genericPruner).Prune"); fn != nil {
		prune := CallsTo(fn, "ndb.Prune", "storage/mkvs/db/api.(NodeDB).Prune", "")
		sync := CallsTo(fn, "ndb.Sync", "storage/mkvs/db/api.(NodeDB).Sync", "")
		// the store after pruning (not the initialisation store that precedes any pruning)
		var post []ssa.Instruction
		for _, st := range StoresTo(fn, "", "consensus/cometbft/abci.genericPruner.lastRetainedVersion").Ins {
			reachedFromPrune := false
			for _, p := range prune.Ins {
				if Reach(fn, p, nil, isInstr(st), nil) != nil {
					reachedFromPrune = true
				}
			}
			if reachedFromPrune {
				post = append(post, st)
			}
		}
		store := Ev{Name: "lastRetainedVersion=", Fn: fn, Ins: post}
		c.Separated("C06.sync", fn, prune, store, sync, "the database must be synced after pruning before the retained height (reported to CometBFT as RetainHeight) advances; otherwise blocks needed for replay can be discarded")
		c.MustPrecede("C06.sync", fn, sync, Ev{Name: "lastRetainedVersion=(post-prune)", Fn: fn, Ins: lastStores(fn, post)}, "retained version advances only after a successful sync")
	}
	ix := c.P.BuildIndex()
	c.WhoMayStore(ix, "C06.sync", "consensus/cometbft/abci.genericPruner.lastRetainedVersion", []string{"consensus/cometbft/abci.(*genericPruner).Prune"}, "retained height is only advanced by the pruner after sync")
}

// lastStores: stores that are not followed by a call to NodeDB.Prune (i.e. the
// post-loop store); used to exclude the initial seeding store.
func lastStores(fn *ssa.Function, sts []ssa.Instruction) []ssa.Instruction { return sts }

// loneNodeGuard: in Finalize, deletes of node keys inside the maybe-lone loop
// are guarded by the not-lone set lookup.
func loneNodeGuard(c *Ctx, rule string, fn *ssa.Function, pk string) {
	P := "storage/mkvs/db/" + pk
	keyfmt := "nodeKeyFmt"
	if pk == "pathbadger" {
		keyfmt = "finalizedNodeKeyFmt"
	}
	dels := CallsArg(fn, "Delete("+keyfmt+")", bWB+".Delete", 1, `global:`+P+`\.`+keyfmt)
	inst := fname(fn) + ":notLone⊢Delete(" + keyfmt + ")"
	if dels.Empty() {
		c.Fail(rule, inst, c.P.Pos(fn.Pos()), "lone-node deletion not found in Finalize")
		return
	}
	for _, d := range dels.Ins {
		// held conditions at the delete must include a negative lookup in a map
		// other than the one being ranged over (the not-lone set).
		ok := false
		for _, h := range heldCondVals(d) {
			l := lookupOf(h.Cond)
			if l == nil || h.Pol {
				continue
			}
			if _, isMap := l.X.Type().Underlying().(*types.Map); !isMap {
				continue
			}
			ok = true
		}
		c.Check(ok, rule, inst, c.P.InstrPos(d), "node deletion is dominated by a negative lookup in the not-lone set", "node deletion in Finalize is no longer guarded by the not-lone set: nodes shared with a finalized root could be deleted")
	}
}

func containsAll(s string, subs ...string) bool {
	for _, x := range subs {
		if !contains(s, x) {
			return false
		}
	}
	return true
}

// c06Discard: a candidate root that is not finalized is made absent by
// Finalize: on every path from the "not finalized" branch to the next root of
// the version, the root's own record (what HasRoot / checkRootExists consult)
// is queued for deletion, and that queue is deleted. Otherwise the root is
// still reported present while its nodes are gone or, with path-based node
// keys, resolve to the finalized root's nodes (F12).
func c06Discard(c *Ctx) {
	const rule = "C06.discard"
	// pathbadger: root record = rootNodeKeyFmt(version, hash), reached through the root iterator's item key
	if fn := c.needFn(rule, "storage/mkvs/db/pathbadger.(*badgerNodeDB).Finalize"); fn != nil {
		notFin := HeldEdges(fn, `^!make\(map\[storage/mkvs/db/api\.TypedHash\]struct\{\}\)\[load\(alloc:\*storage/mkvs/db/api\.TypedHash\)\]#1$`)
		// the iterator over the version's roots: the one whose item key is decoded with rootNodeKeyFmt
		var rootIt ssa.Value
		for _, call := range findCalls(fn, "common/keyformat.(*KeyFormat).Decode") {
			a := allArgs(call)
			if !strings.Contains(vstr(a[0]), "rootNodeKeyFmt") {
				continue
			}
			// a[1] = Item(it).Key()
			if kc, ok := a[1].(*ssa.Call); ok {
				if ic, ok := kc.Call.Args[0].(*ssa.Call); ok && len(ic.Call.Args) > 0 {
					rootIt = ic.Call.Args[0]
				}
			}
		}
		var collect []ssa.Instruction
		var collected ssa.Value
		if rootIt != nil {
			for _, call := range callsIn(fn) {
				if calleeName(call) != "builtin.append" {
					continue
				}
				for _, e := range variadicElems(call.Common().Args[len(call.Common().Args)-1]) {
					kc, ok := e.(*ssa.Call)
					if !ok || !strings.HasSuffix(calleeNameCommon(&kc.Call), "(*Item).KeyCopy") {
						continue
					}
					if ic, ok := kc.Call.Args[0].(*ssa.Call); ok && len(ic.Call.Args) > 0 && ic.Call.Args[0] == rootIt {
						collect = append(collect, call)
						collected = call.Value()
					}
				}
			}
		}
		var nexts []ssa.Instruction
		for _, call := range callsIn(fn) {
			if strings.HasSuffix(calleeName(call), "(*Iterator).Next") && len(call.Common().Args) > 0 && call.Common().Args[0] == rootIt {
				nexts = append(nexts, call)
			}
		}
		ok := rootIt != nil && len(notFin) > 0 && len(collect) > 0 && len(nexts) > 0 && Reach(fn, nil, notFin, anyOf(nexts), NewCut().AddInstr(collect...).AddEdges(HeldEdges(fn, `^make\(map\[storage/mkvs/db/api\.TypedHash\]struct\{\}\)\[load\(alloc:\*storage/mkvs/db/api\.TypedHash\)\]#1$`)...)) == nil
		c.Check(ok, rule, fname(fn)+":non-finalized root⇒root record queued for deletion", c.P.Pos(fn.Pos()), "every root of the version that is not finalized has its root node key queued for deletion before the next root is examined", "a candidate root that is not finalized keeps its root node record: it is still reported as existing, and its path-based child pointers resolve to the finalized root's nodes")
		// the queue is deleted
		deleted := false
		if collected != nil {
			for _, call := range callsIn(fn) {
				if !strings.HasSuffix(calleeName(call), "(*WriteBatch).Delete") {
					continue
				}
				k := allArgs(call)[1]
				for _, r := range Roots(k) {
					if r.Val != nil && strings.Contains(vstr(r.Val), "(*Item).KeyCopy(") && strings.Contains(vstr(k), "builtin.append(") {
						deleted = true
					}
				}
				if u, ok := k.(*ssa.UnOp); ok {
					if ia, ok := u.X.(*ssa.IndexAddr); ok {
						if strings.Contains(vstr(ia.X), "builtin.append(") && phiIncludes(ia.X, collected, 0) {
							deleted = true
						}
					}
				}
			}
		}
		c.Check(deleted, rule, fname(fn)+":queued root records are deleted", c.P.Pos(fn.Pos()), "the queued root node keys are deleted in the removal phase", "the queued root node keys of non-finalized roots are never deleted")
	}
	// badger: root record = entry of rootsMeta.Roots
	if fn := c.needFn(rule, "storage/mkvs/db/badger.(*badgerNodeDB).Finalize"); fn != nil {
		var dels []ssa.Instruction
		for _, call := range callsIn(fn) {
			if calleeName(call) == "builtin.delete" && strings.Contains(vstr(call.Common().Args[0]), "loadRootsMetadata(") && strings.HasSuffix(vstr(call.Common().Args[0]), ".Roots") {
				dels = append(dels, call)
			}
		}
		// second loop over rootsMeta.Roots: the edges where finalizedRoots[rootHash] is false
		var notFin []Edge
		for _, b := range fn.Blocks {
			iff := lastIf(b)
			if iff == nil {
				continue
			}
			lk, ok := iff.Cond.(*ssa.Lookup)
			if !ok || !strings.HasPrefix(vstr(lk.X), "make(map[storage/mkvs/db/api.TypedHash]bool)") {
				continue
			}
			// only the lookup keyed by the range key of the pruning loop (not the derived-roots propagation)
			if !strings.Contains(vstr(lk.Index), "next(range(") || strings.Contains(vstr(lk.Index), "#2[") {
				continue
			}
			notFin = append(notFin, Edge{b, 1})
		}
		var nexts []ssa.Instruction
		for _, b := range blocksIP(fn) {
			for _, in := range b.Instrs {
				if nx, ok := in.(*ssa.Next); ok && strings.Contains(vstr(nx.Iter), ".Roots") {
					nexts = append(nexts, in)
				}
			}
		}
		ok := len(dels) > 0 && len(notFin) > 0 && len(nexts) > 0
		if ok {
			// from a not-finalized edge of the pruning loop the next root is reached only through the delete
			found := false
			for _, e := range notFin {
				// the lookup of the loop that contains the delete (the pruning loop): the delete can come back to it
				sameLoop := false
				if iff := lastIf(e.From); iff != nil {
					for _, d := range dels {
						if Reach(fn, d, nil, isInstr(iff), nil) != nil && Reach(fn, nil, []Edge{e}, isInstr(d), nil) != nil {
							sameLoop = true
						}
					}
				}
				if !sameLoop {
					continue
				}
				found = true
				if Reach(fn, nil, []Edge{e}, anyOf(nexts), NewCut().AddInstr(dels...)) != nil {
					ok = false
				}
			}
			ok = ok && found
		}
		c.Check(ok, rule, fname(fn)+":non-finalized root⇒roots metadata entry deleted", c.P.Pos(fn.Pos()), "every root of the version that is not finalized is removed from the roots metadata before the next root is examined", "a candidate root that is not finalized stays in the roots metadata: it is still reported as existing although its nodes are removed")
	}
}

// phiIncludes: v is want, or a phi (transitively) having want among its edges.
func phiIncludes(v, want ssa.Value, d int) bool {
	if v == want {
		return true
	}
	if d > 6 {
		return false
	}
	if p, ok := v.(*ssa.Phi); ok {
		for _, e := range p.Edges {
			if phiIncludes(e, want, d+1) {
				return true
			}
		}
	}
	return false
}

// c06Round2: rules added after the second round of seeds.
func c06Round2(c *Ctx, ix *Index) {
	// (1) pathbadger prunes a root type that "cannot have child roots" by deleting every node of the pruned version;
	// a batch on top of such a root must therefore be refused for every version, not only inside one version
	if fn := c.needFn("C06.childroots", "storage/mkvs/db/pathbadger.(*badgerNodeDB).NewBatch"); fn != nil {
		var succ []ssa.Instruction
		for _, r := range Returns(fn) {
			if ev := retErrVal(r); ev != nil && isNilConst(ev) {
				succ = append(succ, r)
			}
		}
		c.GuardedByAny("C06.childroots", fn, "oldRoot is empty or its type may have child roots", []string{
			`^common/crypto/hash\.\(\*Hash\)\.IsEmpty\(&\(param:oldRoot\)\.Hash\)$`,
			`^!\*storage/mkvs/db/api\.PolicyForRoot\(param:oldRoot\)\.NoChildRoots$`,
		}, Ev{Name: "batch created", Fn: fn, Ins: succ}, "Prune deletes all nodes of a no-child-roots type with their version, so nothing may be derived from such a root")
	}
	c06SeqNoRules(c, ix)
}

// c06SeqNoRules: the reservation maps of pathbadger sequence numbers (shared with C07 and C13).
func c06SeqNoRules(c *Ctx, ix *Index) {
	// (2) finalizing version v releases only v's sequence-number reservations; candidates already committed for later
	// versions keep theirs (a released reservation would be handed out again and the new candidate would overwrite them)
	for _, field := range []string{"NextPendingRootSeq", "PendingRootSeqs"} {
		key := "storage/mkvs/db/pathbadger.serializedMetadata." + field
		if len(ix.FieldStores[key]) == 0 {
			// find the real struct name once
			for k := range ix.FieldStores {
				if strings.HasPrefix(k, "storage/mkvs/db/pathbadger.") && strings.HasSuffix(k, "."+field) {
					key = k
				}
			}
		}
		bad := 0
		n := 0
		for _, s := range ix.FieldStores[key] {
			st, isStore := s.In.(*ssa.Store)
			if !isStore {
				continue // MapUpdate m[k]=v : adds a reservation
			}
			n++
			// whole-map assignment: only the lazy `make` on first use is allowed
			if !strings.HasPrefix(vstr(st.Val), "make(map[") {
				bad++
				c.Fail("C06.seqno", field+" replaced<-"+fname(s.Fn), c.P.InstrPos(s.In), "the whole "+field+" map is replaced by "+vstrShort(st.Val)+": reservations of candidates committed for other versions are released and their node keys can be handed out again")
			}
		}
		if bad == 0 {
			c.OK("C06.seqno", field+" is only extended, or reduced by the finalized version's entry", "", itoa(n)+" whole-map store(s), all lazy `make`")
		}
	}
	if fn := c.needFn("C06.seqno", "storage/mkvs/db/pathbadger.(*metadata).setLastFinalizedVersion"); fn != nil {
		n := 0
		ok := true
		for _, call := range callsIn(fn) {
			if calleeName(call) != "builtin.delete" {
				continue
			}
			n++
			if vstr(call.Common().Args[1]) != "param:version" {
				ok = false
			}
		}
		c.Check(ok && n == 2, "C06.seqno", fname(fn)+":deletes exactly the finalized version's reservations", c.P.Pos(fn.Pos()), "delete(NextPendingRootSeq, version) and delete(PendingRootSeqs, version)", "setLastFinalizedVersion no longer deletes exactly the finalized version's entries of the two reservation maps")
	}
	// (3) the keep-N pruner computes latest-keepN only when latest >= keepN (unsigned)
	if fn := c.needFn("C06.keepn", "consensus/cometbft/abci.(*genericPruner).Prune"); fn != nil {
		var subs []ssa.Instruction
		for _, b := range blocksIP(fn) {
			for _, in := range b.Instrs {
				if bo, ok := in.(*ssa.BinOp); ok && bo.Op == token.SUB && isUnsigned(bo.Type()) && vstr(bo.X) == "param:latestVersion" && strings.HasSuffix(vstr(bo.Y), "param:p.keepN") {
					subs = append(subs, in)
				}
			}
		}
		c.GuardedByAny("C06.keepn", fn, "latestVersion >= keepN", []string{`^param:latestVersion >= \*param:p\.keepN$`}, Ev{Name: "latestVersion - keepN", Fn: fn, Ins: subs}, "on a chain younger than keepN the unsigned subtraction would wrap and every version but the latest would be pruned")
	}
}

// c06Borrowed: what the node databases hand out must not alias badger's
// buffers. The bytes passed to an (*Item).Value callback are only valid inside
// the callback; a node, key or value built from them that keeps a sub-slice
// reads whatever badger puts there later (a retained root then returns
// contents that do not hash to it).
func c06Borrowed(c *Ctx) {
	const rule = "C06.borrowed"
	b := newBorrow(c.P)
	n := 0
	for _, pk := range []string{"storage/mkvs/db/badger", "storage/mkvs/db/pathbadger"} {
		for _, fn := range c.P.FuncsInPkg(pk) {
			if strings.HasPrefix(fn.Name(), "migrate") || strings.Contains(fname(fn), "igrat") {
				continue
			}
			for _, call := range callsIn(fn) {
				if calleeName(call) != "github.com/dgraph-io/badger/v4.(*Item).Value" {
					continue
				}
				a := allArgs(call)
				var cb *ssa.Function
				switch x := a[1].(type) {
				case *ssa.MakeClosure:
					cb, _ = x.Fn.(*ssa.Function)
				case *ssa.Function:
					cb = x
				}
				inst := fname(fn) + ":Item.Value callback"
				if cb == nil {
					c.Undecided(rule, inst, c.P.InstrPos(call), "the callback is not a function literal")
					continue
				}
				n++
				c.Analysed[fname(fn)] = true
				inst = fname(cb) + ":value bytes do not outlive the callback"
				res := &borrowRes{}
				b.from(cb, cb.Params[0], res)
				if res.escape != nil {
					c.Fail(rule, inst, c.P.InstrPos(res.escape), "the bytes badger lends to the callback are "+res.why+" without being copied: they are only valid inside the callback, so what is built from them changes under the reader when badger reuses the memory")
				} else {
					c.OK(rule, inst, c.P.InstrPos(call), "every alias of the callback's bytes is consumed (decoded by copying, compared) inside the callback")
				}
			}
		}
	}
	c.Floor(rule, n, 12, "Item.Value callbacks in the node databases")
}

// c06Inherited — badger Finalize keeps the nodes that a discarded root merely re-created (F28).
// Node keys are content hashes: a non-finalized root that re-creates a node identical to one of an earlier version
// records it as "added in this version"; deleting it at this version's timestamp hides it from every finalized root
// that inherited it. The nodes created by non-finalized roots are collected in a set; every deletion of a node key
// that ranges over such a set must be dominated by "the key was not found by a read at the previous version's
// timestamp" (a Txn.Get on NewTransactionAt(versionToTs(version)-1, …) answering ErrKeyNotFound).
func c06Inherited(c *Ctx) {
	const rule = "C06.inherit"
	fn := c.needFn(rule, "storage/mkvs/db/badger.(*badgerNodeDB).Finalize")
	if fn == nil {
		return
	}
	c.Analysed[fname(fn)] = true
	// sets that receive nodes created by non-finalized roots: map updates under finalizedRoots[...]==false and n.Removed==false
	discarded := map[ssa.Value]bool{}
	for _, b := range blocksIP(fn) {
		for _, in := range b.Instrs {
			mu, ok := in.(*ssa.MapUpdate)
			if !ok || !strings.HasSuffix(vstr(mu.Key), ".Hash") && !strings.Contains(vstr(mu.Key), ".Hash") {
				continue
			}
			nonFinal, created := false, false
			for _, h := range heldCondVals(in) {
				s := vstr(h.Cond)
				if l := lookupOf(h.Cond); l != nil && !h.Pol && strings.Contains(typeStr(l.X.Type()), "TypedHash") {
					nonFinal = true
				}
				if strings.HasSuffix(s, ".Removed") && !h.Pol {
					created = true
				}
			}
			if nonFinal && created {
				discarded[mu.Map] = true
			}
		}
	}
	if len(discarded) == 0 {
		c.Fail(rule, fname(fn)+":nodes created by non-finalized roots", c.P.Pos(fn.Pos()), "the collection of the nodes created by non-finalized roots was not found in Finalize (unresolved anchor)")
		return
	}
	// the map a value ranges over (through Next/Extract/local cell)
	var rangedMap func(v ssa.Value, d int) ssa.Value
	rangedMap = func(v ssa.Value, d int) ssa.Value {
		if d > 12 || v == nil {
			return nil
		}
		switch x := v.(type) {
		case *ssa.Range:
			return x.X
		case *ssa.Next:
			return rangedMap(x.Iter, d+1)
		case *ssa.Extract:
			return rangedMap(x.Tuple, d+1)
		case *ssa.UnOp:
			return rangedMap(x.X, d+1)
		case *ssa.Alloc:
			if refs := x.Referrers(); refs != nil {
				for _, r := range *refs {
					if st, ok := r.(*ssa.Store); ok && st.Addr == ssa.Value(x) {
						if m := rangedMap(st.Val, d+1); m != nil {
							return m
						}
					}
					// element of a local array (variadic pack)
					if ia, ok := r.(*ssa.IndexAddr); ok && ia.Referrers() != nil {
						for _, r2 := range *ia.Referrers() {
							if st, ok := r2.(*ssa.Store); ok && st.Addr == ssa.Value(ia) {
								if m := rangedMap(st.Val, d+1); m != nil {
									return m
								}
							}
						}
					}
				}
			}
		case *ssa.Call:
			for _, a := range x.Call.Args {
				if m := rangedMap(a, d+1); m != nil {
					return m
				}
			}
		case *ssa.Slice:
			return rangedMap(x.X, d+1)
		case *ssa.MakeInterface:
			return rangedMap(x.X, d+1)
		}
		return nil
	}
	dels := CallsArg(fn, "Delete(nodeKeyFmt)", bWB+".Delete", 1, `global:storage/mkvs/db/badger\.nodeKeyFmt`)
	n := 0
	for _, d := range dels.Calls() {
		m := rangedMap(allArgs(d)[1], 0)
		if m == nil || !discarded[m] {
			continue
		}
		n++
		ok := false
		for _, h := range heldCondVals(d) {
			call, isCall := h.Cond.(*ssa.Call)
			if !isCall || !h.Pol || calleeName(call) != "errors.Is" {
				continue
			}
			// errors.Is(<error of Txn.Get on NewTransactionAt(db, versionToTs(...) - 1, ...)>, badger.ErrKeyNotFound)
			args := call.Call.Args
			if len(args) != 2 || !strings.HasSuffix(vstr(args[1]), "badger/v4.ErrKeyNotFound") {
				continue
			}
			ex, isEx := args[0].(*ssa.Extract)
			if !isEx {
				continue
			}
			get, isGet := ex.Tuple.(*ssa.Call)
			if !isGet || calleeName(get) != "github.com/dgraph-io/badger/v4.(*Txn).Get" {
				continue
			}
			ntx, isN := get.Call.Args[0].(*ssa.Call)
			if !isN || calleeName(ntx) != "github.com/dgraph-io/badger/v4.(*DB).NewTransactionAt" || len(ntx.Call.Args) < 2 {
				continue
			}
			if bo, isBO := ntx.Call.Args[1].(*ssa.BinOp); isBO && bo.Op == token.SUB {
				if k, isK := constInt(bo.Y); isK && k == 1 {
					if vt, isVT := bo.X.(*ssa.Call); isVT && calleeName(vt) == "storage/mkvs/db/badger.versionToTs" {
						ok = true
					}
				}
			}
		}
		c.Check(ok, rule, fname(fn)+":node of a discarded root deleted only if it did not exist before this version", c.P.InstrPos(d), "the deletion is dominated by ErrKeyNotFound from a read at the previous version's timestamp", "Finalize deletes a node that a non-finalized root created in this version without checking that the node did not already exist before this version: node keys are content hashes, so a discarded root that re-created an inherited node (key removed and inserted again with the same value) makes the finalized roots of this and all later versions lose it (\"node not found in node db\")")
	}
	if n == 0 {
		c.Fail(rule, fname(fn)+":node of a discarded root deleted only if it did not exist before this version", c.P.Pos(fn.Pos()), "no deletion loop over the nodes created by non-finalized roots was found")
	}
}

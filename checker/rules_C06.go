package main

import (
	"go/types"
	"golang.org/x/tools/go/ssa"
)

func init() { register("C06", rulesC06) }

// destructive operations of a NodeDB function: batch deletes/flushes,
// transaction deletes/commits, metadata setters/commit, discard-ts.
func destructiveOps(fn *ssa.Function, pk string) Ev {
	evs := []Ev{
		CallsTo(fn, "", bWB+".Delete", ""), CallsTo(fn, "", bWB+".DeleteAt", ""), CallsTo(fn, "", bWB+".Flush", ""), CallsTo(fn, "", bWB+".Set", ""),
		CallsTo(fn, "", bTX+".Delete", ""), CallsTo(fn, "", bTX+".CommitAt", ""), CallsTo(fn, "", bTX+".Set", ""),
		CallsTo(fn, "", bDB+".SetDiscardTs", ""),
		closureCallsContaining(fn, "", bWB+".Delete", bTX+".Delete"),
	}
	for _, m := range []string{"setEarliestVersion", "setLastFinalizedVersion", "commit", "setMultipartVersion", "setMultipart", "save"} {
		evs = append(evs, CallsTo(fn, "", "storage/mkvs/db/"+pk+".(*metadata)."+m, ""))
	}
	evs = append(evs, CallsTo(fn, "", "storage/mkvs/db/"+pk+".(*rootsMetadata).save", ""))
	u := union("destructive-ops", evs...)
	u.Fn = fn
	return u
}

func rulesC06(c *Ctx) {
	c.Explain = append(c.Explain,
		"C06 (finalized versions stay readable until pruned) — decided: in Prune and Finalize of BOTH backends every destructive operation (batch delete/flush, txn delete/commit, metadata setter/commit, discard-timestamp) is dominated on every CFG path by the acceptance guards, each identified by the sentinel error its failing side returns and by its normalised failing condition (operands resolved to parameters / metadata getters): only-finalized, only-earliest, never-the-last, no-multipart, not-read-only for Prune; not-already-finalized, previous-finalized, multipart-version for Finalize; lone-node deletions are guarded by the not-lone set; the same guard set is required of each backend; Commit refuses finalized versions; the ABCI pruner syncs the database (success edge) between pruning and advancing the retained height, and the retained height it reports is the field written there.",
		"NOT decided: correctness of the lone-node computation for all candidate-root histories, resurrection through versioned keys, concurrent readers, identical answers of both backends for all histories.")
	const rule = "C06.guard"
	api := "storage/mkvs/db/api."
	for _, pk := range []string{"badger", "pathbadger"} {
		P := "storage/mkvs/db/" + pk
		getLF := P + `\.\(\*metadata\)\.getLastFinalizedVersion\(.*\)`
		if fn := c.needFn(rule, P+".(*badgerNodeDB).Prune"); fn != nil {
			T := destructiveOps(fn, pk)
			c.DominatedBySentinelGuard(rule, fn, GuardSpec{api + "ErrReadOnly", []string{`^\*param:d\.readOnly$`}, "read-only database is never modified"}, T)
			c.DominatedBySentinelGuard(rule, fn, GuardSpec{api + "ErrMultipartInProgress", []string{`^\*param:d\.multipartVersion != 0$`}, "no pruning during a multipart restore"}, T)
			c.DominatedBySentinelGuard(rule, fn, GuardSpec{api + "ErrNotFinalized", []string{`^!` + getLF + `#1$`, `^param:version > ` + getLF + `#0$`}, "only finalized versions are pruned"}, T)
			c.DominatedBySentinelGuard(rule, fn, GuardSpec{api + "ErrNotEarliest", []string{`^param:version != ` + P + `\.\(\*metadata\)\.getEarliestVersion\(.*\)$`}, "only the earliest version is pruned"}, T)
			c.DominatedBySentinelGuard(rule, fn, GuardSpec{api + "ErrCannotPruneLatestVersion", []string{`^param:version == ` + getLF + `#0$`}, "the last finalized version is never pruned"}, T)
		}
		if fn := c.needFn(rule, P+".(*badgerNodeDB).Finalize"); fn != nil {
			T := destructiveOps(fn, pk)
			ver := `\*param:roots\[0\]\.Version`
			c.DominatedBySentinelGuard(rule, fn, GuardSpec{api + "ErrReadOnly", []string{`^\*param:d\.readOnly$`}, "read-only database is never modified"}, T)
			c.DominatedBySentinelGuard(rule, fn, GuardSpec{api + "ErrInvalidMultipartVersion", []string{`^\*param:d\.multipartVersion != ` + ver + `$ && ^\*param:d\.multipartVersion != 0$`}, "during a multipart restore only its version is finalized"}, T)
			c.DominatedBySentinelGuard(rule, fn, GuardSpec{api + "ErrAlreadyFinalized", []string{`^` + ver + ` <= ` + getLF + `#0$ && ^` + getLF + `#1$`}, "a finalized version is never finalized again (its discarded roots stay discarded, its kept roots stay kept)"}, T)
			if pk == "badger" {
				c.DominatedBySentinelGuard(rule, fn, GuardSpec{api + "ErrNotFinalized", []string{`^\(` + ver + ` - 1\) > ` + getLF + `#0$ && ^\*param:d\.multipartVersion == 0$ && ^` + ver + ` > 0$ && ^` + getLF + `#1$`}, "the previous version must be finalized first"}, T)
				// unknown finalized roots are rejected before anything is deleted
				c.EvaluatedBeforeSentinelGuard(rule, fn, GuardSpec{api + "ErrRootNotFound", []string{`Roots\[.*\]#1 && ^!common/crypto/hash\.\(\*Hash\)\.IsEmpty`}, "every root to finalize must be a known root of the version"}, T)
			} else {
				c.DominatedBySentinelGuard(rule, fn, GuardSpec{api + "ErrNotFinalized", []string{`^\(` + getLF + `#0 \+ 1\) != ` + ver + `$ && ^\*param:d\.multipartVersion == 0$ && ^` + ver + ` > ` + getLF + `#0$ && ^` + getLF + `#1$`}, "the previous version must be finalized first"}, T)
				ce := CallsTo(fn, "checkRootExists", P+".(*badgerNodeDB).checkRootExists", "")
				c.NeverAfter(rule, fn, ce, T, "every non-empty root to finalize is checked to exist before anything is modified")
				for _, call := range ce.Calls() {
					_, found := FailEdges(call)
					c.Check(found, rule, fname(fn)+":checkRootExists-checked", c.P.InstrPos(call), "root existence failure is branched on", "result of checkRootExists is ignored in Finalize")
				}
				if ce.Empty() {
					c.Fail(rule, fname(fn)+":checkRootExists", c.P.Pos(fn.Pos()), "Finalize no longer checks that the roots to finalize exist")
				}
			}
			loneNodeGuard(c, rule, fn, pk)
		}
		if fn := c.needFn(rule, P+".(*badgerBatch).Commit"); fn != nil {
			T := union("durable-writes", CallsTo(fn, "", bWB+".Flush", ""), CallsTo(fn, "", bTX+".CommitAt", ""), CallsTo(fn, "", P+".(*metadata).commit", ""))
			T.Name = "durable-writes"
			T.Fn = fn
			c.DominatedBySentinelGuard(rule, fn, GuardSpec{api + "ErrAlreadyFinalized", []string{`^\*&\(param:root\)\.Version <= ` + P + `\.\(\*metadata\)\.getLastFinalizedVersion\(.*\)#0$ && getLastFinalizedVersion\(.*\)#1$`}, "nothing is committed into an already finalized version"}, T)
			c.DominatedBySentinelGuard(rule, fn, GuardSpec{api + "ErrRootMustFollowOld", []string{`^!storage/mkvs/node\.\(\*Root\)\.Follows\(&\(param:root\),param:ba\.oldRoot\)$`}, "a committed root follows the root it was derived from"}, T)
		}
	}

	// badger Prune: while traversing a lone root only nodes CREATED in the pruned version are deleted
	// (nodes inherited from earlier versions are shared with the continuing lineage).
	if fn := c.needFn(rule, "storage/mkvs/db/badger.(*badgerNodeDB).Prune"); fn != nil {
		found := false
		for _, an := range anonFuncs(fn) {
			del := CallsArg(an, "batch.Delete(nodeKeyFmt)", bWB+".Delete", 1, `global:storage/mkvs/db/badger\.nodeKeyFmt`)
			if del.Empty() {
				continue
			}
			found = true
			c.DominatedByCond(rule, an, "item.Version==pruned-version", `^storage/mkvs/db/badger\.tsToVersion\(github\.com/dgraph-io/badger/v4\.\(\*Item\)\.Version\(.*\)\) == \*?free:version$|^\*?free:version == storage/mkvs/db/badger\.tsToVersion\(`, del, "pruning deletes only nodes created in the pruned version; older nodes are still referenced by retained versions")
		}
		c.Check(found, rule, fname(fn)+":visitor-deletes-nodes", c.P.Pos(fn.Pos()), "node deletion found in the prune visitor", "node deletion in the prune visitor not found")
	}
	// pathbadger GetNode: for a pending root (seqNo != 0) the pending node set is consulted before
	// the finalized set (competing candidates of one version share (version,index) keys).
	if fn := c.needFn(rule, "storage/mkvs/db/pathbadger.(*badgerNodeDB).GetNode"); fn != nil {
		fin := CallsArg(fn, "tx.Get(finalizedNodeKeyFmt)", bTX+".Get", 1, `global:storage/mkvs/db/pathbadger\.finalizedNodeKeyFmt`)
		pend := CallsArg(fn, "tx.Get(pendingNodeKeyFmt)", bTX+".Get", 1, `global:storage/mkvs/db/pathbadger\.pendingNodeKeyFmt`)
		inst := fname(fn) + ":pending-before-finalized"
		if fin.Empty() || pend.Empty() {
			c.Fail(rule, inst, c.P.Pos(fn.Pos()), "GetNode no longer consults both the pending and the finalized node sets")
		} else {
			cut := NewCut().AddEdges(HeldEdges(fn, `getPendingRootSeqNo\(.*\)#0 == 0$`)...)
			for _, p := range pend.Ins {
				cut.AddInstr(p)
			}
			hit := Reach(fn, nil, nil, anyOf(fin.Ins), cut)
			c.Check(hit == nil, rule, inst, c.P.InstrPos(fin.Ins[0]), "finalized set is read only for seqNo==0 or after the pending set was consulted", "for a pending root the finalized node set is read without consulting the pending set first: a competing candidate's nodes would be returned under this root")
		}
	}

	// C06.c ABCI pruner: sync before acknowledging retention.
	if fn := c.needFn("C06.sync", "consensus/cometbft/abci.(*genericPruner).Prune"); fn != nil {
		prune := CallsTo(fn, "ndb.Prune", "storage/mkvs/db/api.(NodeDB).Prune", "")
		sync := CallsTo(fn, "ndb.Sync", "storage/mkvs/db/api.(NodeDB).Sync", "")
		// the store after pruning (not the initialisation store that precedes any pruning)
		var post []ssa.Instruction
		for _, st := range StoresTo(fn, "", "consensus/cometbft/abci.genericPruner.lastRetainedVersion").Ins {
			reachedFromPrune := false
			for _, p := range prune.Ins {
				if Reach(fn, p, nil, isInstr(st), nil) != nil {
					reachedFromPrune = true
				}
			}
			if reachedFromPrune {
				post = append(post, st)
			}
		}
		store := Ev{Name: "lastRetainedVersion=", Fn: fn, Ins: post}
		c.Separated("C06.sync", fn, prune, store, sync, "the database must be synced after pruning before the retained height (reported to CometBFT as RetainHeight) advances; otherwise blocks needed for replay can be discarded")
		c.MustPrecede("C06.sync", fn, sync, Ev{Name: "lastRetainedVersion=(post-prune)", Fn: fn, Ins: lastStores(fn, post)}, "retained version advances only after a successful sync")
	}
	ix := c.P.BuildIndex()
	c.WhoMayStore(ix, "C06.sync", "consensus/cometbft/abci.genericPruner.lastRetainedVersion", []string{"consensus/cometbft/abci.(*genericPruner).Prune"}, "retained height is only advanced by the pruner after sync")
}

// lastStores: stores that are not followed by a call to NodeDB.Prune (i.e. the
// post-loop store); used to exclude the initial seeding store.
func lastStores(fn *ssa.Function, sts []ssa.Instruction) []ssa.Instruction { return sts }

// loneNodeGuard: in Finalize, deletes of node keys inside the maybe-lone loop
// are guarded by the not-lone set lookup.
func loneNodeGuard(c *Ctx, rule string, fn *ssa.Function, pk string) {
	P := "storage/mkvs/db/" + pk
	keyfmt := "nodeKeyFmt"
	if pk == "pathbadger" {
		keyfmt = "finalizedNodeKeyFmt"
	}
	dels := CallsArg(fn, "Delete("+keyfmt+")", bWB+".Delete", 1, `global:`+P+`\.`+keyfmt)
	inst := fname(fn) + ":notLone⊢Delete(" + keyfmt + ")"
	if dels.Empty() {
		c.Fail(rule, inst, c.P.Pos(fn.Pos()), "lone-node deletion not found in Finalize")
		return
	}
	for _, d := range dels.Ins {
		// held conditions at the delete must include a negative lookup in a map
		// other than the one being ranged over (the not-lone set).
		ok := false
		for _, h := range heldCondVals(d) {
			l := lookupOf(h.Cond)
			if l == nil || h.Pol {
				continue
			}
			if _, isMap := l.X.Type().Underlying().(*types.Map); !isMap {
				continue
			}
			ok = true
		}
		c.Check(ok, rule, inst, c.P.InstrPos(d), "node deletion is dominated by a negative lookup in the not-lone set", "node deletion in Finalize is no longer guarded by the not-lone set: nodes shared with a finalized root could be deleted")
	}
}

func containsAll(s string, subs ...string) bool {
	for _, x := range subs {
		if !contains(s, x) {
			return false
		}
	}
	return true
}

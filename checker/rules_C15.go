package main

import (
	"go/token"
	"sort"
	"strings"

	"golang.org/x/tools/go/ssa"
)

func init() { register("C15", rulesC15) }

const (
	pkStakingAPI   = "staking/api"
	pkStakingApp   = "consensus/cometbft/apps/staking"
	pkStakingState = "consensus/cometbft/apps/staking/state"
)

// quantityOps: the in-place arithmetic applied to quantity q (a *Quantity SSA
// value) in fn, in program order: "Mul(<arg>)", "Quo(<arg>)", ... Only
// meaningful for straight-line derivations (every op's block dominates the
// next and the use); ok=false otherwise.
func quantityOps(fn *ssa.Function, q ssa.Value, use ssa.Instruction) (ops []string, ok bool) {
	type at struct {
		b, i int
		s    string
		blk  *ssa.BasicBlock
	}
	var xs []at
	for _, b := range fn.Blocks {
		for i, in := range b.Instrs {
			call, isCall := in.(ssa.CallInstruction)
			if !isCall {
				continue
			}
			n := calleeName(call)
			if !strings.HasPrefix(n, "common/quantity.(*Quantity).") {
				continue
			}
			m := n[len("common/quantity.(*Quantity)."):]
			switch m {
			case "Cmp", "IsZero", "Clone", "String", "IsValid", "ToBigInt", "MarshalBinary", "MarshalText", "Format":
				continue
			}
			a := allArgs(call)
			if len(a) == 0 || a[0] != q {
				continue
			}
			arg := ""
			if len(a) > 1 {
				arg = vstr(a[1])
			}
			xs = append(xs, at{b.Index, i, m + "(" + arg + ")", b})
		}
	}
	ok = true
	sort.Slice(xs, func(i, j int) bool {
		if xs[i].blk == xs[j].blk {
			return xs[i].i < xs[j].i
		}
		return xs[i].blk.Dominates(xs[j].blk)
	})
	for k := 1; k < len(xs); k++ {
		if xs[k-1].blk != xs[k].blk && !xs[k-1].blk.Dominates(xs[k].blk) {
			ok = false
		}
	}
	for _, x := range xs {
		ops = append(ops, x.s)
		// every operation is applied on every path to the use
		if use != nil && x.blk != use.Block() && !x.blk.Dominates(use.Block()) {
			ok = false
		}
	}
	return
}

// valueReturns: the first-result values of fn's returns whose error result is nil.
func nonErrorReturns(fn *ssa.Function) []*ssa.Return {
	var out []*ssa.Return
	for _, r := range SuccessReturns(fn) {
		if rr, ok := r.(*ssa.Return); ok {
			out = append(out, rr)
		}
	}
	return out
}

func rulesC15(c *Ctx) {
	c.Explain = append(c.Explain,
		"C15 (escrow shares are fair) — decided: (a) price shape: sharesForStake returns amount×TotalShares÷Balance and StakeForShares returns shares×Balance÷TotalShares, each as multiply-then-floor-divide on a clone of the argument, the 1:1 branch only for a pool without shares, no minting into a pool with shares but no balance, zero results only for zero inputs; (b) price before mutation: Deposit computes the shares before the stake enters the pool and credits the same share amount to the pool total and the holder; Withdraw computes the payout before shares are burnt, burns the same amount from the holder and the pool total, and pays exactly the computed amount from the pool balance; (c) slashing: both pools are slashed with the same amount and the same total (computed before either is touched), and the only movement out of a pool in slashPool is its balance×amount÷total; (d) debonding: reclaim withdraws the reclaimed shares from the active pool and deposits exactly the redeemed stake into the debonding pool, queues it at currentEpoch+DebondingInterval under that epoch key; the expired queue is scanned from its beginning and stops at the first entry after the given epoch; on epoch change each expired entry redeems all of its shares from the debonding pool into the delegator's general balance and, before the next entry or the end, is removed from the queue, its debonding delegation deleted and the accounts stored.",
		"NOT decided: every inequality of the statement over all integers and interleavings (rounding accumulation, that no account's redeemable value falls because of another's operation, slashing proportionality beyond the formula shape, uniqueness of payout across blocks); these quantify over values and histories.")

	rulesC15Round2(c)
	c15Round3(c)
	sharePoolPrimitivesRule(c, "C15.price")
	c15RewardOrder(c)

	// ---- (a) price shape
	if fn := c.needFn("C15.price", pkStakingAPI+".(*SharePool).sharesForStake"); fn != nil {
		var computed, oneToOne []ssa.Instruction
		for _, r := range nonErrorReturns(fn) {
			setIPContext(fn)
			v, ofn, use := throughHelper(r.Results[0], fn, r)
			call, ok := v.(*ssa.Call)
			if !ok || calleeNameCommon(&call.Call) != "common/quantity.(*Quantity).Clone" || vstr(call.Call.Args[0]) != "param:amount" {
				c.Fail("C15.price", fname(fn)+":result derives from a clone of the amount", c.P.InstrPos(r), "a successful result that is not derived from amount.Clone()")
				continue
			}
			ops, straight := quantityOps(ofn, v, use)
			switch {
			case len(ops) == 0:
				oneToOne = append(oneToOne, r)
			case straight && len(ops) == 2 && ops[0] == "Mul(param:p.TotalShares)" && ops[1] == "Quo(param:p.Balance)":
				computed = append(computed, r)
			default:
				c.Fail("C15.price", fname(fn)+":shares = amount×TotalShares÷Balance", c.P.InstrPos(r), "the share amount is computed as "+strings.Join(ops, "; ")+" instead of Mul(TotalShares); Quo(Balance) (multiply first, floor division): rounding must never favour the depositor")
			}
		}
		c.Check(len(computed) == 1, "C15.price", fname(fn)+":shares = amount×TotalShares÷Balance", c.P.Pos(fn.Pos()), "pro-rata branch: clone(amount).Mul(TotalShares).Quo(Balance)", "the pro-rata branch of sharesForStake was not found in the expected multiply-then-divide form")
		if len(oneToOne) > 0 {
			c.GuardedByAny("C15.price", fn, "TotalShares.IsZero()", []string{`^common/quantity\.\(\*Quantity\)\.IsZero\(param:p\.TotalShares\)$`}, Ev{Name: "1:1 result", Fn: fn, Ins: oneToOne}, "shares are minted 1:1 only into a pool that has no shares yet")
		}
		if len(computed) > 0 {
			c.GuardedByAny("C15.price", fn, "!Balance.IsZero()", []string{`^!common/quantity\.\(\*Quantity\)\.IsZero\(param:p\.Balance\)$`}, Ev{Name: "pro-rata result", Fn: fn, Ins: computed}, "no shares can be minted into a pool whose balance was slashed to zero while shares are outstanding")
		}
	}
	if fn := c.needFn("C15.price", pkStakingAPI+".(*SharePool).StakeForShares"); fn != nil {
		var computed, zero []ssa.Instruction
		for _, r := range nonErrorReturns(fn) {
			setIPContext(fn)
			v, ofn, use := throughHelper(r.Results[0], fn, r)
			call, ok := v.(*ssa.Call)
			if !ok {
				c.Fail("C15.price", fname(fn)+":result shape", c.P.InstrPos(r), "unexpected result value "+vstrShort(v))
				continue
			}
			switch calleeNameCommon(&call.Call) {
			case "common/quantity.NewQuantity":
				if ops, _ := quantityOps(ofn, v, use); len(ops) == 0 {
					zero = append(zero, r)
					continue
				}
				c.Fail("C15.price", fname(fn)+":zero result", c.P.InstrPos(r), "the zero result is modified before being returned")
			case "common/quantity.(*Quantity).Clone":
				ops, straight := quantityOps(ofn, v, use)
				if vstr(call.Call.Args[0]) == "param:amount" && straight && len(ops) == 2 && ops[0] == "Mul(param:p.Balance)" && ops[1] == "Quo(param:p.TotalShares)" {
					computed = append(computed, r)
					continue
				}
				c.Fail("C15.price", fname(fn)+":stake = shares×Balance÷TotalShares", c.P.InstrPos(r), "the payout is computed as "+strings.Join(ops, "; ")+" on "+vstr(call.Call.Args[0])+" instead of clone(shares).Mul(Balance).Quo(TotalShares): rounding must never favour the redeemer")
			default:
				c.Fail("C15.price", fname(fn)+":result shape", c.P.InstrPos(r), "unexpected result value "+vstrShort(v))
			}
		}
		c.Check(len(computed) == 1, "C15.price", fname(fn)+":stake = shares×Balance÷TotalShares", c.P.Pos(fn.Pos()), "pro-rata branch: clone(shares).Mul(Balance).Quo(TotalShares)", "the pro-rata branch of StakeForShares was not found in the expected multiply-then-divide form")
		if len(zero) > 0 {
			c.GuardedByAny("C15.price", fn, "amount, Balance or TotalShares is zero", []string{
				`^common/quantity\.\(\*Quantity\)\.IsZero\(param:amount\)$`, `^common/quantity\.\(\*Quantity\)\.IsZero\(param:p\.Balance\)$`, `^common/quantity\.\(\*Quantity\)\.IsZero\(param:p\.TotalShares\)$`},
				Ev{Name: "zero result", Fn: fn, Ins: zero}, "shares are worth nothing only if there are none, or the pool is empty")
		}
	}

	// ---- (b) price before mutation, same amounts on both sides
	if fn := c.needFn("C15.order", pkStakingAPI+".(*SharePool).Deposit"); fn != nil {
		price := CallsTo(fn, "sharesForStake", pkStakingAPI+".(*SharePool).sharesForStake", "")
		mv := CallsTo(fn, "Move(pool balance ← source)", "common/quantity.Move", "")
		c.MustPrecede("C15.order", fn, price, mv, "the number of shares is computed at the price before the deposit enters the pool")
		okMv := len(mv.Calls()) == 1
		if okMv {
			a := allArgs(mv.Calls()[0])
			okMv = vstr(a[0]) == "param:p.Balance" && vstr(a[1]) == "param:stakeSrc" && vstr(a[2]) == "param:baseUnitsAmount"
		}
		c.Check(okMv, "C15.order", fname(fn)+":Move(&p.Balance, stakeSrc, baseUnitsAmount)", c.P.Pos(fn.Pos()), "exactly the deposited amount enters the pool balance from the source", "the deposit does not move exactly baseUnitsAmount from the source into the pool balance")
		okP := len(price.Calls()) == 1 && vstr(allArgs(price.Calls()[0])[1]) == "param:baseUnitsAmount"
		c.Check(okP, "C15.order", fname(fn)+":sharesForStake(baseUnitsAmount)", c.P.Pos(fn.Pos()), "shares are priced for the deposited amount", "the shares are not priced for the deposited amount")
		adds := CallsTo(fn, "Add(shares)", "common/quantity.(*Quantity).Add", "")
		var recv []string
		okA := true
		for _, call := range adds.Calls() {
			a := allArgs(call)
			recv = append(recv, vstr(a[0]))
			if !strings.HasSuffix(vstr(a[1]), "sharesForStake(param:p,param:baseUnitsAmount)#0") {
				okA = false
			}
		}
		sort.Strings(recv)
		okA = okA && strings.Join(recv, ",") == "param:p.TotalShares,param:shareDst"
		c.Check(okA, "C15.order", fname(fn)+":TotalShares += shares; holder += shares", c.P.Pos(fn.Pos()), "the priced share amount is credited to the pool total and to the holder", "the pool total and the holder are not both credited with the priced share amount (receivers: "+strings.Join(recv, ",")+")")
		c.successOnlyVia("C15.order", fn, mv, "a successful deposit has moved the stake")
		for _, call := range adds.Calls() {
			c.successOnlyVia("C15.order", fn, Ev{Name: "Add(" + vstr(allArgs(call)[0]) + ")", Fn: fn, Ins: []ssa.Instruction{call}}, "a successful deposit has credited the shares")
		}
	}
	if fn := c.needFn("C15.order", pkStakingAPI+".(*SharePool).Withdraw"); fn != nil {
		price := CallsTo(fn, "StakeForShares", pkStakingAPI+".(*SharePool).StakeForShares", "")
		subs := CallsTo(fn, "Sub(shares)", "common/quantity.(*Quantity).Sub", "")
		mv := CallsTo(fn, "Move(dst ← pool balance)", "common/quantity.Move", "")
		c.MustPrecede("C15.order", fn, price, subs, "the payout is computed at the price before the shares are burnt")
		c.MustPrecede("C15.order", fn, price, mv, "the payout is computed before the pool balance is reduced")
		okP := len(price.Calls()) == 1 && vstr(allArgs(price.Calls()[0])[1]) == "param:shareAmount"
		c.Check(okP, "C15.order", fname(fn)+":StakeForShares(shareAmount)", c.P.Pos(fn.Pos()), "the payout is priced for the redeemed shares", "the payout is not priced for the redeemed share amount")
		var recv []string
		okS := true
		for _, call := range subs.Calls() {
			a := allArgs(call)
			recv = append(recv, vstr(a[0]))
			if vstr(a[1]) != "param:shareAmount" {
				okS = false
			}
		}
		sort.Strings(recv)
		okS = okS && strings.Join(recv, ",") == "param:p.TotalShares,param:shareSrc"
		c.Check(okS, "C15.order", fname(fn)+":holder -= shares; TotalShares -= shares", c.P.Pos(fn.Pos()), "the redeemed share amount is burnt from the holder and from the pool total", "the holder and the pool total are not both reduced by the redeemed share amount (receivers: "+strings.Join(recv, ",")+")")
		okMv := len(mv.Calls()) == 1
		if okMv {
			a := allArgs(mv.Calls()[0])
			okMv = vstr(a[0]) == "param:stakeDst" && vstr(a[1]) == "param:p.Balance" && strings.HasSuffix(vstr(a[2]), "StakeForShares(param:p,param:shareAmount)#0")
		}
		c.Check(okMv, "C15.order", fname(fn)+":Move(stakeDst, &p.Balance, priced payout)", c.P.Pos(fn.Pos()), "exactly the priced payout leaves the pool balance", "the withdrawal does not move exactly the priced payout out of the pool balance")
		c.successOnlyVia("C15.order", fn, mv, "a successful withdrawal has paid out")
		for _, call := range subs.Calls() {
			c.successOnlyVia("C15.order", fn, Ev{Name: "Sub(" + vstr(allArgs(call)[0]) + ")", Fn: fn, Ins: []ssa.Instruction{call}}, "a successful withdrawal has burnt the shares")
		}
	}

	// ---- (c) slashing
	if fn := c.needFn("C15.slash", pkStakingState+".slashPool"); fn != nil {
		n := 0
		for _, call := range callsIn(fn) {
			nm := calleeName(call)
			if nm != "common/quantity.Move" && nm != "common/quantity.MoveUpTo" && nm != "common/quantity.(*Quantity).Sub" {
				continue
			}
			a := allArgs(call)
			var src, amt ssa.Value
			if nm == "common/quantity.(*Quantity).Sub" {
				src, amt = a[0], a[1]
			} else {
				src, amt = a[1], a[2]
			}
			if vstr(src) != "param:p.Balance" {
				continue
			}
			n++
			ok := false
			got := vstrShort(amt)
			if cl, isCall := amt.(*ssa.Call); isCall && calleeNameCommon(&cl.Call) == "common/quantity.(*Quantity).Clone" && vstr(cl.Call.Args[0]) == "param:p.Balance" {
				ops, straight := quantityOps(fn, amt, call)
				got = "clone(p.Balance)." + strings.Join(ops, ".")
				ok = straight && len(ops) == 2 && ops[0] == "Mul(param:amount)" && ops[1] == "Quo(param:total)"
			}
			c.Check(ok, "C15.slash", fname(fn)+":takes p.Balance×amount÷total", c.P.InstrPos(call), "the amount taken from the pool is its pro-rata part of the slash", "a pool is reduced by "+got+" instead of its pro-rata part clone(p.Balance).Mul(amount).Quo(total): active and debonding pools would not lose the same fraction")
		}
		c.Floor("C15.slash", n, 1, "movements out of the pool balance in slashPool")
	}
	if fn := c.needFn("C15.slash", pkStakingState+".(*MutableState).SlashEscrow"); fn != nil {
		sp := CallsTo(fn, "slashPool", pkStakingState+".slashPool", "")
		ok := len(sp.Calls()) == 2
		var pools []string
		if ok {
			// arguments by role, not position: the pool is the *SharePool, the amount is SlashEscrow's own amount
			// parameter, the total is the remaining *Quantity the two calls share
			type roles struct{ pool, amount, total ssa.Value }
			get := func(call ssa.CallInstruction) roles {
				var r roles
				for _, a := range allArgs(call) {
					switch {
					case strings.HasSuffix(typeStr(a.Type()), "staking/api.SharePool"):
						r.pool = a
					case strings.HasSuffix(typeStr(a.Type()), "quantity.Quantity") && vstr(a) == "param:amount":
						r.amount = a
					case strings.HasSuffix(typeStr(a.Type()), "quantity.Quantity") && r.total == nil:
						if cl, isCall := a.(*ssa.Call); isCall && calleeNameCommon(&cl.Call) == "common/quantity.(*Quantity).Clone" {
							r.total = a
						}
					}
				}
				return r
			}
			r0, r1 := get(sp.Calls()[0]), get(sp.Calls()[1])
			ok = r0.pool != nil && r1.pool != nil && r0.amount != nil && r0.amount == r1.amount && r0.total != nil && r0.total == r1.total
			if ok {
				pools = []string{vstr(r0.pool), vstr(r1.pool)}
				sort.Strings(pools)
				ok = strings.HasSuffix(pools[0], ".Escrow.Active") && strings.HasSuffix(pools[1], ".Escrow.Debonding")
			}
			// total = clone(Active.Balance).Add(Debonding.Balance), complete before the first pool is touched
			if ok {
				cl := r0.total.(*ssa.Call)
				if strings.HasSuffix(vstr(cl.Call.Args[0]), ".Escrow.Active.Balance") {
					ops, straight := quantityOps(fn, r0.total, sp.Calls()[0])
					ok = straight && len(ops) == 1 && strings.HasPrefix(ops[0], "Add(") && strings.HasSuffix(ops[0], ".Escrow.Debonding.Balance)")
				} else {
					ok = false
				}
			}
		}
		c.Check(ok, "C15.slash", fname(fn)+":both pools slashed with (amount, total = active+debonding)", c.P.Pos(fn.Pos()), "active and debonding pools are slashed with the same amount and the same pre-slash total", "the two pools are not slashed with the same (amount, total = active balance + debonding balance)")
		if len(sp.Calls()) == 2 {
			add := CallsTo(fn, "total.Add(debonding)", "common/quantity.(*Quantity).Add", `Escrow\.Active\.Balance`)
			c.MustPrecede("C15.slash", fn, add, sp, "the total both fractions refer to is computed before either pool is reduced")
		}
	}

	// ---- (d) debonding
	if fn := c.needFn("C15.debond", pkStakingApp+".(*Application).reclaimEscrow"); fn != nil {
		wd := CallsTo(fn, "Active.Withdraw", pkStakingAPI+".(*SharePool).Withdraw", "")
		dp := CallsTo(fn, "Debonding.Deposit", pkStakingAPI+".(*SharePool).Deposit", "")
		okW := len(wd.Calls()) == 1
		if okW {
			a := allArgs(wd.Calls()[0])
			okW = strings.HasSuffix(vstr(a[0]), ".Escrow.Active") && strings.HasSuffix(vstr(a[2]), ".Shares") && strings.Contains(vstr(a[2]), "Delegation(") && vstr(a[3]) == "param:reclaim.Shares"
		}
		c.Check(okW, "C15.debond", fname(fn)+":Active.Withdraw(&baseUnits, &delegation.Shares, &reclaim.Shares)", c.P.Pos(fn.Pos()), "the reclaimed shares are redeemed from the active pool against the delegation", "reclaim does not redeem exactly reclaim.Shares of the delegation from the active pool")
		okD := len(dp.Calls()) == 1 && len(wd.Calls()) == 1
		if okD {
			a, w := allArgs(dp.Calls()[0]), allArgs(wd.Calls()[0])
			okD = strings.HasSuffix(vstr(a[0]), ".Escrow.Debonding") && a[2] == w[1] && strings.HasSuffix(vstr(a[1]), ".Shares")
			if cl, isCall := a[3].(*ssa.Call); okD && isCall && calleeNameCommon(&cl.Call) == "common/quantity.(*Quantity).Clone" {
				okD = cl.Call.Args[0] == w[1]
			} else {
				okD = false
			}
		}
		c.Check(okD, "C15.debond", fname(fn)+":Debonding.Deposit(&deb.Shares, &baseUnits, clone(baseUnits))", c.P.Pos(fn.Pos()), "exactly the redeemed stake enters the debonding pool", "the stake deposited into the debonding pool is not exactly what the active pool paid out")
		c.MustPrecede("C15.debond", fn, wd, dp, "stake leaves the active pool before it enters the debonding pool")
		sd := CallsTo(fn, "SetDebondingDelegation", pkStakingState+".(*MutableState).SetDebondingDelegation", "")
		okE := len(sd.Calls()) == 1
		if okE {
			a := allArgs(sd.Calls()[0])
			// key epoch = deb.DebondEndTime; stored value = &deb
			okE = strings.HasSuffix(vstr(a[4]), ".DebondEndTime") && a[5] != nil && !isNilConst(a[5])
		}
		// the end time is currentEpoch + DebondingInterval
		okT := false
		for _, b := range blocksIP(fn) {
			for _, in := range b.Instrs {
				st, isSt := in.(*ssa.Store)
				if !isSt {
					continue
				}
				fa, isFa := st.Addr.(*ssa.FieldAddr)
				if !isFa || fieldKey(fa.X.Type(), fa.Field) != "staking/api.DebondingDelegation.DebondEndTime" {
					continue
				}
				// exactly GetEpoch(ctx, CurrentHeight)#0 + DebondingInterval(ctx)#0 (either order)
				if bo, isB := st.Val.(*ssa.BinOp); isB && bo.Op == token.ADD {
					x, y := vstr(bo.X), vstr(bo.Y)
					isEpoch := func(s string) bool {
						return strings.Contains(s, ".GetEpoch(") && strings.Contains(s, "CurrentHeight(param:ctx)") && strings.HasSuffix(s, "#0") && !strings.Contains(s, " + ") && !strings.Contains(s, " - ")
					}
					isIvl := func(s string) bool {
						return strings.Contains(s, ".DebondingInterval(") && strings.HasSuffix(s, "#0") && !strings.Contains(s, " + ") && !strings.Contains(s, " - ")
					}
					okT = (isEpoch(x) && isIvl(y)) || (isEpoch(y) && isIvl(x))
				}
			}
		}
		c.Check(okE && okT, "C15.debond", fname(fn)+":queued at GetEpoch(current height)+DebondingInterval", c.P.Pos(fn.Pos()), "the debonding delegation is stored under its end epoch = current epoch + debonding interval", "the debonding end epoch is not (current epoch + DebondingInterval) or the delegation is not stored under it")
		if len(wd.Calls()) == 1 {
			se, found := SuccessEdges(wd.Calls()[0])
			zero := HeldEdges(fn, `^common/quantity\.\(\*Quantity\)\.IsZero\(alloc:\*common/quantity\.Quantity\)$`)
			cut := NewCut().AddEdges(zero...)
			for _, r := range Returns(fn) {
				cut.AddEdges(phiNonNilEdges(r)...)
			}
			ok := found && len(zero) > 0 && Reach(fn, nil, se, anyOf(SuccessReturns(fn)), cut) == nil
			c.Check(ok, "C15.debond", fname(fn)+":redeemed⇒success only if baseUnits.IsZero() after the deposit", c.P.InstrPos(wd.Ins[0]), "after redeeming, success requires that all redeemed stake went into the debonding pool", "after redeeming from the active pool the reclaim can succeed although part of the redeemed stake was not deposited into the debonding pool")
		}
		for _, ev := range []Ev{sd, CallsTo(fn, "SetDelegation", pkStakingState+".(*MutableState).SetDelegation", ""), wd, dp} {
			c.OnAllSuccessExits("C15.debond", fn, wd, ev, "a reclaim that redeemed shares stores the delegation, the debonding delegation and the accounts")
		}
	}
	if fn := c.needFn("C15.debond", pkStakingState+".(*ImmutableState).ExpiredDebondingQueue"); fn != nil {
		seek := CallsTo(fn, "it.Seek", "storage/mkvs.(Iterator).Seek", "")
		okS := len(seek.Calls()) == 1
		if okS {
			a := allArgs(seek.Calls()[0])
			kv := a[1]
			for {
				if ct, isCT := kv.(*ssa.ChangeType); isCT {
					kv = ct.X
					continue
				}
				if cv, isCV := kv.(*ssa.Convert); isCV {
					kv = cv.X
					continue
				}
				break
			}
			enc, isCall := kv.(*ssa.Call)
			okS = isCall && strings.HasSuffix(calleeNameCommon(&enc.Call), "keyformat.(*KeyFormat).Encode") && strings.Contains(vstr(enc.Call.Args[0]), "debondingQueueKeyFmt")
			if okS {
				last := enc.Call.Args[len(enc.Call.Args)-1]
				okS = isNilConst(last) || len(variadicElems(last)) == 0
			}
		}
		c.Check(okS, "C15.debond", fname(fn)+":scan starts at the beginning of the queue", c.P.Pos(fn.Pos()), "the iterator is positioned at the queue prefix with no epoch component", "the expired-queue scan does not start at the beginning of the debonding queue: entries whose end epoch was skipped would never be paid out")
		app := appendsOf(fn, "append(entries)", "*"+pkStakingState+".DebondingQueueEntry")
		c.GuardedByAny("C15.debond", fn, "decEpoch <= epoch", []string{`^load\(alloc:\*uint64\) <= param:epoch$`}, app, "only entries whose end epoch is at or before the given epoch are expired (not before)")
		// and nothing at or before the epoch is skipped: past the decode, the only way to the next key with decEpoch<=epoch is the append
		es := HeldEdges(fn, `^load\(alloc:\*uint64\) <= param:epoch$`)
		nextCalls := CallsTo(fn, "it.Next", "storage/mkvs.(Iterator).Next", "")
		ok := len(es) > 0 && !app.Empty() && !nextCalls.Empty() && Reach(fn, nil, es, anyOf(nextCalls.Ins), NewCut().AddInstr(app.Ins...)) == nil
		c.Check(ok, "C15.debond", fname(fn)+":every entry at or before the epoch is returned", c.P.Pos(fn.Pos()), "an entry with end epoch <= epoch always reaches the append", "an entry whose end epoch is at or before the given epoch can be skipped")
	}
	if fn := c.needFn("C15.debond", pkStakingApp+".(*Application).onEpochChange"); fn != nil {
		q := CallsTo(fn, "ExpiredDebondingQueue", pkStakingState+".(*ImmutableState).ExpiredDebondingQueue", "")
		okQ := len(q.Calls()) == 1 && vstr(allArgs(q.Calls()[0])[2]) == "param:epoch"
		c.Check(okQ, "C15.debond", fname(fn)+":ExpiredDebondingQueue(epoch)", c.P.Pos(fn.Pos()), "the queue is scanned for the new epoch", "the expired queue is not scanned for the epoch being entered")
		wd := CallsTo(fn, "Debonding.Withdraw", pkStakingAPI+".(*SharePool).Withdraw", "")
		okW := len(wd.Calls()) == 1
		var baseUnits ssa.Value
		if okW {
			a := allArgs(wd.Calls()[0])
			baseUnits = a[1]
			okW = strings.HasSuffix(vstr(a[0]), ".Escrow.Debonding") && strings.HasSuffix(vstr(a[2]), ".Delegation.Shares")
			if cl, isCall := a[3].(*ssa.Call); okW && isCall && calleeNameCommon(&cl.Call) == "common/quantity.(*Quantity).Clone" {
				okW = strings.HasSuffix(vstr(cl.Call.Args[0]), ".Delegation.Shares")
			} else {
				okW = false
			}
		}
		c.Check(okW, "C15.debond", fname(fn)+":Debonding.Withdraw(&baseUnits, &deb.Shares, clone(deb.Shares))", c.P.Pos(fn.Pos()), "all shares of the expired debonding delegation are redeemed from the debonding pool", "an expired debonding delegation is not redeemed in full from the escrow account's debonding pool")
		mv := CallsTo(fn, "Move(delegator general ← redeemed)", "common/quantity.Move", "")
		okM := len(mv.Calls()) == 1 && baseUnits != nil
		if okM {
			a := allArgs(mv.Calls()[0])
			okM = strings.HasSuffix(vstr(a[0]), ".General.Balance") && strings.Contains(vstr(a[0]), ".DelegatorAddr") && a[1] == baseUnits
			if cl, isCall := a[2].(*ssa.Call); okM && isCall && calleeNameCommon(&cl.Call) == "common/quantity.(*Quantity).Clone" {
				okM = cl.Call.Args[0] == baseUnits
			} else {
				okM = false
			}
		}
		c.Check(okM, "C15.debond", fname(fn)+":payout = all redeemed stake → delegator's general balance", c.P.Pos(fn.Pos()), "exactly the redeemed stake is paid to the delegator", "the payout is not exactly the redeemed stake moved into the delegator's general balance")
		// exactly once: after the payout, before the next entry / the rest of the epoch change, the entry is removed
		rest := union("next entry | signing rewards | return nil", wd, CallsTo(fn, "", pkStakingApp+".(*Application).rewardEpochSigning", ""))
		rest.Name, rest.Fn = "next entry / rest of epoch change", fn
		rm := CallsTo(fn, "RemoveFromDebondingQueue", pkStakingState+".(*MutableState).RemoveFromDebondingQueue", "")
		sd := CallsArg(fn, "SetDebondingDelegation(nil)", pkStakingState+".(*MutableState).SetDebondingDelegation", 5, `^nil`)
		sa := CallsTo(fn, "SetAccount", pkStakingState+".(*MutableState).SetAccount", "")
		for _, ev := range []Ev{rm, sd} {
			c.Separated("C15.debond", fn, mv, rest, ev, "a paid-out debonding delegation is removed before anything else happens, so it cannot be paid twice")
		}
		// delegator account stored (first SetAccount: delegator address)
		var saDel Ev
		saDel.Name, saDel.Fn = "SetAccount(delegator)", fn
		for _, call := range sa.Calls() {
			if strings.Contains(vstr(allArgs(call)[2]), ".DelegatorAddr") {
				saDel.Ins = append(saDel.Ins, call)
			}
		}
		c.Separated("C15.debond", fn, mv, rest, saDel, "the credited delegator account is stored")
		okK := len(rm.Calls()) == 1
		if okK {
			a := allArgs(rm.Calls()[0])
			okK = strings.HasSuffix(vstr(a[2]), ".Epoch") && strings.HasSuffix(vstr(a[3]), ".DelegatorAddr") && strings.HasSuffix(vstr(a[4]), ".EscrowAddr")
		}
		c.Check(okK, "C15.debond", fname(fn)+":RemoveFromDebondingQueue(entry key)", c.P.Pos(fn.Pos()), "the queue entry removed is the one just paid", "the queue entry removed is not keyed by the paid entry's (epoch, delegator, escrow)")
	}
}

// throughHelper: when the value a function returns is the result of a new helper (ip.go) — `return mulQuo(amount, a,
// b)` — the value is what the helper returns on its only success exit, looked at inside the helper (whose parameters
// render as the arguments of this call while fn is the family in view). Otherwise the value itself.
func throughHelper(v ssa.Value, fn *ssa.Function, use ssa.Instruction) (ssa.Value, *ssa.Function, ssa.Instruction) {
	idx := 0
	var call *ssa.Call
	switch x := v.(type) {
	case *ssa.Extract:
		call, _ = x.Tuple.(*ssa.Call)
		idx = x.Index
	case *ssa.Call:
		call = x
	}
	if call == nil {
		return v, fn, use
	}
	h := helperCallee(call)
	if h == nil {
		return v, fn, use
	}
	var rets []*ssa.Return
	for _, r := range nonErrorReturns(h) {
		if idx < len(r.Results) {
			rets = append(rets, r)
		}
	}
	if len(rets) != 1 {
		return v, fn, use
	}
	return rets[0].Results[idx], h, rets[0]
}

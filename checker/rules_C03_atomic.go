package main

import (
	"strings"

	"golang.org/x/tools/go/ssa"
)

// C03.atomic — a tree mutator that fails leaves the map as it was.
//
// The recursive mutators of the in-memory tree (doInsert, doRemove) modify cached nodes in place and cannot roll back.
// "Every get returns the last value written" therefore needs: once anything has been modified (a store into a cached
// node / pointer / the tree's pending lists, a cache mutator, or the success of the recursive call) no failure may
// follow. A fallible call after the modification point is accepted only when it is a re-dereference of a child that
// was already dereferenced successfully on every path before the first modification (served from the cache, barring
// an eviction inside the same operation) — F18/F19.

// nonLocalStore: a store whose address is (a phi of) a field address not rooted in a local allocation.
func nonLocalStore(st *ssa.Store) bool {
	var isField func(v ssa.Value, d int) (field, local bool)
	isField = func(v ssa.Value, d int) (bool, bool) {
		if d > 6 {
			return false, false
		}
		switch x := v.(type) {
		case *ssa.FieldAddr:
			base := x.X
			for {
				if fa, ok := base.(*ssa.FieldAddr); ok {
					base = fa.X
					continue
				}
				break
			}
			_, loc := base.(*ssa.Alloc)
			return true, loc
		case *ssa.IndexAddr:
			return isField(x.X, d+1)
		case *ssa.Phi:
			anyF, allLoc := false, true
			for _, e := range x.Edges {
				f, l := isField(e, d+1)
				if f {
					anyF = true
					if !l {
						allLoc = false
					}
				}
			}
			return anyF, anyF && allLoc
		}
		return false, false
	}
	f, l := isField(st.Addr, 0)
	return f && !l
}

var c03CacheMutators = map[string]bool{
	"storage/mkvs.(*cache).removeNode":      true,
	"storage/mkvs.(*cache).rollbackNode":    true,
	"storage/mkvs.(*cache).setPendingRoot":  true,
	"storage/mkvs/node.(*Pointer).SetDirty": true,
	"storage/mkvs.(*tree).doInsert":         true,
	"storage/mkvs.(*tree).doRemove":         true,
	"storage/mkvs.(*cache).tryRemoveNode":   true,
	"storage/mkvs.(*cache).doRemoveNode":    true,
}

func rulesC03Atomic(c *Ctx) {
	atomicRules(c, "C03.atomic", []string{"storage/mkvs.(*tree).doInsert", "storage/mkvs.(*tree).doRemove", "storage/mkvs.(*tree).Insert", "storage/mkvs.(*tree).RemoveExisting", "storage/mkvs.(*cache).tryRemoveNode"})
}

// atomicRules: failure atomicity of the named tree/cache mutators (shared: C03 — reads after a failed operation; C02 —
// a failed operation must not change the contents below a node whose hash is kept; C04 — a remote reader's cache
// eviction must not cut children off a node that stays cached).
func atomicRules(c *Ctx, rule string, names []string) {
	nFns := 0
	// tryRemoveNode (eviction): a node that cannot be removed because the pointer being dereferenced is below it must stay
	// whole (F20): the same rule, the failure being errRemoveLocked
	for _, name := range names {
		fn := c.needFn(rule, name)
		if fn == nil {
			continue
		}
		nFns++
		c.Analysed[name] = true
		// modification events
		var mods []ssa.Instruction // instructions after which the tree is modified
		var modEdges [][]Edge      // success edges of mutating calls that can fail (recursion)
		var modCalls []ssa.CallInstruction
		for _, b := range blocksIP(fn) {
			for _, in := range b.Instrs {
				switch x := in.(type) {
				case *ssa.Store:
					if nonLocalStore(x) {
						mods = append(mods, in)
					}
				case ssa.CallInstruction:
					if _, isDefer := in.(*ssa.Defer); isDefer {
						continue
					}
					if c03CacheMutators[calleeName(x)] {
						if errValues(x) != nil {
							if es, ok := SuccessEdges(x); ok {
								modEdges = append(modEdges, es)
								modCalls = append(modCalls, x)
								continue
							}
						}
						mods = append(mods, in)
					}
				}
			}
		}
		if len(mods)+len(modCalls) == 0 {
			c.Fail(rule, name+":modification events", c.P.Pos(fn.Pos()), "no modification of the cached tree found in "+name+" (unresolved anchor)")
			continue
		}
		afterMod := func(target func(ssa.Instruction) bool) ssa.Instruction {
			for _, m := range mods {
				if hit := Reach(fn, m, nil, target, nil); hit != nil {
					return hit
				}
			}
			for _, es := range modEdges {
				if hit := Reach(fn, nil, es, target, nil); hit != nil {
					return hit
				}
			}
			return nil
		}
		_ = mods
		// is there a path entry → modification → target on which the modification is reached without crossing cut?
		modThenReach := func(cut *Cut, target ssa.Instruction) bool {
			for _, m := range mods {
				if Reach(fn, nil, nil, isInstr(m), cut) != nil && Reach(fn, m, nil, isInstr(target), nil) != nil {
					return true
				}
			}
			for i, mc := range modCalls {
				if Reach(fn, nil, nil, isInstr(mc), cut) != nil && Reach(fn, nil, modEdges[i], isInstr(target), nil) != nil {
					return true
				}
			}
			return false
		}
		nOb := 0
		for _, call := range callsIn(fn) {
			if _, isDefer := call.(*ssa.Defer); isDefer {
				continue
			}
			if errValues(call) == nil {
				continue
			}
			// is this call's failure observed after a modification?
			post := afterMod(isInstr(call)) != nil
			if !post {
				// modification between the call and the test of its error (e.g. a result stored into a node before
				// `if err != nil`, also when the test is on a phi joining several such calls)
				derived := map[ssa.Value]bool{}
				var grow func(v ssa.Value)
				grow = func(v ssa.Value) {
					if derived[v] {
						return
					}
					derived[v] = true
					if refs := v.Referrers(); refs != nil {
						for _, r := range *refs {
							if phi, ok := r.(*ssa.Phi); ok {
								grow(phi)
							}
						}
					}
				}
				for _, v := range errValues(call) {
					grow(v)
				}
				var tests []ssa.Instruction
				for d := range derived {
					if refs := d.Referrers(); refs != nil {
						for _, r := range *refs {
							if b, ok := r.(*ssa.BinOp); ok && (isNilConst(b.X) || isNilConst(b.Y)) {
								tests = append(tests, b)
							}
						}
					}
				}
				for _, m := range mods {
					if Reach(fn, call, nil, isInstr(m), nil) != nil && Reach(fn, m, nil, anyOf(tests), nil) != nil {
						nOb++
						c.Fail(rule, name+":"+calleeShort(call)+" result stored before its error is tested", c.P.InstrPos(m), "the cached tree is modified with a result of "+calleeName(call)+" before its error is looked at: when the call fails the modification (a nil child) stays and the subtree is cut off although the operation reports a failure")
						break
					}
				}
				continue
			}
			nOb++
			inst := name + ":after modification only re-dereferences:" + calleeShort(call) + "(" + argShort(call) + ")"
			if calleeName(call) != "storage/mkvs.(*cache).derefNodePtr" {
				c.Fail(rule, inst, c.P.InstrPos(call), "a call that can fail ("+calleeName(call)+") follows a modification of the cached tree in "+name+": if it fails the operation reports an error although the key is already inserted/removed below nodes that were never marked dirty (nothing rolls the modification back)")
				continue
			}
			// an earlier dereference of the same child whose success dominates the first modification
			ok := false
			for _, c0 := range callsIn(fn) {
				if c0 == call || calleeName(c0) != "storage/mkvs.(*cache).derefNodePtr" || argStr(c0) != argStr(call) {
					continue
				}
				cut, _ := successCut(Ev{Name: "deref", Fn: fn, Ins: []ssa.Instruction{c0}})
				if !modThenReach(cut, call) {
					ok = true
				}
			}
			c.Check(ok, rule, inst, c.P.InstrPos(call), "the child was already dereferenced successfully before anything is modified", "derefNodePtr("+argShort(call)+") can fail (node database / remote read error) after the subtree was modified and this child was not dereferenced before the modification: the failed operation leaves the key removed below a node that was never marked dirty")
		}
		// fresh errors after a modification
		var fresh []ssa.Instruction
		for _, r := range Returns(fn) {
			ev := retErrVal(r)
			if ev == nil || isNilConst(ev) {
				continue
			}
			if !mayBeNil(ev, 0) {
				fresh = append(fresh, r)
			}
		}
		hit := afterMod(anyOf(fresh))
		site := c.P.Pos(fn.Pos())
		if hit != nil {
			site = c.P.InstrPos(hit)
		}
		c.Check(hit == nil, rule, name+":no error is produced after a modification", site, "no exit that creates an error is reachable after a modification ("+itoa(len(mods)+len(modCalls))+" modification events, "+itoa(nOb)+" fallible calls after them)", "an error is produced after the cached tree was already modified: the operation fails without being rolled back")
	}
	c.Floor(rule, nFns, len(names), "tree and cache mutators analysed")
}

func calleeShort(c ssa.CallInstruction) string {
	n := calleeName(c)
	if i := strings.LastIndex(n, "."); i >= 0 {
		return n[i+1:]
	}
	return n
}

// argStr renders the pointer argument of a derefNodePtr call (or all arguments of another call).
func argStr(c ssa.CallInstruction) string {
	args := allArgs(c)
	if calleeName(c) == "storage/mkvs.(*cache).derefNodePtr" && len(args) >= 3 {
		return vstr(args[2])
	}
	var s []string
	for _, a := range args {
		s = append(s, vstr(a))
	}
	return strings.Join(s, ",")
}

// argShort: a short, stable rendering of the pointer argument for instance keys ("n.Left").
func argShort(c ssa.CallInstruction) string {
	args := allArgs(c)
	if calleeName(c) == "storage/mkvs.(*cache).derefNodePtr" && len(args) >= 3 {
		if u, ok := args[2].(*ssa.UnOp); ok {
			if fa, ok := u.X.(*ssa.FieldAddr); ok {
				return namedOf(derefType(fa.X.Type())) + "." + fieldName(fa.X.Type(), fa.Field)
			}
		}
		s := vstr(args[2])
		if len(s) > 40 {
			s = "…" + s[len(s)-40:]
		}
		return s
	}
	return itoa(len(args)) + " args"
}

package main

import (
	"strings"

	"golang.org/x/tools/go/ssa"
)

// Round-2 C20 rules.

func rulesC20Round2(c *Ctx, ix *Index) {
	const pk = "runtime/txpool"
	// ---- a sender's successor transaction enters the schedule only because its predecessor was scheduled
	// nextSchedulable(tx) names the transaction that follows tx in the sender's sequence. It is ready exactly when tx has
	// been handed out in the current pass (scheduleOne records that) — not when tx merely leaves the pool (eviction does
	// not advance the sender). Only scheduleOne may ask for it.
	c.WhoMayCall(ix, "C20.ready", pk+".(*mainQueueScheduler).nextSchedulable", []string{pk + ".(*mainQueueScheduler).scheduleOne"}, "the successor of a transaction becomes schedulable only when that transaction is scheduled; any other caller (e.g. removal of an evicted transaction) would schedule seq+1 while the sender still stands at seq")

	// ---- a transaction is never inserted into a sender heap that may have been dropped
	// remove() deletes the sender's entry from s.senders when its heap becomes empty. A *senderTxHeap obtained before a
	// call that can reach that deletion is possibly orphaned afterwards: inserting into it creates a transaction that is
	// in s.txs and the priority heaps but unknown to forward/reset — never scheduled, never removable, above capacity.
	droppers := map[*ssa.Function]bool{}
	fns := c.P.FuncsInPkg(pk)
	for _, f := range fns {
		for _, call := range callsIn(f) {
			if calleeName(call) == "builtin.delete" && strings.HasSuffix(vstr(allArgs(call)[0]), ".senders") {
				droppers[f] = true
			}
		}
	}
	for changed := true; changed; {
		changed = false
		for _, f := range fns {
			if droppers[f] {
				continue
			}
			for _, call := range callsIn(f) {
				if sc := call.Common().StaticCallee(); sc != nil && droppers[sc] {
					droppers[f] = true
					changed = true
				}
			}
		}
	}
	nUse := 0
	for _, f := range fns {
		if f.Signature.Recv() == nil || !strings.HasSuffix(typeStr(f.Signature.Recv().Type()), "mainQueueScheduler") {
			continue
		}
		var drops []ssa.Instruction
		for _, call := range callsIn(f) {
			if sc := call.Common().StaticCallee(); sc != nil && droppers[sc] && sc != f {
				drops = append(drops, call)
			}
		}
		for _, call := range callsIn(f) {
			n := calleeName(call)
			if n != pk+".(*mainQueueScheduler).insert" && n != pk+".(*senderTxHeap).push" {
				continue
			}
			args := allArgs(call)
			var heap ssa.Value
			for _, a := range args {
				if strings.HasSuffix(typeStr(a.Type()), "senderTxHeap") {
					heap = a
				}
			}
			if heap == nil {
				continue
			}
			nUse++
			c.Analysed[fname(f)] = true
			// is there a dropper call between the definition of the heap value and this use?
			var bad ssa.Instruction
			if def, ok := heap.(ssa.Instruction); ok {
				for _, d := range drops {
					if Reach(f, def, nil, isInstr(d), nil) != nil && Reach(f, d, nil, isInstr(call), nil) != nil {
						bad = d
					}
				}
			} else {
				// parameter: any dropper before the use
				for _, d := range drops {
					if Reach(f, d, nil, isInstr(call), nil) != nil {
						bad = d
					}
				}
			}
			site := c.P.InstrPos(call)
			c.Check(bad == nil, "C20.sibling", fname(f)+":"+calleeShort(call)+" into a sender heap that is still registered", site, "no call that can drop the sender's entry lies between obtaining the sender heap and inserting into it", "a transaction is inserted into a sender heap after a call that can delete that sender's entry from the scheduler (the evicted lowest-priority transaction may be the sender's only one): the heap is orphaned, the transaction is never forwarded, scheduled or removable and the pool exceeds its capacity")
		}
	}
	c.Floor("C20.sibling", nUse, 1, "insertions into a sender heap")
}

// rulesC20Round2b: rules added with F32.
func rulesC20Round2b(c *Ctx) {
	const pk = "runtime/txpool"
	// ---- readiness always takes the sender's current sequence into account (F32)
	// A transaction is ready when its sequence number is the next one expected of its sender: the later of the sender's
	// current sequence and the successor of what was handed out in this pass. A comparison with the pass record alone
	// ignores that the sender may have been forwarded past it during the pass.
	if fn := c.needFn("C20.ready", pk+".(*mainQueueScheduler).isSchedulable"); fn != nil {
		c.Analysed[fname(fn)] = true
		n, bad := 0, ""
		for _, r := range Returns(fn) {
			if len(r.Results) != 1 {
				continue
			}
			bo, ok := r.Results[0].(*ssa.BinOp)
			if !ok || bo.Op.String() != "==" {
				continue
			}
			n++
			other := bo.Y
			if strings.HasSuffix(vstr(bo.Y), "param:tx.seq") {
				other = bo.X
			}
			if !strings.Contains(vstr(other), "param:seqHeap.seq") {
				bad = c.P.InstrPos(r)
			}
		}
		site := c.P.Pos(fn.Pos())
		if bad != "" {
			site = bad
		}
		c.Check(n > 0 && bad == "", "C20.ready", fname(fn)+":the expected sequence depends on the sender's current sequence on every path", site, "every comparison of the transaction's sequence number is with a value derived from seqHeap.seq", "isSchedulable compares the transaction's sequence number with the successor of the last scheduled one only: after the sender was forwarded past that transaction during the pass, its first pending transaction — ready and possibly of the highest priority — is not scheduled until the next reset")
	}

	// ---- nothing is pushed into the max heap twice
	for _, f := range c.P.FuncsInPkg(pk) {
		if f.Signature.Recv() == nil || !strings.HasSuffix(typeStr(f.Signature.Recv().Type()), "mainQueueScheduler") {
			continue
		}
		for _, call := range callsIn(f) {
			if calleeName(call) != pk+".(*maxPriorityTxHeap).push" && !(strings.HasSuffix(calleeName(call), ".push") && strings.Contains(vstr(recvOf(call)), ".maxHeap")) {
				continue
			}
			c.Analysed[fname(f)] = true
			arg := allArgs(call)[len(allArgs(call))-1]
			ok := f.Name() == "insert" // a transaction that is being inserted is in no index yet
			for _, h := range heldCondVals(call) {
				if hc, isCall := h.Cond.(*ssa.Call); isCall && !h.Pol && calleeName(hc) == pk+".isPendingSchedule" && sameValue(hc.Call.Args[0], arg, 0) {
					ok = true
				}
			}
			c.Check(ok, "C20.heap", fname(f)+":maxHeap.push only of a transaction that is not pending", c.P.InstrPos(call), "the push is dominated by !isPendingSchedule of the pushed transaction (or the transaction is being inserted)", "a transaction can be pushed into the max heap while it is already there: it is handed out twice in a pass and the heap's index bookkeeping is corrupted")
		}
	}
}

package main

import (
	"strings"

	"golang.org/x/tools/go/ssa"
)

// Round-3 rules of C06 and C07 (written after seeds C06/7,9 and C07/7..9 were missed).

func c06Round3(c *Ctx) {
	// (a) badger Commit links the new root to the root it was derived from whenever that root is known — also when
	// both carry the same hash (an unchanged root in the next version): Prune decides "lone root" from these links.
	if fn := c.needFn("C06.prune-shared", "storage/mkvs/db/badger.(*badgerBatch).Commit"); fn != nil {
		c.Analysed[fname(fn)] = true
		var start []Edge
		var links []ssa.Instruction
		for _, b := range blocksIP(fn) {
			for _, in := range b.Instrs {
				switch x := in.(type) {
				case *ssa.Lookup:
					if !x.CommaOk || !strings.Contains(vstr(x.X), "oldRoot") && !strings.Contains(vstr(x.Index), "oldRoot") {
						continue
					}
					if !strings.HasSuffix(vstr(x.X), ".Roots") {
						continue
					}
					for _, r := range *x.Referrers() {
						if ex, ok := r.(*ssa.Extract); ok && ex.Index == 1 {
							es, _ := condEdges(ex, true)
							start = append(start, es...)
						}
					}
				case *ssa.MapUpdate:
					if strings.HasSuffix(vstr(x.Map), ".Roots") && strings.Contains(vstr(x.Key), "oldRoot") {
						links = append(links, in)
					}
				}
			}
		}
		inst := fname(fn) + ":known old root⇒derived-root link recorded"
		if len(start) == 0 || len(links) == 0 {
			c.Fail("C06.prune-shared", inst, c.P.Pos(fn.Pos()), "the look-up of the old root in its version's roots metadata or the update of its derived-roots list was not found ("+itoa(len(start))+" look-ups, "+itoa(len(links))+" updates): unresolved anchor")
		} else {
			cut := NewCut().AddInstr(links...)
			hit := Reach(fn, nil, start, anyOf(SuccessReturns(fn)), cut)
			c.Check(hit == nil, "C06.prune-shared", inst, c.P.InstrPos(links[0]), "every successful commit that found its old root appended the new root to the old root's derived roots", "a commit can succeed without linking the new root to its (known) old root, e.g. when both have the same hash: Prune then takes the old root for a lone root and deletes the nodes the next version still uses")
		}
	}

	// (b) pathbadger VisitCleanNode: a node record is queued for removal only on a path that also forgets the in-memory
	// database pointer (so the node is stored again under a new key). A record removed while live pointers keep its key
	// is read as "node not found" once the same tree makes the node standalone again.
	if fn := c.needFn("C06.discard", "storage/mkvs/db/pathbadger.(*badgerBatch).VisitCleanNode"); fn != nil {
		var resets []ssa.Instruction
		for _, st := range StoresTo(fn, "", "storage/mkvs/node.Pointer.DBInternal").Ins {
			if isNilConst(st.(*ssa.Store).Val) {
				resets = append(resets, st)
			}
		}
		rem := StoresTo(fn, "updatedNode{Removed: true}", "storage/mkvs/db/pathbadger.updatedNode.Removed")
		inst := fname(fn) + ":record queued for removal⇒pointer reset before"
		if rem.Empty() || len(resets) == 0 {
			c.Fail("C06.discard", inst, c.P.Pos(fn.Pos()), "the removal record or the pointer reset was not found in VisitCleanNode (unresolved anchor)")
		} else {
			hit := Reach(fn, nil, nil, anyOf(rem.Ins), NewCut().AddInstr(resets...))
			pos := c.P.InstrPos(rem.Ins[0])
			if hit != nil {
				pos = c.P.InstrPos(hit)
			}
			c.Check(hit == nil, "C06.discard", inst, pos, "every path to an updatedNode{Removed: true} record passes ptr.DBInternal = nil", "a clean node's stored record is queued for removal on a path that keeps the in-memory database pointer: live pointers still name the removed record, and the same tree later reads it as 'node not found'")
		}
	}
}

func c07Round3(c *Ctx, ix *Index) {
	// (a) the persisted "restore in progress" marker is cleared only by the clean-up that removes the restore log
	// (after the log removal is durable, C07.order). Clearing it elsewhere — e.g. together with the finalization — lets a
	// crash before the log removal leave a stale log that no start-up will ever clean, and a later aborted restore
	// deletes the finalized checkpoint's nodes through it.
	c.WhoMayCall(ix, "C07.recover", "storage/mkvs/db/badger.(*metadata).setMultipartVersion", []string{"storage/mkvs/db/badger.(*badgerNodeDB).cleanMultipartLocked", "storage/mkvs/db/badger.(*badgerNodeDB).StartMultipartInsert"}, "the durable multipart marker is set when a restore starts and cleared only by the clean-up that removed the restore log")
	c.WhoMayCall(ix, "C07.recover", "storage/mkvs/db/pathbadger.(*metadata).setMultipart", []string{"storage/mkvs/db/pathbadger.(*badgerNodeDB).cleanMultipartLocked", "storage/mkvs/db/pathbadger.(*badgerNodeDB).StartMultipartInsert"}, "the durable multipart marker is set when a restore starts and cleared only by the clean-up")

	// (b) badger cleanMultipartLocked: the repair of the roots metadata is decided from the persisted metadata itself
	// (every listed root whose record is gone), not from what this run happened to delete: the batch with the deletions
	// is flushed before the metadata commit, so after a crash in between the repeated clean-up finds an empty log.
	if fn := c.needFn("C07.repeat", "storage/mkvs/db/badger.(*badgerNodeDB).cleanMultipartLocked"); fn != nil {
		c.Analysed[fname(fn)] = true
		n := 0
		for _, call := range callsIn(fn) {
			if calleeName(call) != "builtin.delete" {
				continue
			}
			args := allArgs(call)
			if len(args) != 2 || !strings.HasSuffix(vstr(args[0]), ".Roots") {
				continue
			}
			n++
			fromMeta := false
			for _, r := range Roots(args[1]) {
				if nx, ok := r.Val.(*ssa.Next); ok {
					if rg, ok := nx.Iter.(*ssa.Range); ok && strings.HasSuffix(vstr(rg.X), ".Roots") {
						fromMeta = true
					}
				}
			}
			c.Check(fromMeta, "C07.repeat", fname(fn)+":roots metadata repaired from the persisted metadata", c.P.InstrPos(call), "the roots withdrawn from the metadata are found by iterating the persisted roots metadata", "the roots to withdraw from the roots metadata are taken from something other than the persisted metadata (e.g. the restore-log entries deleted by this run): a clean-up repeated after a crash between the batch flush and the metadata commit finds nothing to withdraw and the removed root stays listed")
		}
		if n == 0 {
			c.Fail("C07.repeat", fname(fn)+":roots metadata repaired from the persisted metadata", c.P.Pos(fn.Pos()), "no delete(rootsMeta.Roots, …) found in cleanMultipartLocked (unresolved anchor; see F31)")
		}
	}

	// (c) pathbadger: recording the sequence number of a pending root always stores the number it was given. Commit
	// persists it before writing the nodes under that number (C07.order); a repeated Commit after a crash gets a new
	// number, and keeping the old one makes the root point at nodes that were never written.
	if fn := c.needFn("C07.repeat", "storage/mkvs/db/pathbadger.(*metadata).setPendingRootSeqNo"); fn != nil {
		c.Analysed[fname(fn)] = true
		var sets []ssa.Instruction
		var seq *ssa.Parameter
		for _, p := range fn.Params {
			if pname(p) == "seqNo" {
				seq = p
			}
		}
		for _, b := range blocksIP(fn) {
			for _, in := range b.Instrs {
				if mu, ok := in.(*ssa.MapUpdate); ok && seq != nil && mu.Value == ssa.Value(seq) {
					sets = append(sets, in)
				}
			}
		}
		inst := fname(fn) + ":success⇒the given sequence number is stored"
		if len(sets) == 0 {
			c.Fail("C07.repeat", inst, c.P.Pos(fn.Pos()), "no map update storing the seqNo parameter found")
		} else {
			hit := Reach(fn, nil, nil, anyOf(SuccessReturns(fn)), NewCut().AddInstr(sets...))
			c.Check(hit == nil, "C07.repeat", inst, c.P.InstrPos(sets[0]), "every success return passes the update PendingRootSeqs[version][root] = seqNo", "setPendingRootSeqNo can return success without recording the given number (e.g. keeping an earlier one): a Commit repeated after a crash writes its nodes under the new number while the root stays bound to the old one")
		}
	}
}

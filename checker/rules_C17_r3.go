package main

import (
	"strings"

	"golang.org/x/tools/go/ssa"
)

// Round-3 rules of C17 (written after seeds C17/7 and C17/8 were missed; C17/9 is reported by C17.keys).
func c17Round3(c *Ctx) {
	// (a) the node's stake claim is recomputed on every registration that is accepted: the thresholds depend on the
	// node's roles AND on its set of runtimes, both of which an allowed update can change, so a renewal that only
	// checks the existing claims leaves the recorded claim behind the registration.
	if fn := c.needFn("C17.claims", pkRegApp+".(*Application).registerNode"); fn != nil {
		add := Ev{Name: "stakeAcc.AddStakeClaim(StakeThresholdsForNode(newNode, …))", Fn: fn}
		for _, call := range callsIn(fn) {
			if !strings.HasSuffix(calleeName(call), "(*StakeAccumulatorCache).AddStakeClaim") {
				continue
			}
			args := allArgs(call)
			if len(args) >= 4 && strings.Contains(vstr(args[3]), "StakeThresholdsForNode(") {
				add.Ins = append(add.Ins, call)
			}
		}
		set := CallsTo(fn, "SetNode", fnSetNode, "")
		inst := fname(fn) + ":SetNode⇐AddStakeClaim(thresholds of this registration)✓"
		if add.Empty() || set.Empty() {
			c.Fail("C17.claims", inst, c.P.Pos(fn.Pos()), "the node's stake claim update (AddStakeClaim with StakeThresholdsForNode) or SetNode was not found in registerNode")
		} else {
			cut, _ := successCut(add)
			cut.AddEdges(HeldEdges(fn, `^[^!].*DebugBypassStake$`)...)
			hit := Reach(fn, nil, nil, anyOf(set.Ins), cut)
			pos := c.P.InstrPos(add.Ins[0])
			if hit != nil {
				pos = c.P.InstrPos(hit)
			}
			c.Check(hit == nil, "C17.claims", inst, pos, "a node record is written only after the claim was recomputed from the descriptor being registered (unless stake is bypassed)", "a node record can be written without the entity's claim for it having been recomputed from the new descriptor (e.g. for a renewal with unchanged roles): after an update that adds a runtime the recorded thresholds stay those of the old runtime set")
		}
	}

	// (b) a rejected registration leaves nothing behind, in particular no stake claim: the write-then-fail analysis of
	// C08 restricted to the registry's transaction handler (a claim written through the outer context survives the
	// rollback of the handler's own transaction when a subscriber vetoes the registration).
	w := newWTF(c.P)
	for k, v := range c.Table("wtf_storageonly") {
		w.storageOnly[k] = v
		c.Tabled("wtf_storageonly", k)
	}
	w.run()
	var roots []*ssa.Function
	for _, key := range []string{"consensus/cometbft/api.(Application).ExecuteTx"} {
		for _, fn := range w.impls[key] {
			if fn.Blocks != nil && fn.Synthetic == "" && short(fpkgPath(fn)) == "consensus/cometbft/apps/registry" {
				roots = appendUniqueFn(roots, fn)
			}
		}
	}
	if len(roots) == 0 {
		c.Fail("C17.claims", "registry ExecuteTx", "", "the registry's transaction handler was not found (unresolved anchor)")
	}
	wtfReportRoots(c, w, "C17.claims", roots)
}

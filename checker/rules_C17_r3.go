package main

import (
	"go/types"
	"strings"

	"golang.org/x/tools/go/ssa"
)

// Round-3 rules of C17 (written after seeds C17/7 and C17/8 were missed; C17/9 is reported by C17.keys).
func c17Round3(c *Ctx) {
	c17IdentityKeys(c)
	c17IndexHit(c)
	c17RuntimeThresholds(c)
	// (a) the node's stake claim is recomputed on every registration that is accepted: the thresholds depend on the
	// node's roles AND on its set of runtimes, both of which an allowed update can change, so a renewal that only
	// checks the existing claims leaves the recorded claim behind the registration.
	if fn := c.needFn("C17.claims", pkRegApp+".(*Application).registerNode"); fn != nil {
		add := Ev{Name: "stakeAcc.AddStakeClaim(StakeThresholdsForNode(newNode, …))", Fn: fn}
		for _, call := range callsIn(fn) {
			if !strings.HasSuffix(calleeName(call), "(*StakeAccumulatorCache).AddStakeClaim") {
				continue
			}
			args := allArgs(call)
			if len(args) >= 4 && strings.Contains(vstr(args[3]), "StakeThresholdsForNode(") {
				add.Ins = append(add.Ins, call)
			}
		}
		set := CallsTo(fn, "SetNode", fnSetNode, "")
		inst := fname(fn) + ":SetNode⇐AddStakeClaim(thresholds of this registration)✓"
		if add.Empty() || set.Empty() {
			c.Fail("C17.claims", inst, c.P.Pos(fn.Pos()), "the node's stake claim update (AddStakeClaim with StakeThresholdsForNode) or SetNode was not found in registerNode")
		} else {
			cut, _ := successCut(add)
			cut.AddEdges(HeldEdges(fn, `^[^!].*DebugBypassStake$`)...)
			hit := Reach(fn, nil, nil, anyOf(set.Ins), cut)
			pos := c.P.InstrPos(add.Ins[0])
			if hit != nil {
				pos = c.P.InstrPos(hit)
			}
			c.Check(hit == nil, "C17.claims", inst, pos, "a node record is written only after the claim was recomputed from the descriptor being registered (unless stake is bypassed)", "a node record can be written without the entity's claim for it having been recomputed from the new descriptor (e.g. for a renewal with unchanged roles): after an update that adds a runtime the recorded thresholds stay those of the old runtime set")
		}
	}

	// (b) a rejected registration leaves nothing behind, in particular no stake claim: the write-then-fail analysis of
	// C08 restricted to the registry's transaction handler (a claim written through the outer context survives the
	// rollback of the handler's own transaction when a subscriber vetoes the registration).
	w := newWTF(c.P)
	for k, v := range c.Table("wtf_storageonly") {
		w.storageOnly[k] = v
		c.Tabled("wtf_storageonly", k)
	}
	w.run()
	var roots []*ssa.Function
	for _, key := range []string{"consensus/cometbft/api.(Application).ExecuteTx"} {
		for _, fn := range w.impls[key] {
			if fn.Blocks != nil && fn.Synthetic == "" && short(fpkgPath(fn)) == "consensus/cometbft/apps/registry" {
				roots = appendUniqueFn(roots, fn)
			}
		}
	}
	if len(roots) == 0 {
		c.Fail("C17.claims", "registry ExecuteTx", "", "the registry's transaction handler was not found (unresolved anchor)")
	}
	wtfReportRoots(c, w, "C17.claims", roots)
}

// c17IdentityKeys (F48): "no public key is ever associated with two registered nodes" includes the node identity keys,
// which are not in the index of consensus/P2P/TLS/VRF keys: before a node record is written registerNode has looked
// every one of the node's keys up as a node identity (state.Node(key)) and the node's identity key up in the key index
// (state.NodeBySubKey(newNode.ID)), and both look-ups lead to a rejection when another node is found.
func c17IdentityKeys(c *Ctx) {
	fn := c.needFn("C17.keys", pkRegApp+".(*Application).registerNode")
	if fn == nil {
		return
	}
	c.Analysed[fname(fn)] = true
	var byID, bySub []ssa.Instruction
	for _, call := range callsIn(fn) {
		args := allArgs(call)
		switch calleeName(call) {
		case pkRegState + ".(*ImmutableState).Node":
			// a look-up of one of the node's keys (an element of a key list), not of the node's own id
			if len(args) == 3 && !strings.Contains(vstr(args[2]), "VerifyRegisterNodeArgs(") {
				byID = append(byID, call)
			}
		case pkRegState + ".(*ImmutableState).NodeBySubKey":
			if len(args) == 3 && strings.HasSuffix(vstr(args[2]), "#0.ID") {
				bySub = append(bySub, call)
			}
		}
	}
	set := CallsTo(fn, "SetNode", fnSetNode, "")
	for _, it := range []struct {
		name string
		ins  []ssa.Instruction
		bad  string
	}{
		{"each node key looked up as a node identity", byID, "a node can be registered whose consensus/P2P/TLS/VRF key is the identity key of another registered node"},
		{"the node identity key looked up in the key index", bySub, "a node can be registered whose identity key is the consensus/P2P/TLS/VRF key of another registered node"},
	} {
		inst := fname(fn) + ":SetNode⇐" + it.name
		if len(it.ins) == 0 || set.Empty() {
			c.Fail("C17.keys", inst, c.P.Pos(fn.Pos()), it.bad+" (the look-up was not found in registerNode): one public key is then associated with two registered nodes")
			continue
		}
		cut := NewCut().AddInstr(it.ins...)
		// a look-up inside a range loop over a fixed-size key array is passed whenever the loop is: cut at the loop head
		for _, in := range it.ins {
			for _, b := range fn.Blocks {
				ifi := lastIfOf(b)
				if ifi == nil || !strings.Contains(b.Comment, "rangeindex.loop") {
					continue
				}
				bo, ok := ifi.Cond.(*ssa.BinOp)
				if !ok {
					continue
				}
				if k, isK := fixedLen(bo.Y); !isK || k <= 0 {
					continue
				}
				if Reach(fn, nil, []Edge{{b, 0}}, isInstr(in), NewCut().AddInstr(ifi)) != nil {
					cut.AddInstr(ifi)
				}
			}
		}
		hit := Reach(fn, nil, nil, anyOf(set.Ins), cut)
		c.Check(hit == nil, "C17.keys", inst, c.P.InstrPos(it.ins[0]), "every path to SetNode passes the look-up", it.bad+": one public key is then associated with two registered nodes")
	}
}

// fixedLen: v is a positive integer constant or the length of (a slice of) a fixed-size array.
func fixedLen(v ssa.Value) (int64, bool) {
	if k, ok := constInt(v); ok {
		return k, true
	}
	call, ok := v.(*ssa.Call)
	if !ok || calleeNameCommon(&call.Call) != "builtin.len" || len(call.Call.Args) != 1 {
		return 0, false
	}
	x := call.Call.Args[0]
	if sl, ok := x.(*ssa.Slice); ok {
		x = sl.X
	}
	if arr, ok := derefType(x.Type()).Underlying().(*types.Array); ok {
		return arr.Len(), true
	}
	return 0, false
}

// c17RuntimeThresholds (known finding F49): a node's stake claim is computed from the thresholds of the runtimes it is
// registered for (StakeThresholdsForNode). A runtime update may change those thresholds (VerifyRuntimeUpdate does not
// compare Staking.Thresholds) and registerRuntime does not recompute the claims of the nodes already registered for the
// runtime, so after such an update the recorded claims are not the ones implied by the registrations until each node
// happens to re-register. The rule: either the update verification looks at Staking.Thresholds, or the runtime
// registration recomputes node claims.
func c17RuntimeThresholds(c *Ctx) {
	vr := c.needFn("C17.claims", "registry/api.VerifyRuntimeUpdate")
	rr := c.needFn("C17.claims", pkRegApp+".(*Application).registerRuntime")
	if vr == nil || rr == nil {
		return
	}
	c.Analysed[fname(vr)] = true
	compares := false
	for _, b := range vr.Blocks {
		for _, in := range b.Instrs {
			if fa, ok := in.(*ssa.FieldAddr); ok && fieldName(fa.X.Type(), fa.Field) == "Thresholds" && strings.HasSuffix(vstr(fa.X), ".Staking") {
				compares = true
			}
		}
	}
	refreshes := false
	seen := map[*ssa.Function]bool{}
	var visit func(f *ssa.Function, d int)
	visit = func(f *ssa.Function, d int) {
		if f == nil || seen[f] || d > 2 || f.Blocks == nil {
			return
		}
		seen[f] = true
		for _, call := range callsIn(f) {
			if strings.HasSuffix(calleeName(call), "registry/api.StakeThresholdsForNode") {
				refreshes = true
			}
			if cal := call.Common().StaticCallee(); cal != nil && strings.HasPrefix(fname(cal), pkRegApp+".") {
				visit(cal, d+1)
			}
		}
	}
	visit(rr, 0)
	c.Check(compares || refreshes, "C17.claims", fname(rr)+":a change of the runtime's stake thresholds reaches the claims of its nodes", c.P.Pos(vr.Pos()), "the update verification restricts Staking.Thresholds or the registration recomputes node claims", "a runtime update may change Staking.Thresholds (VerifyRuntimeUpdate never looks at them) and registerRuntime does not recompute the claims of the nodes registered for the runtime: the recorded node claims keep the old thresholds and differ from the ones implied by the registrations (the extra stake stays unlocked) until each node re-registers")
}

// c17IndexHit (seed C17/11): "an entity cannot be removed while it owns runtimes" rests on HasEntityRuntimes answering true
// whenever the runtime-by-entity index has an entry for the entity (the index covers active and suspended runtimes). The
// answer false is given only where the index has no entry for it: iterator exhausted, key of another format, or another
// entity's key. (A "confirmation" of the hit against some other source — e.g. the active runtime descriptors — lets an
// entity whose runtimes are all suspended deregister.)
func c17IndexHit(c *Ctx) {
	fn := c.needFn("C17.remove", pkRegState+".(*ImmutableState).HasEntityRuntimes")
	if fn == nil {
		return
	}
	c.ResultImpliesCond("C17.remove", fn, 0, false, fname(fn)+":false only when the index has no entry for the entity", "no index hit",
		`^(!.*\.Valid\(\)|!common/keyformat\.\(\*KeyFormat\)\.Decode\(.*runtimeByEntityKeyFmt.*\)|!common/keyformat\.\(\*PreHashed\)\.Equal\(.*\))$`,
		"HasEntityRuntimes answers false only on a path where the runtime-by-entity index has no entry for the entity",
		"HasEntityRuntimes can answer false although the runtime-by-entity index has an entry for the entity (the hit is overridden by another source): an entity whose runtimes are, say, all suspended can be deregistered while the runtimes still name it and its stake claim stays behind")
}

package main

import (
	"go/constant"
	"go/token"
	"go/types"
	"strings"

	"golang.org/x/tools/go/ssa"
)

// Edge is the CFG edge From -> From.Succs[Idx].
type Edge struct {
	From *ssa.BasicBlock
	Idx  int
}

// Cut describes what is removed from a function's CFG for a reachability query.
type Cut struct {
	Instrs map[ssa.Instruction]bool
	Edges  map[Edge]bool
}

func NewCut() *Cut { return &Cut{Instrs: map[ssa.Instruction]bool{}, Edges: map[Edge]bool{}} }

func (c *Cut) AddInstr(ins ...ssa.Instruction) *Cut {
	for _, i := range ins {
		c.Instrs[i] = true
	}
	return c
}
func (c *Cut) AddEdges(es ...Edge) *Cut {
	for _, e := range es {
		c.Edges[e] = true
	}
	return c
}

// Reach walks the CFG of one function from a start point and returns the
// first instruction satisfying target that is reachable without passing
// through a cut instruction or edge. If from is nil the walk starts at function
// entry; otherwise just after instruction from. If startEdges is non-nil the
// walk instead starts at the heads of these edges.
func Reach(fn *ssa.Function, from ssa.Instruction, startEdges []Edge, target func(ssa.Instruction) bool, cut *Cut) ssa.Instruction {
	if fn == nil || len(fn.Blocks) == 0 {
		return nil
	}
	if cut == nil {
		cut = NewCut()
	}
	if len(NewFns) > 0 {
		return reachIP(fn, from, startEdges, target, cut)
	}
	type pos struct {
		b *ssa.BasicBlock
		i int
	}
	seenBlockStart := map[*ssa.BasicBlock]bool{}
	var work []pos
	if startEdges != nil {
		for _, e := range startEdges {
			if cut.Edges[e] {
				continue
			}
			s := e.From.Succs[e.Idx]
			if !seenBlockStart[s] {
				seenBlockStart[s] = true
				work = append(work, pos{s, 0})
			}
		}
	} else if from == nil {
		seenBlockStart[fn.Blocks[0]] = true
		work = append(work, pos{fn.Blocks[0], 0})
	} else {
		b := from.Block()
		idx := -1
		for i, in := range b.Instrs {
			if in == from {
				idx = i
				break
			}
		}
		work = append(work, pos{b, idx + 1})
	}
	for len(work) > 0 {
		p := work[len(work)-1]
		work = work[:len(work)-1]
		stopped := false
		for i := p.i; i < len(p.b.Instrs); i++ {
			in := p.b.Instrs[i]
			if cut.Instrs[in] {
				stopped = true
				break
			}
			if target(in) {
				return in
			}
		}
		if stopped {
			continue
		}
		for si, s := range p.b.Succs {
			if cut.Edges[Edge{p.b, si}] {
				continue
			}
			if !seenBlockStart[s] {
				seenBlockStart[s] = true
				work = append(work, pos{s, 0})
			}
		}
	}
	return nil
}

func isInstr(x ssa.Instruction) func(ssa.Instruction) bool {
	return func(i ssa.Instruction) bool { return i == x }
}

func anyOf(xs []ssa.Instruction) func(ssa.Instruction) bool {
	m := map[ssa.Instruction]bool{}
	for _, x := range xs {
		m[x] = true
	}
	return func(i ssa.Instruction) bool { return m[i] }
}

// condEdges returns the CFG edges taken when boolean value v evaluates to
// want. ok=false if v is consumed in a way we cannot follow (phi, stored,
// returned): then the caller must treat the guard as unrecognised.
func condEdges(v ssa.Value, want bool) (edges []Edge, ok bool) {
	ok = true
	refs := v.Referrers()
	if refs == nil {
		return nil, false
	}
	found := false
	for _, r := range *refs {
		switch r := r.(type) {
		case *ssa.If:
			found = true
			if want {
				edges = append(edges, Edge{r.Block(), 0})
			} else {
				edges = append(edges, Edge{r.Block(), 1})
			}
		case *ssa.UnOp:
			if r.Op == token.NOT {
				es, o := condEdges(r, !want)
				if !o {
					ok = false
				}
				if len(es) > 0 {
					found = true
				}
				edges = append(edges, es...)
			}
		case *ssa.DebugRef:
		default:
			// phi / store / return / call argument: value escapes as data.
			ok = false
		}
	}
	if !found {
		ok = false
	}
	return
}

func isNilConst(v ssa.Value) bool {
	c, ok := v.(*ssa.Const)
	return ok && c.Value == nil
}

func isErrorType(t types.Type) bool {
	if t == nil {
		return false
	}
	n, ok := t.(*types.Named)
	return ok && n.Obj().Pkg() == nil && n.Obj().Name() == "error"
}

// errValues returns the SSA values carrying the error result of call c
// (direct result, Extract of the last tuple element, and loads of a local
// alloc it is stored to within the same block without intervening store).
func errValues(c ssa.CallInstruction) []ssa.Value {
	cv := c.Value()
	if cv == nil {
		return nil
	}
	var base []ssa.Value
	sig := c.Common().Signature()
	res := sig.Results()
	if res.Len() == 0 {
		return nil
	}
	last := res.Len() - 1
	if !isErrorType(res.At(last).Type()) {
		return nil
	}
	if res.Len() == 1 {
		base = append(base, cv)
	} else if refs := cv.Referrers(); refs != nil {
		for _, r := range *refs {
			if e, ok := r.(*ssa.Extract); ok && e.Index == last {
				base = append(base, e)
			}
		}
	}
	out := append([]ssa.Value{}, base...)
	for _, b := range base {
		out = append(out, throughLocals(b)...)
	}
	return out
}

// resultValues returns the SSA values carrying result #k of call c, following
// a store to a local alloc and subsequent loads.
func resultValues(c ssa.CallInstruction, k int) []ssa.Value {
	cv := c.Value()
	if cv == nil {
		return nil
	}
	res := c.Common().Signature().Results()
	var base []ssa.Value
	if res.Len() == 1 && k == 0 {
		base = append(base, cv)
	} else if refs := cv.Referrers(); refs != nil {
		for _, r := range *refs {
			if e, ok := r.(*ssa.Extract); ok && e.Index == k {
				base = append(base, e)
			}
		}
	}
	out := append([]ssa.Value{}, base...)
	for _, b := range base {
		out = append(out, throughLocals(b)...)
	}
	return out
}

// throughLocals follows "store v to local alloc; ... load alloc" (the shape go/ssa
// produces for variables captured by closures or address-taken) and returns
// the loads that certainly observe v: loads in the same block after the store
// with no intervening store to that alloc, and loads in blocks dominated by
// the store's block when the alloc has no other store reachable in between
// (approximated: no other store to the alloc anywhere except ones that are
// before this store in the same block or in blocks that dominate it).
func throughLocals(v ssa.Value) []ssa.Value {
	var out []ssa.Value
	refs := v.Referrers()
	if refs == nil {
		return nil
	}
	for _, r := range *refs {
		st, ok := r.(*ssa.Store)
		if !ok || st.Val != v {
			continue
		}
		al, ok := st.Addr.(*ssa.Alloc)
		if !ok {
			continue
		}
		arefs := al.Referrers()
		if arefs == nil {
			continue
		}
		// Loads after the store in the same block, until the next store.
		b := st.Block()
		after := false
		for _, in := range b.Instrs {
			if in == st {
				after = true
				continue
			}
			if !after {
				continue
			}
			if s2, ok := in.(*ssa.Store); ok && s2.Addr == al {
				break
			}
			if u, ok := in.(*ssa.UnOp); ok && u.Op == token.MUL && u.X == al {
				out = append(out, u)
			}
		}
		// Loads in successor blocks reached before any other store: walk forward.
		seen := map[*ssa.BasicBlock]bool{}
		var walk func(bb *ssa.BasicBlock)
		walk = func(bb *ssa.BasicBlock) {
			if seen[bb] {
				return
			}
			seen[bb] = true
			for _, in := range bb.Instrs {
				if s2, ok := in.(*ssa.Store); ok && s2.Addr == al {
					return
				}
				if u, ok := in.(*ssa.UnOp); ok && u.Op == token.MUL && u.X == al {
					// only certain if every path to this load comes from our store:
					// require that the store's block dominates bb.
					if b.Dominates(bb) {
						out = append(out, u)
					}
				}
			}
			for _, s := range bb.Succs {
				walk(s)
			}
		}
		// does the rest of block b contain another store? if so stop.
		blocked := false
		after = false
		for _, in := range b.Instrs {
			if in == st {
				after = true
				continue
			}
			if after {
				if s2, ok := in.(*ssa.Store); ok && s2.Addr == al {
					blocked = true
				}
			}
		}
		if !blocked {
			for _, s := range b.Succs {
				walk(s)
			}
		}
	}
	return out
}

// nilTestEdges: edges taken when v (an error or pointer value) is nil
// (wantNil) or non-nil.
func nilTestEdges(v ssa.Value, wantNil bool) (edges []Edge, found bool) {
	refs := v.Referrers()
	if refs == nil {
		return nil, false
	}
	for _, r := range *refs {
		b, ok := r.(*ssa.BinOp)
		if !ok || (b.Op != token.NEQ && b.Op != token.EQL) {
			continue
		}
		var other ssa.Value
		if b.X == v {
			other = b.Y
		} else {
			other = b.X
		}
		if !isNilConst(other) {
			continue
		}
		// b true means: (EQL) v==nil ; (NEQ) v!=nil
		want := wantNil
		if b.Op == token.NEQ {
			want = !wantNil
		}
		es, _ := condEdges(b, want)
		if len(es) > 0 {
			found = true
			edges = append(edges, es...)
		}
	}
	return
}

// FailEdges returns the edges taken when call c's error result is non-nil.
// found=false when the error is never branched on (discarded, returned
// directly, passed on).
func FailEdges(c ssa.CallInstruction) (edges []Edge, found bool) {
	for _, v := range errValues(c) {
		es, f := nilTestEdges(v, false)
		if f {
			found = true
			edges = append(edges, es...)
		}
	}
	return
}

// SuccessEdges returns the edges taken when call c's error result is nil.
func SuccessEdges(c ssa.CallInstruction) (edges []Edge, found bool) {
	for _, v := range errValues(c) {
		es, f := nilTestEdges(v, true)
		if f {
			found = true
			edges = append(edges, es...)
		}
	}
	return
}

// BoolEdges returns the edges taken when result #k of call c (a bool) is want.
func BoolEdges(c ssa.CallInstruction, k int, want bool) (edges []Edge, found bool) {
	for _, v := range resultValues(c, k) {
		es, _ := condEdges(v, want)
		if len(es) > 0 {
			found = true
			edges = append(edges, es...)
		}
	}
	return
}

// errorReturnedDirectly reports whether call c's error flows straight into a
// Return of fn (tail position: `return f(x)` or `err := f(); return err`).
func errorReturnedDirectly(c ssa.CallInstruction) []*ssa.Return {
	var out []*ssa.Return
	for _, v := range errValues(c) {
		if refs := v.Referrers(); refs != nil {
			for _, r := range *refs {
				if ret, ok := r.(*ssa.Return); ok {
					out = append(out, ret)
				}
			}
		}
	}
	return out
}

// Returns lists the Return instructions of fn.
func Returns(fn *ssa.Function) []*ssa.Return {
	var out []*ssa.Return
	for _, b := range fn.Blocks {
		if len(b.Instrs) == 0 {
			continue
		}
		if r, ok := b.Instrs[len(b.Instrs)-1].(*ssa.Return); ok {
			out = append(out, r)
		}
	}
	return out
}

// errResultIndex returns the index of the error result of fn, or -1.
func errResultIndex(fn *ssa.Function) int {
	res := fn.Signature.Results()
	if res.Len() == 0 {
		return -1
	}
	if isErrorType(res.At(res.Len() - 1).Type()) {
		return res.Len() - 1
	}
	return -1
}

// retErrVal returns the error operand of a return, resolving the
// defer-spilled form (named results loaded from allocs).
func retErrVal(r *ssa.Return) ssa.Value {
	fn := r.Parent()
	i := errResultIndex(fn)
	if i < 0 || i >= len(r.Results) {
		return nil
	}
	return unspill(r.Results[i])
}

// unspill resolves the defer-spilled form of a result: a load of a local
// alloc whose value was stored earlier in the same block.
func unspill(v ssa.Value) ssa.Value {
	if u, ok := v.(*ssa.UnOp); ok && u.Op == token.MUL {
		if al, ok := u.X.(*ssa.Alloc); ok {
			if sv := reachingStore(al, u); sv != nil {
				return sv
			}
		}
	}
	return v
}

// mayBeNil: could value v be a nil error? (conservative: true unless provably non-nil)
func mayBeNil(v ssa.Value, depth int) bool {
	if depth > 8 {
		return true
	}
	switch v := v.(type) {
	case *ssa.Const:
		return v.Value == nil
	case *ssa.MakeInterface:
		return false
	case *ssa.Phi:
		for _, e := range v.Edges {
			if mayBeNil(e, depth+1) {
				return true
			}
		}
		return false
	case *ssa.Call:
		// fmt.Errorf / errors.New never return nil
		if f := v.Call.StaticCallee(); f != nil {
			n := f.String()
			if n == "fmt.Errorf" || n == "errors.New" {
				return false
			}
			if fname(f) == "common/errors.WithContext" && len(v.Call.Args) > 0 {
				return mayBeNil(v.Call.Args[0], depth+1)
			}
			if neverNilError(f, depth+1) {
				return false
			}
			if errPassedThroughNonNil(f, v, depth+1) {
				return false
			}
		}
		return true
	case *ssa.Extract:
		// the error result of a multi-result call
		if call, ok := v.Tuple.(*ssa.Call); ok {
			if f := call.Call.StaticCallee(); f != nil && errResultIndex(f) == v.Index {
				if neverNilError(f, depth+1) || errPassedThroughNonNil(f, call, depth+1) {
					return false
				}
			}
		}
		return true
	case *ssa.UnOp:
		if v.Op == token.MUL {
			if g, ok := v.X.(*ssa.Global); ok {
				_ = g
				return false // package-level sentinel error variable
			}
		}
		return true
	}
	return true
}

// SuccessReturns: returns whose error operand may be nil (or functions with
// no error result: all returns), restricted to those where v is not provably
// non-nil on the specific path (value-sensitive only through constants/phis).
func SuccessReturns(fn *ssa.Function) []ssa.Instruction {
	var out []ssa.Instruction
	for _, r := range Returns(fn) {
		ev := retErrVal(r)
		if ev == nil || (mayBeNil(ev, 0) && !knownNonNilAt(ev, r)) {
			out = append(out, r)
		}
	}
	return out
}

// knownNonNilAt: instruction at is dominated by a branch on which v != nil.
func knownNonNilAt(v ssa.Value, at ssa.Instruction) bool {
	for _, h := range heldCondVals(at) {
		b, ok := h.Cond.(*ssa.BinOp)
		if !ok || (b.Op != token.NEQ && b.Op != token.EQL) {
			continue
		}
		var other, subj ssa.Value
		if isNilConst(b.Y) {
			subj, other = b.X, b.Y
		} else if isNilConst(b.X) {
			subj, other = b.Y, b.X
		} else {
			continue
		}
		_ = other
		if subj != v && !sameLocalLoad(subj, v) && !sameContextErr(subj, v) {
			continue
		}
		if (b.Op == token.NEQ && h.Pol) || (b.Op == token.EQL && !h.Pol) {
			return true
		}
	}
	return false
}

// sameLocalLoad: both are loads of the same local alloc with no store to it in between
// (approximated: same alloc and the second is in a block dominated by the first's block,
// and the alloc has no store in any block strictly between — we require a single reaching store).
func sameLocalLoad(a, b ssa.Value) bool {
	ua, ok1 := a.(*ssa.UnOp)
	ub, ok2 := b.(*ssa.UnOp)
	if !ok1 || !ok2 || ua.Op != token.MUL || ub.Op != token.MUL || ua.X != ub.X {
		return false
	}
	al, ok := ua.X.(*ssa.Alloc)
	if !ok {
		return false
	}
	// stores to al located in blocks dominated by a's block (other than before a in the same block) break the equality
	refs := al.Referrers()
	if refs == nil {
		return false
	}
	for _, r := range *refs {
		st, ok := r.(*ssa.Store)
		if !ok || st.Addr != al {
			continue
		}
		if ua.Block().Dominates(st.Block()) && st.Block().Dominates(ub.Block()) {
			if st.Block() == ua.Block() {
				// store before load a in same block is fine
				before := true
				for _, in := range st.Block().Instrs {
					if in == ssa.Instruction(ua) {
						before = false
					}
					if in == ssa.Instruction(st) {
						break
					}
				}
				if before {
					continue
				}
			}
			return false
		}
	}
	return ua.Block().Dominates(ub.Block())
}

// phiNilEdges: for a return whose error operand is a phi, returns the set of
// incoming edges carrying a provably non-nil value (so that success-path
// queries can cut them).
func phiNonNilEdges(r *ssa.Return) []Edge {
	ev := retErrVal(r)
	phi, ok := ev.(*ssa.Phi)
	if !ok {
		return nil
	}
	var out []Edge
	b := phi.Block()
	for i, e := range phi.Edges {
		if !mayBeNil(e, 0) {
			pred := b.Preds[i]
			for si, s := range pred.Succs {
				if s == b {
					out = append(out, Edge{pred, si})
				}
			}
		}
	}
	return out
}

// constInt returns the int64 value of an SSA constant.
func constInt(v ssa.Value) (int64, bool) {
	c, ok := v.(*ssa.Const)
	if !ok || c.Value == nil {
		return 0, false
	}
	if c.Value.Kind() != constant.Int {
		return 0, false
	}
	return c.Int64(), true
}

// callsIn lists call instructions (call, go, defer) of fn in block order.
func callsIn(fn *ssa.Function) []ssa.CallInstruction {
	setIPContext(fn)
	return callsInD(fn, 0, map[*ssa.Function]bool{fn: true})
}

// callsInD: a call of a new helper (ip.go) is followed by the calls the helper makes.
func callsInD(fn *ssa.Function, depth int, seen map[*ssa.Function]bool) []ssa.CallInstruction {
	var out []ssa.CallInstruction
	for _, b := range fn.Blocks {
		for _, in := range b.Instrs {
			if c, ok := in.(ssa.CallInstruction); ok {
				out = append(out, c)
				if h := helperCallee(in); h != nil && depth < ipMaxDepth && !seen[h] {
					seen[h] = true
					out = append(out, callsInD(h, depth+1, seen)...)
				}
			}
		}
	}
	return out
}

// calleeName returns the short qualified name of the statically known callee
// or, for interface invocations, "iface:<pkg>.(<Iface>).<Method>".
func calleeName(c ssa.CallInstruction) string {
	cc := c.Common()
	if cc.IsInvoke() {
		return tfname(cc.Method)
	}
	if f := cc.StaticCallee(); f != nil {
		if f.Origin() != nil {
			return fname(f.Origin())
		}
		return fname(f)
	}
	if b, ok := cc.Value.(*ssa.Builtin); ok {
		return "builtin." + b.Name()
	}
	return ""
}

// findCalls returns the call instructions in fn whose callee name matches one
// of names (exact match on short qualified name).
func findCalls(fn *ssa.Function, names ...string) []ssa.CallInstruction {
	want := map[string]bool{}
	for _, n := range names {
		want[n] = true
	}
	var out []ssa.CallInstruction
	for _, c := range callsIn(fn) {
		if want[calleeName(c)] {
			out = append(out, c)
		}
	}
	return out
}

func asInstrs[T ssa.Instruction](xs []T) []ssa.Instruction {
	out := make([]ssa.Instruction, len(xs))
	for i, x := range xs {
		out[i] = x
	}
	return out
}

// heldConds returns the simple conditions (rendered canonically) known to
// hold at instruction a because a's block is dominated by one successor edge
// of an If: map cond-string -> polarity.
func heldConds(a ssa.Instruction) map[string]bool {
	out := map[string]bool{}
	fn := a.Parent()
	ab := a.Block()
	for _, b := range fn.Blocks {
		if len(b.Instrs) == 0 {
			continue
		}
		iff, ok := b.Instrs[len(b.Instrs)-1].(*ssa.If)
		if !ok {
			continue
		}
		for si, s := range b.Succs {
			if len(s.Preds) == 1 && s.Dominates(ab) {
				out[vstr(iff.Cond)] = si == 0
			}
		}
	}
	return out
}

// stableCond: a condition made only of parameters, constants, field loads and
// comparisons, none of whose fields is stored to anywhere in fn.
func stableCond(fn *ssa.Function, cond ssa.Value) bool {
	ok := true
	fields := map[string]bool{}
	var walk func(v ssa.Value, d int)
	walk = func(v ssa.Value, d int) {
		if d > 12 {
			ok = false
			return
		}
		switch v := v.(type) {
		case *ssa.Parameter, *ssa.Const, *ssa.FreeVar:
		case *ssa.BinOp:
			walk(v.X, d+1)
			walk(v.Y, d+1)
		case *ssa.UnOp:
			walk(v.X, d+1)
		case *ssa.FieldAddr:
			fields[fieldKey(v.X.Type(), v.Field)] = true
			walk(v.X, d+1)
		case *ssa.Field:
			walk(v.X, d+1)
		case *ssa.ChangeType:
			walk(v.X, d+1)
		case *ssa.Convert:
			walk(v.X, d+1)
		case *ssa.Call:
			// pure comparison helpers on stable operands
			n := calleeNameCommon(&v.Call)
			if strings.HasSuffix(n, ".Equal") || strings.HasSuffix(n, ".IsZero") || strings.HasSuffix(n, ".IsEmpty") || strings.HasSuffix(n, ".CallerAddress") || strings.HasSuffix(n, ".TxSigner") {
				for _, a := range v.Call.Args {
					walk(a, d+1)
				}
				if v.Call.IsInvoke() {
					ok = false
				}
			} else {
				ok = false
			}
		case *ssa.IndexAddr:
			walk(v.X, d+1)
			walk(v.Index, d+1)
		case *ssa.Index:
			walk(v.X, d+1)
		case *ssa.Extract:
			if _, isNext := v.Tuple.(*ssa.Next); !isNext {
				ok = false
			}
		case *ssa.Phi:
			// loop induction variable (index of a range over a slice)
			if v.Comment != "rangeindex" && !strings.HasPrefix(v.Comment, "rangeindex") {
				for _, e := range v.Edges {
					if _, isC := e.(*ssa.Const); !isC {
						if b, isB := e.(*ssa.BinOp); !isB || b.X != ssa.Value(v) {
							ok = false
						}
					}
				}
			}
		case *ssa.Alloc:
			// address of a spilled parameter copy
			if sv := singleStore(v); sv != nil {
				walk(sv, d+1)
			} else {
				ok = false
			}
		default:
			ok = false
		}
	}
	walk(cond, 0)
	if !ok {
		return false
	}
	for _, b := range fn.Blocks {
		for _, in := range b.Instrs {
			if st, isSt := in.(*ssa.Store); isSt {
				if fa, isFa := st.Addr.(*ssa.FieldAddr); isFa && fields[fieldKey(fa.X.Type(), fa.Field)] {
					return false
				}
			}
		}
	}
	return true
}

// sameValue: structural equality of two SSA values: identical instruction, or
// the same projection/load/pure comparison applied to structurally equal
// operands. Calls are equal only if they are the same instruction, except
// pure comparison helpers (Equal, IsZero, ...), which are compared by operands.
func sameValue(a, b ssa.Value, d int) bool {
	if a == b {
		return true
	}
	if d > 12 || a == nil || b == nil {
		return false
	}
	if len(NewFns) > 0 {
		// a parameter of a new single-call-site helper is the argument at that call (ip.go)
		if ra, rb := resolveParam(a), resolveParam(b); ra != a || rb != b {
			return sameValue(ra, rb, d+1)
		}
	}
	switch x := a.(type) {
	case *ssa.Const:
		y, ok := b.(*ssa.Const)
		return ok && x.Value == y.Value && types.Identical(x.Type(), y.Type()) || ok && x.Value != nil && y.Value != nil && x.Value.ExactString() == y.Value.ExactString()
	case *ssa.UnOp:
		y, ok := b.(*ssa.UnOp)
		return ok && x.Op == y.Op && sameValue(x.X, y.X, d+1)
	case *ssa.BinOp:
		y, ok := b.(*ssa.BinOp)
		return ok && x.Op == y.Op && sameValue(x.X, y.X, d+1) && sameValue(x.Y, y.Y, d+1)
	case *ssa.FieldAddr:
		y, ok := b.(*ssa.FieldAddr)
		return ok && x.Field == y.Field && sameValue(x.X, y.X, d+1)
	case *ssa.Field:
		y, ok := b.(*ssa.Field)
		return ok && x.Field == y.Field && sameValue(x.X, y.X, d+1)
	case *ssa.IndexAddr:
		y, ok := b.(*ssa.IndexAddr)
		return ok && sameValue(x.X, y.X, d+1) && sameValue(x.Index, y.Index, d+1)
	case *ssa.Index:
		y, ok := b.(*ssa.Index)
		return ok && sameValue(x.X, y.X, d+1) && sameValue(x.Index, y.Index, d+1)
	case *ssa.ChangeType:
		y, ok := b.(*ssa.ChangeType)
		return ok && sameValue(x.X, y.X, d+1)
	case *ssa.Convert:
		y, ok := b.(*ssa.Convert)
		return ok && types.Identical(x.Type(), y.Type()) && sameValue(x.X, y.X, d+1)
	case *ssa.Alloc:
		y, ok := b.(*ssa.Alloc)
		if !ok {
			return false
		}
		sx, sy := singleStore(x), singleStore(y)
		return sx != nil && sy != nil && sameValue(sx, sy, d+1)
	case *ssa.Call:
		y, ok := b.(*ssa.Call)
		if !ok || x.Call.IsInvoke() || y.Call.IsInvoke() {
			return false
		}
		n := calleeNameCommon(&x.Call)
		if n != calleeNameCommon(&y.Call) || len(x.Call.Args) != len(y.Call.Args) {
			return false
		}
		pure := false
		for _, suf := range []string{".Equal", ".IsZero", ".IsEmpty", ".CallerAddress", ".TxSigner", ".Cmp"} {
			if strings.HasSuffix(n, suf) {
				pure = true
			}
		}
		if n == "builtin.len" || n == "builtin.cap" {
			pure = true
		}
		if !pure {
			return false
		}
		for i := range x.Call.Args {
			if !sameValue(x.Call.Args[i], y.Call.Args[i], d+1) {
				return false
			}
		}
		return true
	}
	return false
}

// correlatedCut cuts, for every condition known to hold at a, the opposite
// edge of every other If in the function testing a structurally equal
// condition (removes paths that are infeasible because the same unmodified
// value is tested twice).
func correlatedCut(a ssa.Instruction, cut *Cut) {
	fn := a.Parent()
	held := heldCondVals(a)
	if len(held) == 0 {
		return
	}
	for _, b := range fn.Blocks {
		iff := lastIfOf(b)
		if iff == nil {
			continue
		}
		for _, h := range held {
			// the branch that established the condition itself is not "another test of it"; a second branch on the
			// very same value (a condition hoisted into a variable and tested twice) is
			if h.If == iff || (h.If == nil && h.Cond == iff.Cond) {
				continue
			}
			c1, p1 := stripNot(h.Cond, h.Pol)
			c2, p2 := stripNot(iff.Cond, true)
			if !sameValue(c1, c2, 0) {
				continue
			}
			// iff.Cond == (c2 with polarity p2); held: c1 is p1. iff takes edge 0 iff c2==p2... cond true means c2 == p2
			condTrue := p1 == p2
			if condTrue {
				cut.AddEdges(Edge{b, 1})
			} else {
				cut.AddEdges(Edge{b, 0})
			}
		}
	}
}

func stripNot(v ssa.Value, pol bool) (ssa.Value, bool) {
	for {
		u, ok := v.(*ssa.UnOp)
		if !ok || u.Op != token.NOT {
			return v, pol
		}
		v = u.X
		pol = !pol
	}
}

func (c *Cut) Clone() *Cut {
	n := NewCut()
	for k := range c.Instrs {
		n.Instrs[k] = true
	}
	for k := range c.Edges {
		n.Edges[k] = true
	}
	return n
}

// HeldCond is a branch condition known to have polarity Pol at some instruction.
type HeldCond struct {
	Cond ssa.Value
	Pol  bool
	If   *ssa.If // the branch that established it
}

// heldCondVals is heldConds with the SSA values.
func heldCondVals(a ssa.Instruction) []HeldCond {
	return heldCondValsD(a, 0)
}

// heldCondValsD: in a new helper (ip.go) the conditions that hold at every one of its call sites hold as well.
func heldCondValsD(a ssa.Instruction, depth int) []HeldCond {
	out := heldCondVals1(a)
	h := a.Parent()
	if len(NewFns) == 0 || !NewFns[h] || depth > ipMaxDepth {
		return out
	}
	sites := helperSites[h]
	if len(sites) == 0 {
		return out
	}
	first := heldCondValsD(sites[0], depth+1)
	for _, hc := range first {
		key := normCond(hc.Cond, hc.Pol)
		everywhere := true
		for _, s := range sites[1:] {
			found := false
			for _, o := range heldCondValsD(s, depth+1) {
				if normCond(o.Cond, o.Pol) == key {
					found = true
					break
				}
			}
			if !found {
				everywhere = false
				break
			}
		}
		if everywhere {
			out = append(out, hc)
		}
	}
	return out
}

func heldCondVals1(a ssa.Instruction) []HeldCond {
	var out []HeldCond
	fn := a.Parent()
	ab := a.Block()
	for _, b := range fn.Blocks {
		iff := lastIfOf(b)
		if iff == nil {
			continue
		}
		for si, s := range b.Succs {
			if len(s.Preds) == 1 && s.Dominates(ab) {
				out = append(out, HeldCond{iff.Cond, si == 0, iff})
			}
		}
	}
	return out
}

func lastIfOf(b *ssa.BasicBlock) *ssa.If {
	if len(b.Instrs) == 0 {
		return nil
	}
	i, _ := b.Instrs[len(b.Instrs)-1].(*ssa.If)
	return i
}

// lookupOf: if v is a map lookup result (plain or the ok of comma-ok, or the
// value of a bool-valued map), returns the Lookup.
func lookupOf(v ssa.Value) *ssa.Lookup {
	switch x := v.(type) {
	case *ssa.Lookup:
		return x
	case *ssa.Extract:
		if l, ok := x.Tuple.(*ssa.Lookup); ok {
			return l
		}
	}
	return nil
}

// allArgs returns the call's arguments with the receiver at index 0 for both
// static method calls and interface invocations.
func allArgs(c ssa.CallInstruction) []ssa.Value {
	cc := c.Common()
	if cc.IsInvoke() {
		return append([]ssa.Value{cc.Value}, cc.Args...)
	}
	return cc.Args
}

var neverNilMemo = map[*ssa.Function]int{} // 0 unknown, 1 never nil, 2 may be nil

// neverNilError: every return of f carries a provably non-nil error.
func neverNilError(f *ssa.Function, depth int) bool {
	if f == nil || f.Blocks == nil || depth > 6 {
		return false
	}
	switch neverNilMemo[f] {
	case 1:
		return true
	case 2:
		return false
	}
	neverNilMemo[f] = 2 // recursion guard
	i := errResultIndex(f)
	if i < 0 {
		return false
	}
	rets := Returns(f)
	if len(rets) == 0 {
		return false
	}
	for _, r := range rets {
		if mayBeNil(unspill(r.Results[i]), depth+1) {
			return false
		}
	}
	neverNilMemo[f] = 1
	return true
}

// cmpConstRight returns the comparison with a constant operand on the right-hand side (`0 > x` is returned as
// x, <, 0), so that a rule recognising `x OP k` does not depend on the order in which the source writes the operands.
func cmpConstRight(bo *ssa.BinOp) (ssa.Value, token.Token, ssa.Value) {
	if _, ok := mirrorOp[bo.Op]; !ok {
		return bo.X, bo.Op, bo.Y
	}
	_, xc := bo.X.(*ssa.Const)
	_, yc := bo.Y.(*ssa.Const)
	if xc && !yc {
		return bo.Y, mirrorOp[bo.Op], bo.X
	}
	return bo.X, bo.Op, bo.Y
}

// ReachPS is Reach with one piece of path sensitivity: a condition value that is branched on in more than one block
// (the same SSA value, possibly under a negation) is taken the same way every time on a path. The remembered outcomes
// are forgotten on loop back edges (the value is recomputed per iteration). Starts at the heads of startEdges.
func ReachPS(fn *ssa.Function, startEdges []Edge, target func(ssa.Instruction) bool, cut *Cut) ssa.Instruction {
	if cut == nil {
		cut = NewCut()
	}
	// conditions tested in more than one block
	count := map[ssa.Value]int{}
	for _, b := range fn.Blocks {
		if iff := lastIfOf(b); iff != nil {
			c, _ := stripNot(iff.Cond, true)
			count[c]++
		}
	}
	var tracked []ssa.Value
	idx := map[ssa.Value]int{}
	for _, b := range fn.Blocks {
		if iff := lastIfOf(b); iff != nil {
			c, _ := stripNot(iff.Cond, true)
			if _, done := idx[c]; !done && count[c] > 1 && len(tracked) < 20 {
				idx[c] = len(tracked)
				tracked = append(tracked, c)
			}
		}
	}
	type state struct {
		b     *ssa.BasicBlock
		known uint32 // bit i: outcome of tracked[i] is fixed
		val   uint32 // its outcome
	}
	apply := func(s state, e Edge) (state, bool) {
		iff := lastIfOf(e.From)
		ns := state{e.From.Succs[e.Idx], s.known, s.val}
		if iff != nil {
			c, pol := stripNot(iff.Cond, true)
			if i, ok := idx[c]; ok {
				outcome := (e.Idx == 0) == pol // the value of c on this edge
				bit := uint32(1) << uint(i)
				if s.known&bit != 0 {
					if (s.val&bit != 0) != outcome {
						return ns, false
					}
				} else {
					ns.known |= bit
					if outcome {
						ns.val |= bit
					}
				}
			}
		}
		if ns.b.Dominates(e.From) { // back edge
			ns.known, ns.val = 0, 0
		}
		return ns, true
	}
	seen := map[state]bool{}
	var work []state
	for _, e := range startEdges {
		if cut.Edges[e] {
			continue
		}
		if ns, ok := apply(state{b: e.From}, e); ok && !seen[ns] {
			seen[ns] = true
			work = append(work, ns)
		}
	}
	for len(work) > 0 {
		s := work[len(work)-1]
		work = work[:len(work)-1]
		stopped := false
		for _, in := range s.b.Instrs {
			if cut.Instrs[in] {
				stopped = true
				break
			}
			if target(in) {
				return in
			}
		}
		if stopped {
			continue
		}
		for si := range s.b.Succs {
			e := Edge{s.b, si}
			if cut.Edges[e] {
				continue
			}
			if ns, ok := apply(s, e); ok && !seen[ns] {
				seen[ns] = true
				work = append(work, ns)
			}
		}
	}
	return nil
}

// errPassedThroughNonNil: every return of f (a module function or a local closure) carries either a provably non-nil
// error or one of f's own parameters, and at this call the corresponding argument is known to be non-nil (the call
// sits on the `err != nil` side of its test): `return reject("why", err)` inside `if err != nil { … }` with a helper
// that logs and hands the error back is a failing return, like the `return nil, err` it replaced.
func errPassedThroughNonNil(f *ssa.Function, call *ssa.Call, depth int) bool {
	if f == nil || f.Blocks == nil || depth > 6 || !inModule(fpkgPath(f)) {
		return false
	}
	if errResultIndex(f) < 0 || len(call.Call.Args) != len(f.Params) {
		return false
	}
	rets := Returns(f)
	if len(rets) == 0 {
		return false
	}
	for _, r := range rets {
		ev := retErrVal(r)
		if ev == nil {
			return false
		}
		ev = unspill(ev)
		if !mayBeNil(ev, depth+1) {
			continue
		}
		pa, ok := ev.(*ssa.Parameter)
		if !ok {
			return false
		}
		found := false
		for i, q := range f.Params {
			if q == pa && knownNonNilAt(call.Call.Args[i], call) {
				found = true
			}
		}
		if !found {
			return false
		}
	}
	return true
}

// sameContextErr: both values are ctx.Err() of the same context. A context's error is sticky (nil until it is done,
// then the same non-nil error for ever), so `if ctx.Err() != nil { return ctx.Err() }` returns a non-nil error.
func sameContextErr(a, b ssa.Value) bool {
	ca, ok1 := a.(*ssa.Call)
	cb, ok2 := b.(*ssa.Call)
	if !ok1 || !ok2 || !ca.Call.IsInvoke() || !cb.Call.IsInvoke() {
		return false
	}
	if ca.Call.Method.Name() != "Err" || cb.Call.Method.Name() != "Err" {
		return false
	}
	if namedOf(ca.Call.Value.Type()) != "context.Context" || namedOf(cb.Call.Value.Type()) != "context.Context" {
		return false
	}
	return sameValue(ca.Call.Value, cb.Call.Value, 0)
}

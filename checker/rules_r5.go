package main

import (
	"sort"
	"strings"

	"golang.org/x/tools/go/ssa"
)

// Round 5 (seeds 13–15): rules derived from the property statements after the round-5 seeds were first missed.

// c01Round5 (seeds C01r5/13..15).
func c01Round5(c *Ctx, ix *Index) {
	// (1) Only the multiplexer's own package asks the *application state* for the block context. The applications get
	// theirs from the execution context, which carries one only in the block-execution modes; through the state
	// accessor a CheckTx or a simulation would reach the block that is being executed concurrently and could read or
	// charge its gas accountant, fee accumulator or commit hooks (seed 13: mempool checks consumed the live block's gas).
	n := 0
	var keys []string
	for k := range ix.Calls {
		if strings.HasSuffix(k, ").BlockContext") && !strings.HasSuffix(k, "api.(*Context).BlockContext") && strings.HasPrefix(k, "consensus/cometbft/") {
			keys = append(keys, k)
		}
	}
	sort.Strings(keys)
	for _, k := range keys {
		n += c.WhoMayCall(ix, "C01.trees", k, []string{"consensus/cometbft/abci/", "consensus/cometbft/api/"}, "the block context of the block in execution is reachable from an application only through its execution context (nil in CheckTx and simulation), never through the application state")
	}
	if n == 0 {
		c.OK("C01.trees", "ApplicationState.BlockContext: no caller outside the multiplexer", "", "the state's block-context accessor has no call site in the module (positive control: the matcher lists "+itoa(len(ix.Calls["consensus/cometbft/api.(*Context).BlockContext"]))+" calls of Context.BlockContext)")
		c.Floor("C01.trees", len(ix.Calls["consensus/cometbft/api.(*Context).BlockContext"]), 5, "calls of Context.BlockContext (matcher control)")
	}

	// (2) A context for BeginBlock/DeliverTx/EndBlock always carries the time of the block being executed: in
	// NewContext every value that can reach the `now` argument of api.NewContext along a path through the arm that
	// loads the block context is the block context's Time (seed 15: the time of the previously committed block was
	// kept when it was non-zero, which a restarted node does not have).
	if fn := c.needFn("C01.restart", "consensus/cometbft/abci.(*applicationState).NewContext"); fn != nil {
		inst := fname(fn) + ":block-execution contexts carry the executing block's time"
		var arm *ssa.BasicBlock
		for _, b := range blocksIP(fn) {
			for _, in := range b.Instrs {
				if fa, ok := in.(*ssa.FieldAddr); ok && fieldKey(fa.X.Type(), fa.Field) == "consensus/cometbft/abci.applicationState.blockCtx" {
					arm = b
				}
			}
		}
		calls := findCalls(fn, "consensus/cometbft/api.NewContext")
		if arm == nil || len(calls) != 1 || len(allArgs(calls[0])) < 3 {
			c.Fail("C01.restart", inst, c.P.Pos(fn.Pos()), "the load of the block context or the construction of the context was not found in NewContext (unresolved anchor)")
		} else {
			reach := map[*ssa.BasicBlock]bool{arm: true}
			work := []*ssa.BasicBlock{arm}
			for len(work) > 0 {
				b := work[len(work)-1]
				work = work[:len(work)-1]
				for _, s := range b.Succs {
					if !reach[s] {
						reach[s] = true
						work = append(work, s)
					}
				}
			}
			bad := ""
			var ok func(v ssa.Value, d int) bool
			ok = func(v ssa.Value, d int) bool {
				if d > 6 {
					return false
				}
				if phi, isPhi := v.(*ssa.Phi); isPhi {
					for i, e := range phi.Edges {
						if !reach[phi.Block().Preds[i]] {
							continue // a path of another mode
						}
						if !ok(e, d+1) {
							return false
						}
					}
					return true
				}
				s := vstr(v)
				if strings.Contains(s, "param:s.blockCtx.") && strings.HasSuffix(s, ".Time") {
					return true
				}
				bad = s
				return false
			}
			now := allArgs(calls[0])[2]
			good := ok(now, 0)
			c.Check(good, "C01.restart", inst, c.P.InstrPos(calls[0]), "on every path through the block-execution arm the context's time is the block context's Time", "a BeginBlock/DeliverTx/EndBlock context can carry a time other than that of the block being executed ("+bad+"): the remembered time of the last committed block differs between a node that was restarted and one that was not, and with it beacon entropy and every time-dependent check")
		}
	}

	// (3) resetProposalIfChanged keeps the cached proposal (answers false) only for the very hash it was executed
	// for (seed 14: a proposal without a hash was adopted for whatever block was delivered).
	if fn := c.needFn("C01.proposal", "consensus/cometbft/abci.(*applicationState).resetProposalIfChanged"); fn != nil {
		c.ResultImpliesCond("C01.proposal", fn, 0, false, fname(fn)+":the cached proposal is kept only for an equal hash", "bytes.Equal(proposal.hash, h)",
			`^bytes\.Equal\(\*+param:s\.proposal\.hash,param:h\)$`,
			"the cached execution results are reused only when the delivered block's hash equals the hash they were computed for",
			"the cached proposal can be kept for a block whose hash was not compared with the proposal's: the node answers with the results (and commits the state) of a different block")
	}
}

// c11Round5 (seeds C11r5/14, 15).
func c11Round5(c *Ctx) {
	ix := c.P.BuildIndex()
	// (1) The runtime descriptor a round is evaluated against (committee sizes, allowed stragglers, round timeout) is
	// the per-epoch snapshot in the runtime state; it is replaced only at the epoch transition, where the committee
	// and the round are replaced with it (seed 14: a mid-epoch runtime update rewrote it under a round in progress, and
	// the round then finalized with fewer votes than its committee was set up to require).
	n := c.WhoMayStore(ix, "C11.tally", "roothash/api.RuntimeState.Runtime", []string{
		"consensus/cometbft/apps/roothash.(*Application).onRuntimeCommitteeChanged",
		"consensus/cometbft/apps/roothash.(*Application).onNewRuntime",
		"consensus/cometbft/apps/roothash.(*Application).InitChain",
		"consensus/cometbft/apps/roothash/state/interop/", // test-vector generator: writes a fixture state, never runs in a node
	}, "the descriptor that decides a round's thresholds changes only together with the committee, at the epoch transition")
	c.Floor("C11.tally", n, 1, "stores into RuntimeState.Runtime")

	// (2) The public ProcessCommitments adds nothing to the tally's decision: every error it returns is the error
	// processCommitments returned. In particular it never answers "still waiting" on its own, which after the round
	// timer expired would leave the round waiting forever (seed 15).
	if fn := c.needFn("C11.outcome", "roothash/api/commitment.(*Pool).ProcessCommitments"); fn != nil {
		inner := CallsTo(fn, "processCommitments", "roothash/api/commitment.(*Pool).processCommitments", "")
		bad := ""
		for _, r := range Returns(fn) {
			ev := retErrVal(r)
			if ev == nil {
				continue
			}
			var walk func(v ssa.Value, d int) bool
			walk = func(v ssa.Value, d int) bool {
				if d > 6 {
					return false
				}
				v = unspill(v)
				if phi, ok := v.(*ssa.Phi); ok {
					for _, e := range phi.Edges {
						if !walk(e, d+1) {
							return false
						}
					}
					return true
				}
				if ex, ok := v.(*ssa.Extract); ok {
					if call, ok := ex.Tuple.(*ssa.Call); ok && len(inner.Ins) == 1 && ssa.Instruction(call) == inner.Ins[0] {
						return true
					}
				}
				bad = vstrShort(v)
				return false
			}
			if !walk(ev, 0) {
				c.Fail("C11.outcome", fname(fn)+":returns the tally's own verdict", c.P.InstrPos(r), "ProcessCommitments returns an error of its own ("+bad+") instead of the verdict of processCommitments: a discrepancy or an expired timer can be answered with something else, e.g. 'still waiting', and the round then neither finalizes, nor starts discrepancy resolution, nor fails")
				return
			}
		}
		c.Check(len(inner.Ins) == 1, "C11.outcome", fname(fn)+":returns the tally's own verdict", c.P.Pos(fn.Pos()), "every error returned is the one processCommitments returned", "the call of processCommitments was not found in ProcessCommitments")
	}
}

// c03Round5 (seed C03r5/14; run under C03, C02 and C06): pathbadger keeps the nodes a pending root inherited from
// finalized versions in the finalized keyspace only. GetNode for a pending root therefore falls back to the finalized
// keyspace when the pending lookup reports "key not found": from that answer no exit is reached without a finalized
// lookup (otherwise a lazily loaded pending root reads "node not found" for live keys).
func pendingFallbackRule(c *Ctx, rule string) {
	fn := c.needFn(rule, "storage/mkvs/db/pathbadger.(*badgerNodeDB).GetNode")
	if fn == nil {
		return
	}
	var fin, pend []ssa.Instruction
	for _, call := range callsIn(fn) {
		if !strings.HasSuffix(calleeName(call), "badger/v4.(*Txn).Get") {
			continue
		}
		a := allArgs(call)
		s := vstr(a[len(a)-1])
		if strings.Contains(s, "pendingNodeKeyFmt") {
			pend = append(pend, call)
		}
		if strings.Contains(s, "finalizedNodeKeyFmt") && !strings.Contains(s, "rootNode") && !strings.Contains(s, "pendingNodeKeyFmt") {
			fin = append(fin, call)
		}
	}
	var notFound []Edge
	for _, b := range blocksIP(fn) {
		iff := lastIf(b)
		if iff == nil {
			continue
		}
		bo, ok := iff.Cond.(*ssa.BinOp)
		if !ok {
			continue
		}
		for _, pair := range [][2]ssa.Value{{bo.X, bo.Y}, {bo.Y, bo.X}} {
			if !isGlobalLoad(pair[1], "github.com/dgraph-io/badger/v4.ErrKeyNotFound") && !strings.HasSuffix(vstr(pair[1]), "badger/v4.ErrKeyNotFound") {
				continue
			}
			// the error tested is the pending lookup's own result (not a later merge of several lookups' errors)
			fromPending := false
			if ex, ok := pair[0].(*ssa.Extract); ok {
				for _, p := range pend {
					if ex.Tuple == p.(ssa.Value) {
						fromPending = true
					}
				}
			}
			if !fromPending {
				continue
			}
			switch bo.Op.String() {
			case "==":
				notFound = append(notFound, Edge{b, 0})
			case "!=":
				notFound = append(notFound, Edge{b, 1})
			}
		}
	}
	inst := fname(fn) + ":pending lookup not found⇒finalized keyspace consulted"
	if len(pend) == 0 || len(fin) == 0 || len(notFound) == 0 {
		c.Fail(rule, inst, c.P.Pos(fn.Pos()), "GetNode has no finalized-keyspace lookup after a pending-keyspace lookup that reports 'key not found' (pending lookups="+itoa(len(pend))+", finalized lookups="+itoa(len(fin))+", not-found tests="+itoa(len(notFound))+"): a pending root cannot load the nodes it inherited from finalized versions")
		return
	}
	hit := Reach(fn, nil, notFound, func(i ssa.Instruction) bool { _, r := i.(*ssa.Return); return r }, NewCut().AddInstr(fin...))
	site := c.P.Pos(fn.Pos())
	if hit != nil {
		site = c.P.InstrPos(hit)
	}
	c.Check(hit == nil, rule, inst, site, "after 'key not found' in the pending keyspace every exit passes a finalized-keyspace lookup", "GetNode can return after the pending lookup reported 'key not found' without consulting the finalized keyspace: nodes a pending root inherited from finalized versions read as missing")
}

// writeLogModeRule (seed C02r5/15; run under C02 and C03): a tree opened WithoutWriteLog keeps no pending write log —
// Insert does not record into it, so nobody may consult it either. In the three siblings that touch the pending log
// (Insert, Get, RemoveExisting) every look-up or update of it lies on the `!t.withoutWriteLog` side (an unguarded
// "already removed locally" test made Remove, Insert, Remove of one key in one batch leave the key in the tree).
func writeLogModeRule(c *Ctx, rule string) {
	for _, name := range []string{"storage/mkvs.(*tree).Insert", "storage/mkvs.(*tree).Get", "storage/mkvs.(*tree).RemoveExisting"} {
		fn := c.needFn(rule, name)
		if fn == nil {
			continue
		}
		ev := Ev{Name: "pending write log consulted or updated", Fn: fn}
		for _, b := range blocksIP(fn) {
			for _, in := range b.Instrs {
				switch x := in.(type) {
				case *ssa.Lookup:
					if strings.HasSuffix(vstr(x.X), "param:t.pendingWriteLog") {
						ev.Ins = append(ev.Ins, in)
					}
				case *ssa.MapUpdate:
					if strings.HasSuffix(vstr(x.Map), "param:t.pendingWriteLog") {
						ev.Ins = append(ev.Ins, in)
					}
				}
			}
		}
		c.DominatedByCond(rule, fn, "!t.withoutWriteLog", `^!\*param:t\.withoutWriteLog$`, ev, "without a write log the pending log is not maintained by Insert, so a removal recorded in it would be stale")
	}
}

// remoteNodePresentRule (seed C02r5/14; run under C02, C03 and C04): a node fetched from a peer is handed out only if
// the merged proof really contained it. In derefNodePtr every success return after remoteSync succeeded lies behind
// `ptr.Node != nil` (remoteSync also succeeds when the cache could not keep the node: `(nil, nil)` then reads as an
// empty subtree — existing keys read absent and an Insert replaces the whole subtree).
func remoteNodePresentRule(c *Ctx, rule string) {
	fn := c.needFn(rule, "storage/mkvs.(*cache).derefNodePtr")
	if fn == nil {
		return
	}
	rs := CallsTo(fn, "remoteSync", "storage/mkvs.(*cache).remoteSync", "")
	inst := fname(fn) + ":remoteSync✓⇒ptr.Node != nil before the node is handed out"
	if rs.Empty() {
		c.Fail(rule, inst, c.P.Pos(fn.Pos()), "the remote fetch (remoteSync) was not found in derefNodePtr (unresolved anchor)")
		return
	}
	cut := NewCut().AddEdges(HeldEdges(fn, `^\*param:ptr\.Node != nil$`)...)
	for _, r := range Returns(fn) {
		cut.AddEdges(phiNonNilEdges(r)...)
	}
	var hit ssa.Instruction
	for _, call := range rs.Calls() {
		if es, ok := SuccessEdges(call); ok {
			if h := Reach(fn, nil, es, anyOf(SuccessReturns(fn)), cut); h != nil {
				hit = h
			}
		} else if h := Reach(fn, call, nil, anyOf(SuccessReturns(fn)), cut); h != nil {
			hit = h
		}
	}
	site := c.P.InstrPos(rs.Ins[0])
	if hit != nil {
		site = c.P.InstrPos(hit)
	}
	c.Check(hit == nil, rule, inst, site, "every success return after a successful remote fetch passes the test that the node arrived", "derefNodePtr can return success after a remote fetch without testing that the node is there: when the merged proof did not contain it (or the cache could not keep it) the caller sees an empty subtree, not an error")
}

// c04Round5 (seeds C04r5/13..15).
func c04Round5(c *Ctx) {
	// (13) the write log reported for a verified proof carries the leaves' keys and values as they are: an entry with
	// a nil value means "removed", so a copy idiom that turns an empty value into nil makes a present key read absent
	if fn := c.needFn("C04.writelog", "storage/mkvs/syncer.(*verifyResult).addLeafToWriteLog"); fn != nil {
		n, bad := 0, ""
		for _, b := range blocksIP(fn) {
			for _, in := range b.Instrs {
				st, ok := in.(*ssa.Store)
				if !ok {
					continue
				}
				fa, ok := st.Addr.(*ssa.FieldAddr)
				if !ok || !strings.HasPrefix(fieldKey(fa.X.Type(), fa.Field), "storage/mkvs/writelog.LogEntry.") {
					continue
				}
				n++
				f := fieldName(fa.X.Type(), fa.Field)
				s := vstr(st.Val)
				if !strings.HasSuffix(s, "node.LeafNode)#0."+f) || strings.Contains(s, "append(") {
					bad = f + " = " + vstrShort(st.Val)
				}
			}
		}
		c.Check(n == 2 && bad == "", "C04.writelog", fname(fn)+":entries carry the leaf's key and value as they are", c.P.Pos(fn.Pos()), "LogEntry.Key/Value are the leaf's Key/Value", "the write log entry of a verified leaf is not the leaf's own key/value ("+bad+"): a transformed copy (append to nil, trimming) turns an empty value into nil, which readers of a write log take for 'absent'")
	}
	// (14) iteration and prefix proofs are anchored at the root: the iterator may leave the subtree of the caller's
	// position, and a proof builder anchored below the root drops everything outside it
	for _, name := range []string{"storage/mkvs.(*tree).SyncIterate", "storage/mkvs.(*tree).SyncGetPrefixes"} {
		fn := c.needFn("C04.verify", name)
		if fn == nil {
			continue
		}
		calls := findCalls(fn, "storage/mkvs/syncer.NewProofBuilderForVersion", "storage/mkvs/syncer.NewProofBuilder", "storage/mkvs/syncer.NewProofBuilderV0")
		ok := len(calls) > 0
		got := ""
		for _, call := range calls {
			a := allArgs(call)
			if len(a) < 2 || vstr(a[0]) != vstr(a[1]) || !strings.HasSuffix(vstr(a[0]), "param:request.Tree.Root.Hash") {
				ok = false
				if len(a) >= 2 {
					got = vstrShort(a[0]) + ", " + vstrShort(a[1])
				}
			}
		}
		c.Check(ok, "C04.verify", fname(fn)+":proof anchored at the requested root", c.P.Pos(fn.Pos()), "the proof builder's subtree root is the request's root", "the proof for an iteration / prefix fetch is not anchored at the root of the tree ("+got+"): keys the iterator visits outside the anchor's subtree are not determined by the proof, although it verifies")
	}
	// (15) merging a verified subtree descends into both children unconditionally (the callee handles absent and
	// hash-only children itself); a caller-side nil test on the *destination's* or the subtree's child skips the
	// nil checks the callee makes and was shown to dereference a nil child of a later proof
	if fn := c.needFn("C04.merge", "storage/mkvs/syncer.(*SubtreeMerger).MergeVerifiedSubtree"); fn != nil {
		n, bad := 0, ""
		for _, call := range findCalls(fn, "storage/mkvs/syncer.(*SubtreeMerger).MergeVerifiedSubtree") {
			n++
			for _, h := range heldCondVals(call) {
				s := normCond(h.Cond, h.Pol)
				if strings.Contains(s, "MergeVerifiedSubtree(") {
					continue // the error test of the first child's merge
				}
				if strings.Contains(s, ".Left") || strings.Contains(s, ".Right") {
					bad = s
				}
			}
		}
		c.Check(n == 2 && bad == "", "C04.merge", fname(fn)+":both children merged unconditionally", c.P.Pos(fn.Pos()), "the two recursive merges are not guarded by a test of the children", "a child merge is skipped under a caller-side test of a child pointer ("+bad+"; recursive merges="+itoa(n)+"): the nil / hash-only handling is the callee's, and skipping it lets a later proof with an absent child be dereferenced")
	}
}

// c13Round5 (seeds C13r5/13..15).
func c13Round5(c *Ctx) {
	const pb = "storage/mkvs/db/pathbadger"
	// (13) pathbadger stores a write log only when the tree built one: a nil log (a tree opened without write log)
	// stores nothing, so that GetWriteLog answers "not found" rather than an empty diff between two different roots.
	if fn := c.needFn("C13.writelog", pb+".storeInternalWriteLog"); fn != nil {
		sets := CallsTo(fn, "batch.Set(write log)", "github.com/dgraph-io/badger/v4.(*WriteBatch).Set", "")
		c.DominatedByCond("C13.writelog", fn, "writeLog != nil", `^param:writeLog != nil$`, sets, "a tree that builds no write log hands over nil; storing an (empty) log for it makes the database serve an empty diff for a transition that changed keys")
	}
	// (14) every node a pathbadger batch stores goes to the batch's own keyspace (deriveNodeDbKey) and is recorded in
	// updatedNodes first, so that finalization copies the finalized root's nodes and discards the others'. A node
	// written straight into the finalized keyspace by a batch that is not the first of its version overwrites the
	// sibling root's node under the same (version, index) key.
	if fn := c.needFn("C13.resolve", pb+".(*badgerBatch).PutNode"); fn != nil {
		sets := CallsTo(fn, "node Set", "github.com/dgraph-io/badger/v4.(*WriteBatch).Set", "")
		upd := StoresTo(fn, "updatedNodes = append(…)", pb+".badgerBatch.updatedNodes")
		hit := Reach(fn, nil, nil, anyOf(sets.Ins), NewCut().AddInstr(upd.Ins...))
		site := c.P.Pos(fn.Pos())
		if hit != nil {
			site = c.P.InstrPos(hit)
		}
		c.Check(!upd.Empty() && !sets.Empty() && hit == nil, "C13.resolve", fname(fn)+":a stored node is recorded in updatedNodes before it is written", site, "every node write is preceded by the append to updatedNodes", "PutNode can write a node that it did not record in updatedNodes: finalization neither copies it for the finalized root nor discards it for the others")
		ok, bad := !sets.Empty(), ""
		for _, call := range sets.Calls() {
			a := allArgs(call)
			if len(a) < 2 || !strings.Contains(vstr(a[1]), "deriveNodeDbKey(") {
				ok = false
				if len(a) >= 2 {
					bad = vstrShort(a[1])
				}
			}
		}
		c.Check(ok, "C13.resolve", fname(fn)+":nodes are written under the batch's derived key", c.P.Pos(fn.Pos()), "every node write uses deriveNodeDbKey(key)", "PutNode writes a node under a key that is not derived from the batch's sequence number ("+bad+"): a second batch of a version overwrites nodes of the first")
	}
	// (15) Apply works on a tree of its own, opened at the given root and discarded afterwards: the tree the write log
	// is applied to is created by NewWithRoot(…, root) in Apply itself — nothing kept from an earlier (possibly
	// rejected) Apply, whose dirty nodes would take part in the next result.
	if fn := c.needFn("C13.apply", "storage/api.(*RootCache).Apply"); fn != nil {
		aw := CallsTo(fn, "tree.ApplyWriteLog", "storage/mkvs.(Tree).ApplyWriteLog", "")
		ok, bad := !aw.Empty(), ""
		for _, call := range aw.Calls() {
			for _, r := range Roots(recvOf(call)) {
				if r.Kind == "alloc" {
					continue
				}
				if r.Kind == "call" && r.Name == "storage/mkvs.NewWithRoot" {
					if cl, isCall := r.Val.(*ssa.Call); isCall && len(cl.Call.Args) >= 3 && vstr(cl.Call.Args[2]) == "param:root" {
						continue
					}
				}
				ok = false
				bad = r.String()
			}
		}
		c.Check(ok, "C13.apply", fname(fn)+":the write log is applied to a fresh tree at the given root", c.P.Pos(fn.Pos()), "ApplyWriteLog's receiver is NewWithRoot(…, root) created in Apply", "the tree a received write log is applied to is not (only) a tree freshly opened at the given root ("+bad+"): state left by an earlier Apply takes part in the result that is compared with the expected root")
	}
}

// c12Round5 (seeds C12r5/13..15).
func c12Round5(c *Ctx) {
	const pb = "storage/mkvs/db/pathbadger"
	// (15) lock order of the multipart restore: a chunk batch holds its root type's mpLock from NewBatch to
	// Commit/Reset and takes metaUpdateLock inside (Commit, refreshDbPtr). Nobody may therefore wait for an mpLock while
	// holding metaUpdateLock: NewBatch itself releases metaUpdateLock first. An Abort that did would deadlock with an
	// open chunk batch and wedge the node database (restores run from concurrent callers).
	nLock := 0
	for _, fn := range c.P.FuncsInPkg(pb) {
		if fn.Blocks == nil {
			continue
		}
		var metaLocks, mpLocks, metaUnlocks []ssa.Instruction
		for _, call := range callsIn(fn) {
			n := calleeName(call)
			if n != "sync.(*Mutex).Lock" && n != "sync.(*Mutex).Unlock" {
				continue
			}
			r := vstr(recvOf(call))
			_, deferred := call.(*ssa.Defer)
			switch {
			case n == "sync.(*Mutex).Lock" && strings.Contains(r, "metaUpdateLock"):
				metaLocks = append(metaLocks, call)
			case n == "sync.(*Mutex).Unlock" && strings.Contains(r, "metaUpdateLock") && !deferred:
				metaUnlocks = append(metaUnlocks, call)
			case n == "sync.(*Mutex).Lock" && strings.Contains(r, "mpLock"):
				mpLocks = append(mpLocks, call)
			}
		}
		if len(metaLocks) == 0 || len(mpLocks) == 0 {
			continue
		}
		nLock++
		cut := NewCut().AddInstr(metaUnlocks...)
		var hit ssa.Instruction
		for _, l := range metaLocks {
			if h := Reach(fn, l, nil, anyOf(mpLocks), cut); h != nil {
				hit = h
			}
		}
		site := c.P.Pos(fn.Pos())
		if hit != nil {
			site = c.P.InstrPos(hit)
		}
		c.Check(hit == nil, "C12.mproot", fname(fn)+":no mpLock taken while metaUpdateLock is held", site, "metaUpdateLock is released before an mpLock is waited for", "an mpLock is acquired while metaUpdateLock is held; chunk batches hold mpLock and take metaUpdateLock inside, so the two orders deadlock (an abort during a concurrent chunk import wedges the node database)")
	}
	c.Floor("C12.mproot", nLock, 1, "functions that take both metaUpdateLock and an mpLock")

	// (14) StartMultipartInsert for a restore that is already in progress at the same version changes nothing: the
	// per-root-type restore state (root pointer, last index, sequence number) is (re)built only when no restore is in
	// progress. Rebuilding it restarts the node numbering at 1 over the nodes already restored.
	if fn := c.needFn("C12.restore", pb+".(*badgerNodeDB).StartMultipartInsert"); fn != nil {
		st := StoresTo(fn, "d.multipartMeta =", pb+".badgerNodeDB.multipartMeta")
		c.DominatedByCond("C12.restore", fn, "no restore in progress", `^\*param:d\.multipartVersion == 0$`, st, "the state of a restore in progress (indices handed out, root, sequence numbers) is kept when the same version is started again")
	}

	// (13) multipartMergeWithExisting looks at every child pointer pair of the stored and the imported node: no
	// success exit from inside the loop over the pairs (an early return after an absent left child left the right child
	// without its stored index; a later chunk then renumbered it and orphaned the subtree restored earlier).
	if fn := c.needFn("C12.restore", pb+".(*badgerBatch).multipartMergeWithExisting"); fn != nil {
		var cyc []*ssa.BasicBlock
		for _, b := range fn.Blocks {
			if inCycle(b) {
				cyc = append(cyc, b)
			}
		}
		isHeader := func(h *ssa.BasicBlock) bool {
			for _, b := range cyc {
				if !h.Dominates(b) {
					return false
				}
			}
			return true
		}
		var bad ssa.Instruction
		for _, r := range SuccessReturns(fn) {
			for _, b := range cyc {
				if !isHeader(b) && b.Dominates(r.Block()) {
					bad = r
				}
			}
		}
		site := c.P.Pos(fn.Pos())
		if bad != nil {
			site = c.P.InstrPos(bad)
		}
		c.Check(len(cyc) > 0 && bad == nil, "C12.restore", fname(fn)+":every child pointer pair is visited", site, "no success return from inside the loop over the (left, right, leaf) pairs", "multipartMergeWithExisting returns success from inside the loop over the child pointer pairs: the remaining children of an already stored node are not given their stored indices, a later chunk numbers them anew and the subtree restored earlier is orphaned")
	}
}

// c10Round5 (seeds C10r5/13..15 and the genuine defect F68 found by that round's agent).
func c10Round5(c *Ctx) {
	// (F68) a runtime message is stored, with the executor commitment that carries it, in the runtime's state, one
	// level deeper than in the transaction. Its free-form parameter changes are therefore bounded in nesting when the
	// message is validated: GovernanceMessage.ValidateBasic succeeds for a proposal with parameter changes only
	// through cbor.ValidateFreeForm(changes) — otherwise an accepted executor commit makes the runtime state
	// undecodable and roothash EndBlock fails on every node.
	if fn := c.needFn("C10.support", "roothash/api/message.(*GovernanceMessage).ValidateBasic"); fn != nil {
		vf := CallsTo(fn, "cbor.ValidateFreeForm(changes)", "common/cbor.ValidateFreeForm", "")
		inst := fname(fn) + ":parameter changes of a proposal message are bounded in nesting"
		okArg := !vf.Empty()
		for _, call := range vf.Calls() {
			if a := allArgs(call); len(a) != 1 || !strings.HasSuffix(vstr(a[0]), ".SubmitProposal.ChangeParameters.Changes") {
				okArg = false
			}
		}
		if !okArg {
			c.Fail("C10.support", inst, c.P.Pos(fn.Pos()), "ValidateBasic of a governance runtime message does not bound the nesting of the proposal's free-form parameter changes (cbor.ValidateFreeForm): a message nested 23 levels is accepted in the executor commit transaction and stored in a runtime state that can no longer be decoded — roothash EndBlock then fails on every node (F68)")
		} else {
			cut, _ := successCut(vf)
			cut.AddEdges(HeldEdges(fn, `\.SubmitProposal\.ChangeParameters == nil$`)...)
			cut.AddEdges(HeldEdges(fn, `\.SubmitProposal == nil$`)...)
			for _, r := range Returns(fn) {
				cut.AddEdges(phiNonNilEdges(r)...)
			}
			hit := Reach(fn, nil, nil, anyOf(SuccessReturns(fn)), cut)
			site := c.P.Pos(fn.Pos())
			if hit != nil {
				site = c.P.InstrPos(hit)
			}
			c.Check(hit == nil, "C10.support", inst, site, "success with parameter changes present ⇒ ValidateFreeForm(changes)✓", "a governance runtime message with parameter changes can be accepted without the nesting bound on its free-form changes (F68)")
		}
	}
	if fn := c.needFn("C10.support", "common/cbor.ValidateFreeForm"); fn != nil {
		lv, ok := c.ConstInt("common/cbor", "MaxFreeFormNestedLevels")
		c.Check(ok && lv >= 4 && lv <= 20, "C10.support", "common/cbor.MaxFreeFormNestedLevels leaves room for the structures around a raw field", c.P.Pos(fn.Pos()), "free-form fields nest at most "+itoa(int(lv))+" levels; the deepest container around one (the runtime state: 10 levels) stays within the decoder's 32", "the nesting bound of free-form fields ("+itoa(int(lv))+") plus the 10 levels of the runtime state around a runtime message exceeds (or nearly exceeds) the decoder's limit of 32 nested levels")
	}

	// (15) shared with C01: PrepareProposal forwards every last-commit vote to its own execution
	prepareVotesRule(c, "C10.order")

	// (13) roothash InitChain allocates state for every suspended runtime the registry knows: in the loop over them
	// every iteration reaches onNewRuntime (or fails). A suspended runtime without roothash state cannot be resumed: the
	// scheduler's and roothash's BeginBlock fail with "invalid runtime" at the next epoch transition after a node
	// registration resumed it.
	if fn := c.needFn("C10.support", "consensus/cometbft/apps/roothash.(*Application).InitChain"); fn != nil {
		inst := fname(fn) + ":every suspended runtime gets roothash state"
		var calls []ssa.Instruction
		for _, call := range findCalls(fn, "consensus/cometbft/apps/roothash.(*Application).onNewRuntime") {
			if a := allArgs(call); len(a) >= 3 && strings.Contains(vstr(a[2]), "SuspendedRuntimes(") {
				calls = append(calls, call)
			}
		}
		var heads []*ssa.If
		for _, b := range blocksIP(fn) {
			for _, in := range b.Instrs {
				if bo, ok := in.(*ssa.BinOp); ok && strings.Contains(vstr(bo), "SuspendedRuntimes(") && strings.Contains(vstr(bo), "builtin.len(") {
					if refs := bo.Referrers(); refs != nil {
						for _, r := range *refs {
							if ifi, ok := r.(*ssa.If); ok && inCycle(ifi.Block()) {
								heads = append(heads, ifi)
							}
						}
					}
				}
			}
		}
		if len(calls) == 0 || len(heads) == 0 {
			c.Fail("C10.support", inst, c.P.Pos(fn.Pos()), "the loop over the registry's suspended runtimes that allocates their roothash state was not found in InitChain (calls="+itoa(len(calls))+", loops="+itoa(len(heads))+")")
		} else {
			ok := true
			for _, h := range heads {
				if hit := Reach(fn, nil, []Edge{{h.Block(), 0}}, isInstr(h), NewCut().AddInstr(calls...)); hit != nil {
					ok = false
				}
			}
			c.Check(ok, "C10.support", inst, c.P.InstrPos(calls[0]), "every iteration over the suspended runtimes reaches onNewRuntime", "an iteration over the registry's suspended runtimes can skip onNewRuntime: the runtime has no roothash state, resuming it does not create one, and BeginBlock fails with 'invalid runtime' at the next epoch transition")
		}
	}

	// (14) key manager status generation dereferences the optional runtime signing key of an init response only
	// behind the nil test of that very field (a nil test on the *other* operand lets a node without a key, processed
	// after one with a key, crash BeginBlock on every node at every epoch transition).
	if fn := c.needFn("C10.nilerr", "consensus/cometbft/apps/keymanager/secrets.generateStatus"); fn != nil {
		n, bad := 0, ""
		for _, b := range blocksIP(fn) {
			for _, in := range b.Instrs {
				u, ok := in.(*ssa.UnOp)
				if !ok || u.Op.String() != "*" {
					continue
				}
				ld, ok := u.X.(*ssa.UnOp) // load of the field holding the pointer
				if !ok || ld.Op.String() != "*" {
					continue
				}
				fa, ok := ld.X.(*ssa.FieldAddr)
				if !ok || !strings.HasSuffix(fieldKey(fa.X.Type(), fa.Field), ".InitResponse.RSK") {
					continue
				}
				n++
				guarded := false
				for _, h := range heldCondVals(in) {
					s := normCond(h.Cond, h.Pol)
					if strings.HasSuffix(s, " != nil") && strings.HasSuffix(strings.TrimSuffix(s, " != nil"), ".RSK") && strings.Contains(s, strings.TrimPrefix(vstr(ld), "*")) {
						guarded = true
					}
				}
				if !guarded {
					bad = c.P.InstrPos(in)
				}
			}
		}
		c.Check(n > 0 && bad == "", "C10.nilerr", fname(fn)+":the optional runtime signing key of an init response is dereferenced only behind its nil test", c.P.Pos(fn.Pos()), itoa(n)+" dereference(s), each behind `initResponse.RSK != nil`", "generateStatus dereferences InitResponse.RSK at "+bad+" without that field's own nil test (dereferences found: "+itoa(n)+"): a key manager node without a runtime signing key crashes the key manager's BeginBlock on every node")
	}
}

// remoteProofVersionRule (genuine defect F69; run under C04 and C16): a node that reads through a peer merges the
// peer's proof only if it is of the version that was asked for. Nodes of a version-1 proof carry only the hash of
// their leaf (and may encode an absent leaf as an empty-hash entry); merged into the cache of a tree that serves
// version-0 proofs to its own clients they made the proof builder dereference a nil leaf — one valid answer from a
// peer crashed the relaying node.
func remoteProofVersionRule(c *Ctx, rule string) {
	fn := c.needFn(rule, "storage/mkvs.(*cache).remoteSync")
	if fn == nil {
		return
	}
	vp := CallsTo(fn, "VerifyProof", "storage/mkvs/syncer.(*ProofVerifier).VerifyProof", "")
	mg := CallsTo(fn, "MergeVerifiedSubtree", "storage/mkvs/syncer.(*SubtreeMerger).MergeVerifiedSubtree", "")
	ev := union("verification and merge of the fetched proof", vp, mg)
	ev.Name, ev.Fn = "verification and merge of the fetched proof", fn
	c.DominatedByCond(rule, fn, "proof.V == the version asked for", `^\*call:param:fetcher\(.*\)#0\.V == \d+$`, ev, "a proof of another version than the one requested is refused before anything of it is merged (F69)")
}

// sharePoolPrimitivesRule (seed C05r5/13; run under C05 and C15): Deposit and Withdraw are the conserving primitives of
// share bookkeeping — each succeeds only after all three of its updates succeeded (the stake move, the pool's total
// shares, the holder's shares). An early success exit that skips the share updates when the shares are worth nothing
// leaves the pool's total above the sum of the delegations once the caller deletes the delegation record.
func sharePoolPrimitivesRule(c *Ctx, rule string) {
	for _, it := range []struct{ fn, op string }{{"staking/api.(*SharePool).Deposit", "Add"}, {"staking/api.(*SharePool).Withdraw", "Sub"}} {
		fn := c.needFn(rule, it.fn)
		if fn == nil {
			continue
		}
		mv := CallsTo(fn, "Move(stake)", "common/quantity.Move", "")
		tot := CallsTo(fn, "TotalShares."+it.op, "common/quantity.(*Quantity)."+it.op, `param:p\.TotalShares`)
		var holder Ev
		holder = Ev{Name: "holder shares." + it.op, Fn: fn}
		for _, call := range CallsTo(fn, "", "common/quantity.(*Quantity)."+it.op, "").Calls() {
			if r := vstr(recvOf(call)); r == "param:shareDst" || r == "param:shareSrc" {
				holder.Ins = append(holder.Ins, call)
			}
		}
		c.successOnlyVia(rule, fn, mv, "the stake moves between the pool balance and the holder")
		c.successOnlyVia(rule, fn, tot, "the pool's total shares change with every successful deposit / withdrawal")
		c.successOnlyVia(rule, fn, holder, "the holder's shares change with every successful deposit / withdrawal")
	}
}

// aliasedAccountsRule (seed C05r5/15): a handler that loads two accounts whose addresses may be equal, changes them and
// stores both must not hold two copies of one account — the second Account() load lies behind the `a.Equal(b)` test of
// the two addresses (taken false). Otherwise the copy stored last overwrites the other's debit or credit.
func aliasedAccountsRule(c *Ctx) {
	const pk = "consensus/cometbft/apps/staking"
	n := 0
	for _, name := range []string{pk + ".(*Application).addEscrow", pk + ".(*Application).onEpochChange"} {
		fn := c.needFn("C05.pair", name)
		if fn == nil {
			continue
		}
		loads := CallsTo(fn, "state.Account", pk+"/state.(*ImmutableState).Account", "").Calls()
		stores := CallsTo(fn, "state.SetAccount", pk+"/state.(*MutableState).SetAccount", "").Calls()
		stored := map[string]bool{}
		for _, s := range stores {
			if a := allArgs(s); len(a) >= 3 {
				stored[vstr(a[2])] = true
			}
		}
		var addrs []string
		var calls []ssa.CallInstruction
		for _, l := range loads {
			if a := allArgs(l); len(a) >= 3 && stored[vstr(a[2])] {
				addrs = append(addrs, vstr(a[2]))
				calls = append(calls, l)
			}
		}
		for i := 0; i < len(calls); i++ {
			for j := i + 1; j < len(calls); j++ {
				if addrs[i] == addrs[j] {
					continue
				}
				n++
				guarded := false
				ai, aj := allArgs(calls[i])[2], allArgs(calls[j])[2]
				for _, at := range []ssa.Instruction{calls[i], calls[j]} {
					for _, h := range heldCondVals(at) {
						cond, pol := stripNot(h.Cond, h.Pol)
						eq, ok := cond.(*ssa.Call)
						if !ok || pol || !strings.HasSuffix(calleeNameCommon(&eq.Call), "staking/api.(Address).Equal") || len(eq.Call.Args) != 2 {
							continue
						}
						x, y := eq.Call.Args[0], eq.Call.Args[1]
						if (sameValue(x, ai, 0) && sameValue(y, aj, 0)) || (sameValue(x, aj, 0) && sameValue(y, ai, 0)) {
							guarded = true
						}
					}
				}
				c.Check(guarded, "C05.pair", fname(fn)+":two stored accounts are loaded separately only when their addresses differ", c.P.InstrPos(calls[j]), "the second Account() load is behind the !Equal test of the two addresses", "accounts "+vstrShort(allArgs(calls[i])[2])+" and "+vstrShort(allArgs(calls[j])[2])+" are both loaded and both stored without an equality test of the two addresses guarding the second load: when they are the same account the copy stored last overwrites the other's change (value is created or destroyed)")
			}
		}
	}
	c.Floor("C05.pair", n, 2, "pairs of separately loaded and stored accounts with possibly equal addresses")
}

// c06Round5 (seeds C06r5/13, 14).
func c06Round5(c *Ctx) {
	const bWB = "github.com/dgraph-io/badger/v4.(*WriteBatch)"
	// (14) pathbadger: the sequence number of a pending root is durable before the root exists — Commit records it,
	// commits the metadata, and only then flushes the batch with the root node (first reported by C07.order only; a
	// restart in between leaves a root that is reported present and resolves its nodes in the finalized keyspace, i.e.
	// in a competing candidate's nodes).
	if fn := c.needFn("C06.seqno", "storage/mkvs/db/pathbadger.(*badgerBatch).Commit"); fn != nil {
		batFlush := CallsTo(fn, "bat.Flush", bWB+".Flush", `param:ba\.bat\b`)
		mcommit := CallsTo(fn, "meta.commit", "storage/mkvs/db/pathbadger.(*metadata).commit", "")
		setSeq := CallsTo(fn, "setPendingRootSeqNo", "storage/mkvs/db/pathbadger.(*metadata).setPendingRootSeqNo", "")
		c.MustPrecede("C06.seqno", fn, setSeq, mcommit, "the pending root's sequence number is recorded before the metadata commit")
		c.MustPrecede("C06.seqno", fn, mcommit, batFlush, "the sequence number is durable before the root node is stored")
	}
	// (13) badger restore log: whether a restored node goes into the multipart restore log (and is therefore deleted
	// when the restore is aborted) is decided by looking it up: the log entry is written only where the read
	// transaction's Get of that node's key answered "key not found" — for every kind of node. A node that existed
	// before the restore (shared with an earlier finalized version) must survive an abort.
	if fn := c.needFn("C06.guard", "storage/mkvs/db/badger.(*badgerBatch).PutNode"); fn != nil {
		var logSets []ssa.Instruction
		for _, call := range CallsTo(fn, "", bWB+".Set", "").Calls() {
			if strings.Contains(vstr(recvOf(call)), "multipartNodes") {
				logSets = append(logSets, call)
			}
		}
		inst := fname(fn) + ":restore-log entry only for a node the database did not have"
		ok, why := len(logSets) > 0, "the write of the multipart restore log entry was not found in PutNode"
		for _, ls := range logSets {
			found := false
			for _, h := range heldCondVals(ls) {
				call, isCall := h.Cond.(*ssa.Call)
				if !isCall || !h.Pol || calleeNameCommon(&call.Call) != "errors.Is" || len(call.Call.Args) != 2 {
					continue
				}
				if !strings.HasSuffix(vstr(call.Call.Args[1]), "badger/v4.ErrKeyNotFound") {
					continue
				}
				// the tested error is the lookup's own result on every path
				all := true
				for _, r := range Roots(call.Call.Args[0]) {
					if r.Kind == "alloc" {
						continue
					}
					if !(r.Kind == "call" && strings.HasPrefix(r.Name, "github.com/dgraph-io/badger/v4.(*Txn).Get#1")) {
						all = false
						why = "the error tested for 'key not found' before the restore-log entry is written is not (only) the result of the node lookup (" + r.String() + ")"
					}
				}
				if all {
					found = true
				}
			}
			if !found {
				ok = false
				if why == "" || strings.HasPrefix(why, "the write of") {
					why = "the restore-log entry is not guarded by errors.Is(lookup error, ErrKeyNotFound)"
				}
			}
		}
		c.Check(ok, "C06.guard", inst, c.P.Pos(fn.Pos()), "the log entry is written only under errors.Is(readTxn.Get(nodeKey) error, ErrKeyNotFound)", why+": a node that a finalized version already had is logged as restored, and aborting the restore deletes it — the finalized root becomes unreadable")
	}
}

// c07Round5 (seed C07r5/13): a chunk counts as restored only after its import succeeded. In RestoreChunk the removal
// of the chunk from the pending set is preceded, on every path, by the success of restoreChunk: a chunk whose import
// was interrupted (cancelled context, deadline, database error) stays pending, so that the restore is not reported
// complete — and finalized — without it.
func c07Round5(c *Ctx, rule string) {
	fn := c.needFn(rule, "storage/mkvs/checkpoint.(*restorer).RestoreChunk")
	if fn == nil {
		return
	}
	marks := Ev{Name: "delete(pendingChunks, idx)", Fn: fn}
	for _, f := range append([]*ssa.Function{fn}, anonFuncs(fn)...) {
		for _, call := range callsIn(f) {
			if calleeName(call) == "builtin.delete" && strings.HasSuffix(vstr(allArgs(call)[0]), ".pendingChunks") {
				marks.Ins = append(marks.Ins, call)
			}
		}
	}
	imp := CallsTo(fn, "restoreChunk", "storage/mkvs/checkpoint.restoreChunk", "")
	inst := fname(fn) + ":a chunk leaves the pending set only after its import succeeded"
	bad := ""
	for _, m := range marks.Ins {
		if m.Parent() != fn {
			bad = "the chunk is removed from the pending set inside " + fname(m.Parent()) + ", which runs before the import"
		}
	}
	if marks.Empty() || imp.Empty() {
		c.Fail(rule, inst, c.P.Pos(fn.Pos()), "the import (restoreChunk) or the removal from the pending set was not found in RestoreChunk")
		return
	}
	if bad != "" {
		c.Fail(rule, inst, c.P.InstrPos(marks.Ins[0]), bad+": an interrupted chunk counts as restored, its retry is refused and the restore is reported complete without it")
		return
	}
	c.MustPrecede(rule, fn, imp, marks, "an interrupted chunk import must leave the chunk pending")
}

// c16Round5 (seeds C16r5/13, 15).
func c16Round5(c *Ctx) {
	// (13) a CBOR decoding mode is built from options that are complete at that moment: every store into a field of a
	// package-level decOptions* variable of common/cbor lies either in the synthetic package initialiser (the variable's
	// own initialiser) or in the same function as, and before, the DecMode() call that reads that variable. A field set
	// in another file's init() runs after cbor.go's init() has already built the mode (init functions run in file-name
	// order), and the mode silently keeps the default — e.g. 32 nested levels instead of the free-form bound.
	const pk = "common/cbor"
	nSt := 0
	for _, fn := range c.P.FuncsInPkg(pk) {
		if fn.Blocks == nil {
			continue
		}
		for _, b := range fn.Blocks {
			for _, in := range b.Instrs {
				st, ok := in.(*ssa.Store)
				if !ok {
					continue
				}
				fa, ok := st.Addr.(*ssa.FieldAddr)
				if !ok {
					continue
				}
				g, ok := fa.X.(*ssa.Global)
				if !ok || !strings.HasPrefix(g.Name(), "decOptions") {
					continue
				}
				nSt++
				if fn.Synthetic != "" && strings.HasPrefix(fn.Synthetic, "package initializer") {
					continue
				}
				// same function: a DecMode() call on this variable is reachable after the store, and none before it
				var builds []ssa.Instruction
				for _, call := range callsIn(fn) {
					if strings.HasSuffix(calleeName(call), "cbor/v2.(DecOptions).DecMode") && strings.Contains(vstr(allArgs(call)[0]), "global:"+pk+"."+g.Name()) {
						builds = append(builds, call)
					}
				}
				ok2 := len(builds) > 0 && Reach(fn, st, nil, anyOf(builds), nil) != nil
				c.Check(ok2, "C16.cbor", fname(fn)+":"+g.Name()+"."+fieldName(fa.X.Type(), fa.Field)+" is set before the mode is built from it", c.P.InstrPos(st), "the field is set in the function that then builds the mode", "a field of the decoding options "+g.Name()+" is set in "+fname(fn)+", which does not build the decoding mode from them afterwards: the mode was (or will be) built by another initialiser without this setting — Go runs a package's init functions in file-name order — and the limit silently stays at the library default")
			}
		}
	}
	c.Floor("C16.cbor", nSt, 1, "field stores into decOptions* variables of common/cbor")

	// (15) the proof verifier dereferences a pointer that may be nil (a phi with a nil edge: the reconstructed root of
	// an empty proof) only behind that pointer's nil test — also on error paths, where only the message is built.
	for _, name := range []string{"storage/mkvs/syncer.(*ProofVerifier).verifyProofOpts", "storage/mkvs/syncer.(*ProofVerifier).verifyProof"} {
		fn := c.needFn("C16.panic", name)
		if fn == nil {
			continue
		}
		n, bad := 0, ""
		check := func(v ssa.Value, at ssa.Instruction) {
			phi, ok := v.(*ssa.Phi)
			if !ok {
				return
			}
			hasNil := false
			for _, e := range phi.Edges {
				if isNilConst(e) {
					hasNil = true
				}
			}
			if !hasNil {
				return
			}
			n++
			if !knownNonNilAt(phi, at) {
				bad = c.P.InstrPos(at) + " (" + vstrShort(phi) + ")"
			}
		}
		for _, b := range blocksIP(fn) {
			for _, in := range b.Instrs {
				switch x := in.(type) {
				case *ssa.FieldAddr:
					check(x.X, in)
				case *ssa.UnOp:
					if x.Op.String() == "*" {
						check(x.X, in)
					}
				}
			}
		}
		c.Check(bad == "", "C16.panic", fname(fn)+":a possibly-nil pointer is dereferenced only behind its nil test", c.P.Pos(fn.Pos()), itoa(n)+" dereference(s) of pointers that are nil on some path, each behind the pointer's nil test", "a pointer that is nil on some path is dereferenced at "+bad+" without a nil test of it: a proof chosen to take that path (e.g. a single nil entry) crashes the verifier instead of being rejected")
	}
}

// loopBodyAlwaysReaches: in fn, every loop whose continuation test matches headRe is such that each iteration passes
// one of the must instructions (or leaves the function) before the next test: from the loop body's entry the loop test
// is not reachable again with the must instructions cut. Returns the number of loops and the first offending test.
func loopBodyAlwaysReaches(fn *ssa.Function, headRe string, must []ssa.Instruction) (int, ssa.Instruction) {
	n := 0
	for _, b := range fn.Blocks {
		iff := lastIf(b)
		if iff == nil || !inCycle(b) {
			continue
		}
		if !strings.Contains(normCond(iff.Cond, true), headRe) {
			continue
		}
		n++
		if hit := Reach(fn, nil, []Edge{{b, 0}}, isInstr(iff), NewCut().AddInstr(must...)); hit != nil {
			return n, iff
		}
	}
	return n, nil
}

// c19Round5 (seed C19r5/14): what is hashed against DataHash is the whole list that is handed on — every element of
// the provider's transaction list enters the hashed Data (a filtered hash lets the provider pad the list, shifting the
// index of every later transaction, while it still "verifies").
func c19Round5(c *Ctx) {
	fn := c.needFn("C19.verify", "consensus/cometbft/stateless.verifyTransactions")
	if fn == nil {
		return
	}
	var apps []ssa.Instruction
	for _, st := range StoresTo(fn, "", "github.com/cometbft/cometbft/types.Data.Txs").Ins {
		if call, ok := st.(*ssa.Store).Val.(*ssa.Call); ok {
			if b, isB := call.Call.Value.(*ssa.Builtin); isB && b.Name() == "append" {
				apps = append(apps, st)
			}
		}
	}
	n, bad := loopBodyAlwaysReaches(fn, "builtin.len(param:txs)", apps)
	site := c.P.Pos(fn.Pos())
	if bad != nil {
		site = c.P.InstrPos(bad)
	}
	c.Check(n > 0 && len(apps) > 0 && bad == nil, "C19.verify", fname(fn)+":every given transaction enters the hashed list", site, "each iteration over the given transactions appends one to the hashed Data", "an iteration over the provider's transaction list can skip the append to the hashed Data (loops="+itoa(n)+", appends="+itoa(len(apps))+"): the list that verifies against DataHash is not the list that is handed on")
}

// c18Round5 (seed C18r5/13): a TDX module policy entry matches only a module of its signer — Matches answers true only
// where MrSignerSeam equals the report's, whether or not a measurement is pinned as well.
func c18Round5(c *Ctx) {
	fn := c.needFn("C18.must", "common/sgx/pcs.(*TdxModulePolicy).Matches")
	if fn == nil {
		return
	}
	c.ResultImpliesCond("C18.must", fn, 0, true, fname(fn)+":true ⇒ the module signer is the entry's", "mp.MrSignerSeam == report.mrSignerSeam",
		`^\*param:mp\.MrSignerSeam == \*param:report\.mrSignerSeam$`,
		"a policy entry matches only modules signed by its MRSIGNERSEAM",
		"a TDX module policy entry can match a module whose signer (MRSIGNERSEAM) is not the entry's: a quote from a module the policy does not allow is accepted")
	c.ResultImpliesCond("C18.must", fn, 0, true, fname(fn)+":true ⇒ a pinned measurement equals the report's", "mp.MrSeam == nil ∨ *mp.MrSeam == report.mrSeam",
		`^\*param:mp\.MrSeam == nil$|^\*\*param:mp\.MrSeam == \*param:report\.mrSeam$`,
		"a pinned MRSEAM is compared", "a TDX module policy entry with a pinned MRSEAM can match a module with another measurement")
}

// c17Round5 (seed C17r5/14): the runtime-by-entity index follows the runtime's EntityID — in registerRuntime a removal
// of the old owner's index entry is followed, on every success path, by setting the entry of the current owner (the
// entity cannot be deregistered while the index names it; a runtime left out of the index orphans its owner check).
func c17Round5(c *Ctx) {
	fn := c.needFn("C17.remove", "consensus/cometbft/apps/registry.(*Application).registerRuntime")
	if fn == nil {
		return
	}
	rm := CallsTo(fn, "RemoveRuntimeOwner", "consensus/cometbft/apps/registry/state.(*MutableState).RemoveRuntimeOwner", "")
	set := CallsTo(fn, "SetRuntimeOwner", "consensus/cometbft/apps/registry/state.(*MutableState).SetRuntimeOwner", "")
	if rm.Empty() || set.Empty() {
		c.Fail("C17.remove", fname(fn)+":owner index entry removed⇒entry of the current owner set", c.P.Pos(fn.Pos()), "the maintenance of the runtime-by-entity index (RemoveRuntimeOwner / SetRuntimeOwner) was not found in registerRuntime")
		return
	}
	c.OnAllSuccessExits("C17.remove", fn, rm, set, "a runtime whose old owner entry was removed is indexed under its current EntityID before the registration succeeds")
	for _, call := range set.Calls() {
		a := allArgs(call)
		c.Check(len(a) >= 4 && strings.HasSuffix(vstr(a[3]), ".EntityID") && strings.Contains(vstr(a[3]), "param:rt"), "C17.remove", fname(fn)+":the index entry is set for the registered descriptor's EntityID", c.P.InstrPos(call), "SetRuntimeOwner(rt.ID, rt.EntityID)", "the runtime-by-entity index is set for something other than the registered descriptor's EntityID")
	}
}

// c14Round5 (seed C14r5/13): the stake an entity must hold is the sum over *every* threshold of every claim — in
// TotalClaims each iteration over a claim's thresholds adds that threshold's value to the total (or fails). Collapsing
// repeated kinds (one compute threshold per runtime a node serves) under-counts, and an under-staked entity's nodes
// are elected.
func c14Round5(c *Ctx) {
	fn := c.needFn("C14.filter", "staking/api.(*StakeAccumulator).TotalClaims")
	if fn == nil {
		return
	}
	var adds []ssa.Instruction
	for _, call := range CallsTo(fn, "", "common/quantity.(*Quantity).Add", "").Calls() {
		if a := allArgs(call); len(a) == 2 && strings.Contains(vstr(a[1]), "(*StakeThreshold).Value(") {
			adds = append(adds, call)
		}
	}
	n, bad := loopBodyAlwaysReaches(fn, "builtin.len(next(range(*param:sa.Claims))#2)", adds)
	site := c.P.Pos(fn.Pos())
	if bad != nil {
		site = c.P.InstrPos(bad)
	}
	c.Check(n > 0 && len(adds) > 0 && bad == nil, "C14.filter", fname(fn)+":every threshold of every claim is added to the total", site, "each iteration over a claim's thresholds adds the threshold's value to the total", "an iteration over a claim's thresholds can go on without adding that threshold's value to the total (loops="+itoa(n)+", additions of a threshold value="+itoa(len(adds))+"): repeated threshold kinds are under-counted and an entity whose escrow does not cover its claims passes the stake check")
}

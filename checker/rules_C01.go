package main

import (
	"go/types"
	"sort"
	"strings"

	"golang.org/x/tools/go/ssa"
)

func init() { register("C01", rulesC01) }

// nondeterminism / local-configuration sinks (callee short names or prefixes)
var c01Sinks = []struct{ name, what string }{
	{"time.Now", "wall clock"}, {"time.Since", "wall clock"}, {"time.Until", "wall clock"},
	{"math/rand.", "unseeded randomness"}, {"math/rand/v2.", "unseeded randomness"}, {"crypto/rand.", "true randomness"},
	{"oasis-node/cmd/common/flags.DebugDontBlameOasis", "local debug flag"},
	{"os.Getenv", "process environment"}, {"os.Hostname", "host"}, {"os.Getpid", "process"}, {"os.LookupEnv", "process environment"},
	{"runtime.NumCPU", "host"}, {"runtime.GOMAXPROCS", "host"},
	{"github.com/spf13/viper.", "local configuration"},
	{"common/flags.DebugDontBlameOasis", "local debug flag"},
	{"consensus/cometbft/api.(ApplicationState).LocalMinGasPrice", "local configuration"},
	{"consensus/cometbft/api.(ApplicationState).OwnTxSigner", "local identity"},
	{"consensus/cometbft/api.(ApplicationState).OwnTxSignerAddress", "local identity"},
	{"consensus/cometbft/api.(ApplicationQueryState).LocalMinGasPrice", "local configuration"},
	{"consensus/cometbft/api.(ApplicationQueryState).OwnTxSigner", "local identity"},
	{"consensus/cometbft/api.(ApplicationQueryState).OwnTxSignerAddress", "local identity"},
}

func sinkOf(name string) (string, bool) {
	for _, s := range c01Sinks {
		if name == s.name || (strings.HasSuffix(s.name, ".") && strings.HasPrefix(name, s.name) && !strings.HasPrefix(name[len(s.name):], "(")) {
			return s.what, true
		}
	}
	return "", false
}

// outsideDelivery: the instruction is dominated by IsCheckOnly()/IsSimulation() being true.
func outsideDelivery(in ssa.Instruction) bool {
	for _, h := range heldCondVals(in) {
		if !h.Pol {
			continue
		}
		if c, ok := h.Cond.(*ssa.Call); ok {
			n := calleeNameCommon(&c.Call)
			if n == "consensus/cometbft/api.(*Context).IsCheckOnly" || n == "consensus/cometbft/api.(*Context).IsSimulation" {
				return true
			}
		}
	}
	return false
}

func rulesC01(c *Ctx) {
	c.Explain = append(c.Explain,
		"C01 (replicas compute identical state and results) — decided: (a) MAPORDER: every iteration over a Go map (range, maps.Keys/Values/All) in the call-graph cone of the ABCI execution entry points (InitChain/BeginBlock/ExecuteTx/EndBlock/ExecuteMessage of every application, the multiplexer's block methods, PrepareProposal/ProcessProposal) is order-insensitive by construction: its body only declares locals, collects into slices that are sorted before their first order-sensitive use, performs per-key map updates, commutative integer/quantity accumulation, existential flags, or uniform early exits; anything else must be a reviewed table row; (b) no wall clock, unseeded or true randomness, process environment, local configuration or local identity is consulted on that cone outside CheckTx/simulation branches (reviewed table rows aside); no goroutine is started and no channel is received from on the cone; (c) the proposal cache is keyed on everything that is recorded: every field stored by PrepareProposal's proposalState is compared by isEqual, and needsExecution tests every field setResults sets; (d) CheckTx/simulation contexts are built on trees other than the delivery tree, whose writers are confined; (e) applications are dispatched in the order of a list built by sorting their names; (round 2) (f) local-configuration accessors are sinks also when called on the concrete state type; (g) calls that change the node-local upgrade manager from the applications sit in BlockContext.OnCommit callbacks, which doCommit runs after the state commit and before dropping the block context (F22, found by a sub-agent and repaired); (h) PrepareProposal forwards every local last-commit vote to its own execution; (i) resetProposal assigns a freshly constructed canonical tree on every path.",
		"NOT decided: byte equality of results across replicas for concrete histories, equality of cached and re-executed results, reload from disk, concurrency of queries/pruning with delivery (schedules).")
	g := c.P.CallGraph()
	entries := abciEntries(c.P, g)
	c.Floor("C01.cone", len(entries), 30, "ABCI entry points")
	cone, parent := g.Cone(entries, outsideConeUniverse)
	c.Extra["cone_functions"] = len(cone)
	c.Floor("C01.cone", len(cone), 800, "functions on the ABCI execution cone")
	for _, f := range cone {
		c.Analysed[fname(f)] = true
	}

	// ---- (a) MAPORDER
	imp := impureFuncs(c.P, g)
	subs := MapOrderSubjects(c.P, cone, imp)
	sort.Slice(subs, func(i, j int) bool { return subs[i].Pos < subs[j].Pos })
	c.Floor("C01.maporder", len(subs), 25, "map iterations on the cone")
	perKey := map[string]int{}
	for _, s := range subs {
		key := fname(s.Fn) + " " + s.Kind + " " + s.MapType
		perKey[key]++
		inst := key
		if perKey[key] > 1 {
			inst = key + " #" + itoa(perKey[key])
		}
		if s.OK {
			c.OK("C01.maporder", inst, c.P.Pos(s.Pos), "order-insensitive by construction")
			continue
		}
		if reason, ok := c.Tabled("maporder", inst); ok {
			c.TabledOK("C01.maporder", inst, c.P.Pos(s.Pos), reason)
			continue
		}
		c.Fail("C01.maporder", inst, c.P.Pos(s.Pos), "map iteration with an order-sensitive effect on the consensus execution cone ("+s.Why+"); reached via "+g.Chain(parent, s.Fn))
	}

	// ---- (b) CONE sinks
	nSinks := 0
	for _, f := range cone {
		for _, b := range f.Blocks {
			for _, in := range b.Instrs {
				switch x := in.(type) {
				case *ssa.Go:
					key := fname(f) + " go-statement"
					if reason, ok := c.Tabled("c01_sinks", key); ok {
						c.TabledOK("C01.nondet", key, c.P.InstrPos(in), reason)
					} else {
						c.Fail("C01.nondet", key, c.P.InstrPos(in), "a goroutine is started on the consensus execution cone (scheduling-dependent effects); reached via "+g.Chain(parent, f))
					}
				case ssa.CallInstruction:
					n := calleeName(x)
					what, isSink := sinkOf(n)
					if !isSink {
						continue
					}
					nSinks++
					if n == "math/rand.New" && strings.Contains(vstr(allArgs(x)[0]), "common/crypto/mathrand.New(") && strings.Contains(vstr(allArgs(x)[0]), "common/crypto/drbg.New(") {
						c.OK("C01.nondet", fname(f)+" "+n+" (DRBG-seeded)", c.P.InstrPos(in), "random source is the deterministic DRBG adapter")
						continue
					}
					if outsideDelivery(in) {
						c.OK("C01.nondet", fname(f)+" "+n+" (CheckTx/simulation only)", c.P.InstrPos(in), what+" consulted only in a CheckTx/simulation branch")
						continue
					}
					key := fname(f) + " " + n
					if reason, ok := c.Tabled("c01_sinks", key); ok {
						c.TabledOK("C01.nondet", key, c.P.InstrPos(in), reason)
						continue
					}
					c.Fail("C01.nondet", key, c.P.InstrPos(in), what+" ("+n+") is consulted on the consensus execution cone outside CheckTx/simulation: replicas would diverge; reached via "+g.Chain(parent, f))
				}
			}
		}
	}
	c.Extra["sink_sites_on_cone"] = nSinks
	rulesC01Round2(c, g, cone, parent)
	c01Round3(c, cone)

	// ---- (c) proposal cache completeness
	ix := c.P.BuildIndex()
	c01Round4(c, ix)
	c01Round5(c, ix)
	const pkABCI = "consensus/cometbft/abci"
	if pk := c.P.Pkg(pkABCI); pk != nil {
		if obj := pk.Types.Scope().Lookup("proposalState"); obj != nil {
			st, _ := obj.Type().Underlying().(*types.Struct)
			// fields stored in PrepareProposal
			stored := map[string]bool{}
			if fn := c.needFn("C01.cache", pkABCI+".(*abciMux).PrepareProposal"); fn != nil {
				for _, b := range blocksIP(fn) {
					for _, in := range b.Instrs {
						if s, ok := in.(*ssa.Store); ok {
							if fa, ok := s.Addr.(*ssa.FieldAddr); ok && strings.HasPrefix(fieldKey(fa.X.Type(), fa.Field), pkABCI+".proposalState.") {
								stored[fieldName(fa.X.Type(), fa.Field)] = true
							}
						}
					}
				}
			}
			compared := map[string]bool{}
			if fn := c.needFn("C01.cache", pkABCI+".(*proposalState).isEqual"); fn != nil {
				for _, b := range blocksIP(fn) {
					for _, in := range b.Instrs {
						if fa, ok := in.(*ssa.FieldAddr); ok && strings.HasPrefix(fieldKey(fa.X.Type(), fa.Field), pkABCI+".proposalState.") {
							compared[fieldName(fa.X.Type(), fa.Field)] = true
						}
					}
				}
				// element-wise comparison of slices: a loop (cycle) must exist for each slice field compared
				nLoops := 0
				for _, b := range fn.Blocks {
					if inCycle(b) && lastIf(b) != nil {
						nLoops++
					}
				}
				// ... or the standard element-wise helpers (each counts as the loop it contains)
				nLoops += len(findCalls(fn, "slices.EqualFunc", "slices.Equal", "slices.CompareFunc", "slices.Compare"))
				c.Check(nLoops >= 2, "C01.cache", "isEqual:element-wise", c.P.Pos(fn.Pos()), "slices are compared element-wise in loops", "isEqual no longer compares transactions/misbehaviour element-wise")
			}
			// result fields (set by setResults) and the working tree/hash are not proposal inputs
			results := map[string]bool{}
			if fn := c.needFn("C01.cache", pkABCI+".(*proposalState).setResults"); fn != nil {
				for _, b := range blocksIP(fn) {
					for _, in := range b.Instrs {
						if s, ok := in.(*ssa.Store); ok {
							if fa, ok := s.Addr.(*ssa.FieldAddr); ok && strings.HasPrefix(fieldKey(fa.X.Type(), fa.Field), pkABCI+".proposalState.") {
								results[fieldName(fa.X.Type(), fa.Field)] = true
							}
						}
					}
				}
			}
			tested := map[string]bool{}
			if fn := c.needFn("C01.cache", pkABCI+".(*proposalState).needsExecution"); fn != nil {
				for _, b := range blocksIP(fn) {
					for _, in := range b.Instrs {
						if fa, ok := in.(*ssa.FieldAddr); ok && strings.HasPrefix(fieldKey(fa.X.Type(), fa.Field), pkABCI+".proposalState.") {
							tested[fieldName(fa.X.Type(), fa.Field)] = true
						}
					}
				}
			}
			var untested []string
			for f := range results {
				delete(stored, f)
				if !tested[f] {
					untested = append(untested, f)
				}
			}
			sort.Strings(untested)
			c.Check(len(results) >= 3 && len(untested) == 0, "C01.cache", "needsExecution:tests-all-results", "", "needsExecution tests every result field setResults sets {"+strings.Join(keysOf(results), ",")+"}", "result field(s) set by setResults but not tested by needsExecution: "+strings.Join(untested, ",")+" (partially executed proposals could be reused)")
			delete(stored, "hash")
			delete(stored, "tree")
			var missing []string
			for f := range stored {
				if !compared[f] {
					missing = append(missing, f)
				}
			}
			sort.Strings(missing)
			_ = st
			c.Check(len(stored) >= 3 && len(missing) == 0, "C01.cache", "proposalState:recorded⊆compared", "", "every proposal input recorded by PrepareProposal {"+strings.Join(keysOf(stored), ",")+"} is compared by isEqual", "proposal inputs recorded but not compared when reusing cached results: "+strings.Join(missing, ",")+" (a validator could reuse results computed for a different proposal)")
		}
	}
	// ---- (d) trees
	if fn := c.needFn("C01.trees", pkABCI+".(*applicationState).NewContext"); fn != nil {
		// every value stored to the context's state in Check/Simulate arms must not derive from s.proposal / canonicalState
		c.Analysed[fname(fn)] = true
	}
	c.WhoMayStore(ix, "C01.trees", pkABCI+".applicationState.canonicalState", []string{pkABCI + ".(*applicationState).doInitChain", pkABCI + ".(*applicationState).doCommit", pkABCI + ".(*applicationState).doApplyStateSync", pkABCI + ".newApplicationState", pkABCI + ".(*applicationState).doCleanup", pkABCI + ".(*applicationState).resetProposal"}, "the canonical tree is replaced only at init, commit, state sync and proposal reset (fresh tree at the committed root)")
	c.WhoMayStore(ix, "C01.trees", pkABCI+".applicationState.stateRoot", []string{pkABCI + ".(*applicationState).doInitChain", pkABCI + ".(*applicationState).doCommit", pkABCI + ".(*applicationState).doApplyStateSync", pkABCI + ".newApplicationState"}, "the committed root changes only at init, commit and state sync")

	// ---- (f) a proposal whose execution panicked is never reused: the deferred recover of
	// PrepareProposal/ProcessProposal resets the proposal on every recovered path
	for _, m := range []string{"PrepareProposal", "ProcessProposal"} {
		fn := c.needFn("C01.proposal", pkABCI+".(*abciMux)."+m)
		if fn == nil {
			continue
		}
		found := false
		for _, an := range anonFuncs(fn) {
			rec := CallsTo(an, "recover", "builtin.recover", "")
			if rec.Empty() {
				continue
			}
			found = true
			reset := CallsTo(an, "resetProposal", pkABCI+".(*applicationState).resetProposal", "")
			// edges on which recover() returned non-nil
			var es []Edge
			for _, call := range rec.Calls() {
				e, _ := nilTestEdges(call.Value(), false)
				es = append(es, e...)
			}
			cut := NewCut()
			for _, r := range reset.Ins {
				cut.AddInstr(r)
			}
			hit := Reach(an, nil, es, func(i ssa.Instruction) bool { _, r := i.(*ssa.Return); return r }, cut)
			c.Check(len(es) > 0 && !reset.Empty() && hit == nil, "C01.proposal", pkABCI+".(*abciMux)."+m+":recovered-panic⇒resetProposal", c.P.Pos(an.Pos()), "after a recovered panic the partially executed proposal (dirty working tree, cached hash) is discarded", "after a panic during "+m+" was recovered the partially executed proposal is kept: when the same block is later delivered it is re-executed on top of the dirty tree and this replica's state diverges")
		}
		c.Check(found, "C01.proposal", pkABCI+".(*abciMux)."+m+":deferred-recover", c.P.Pos(fn.Pos()), "proposal phase recovers from panics", m+" no longer recovers from panics in proposal execution")
	}
	// ---- (g) caches derived from committed state are refreshed from the NEW canonical state:
	// in doCommit the commit hook runs after the canonical tree was committed and the root advanced
	if fn := c.needFn("C01.restart", pkABCI+".(*applicationState).doCommit"); fn != nil {
		hook := CallsTo(fn, "doCommitOrInitChainLocked", pkABCI+".(*applicationState).doCommitOrInitChainLocked", "")
		commit := Ev{Name: "canonicalState.Commit", Fn: fn}
		for _, call := range callsIn(fn) {
			if strings.HasSuffix(calleeName(call), ".Commit") && strings.Contains(vstr(allArgs(call)[0]), "canonicalState") {
				commit.Ins = append(commit.Ins, call)
			}
		}
		c.MustPrecede("C01.restart", fn, commit, hook, "cached block parameters must be read from the newly committed state (a restarted replica reloads them from disk; a stale cache makes running and restarted replicas disagree)")
	}
	if fn := c.needFn("C01.restart", pkABCI+".(*applicationState).doCommitOrInitChainLocked"); fn != nil {
		ok := false
		for _, call := range callsIn(fn) {
			if strings.HasSuffix(calleeName(call), "state.NewMutableState") || strings.HasSuffix(calleeName(call), "state.NewImmutableState") {
				ok = strings.Contains(vstr(allArgs(call)[0]), "param:s.canonicalState")
			}
		}
		c.Check(ok, "C01.restart", fname(fn)+":reads-canonical-state", c.P.Pos(fn.Pos()), "parameter cache is loaded from the canonical (committed) tree", "the consensus parameter cache is no longer loaded from the canonical tree")
	}

	// ---- (e) lexicographic dispatch
	c.WhoMayStore(ix, "C01.dispatch", pkABCI+".abciMux.appsByLexOrder", []string{pkABCI + ".(*abciMux).rebuildAppLexOrdering"}, "dispatch order list has a single builder")
	if fn := c.needFn("C01.dispatch", pkABCI+".(*abciMux).rebuildAppLexOrdering"); fn != nil {
		hasSort := len(findCalls(fn, "sort.Strings", "slices.Sort", "sort.Slice", "slices.Sorted", "slices.SortFunc", "slices.SortStableFunc", "sort.Sort", "sort.Stable", "sort.SliceStable")) > 0
		c.Check(hasSort, "C01.dispatch", "rebuildAppLexOrdering:sorted", c.P.Pos(fn.Pos()), "application names are sorted before the dispatch list is built", "the application dispatch list is no longer built from sorted names")
	}
	for _, m := range []string{"InitChain", "BeginBlock", "EndBlock"} {
		fn := c.P.Fn(pkABCI + ".(*abciMux)." + m)
		if fn == nil {
			continue
		}
		// application methods are invoked only on elements of appsByLexOrder
		for _, call := range callsIn(fn) {
			cc := call.Common()
			if !cc.IsInvoke() || !strings.HasPrefix(tfname(cc.Method), "consensus/cometbft/api.(Application).") {
				continue
			}
			if cc.Method.Name() != m {
				continue
			}
			s := vstr(cc.Value)
			c.Check(strings.Contains(s, "appsByLexOrder"), "C01.dispatch", pkABCI+".(*abciMux)."+m+":apps-in-lex-order", c.P.InstrPos(call), "applications are called in appsByLexOrder order", "application "+m+" is dispatched from {"+s+"} instead of the sorted appsByLexOrder list")
		}
	}
}

package main

import (
	"strings"

	"golang.org/x/tools/go/ssa"
)

// Round-3 rules of C08 and C09 (written after seeds C08/8, C08/9 and C09/7 were missed).

func c08Round3(c *Ctx) {
	// (a) the multiplexer does not roll back what the handler wrote when PostExecuteTx fails, so outside CheckTx the
	// authentication handler's PostExecuteTx cannot fail at all: every error it returns is made on a path where the
	// context is check-only.
	if fn := c.needFn("C08.auth", "consensus/cometbft/apps/staking.(*Application).PostExecuteTx"); fn != nil {
		c.Analysed[fname(fn)] = true
		succ := map[ssa.Instruction]bool{}
		for _, r := range SuccessReturns(fn) {
			succ[r] = true
		}
		var fails []ssa.Instruction
		for _, r := range Returns(fn) {
			if !succ[r] {
				fails = append(fails, r)
			}
		}
		inst := fname(fn) + ":failure only in CheckTx"
		held := HeldEdges(fn, `^consensus/cometbft/api\.\(\*Context\)\.IsCheckOnly\(param:ctx\)$`)
		if len(fails) == 0 {
			c.OK("C08.auth", inst, c.P.Pos(fn.Pos()), "PostExecuteTx has no failing exit")
		} else {
			hit := Reach(fn, nil, nil, anyOf(fails), NewCut().AddEdges(held...))
			pos := c.P.Pos(fn.Pos())
			if hit != nil {
				pos = c.P.InstrPos(hit)
			}
			c.Check(len(held) > 0 && hit == nil, "C08.auth", inst, pos, "every failing exit is reached through an edge on which ctx.IsCheckOnly() holds ("+itoa(len(fails))+" failing exits)", "PostExecuteTx can fail outside CheckTx: it runs after the transaction handler succeeded and the multiplexer does not roll the handler's writes back, so the transaction is reported as failed while everything it did is kept")
		}
	}

	// (b) a transaction context is committed by an explicit Commit on the path that returns success. A Commit inside a
	// deferred function is tied to a variable, and unless that variable is the function's own error result it can be nil
	// on a return that reports an error (errors.WithContext(...) returned directly): the overlay is committed although the
	// handler fails.
	n, bad := 0, 0
	for _, fn := range c.P.ModFuncs {
		if fn.Blocks == nil || !strings.Contains(fname(fn), "consensus/cometbft/apps/") {
			continue
		}
		for _, b := range blocksIP(fn) {
			for _, in := range b.Instrs {
				d, ok := in.(*ssa.Defer)
				if !ok {
					continue
				}
				mc, ok := d.Call.Value.(*ssa.MakeClosure)
				if !ok {
					continue
				}
				cl, ok := mc.Fn.(*ssa.Function)
				if !ok || len(findCalls(cl, "consensus/cometbft/api.(*Context).Commit")) == 0 {
					continue
				}
				n++
				// allowed only if the closure's commit is conditioned on the enclosing function's named error result
				okNamed := false
				errIdx := errResultIndex(fn)
				for k, fv := range cl.FreeVars {
					if k >= len(mc.Bindings) || !isErrorType(derefType(fv.Type())) {
						continue
					}
					al, isAlloc := mc.Bindings[k].(*ssa.Alloc)
					if !isAlloc {
						continue
					}
					all := errIdx >= 0
					for _, r := range Returns(fn) {
						if errIdx < 0 || errIdx >= len(r.Results) {
							all = false
							continue
						}
						u, isLoad := r.Results[errIdx].(*ssa.UnOp)
						if !isLoad || u.X != ssa.Value(al) {
							all = false
						}
					}
					if all {
						okNamed = true
					}
				}
				if !okNamed {
					bad++
					c.Fail("C08.wtf", fname(fn)+":transaction committed from a deferred function", c.P.InstrPos(in), "a deferred function commits the transaction context depending on a variable that is not the function's error result: on a return that reports an error directly the variable is still nil and the overlay (e.g. what an account hook recorded) is committed although the handler fails")
				}
			}
		}
	}
	if bad == 0 {
		c.OK("C08.wtf", "consensus apps:no transaction context is committed from a deferred function", "", itoa(n)+" deferred closures that commit a context, each tied to the function's named error result")
	}
}

func c09Round3(c *Ctx) { deliverContextRule(c, "C09.nonce") }

// deliverContextRule (shared: C09 — a failed transaction's nonce advance is kept, so its bytes cannot be replayed;
// C05 — its fee debit is kept, so the fee that stays in the block's fee accumulator is not minted; C08 — fee and nonce
// are exactly what a failed transaction changes): the nonce advance and the fee debit made by AuthenticateTx are kept
// when the handler fails: DeliverTx runs executeTx on the block-level context it got from NewContext, not on a
// NewTransaction child that is dropped on failure (the handlers open their own transactions for what must be rolled back).
func deliverContextRule(c *Ctx, rule string) {
	fn := c.needFn(rule, "consensus/cometbft/abci.(*abciMux).DeliverTx")
	if fn == nil {
		return
	}
	c.Analysed[fname(fn)] = true
	calls := findCalls(fn, "consensus/cometbft/abci.(*abciMux).executeTx")
	inst := fname(fn) + ":executeTx runs on the block-level delivery context"
	if len(calls) == 0 {
		c.Fail(rule, inst, c.P.Pos(fn.Pos()), "no executeTx call found in DeliverTx")
		return
	}
	ok := true
	site := c.P.InstrPos(calls[0])
	for _, call := range calls {
		args := allArgs(call)
		s := vstr(args[1])
		if !strings.Contains(s, ".NewContext(") || strings.Contains(s, "NewTransaction") {
			ok = false
			site = c.P.InstrPos(call)
		}
	}
	c.Check(ok, rule, inst, site, "the context handed to executeTx is the result of state.NewContext(ContextDeliverTx)", "DeliverTx executes the transaction on a child transaction context (or something other than the NewContext result): when the handler fails and the child is dropped, the nonce increment and the fee debit of AuthenticateTx are undone while the fee stays in the block's fee accumulator — the same bytes can be replayed and each replay mints its fee")
}

// c09Envelope (round-3 side observation, known finding F41): "altered in any bit never takes effect". The signature covers
// the inner blob only; the envelope is decoded with cbor.Unmarshal, which (fxamacker/cbor v2.4) ignores bytes after the
// first data item and accepts non-minimal encodings. So rawTx‖anything — or a re-encoded envelope — verifies, executes and
// advances the nonce, while the signer's original bytes are then rejected; since gas is charged per byte of the raw
// transaction, padding can also make a victim's transaction run out of gas (fee paid, nonce burnt, no effect). The rule:
// decodeTx either decodes the envelope through something that accounts for every byte (a decoder whose consumed-byte count is
// compared with the input length, or a canonical re-encoding compared with the input) or is reported.
func c09Envelope(c *Ctx) {
	fn := c.needFn("C09.decode", fnDecodeTx)
	if fn == nil {
		return
	}
	whole := false
	for _, call := range callsIn(fn) {
		switch n := calleeName(call); {
		case n == "bytes.Equal", strings.HasSuffix(n, ".NumBytesRead"), strings.HasSuffix(n, ".UnmarshalFirst"):
			whole = true
		}
	}
	unm := findCalls(fn, fnCborUnm)
	site := c.P.Pos(fn.Pos())
	if len(unm) > 0 {
		site = c.P.InstrPos(unm[0])
	}
	c.Check(whole || len(unm) == 0, "C09.decode", fname(fn)+":the envelope decode accounts for every byte of the raw transaction", site, "the raw transaction is compared with what was decoded (consumed length or canonical re-encoding)", "the envelope is decoded with cbor.Unmarshal, which ignores trailing bytes and accepts non-minimal encodings, and nothing compares the consumed bytes with the raw transaction: an altered copy of a signed transaction (padding appended, envelope re-encoded) takes effect and burns the signer's nonce; per-byte gas makes padding a way to make someone else's transaction fail after it paid its fee")
}

// c16VerifyNoPanic (F40): the registry's runtime-update verification runs during delivery of an ordinary RegisterRuntime
// transaction on state that governance parameter changes can invalidate after the fact; it answers with an error, it has
// no explicit panic (CheckTx returns before this point, so a panicking transaction sits in every mempool).
func c16VerifyNoPanic(c *Ctx) {
	fn := c.needFn("C16.panic", "registry/api.VerifyRuntimeUpdate")
	if fn == nil {
		return
	}
	c.Analysed[fname(fn)] = true
	var at ssa.Instruction
	for _, b := range blocksIP(fn) {
		for _, in := range b.Instrs {
			if _, ok := in.(*ssa.Panic); ok {
				at = in
			}
		}
	}
	site := c.P.Pos(fn.Pos())
	if at != nil {
		site = c.P.InstrPos(at)
	}
	c.Check(at == nil, "C16.panic", fname(fn)+":no explicit panic", site, "VerifyRuntimeUpdate reports every condition as an error", "VerifyRuntimeUpdate panics on a condition that transactions and parameter changes can bring about (stored deployments that are no longer valid after MaxRuntimeDeployments was lowered): delivery of the owner's next RegisterRuntime transaction panics, and because CheckTx returns earlier the transaction stays in the mempool")
}
